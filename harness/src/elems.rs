//! Test leaf element types (the harness's own; grin's TestElem lives in test code).

use grin_core::core::hash::DefaultHashable;
use grin_core::ser::{self, PMMRable, Readable, Reader, Writeable, Writer};

/// Fixed-size 16-byte element.
#[derive(Clone, Copy, Debug, PartialEq, Eq, Hash, PartialOrd, Ord)]
pub struct FixElem(pub [u8; 16]);

impl FixElem {
	pub fn from_u64(a: u64, b: u64) -> FixElem {
		let mut x = [0u8; 16];
		x[..8].copy_from_slice(&a.to_be_bytes());
		x[8..].copy_from_slice(&b.to_be_bytes());
		FixElem(x)
	}
	pub fn bytes(&self) -> Vec<u8> {
		self.0.to_vec()
	}
}

impl DefaultHashable for FixElem {}

impl PMMRable for FixElem {
	type E = Self;
	fn as_elmt(&self) -> Self::E {
		*self
	}
	fn elmt_size() -> Option<u16> {
		Some(16)
	}
}

impl Writeable for FixElem {
	fn write<W: Writer>(&self, writer: &mut W) -> Result<(), ser::Error> {
		writer.write_fixed_bytes(&self.0[..])
	}
}

impl Readable for FixElem {
	fn read<R: Reader>(reader: &mut R) -> Result<FixElem, ser::Error> {
		let v = reader.read_fixed_bytes(16)?;
		let mut x = [0u8; 16];
		x.copy_from_slice(&v);
		Ok(FixElem(x))
	}
}

/// Variable-size element: one length byte L (1..=40) followed by L bytes.
#[derive(Clone, Debug, PartialEq, Eq, Hash, PartialOrd, Ord)]
pub struct VarElem(pub Vec<u8>);

impl VarElem {
	pub fn bytes(&self) -> Vec<u8> {
		let mut v = vec![self.0.len() as u8];
		v.extend_from_slice(&self.0);
		v
	}
}

impl DefaultHashable for VarElem {}

impl PMMRable for VarElem {
	type E = Self;
	fn as_elmt(&self) -> Self::E {
		self.clone()
	}
	fn elmt_size() -> Option<u16> {
		None
	}
}

impl Writeable for VarElem {
	fn write<W: Writer>(&self, writer: &mut W) -> Result<(), ser::Error> {
		writer.write_u8(self.0.len() as u8)?;
		writer.write_fixed_bytes(&self.0[..])
	}
}

impl Readable for VarElem {
	fn read<R: Reader>(reader: &mut R) -> Result<VarElem, ser::Error> {
		let l = reader.read_u8()?;
		let v = reader.read_fixed_bytes(l as usize)?;
		Ok(VarElem(v))
	}
}

/// Variable-size element written the way `Writer::write_bytes` does it: a u64 length prefix followed by
/// that many bytes (1..=40), read back with `Reader::read_bytes_len_prefix`.
#[derive(Clone, Debug, PartialEq, Eq, Hash, PartialOrd, Ord)]
pub struct LenElem(pub Vec<u8>);

impl LenElem {
	pub fn bytes(&self) -> Vec<u8> {
		let mut v = (self.0.len() as u64).to_be_bytes().to_vec();
		v.extend_from_slice(&self.0);
		v
	}
}

impl DefaultHashable for LenElem {}

impl PMMRable for LenElem {
	type E = Self;
	fn as_elmt(&self) -> Self::E {
		self.clone()
	}
	fn elmt_size() -> Option<u16> {
		None
	}
}

impl Writeable for LenElem {
	fn write<W: Writer>(&self, writer: &mut W) -> Result<(), ser::Error> {
		writer.write_bytes(&self.0)
	}
}

impl Readable for LenElem {
	fn read<R: Reader>(reader: &mut R) -> Result<LenElem, ser::Error> {
		Ok(LenElem(reader.read_bytes_len_prefix()?))
	}
}
