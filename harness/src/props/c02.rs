//! C02 — every input spends an existing unspent output exactly once, on every fork.

use crate::engine::*;
use crate::world::gen::*;
use crate::world::*;
use crate::{ensure, fail};
use grin_core::core::hash::Hashed;
use grin_core::core::{Inputs, OutputFeatures};
use proptest::prelude::*;
use serde_derive::{Deserialize, Serialize};
use serde_json::{json, Value};
use std::collections::BTreeMap;
use std::sync::OnceLock;

#[derive(Clone, Debug, Serialize, Deserialize)]
pub enum Op {
	Block(RawBlock),
	Reopen,
	Compact,
	Validate,
}

#[derive(Clone, Debug, Serialize, Deserialize)]
pub struct Case {
	/// start from the prepared 90-block base chain (so Compact can run)
	pub base: bool,
	pub ops: Vec<Op>,
	/// false: a fresh chain under SKIP_POW with free per-block difficulty (as the repository's own fork tests do),
	/// so that a SIBLING can carry more work and a reorganisation can replace exactly as many blocks as it adds —
	/// with real proofs of work siblings always tie and every reorganisation lengthens the chain
	#[serde(default = "yes")]
	pub real: bool,
	/// the node runs in archive mode (compaction prunes the MMRs, every block stays in the database)
	#[serde(default)]
	pub archive: bool,
}

fn yes() -> bool {
	true
}

pub fn case_strategy(max_ops: usize, neg_weight: u32) -> impl Strategy<Value = Case> {
	// segments: single blocks, fork runs (branch off an ancestor of the head
	// at depth d, then extend that branch m-1 times), reopen / compact / validate
	let seg = prop_oneof![
		12 => raw_block(neg_weight).prop_map(|b| vec![Op::Block(b)]),
		5 => (1u8..=8, 0u8..=3, prop::collection::vec(raw_block(neg_weight / 2), 11)).prop_map(|(d, extra, mut bs)| {
			// m = d + extra - 1 blocks: loses when extra <= 1 (same or less work), wins otherwise
			let m = (d as usize + extra as usize).saturating_sub(1).max(1);
			bs.truncate(m);
			for (i, b) in bs.iter_mut().enumerate() {
				b.parent = if i == 0 { 100 + d } else { 1 };
			}
			bs.into_iter().map(Op::Block).collect::<Vec<_>>()
		}),
		// a block and a heavier SIBLING of the same shape (one transaction each, the same number of outputs,
		// different outputs spent): the reorganisation swaps which leaves are spent without changing how many
		// there are (only possible with free difficulty); then a restart, a validation, or nothing
		2 => (any::<u16>(), any::<u16>(), 1usize..=3, 0u8..4, 1u16..500).prop_map(|(p1, p2, k, then, dt)| {
			let blk = |pick: u16, parent: u8, diff: u16, dt: u16, cb_key: u8| RawBlock {
				parent,
				cb_key,
				txs: vec![RawTx {
					ins: vec![pick],
					outs: (0..k).map(|j| RawOut { kind: 0, amt: (j % 5) as u8, key: (j % 5) as u8 }).collect(),
					fee: 1,
					kern: 0,
					zero_offset: false,
					chain_prev: false,
				}],
				dt,
				diff,
				neg: Neg::None,
				neg_pick: 0,
				hdr: 0,
				inp: 0,
			};
			let mut v = vec![Op::Block(blk(p1, 0, 3, dt, 0)), Op::Block(blk(p2, 101, 700, dt + 7, 1))];
			match then {
				0 => v.push(Op::Reopen),
				1 => v.push(Op::Validate),
				_ => {}
			}
			v
		}),
		// a side fork that is TALLER than the best chain but lighter (free difficulty only: with real proofs of work the
		// longer fork simply wins): it creates a plain output in a block above the head's height and a later block of
		// the same fork tries to create that commitment again — the duplicate has to be found on the fork being
		// extended, whose blocks lie beyond anything the head's height says
		2 => (0u8..=2, any::<u16>(), 1u16..400, 0u8..3).prop_map(|(d, pick, dt, then)| {
			let blk = |parent: u8, diff: u16, txs: Vec<RawTx>, neg: Neg, dt: u16| RawBlock { parent, cb_key: (dt % 3) as u8, txs, dt, diff, neg, neg_pick: 0, hdr: 0, inp: 0 };
			let tx = RawTx { ins: vec![pick], outs: vec![RawOut { kind: 0, amt: 0, key: 3 }, RawOut { kind: 0, amt: 1, key: 4 }], fee: 1, kern: 0, zero_offset: false, chain_prev: false };
			let mut v = vec![Op::Block(blk(0, 900, vec![], Neg::None, dt))];
			// d + 1 blocks catch up with the head's height, one more goes beyond it
			for i in 0..=(d + 1) {
				v.push(Op::Block(blk(if i == 0 { 101 + d } else { 1 }, 1, vec![], Neg::None, dt + 1 + i as u16)));
			}
			v.push(Op::Block(blk(1, 1, vec![tx], Neg::None, dt + 9)));
			v.push(Op::Block(blk(1, 1, vec![], Neg::DupOutput, dt + 10)));
			match then {
				0 => v.push(Op::Block(blk(1, 1, vec![], Neg::None, dt + 11))),
				1 => v.push(Op::Validate),
				_ => {}
			}
			v
		}),
		1 => Just(vec![Op::Reopen]),
		1 => Just(vec![Op::Compact]),
		1 => Just(vec![Op::Validate]),
	];
	(prop::bool::weighted(0.35), prop::collection::vec(seg, 1..=max_ops), prop::bool::weighted(0.7), prop::bool::weighted(0.25)).prop_map(move |(base, segs, real, archive)| {
		let mut ops: Vec<Op> = segs.into_iter().flatten().collect();
		ops.truncate(max_ops);
		Case { base, ops, real: real || base, archive }
	})
}

// ---------------------------------------------------------------- base chain

pub struct Base {
	pub dir: std::path::PathBuf,
	pub world: World,
}

static BASE: OnceLock<Result<Base, String>> = OnceLock::new();

pub fn base_len() -> u64 {
	90
}

fn base_raw(i: u64) -> RawBlock {
	let txs = if i >= 5 && i % 3 != 1 {
		vec![RawTx {
			ins: vec![((i * 7919) % 65536) as u16],
			outs: vec![
				RawOut {
					kind: 0,
					amt: (i % 6) as u8,
					key: (i % 5) as u8,
				},
				RawOut {
					kind: 0,
					amt: 0,
					key: ((i + 1) % 5) as u8,
				},
			],
			fee: (i % 4) as u8,
			kern: if i % 11 == 0 { 1 } else { 0 },
			zero_offset: i % 2 == 0,
			chain_prev: false,
		}]
	} else {
		vec![]
	};
	RawBlock {
		parent: 0,
		cb_key: 0,
		txs,
		dt: 60,
		diff: 1,
		neg: Neg::None,
		neg_pick: 0,
			hdr: 0,
			inp: 0,
	}
}

/// Build the deterministic base chain once per process (real PoW).
pub fn base(ctx: &Ctx) -> Result<&'static Base, String> {
	BASE.get_or_init(|| {
		init_thread();
		// pre-generate coinbase proofs in parallel
		let cbs: Vec<OutRef> = (1..base_len())
			.map(|h| OutRef {
				amount: grin_core::consensus::reward(0),
				key: h as u32 * 4,
				cb: true,
			})
			.collect();
		LIB.prefetch(&cbs);
		let dir = ctx.scratch_dir("base");
		let cb = ChainBox::open(&dir)?;
		let mut world = World::new(&cb.genesis, true);
		let mut head = 0usize;
		for i in 1..base_len() {
			let built = world.build(cb.c(), &base_raw(i), head).map_err(|e| format!("base block {}: {}", i, e))?;
			let model = built.verdict.clone().map_err(|e| format!("base block {} invalid in model: {:?}", i, e))?;
			cb.c()
				.process_block(built.block.clone(), opts(PowMode::Real))
				.map_err(|e| format!("base block {} rejected: {:?}", i, e))?;
			head = world.push(&built, model);
		}
		// keep the directory, drop the chain (without deleting the dir)
		let mut cb = cb;
		cb.close();
		let d = cb.dir.clone();
		std::mem::forget(cb);
		Ok(Base { dir: d, world })
	})
	.as_ref()
	.map_err(|e| e.clone())
}

pub fn clone_world(w: &World) -> World {
	World {
		nodes: w.nodes.clone(),
		refs: w.refs.clone(),
		commits: w.commits.clone(),
		mode_real: w.mode_real,
		min_parent_height: w.min_parent_height,
	}
}

/// open a fresh chain for a case: genesis only, or a copy of the base chain
pub fn open_case(ctx: &Ctx, use_base: bool) -> Result<(ChainBox, World, usize), Fail> {
	open_case_mode(ctx, use_base, true)
}

pub fn open_case_mode(ctx: &Ctx, use_base: bool, real: bool) -> Result<(ChainBox, World, usize), Fail> {
	open_case_full(ctx, use_base, real, false)
}

pub fn open_case_full(ctx: &Ctx, use_base: bool, real: bool, archive: bool) -> Result<(ChainBox, World, usize), Fail> {
	let dir = ctx.scratch_dir("c");
	if use_base {
		let b = base(ctx).map_err(|e| Fail::new("harness:base", e))?;
		copy_dir(&b.dir, &dir).map_err(|e| Fail::new("harness:copy", e.to_string()))?;
		let cb = ChainBox::open_mode(&dir, archive).map_err(|e| Fail::new("init-base-copy", e))?;
		let w = clone_world(&b.world);
		let head = w.nodes.len() - 1;
		Ok((cb, w, head))
	} else {
		let cb = ChainBox::open_mode(&dir, archive).map_err(|e| Fail::new("init-fresh", e))?;
		let w = World::new(&cb.genesis, real);
		Ok((cb, w, 0))
	}
}

// ---------------------------------------------------------------- the check

pub struct Stats {
	pub reorgs: u32,
	pub blocks: u32,
	pub rejected: u32,
	pub negs: BTreeMap<String, u32>,
	pub max_fork_depth: u64,
	pub spends: u32,
	pub recreated: bool,
	pub cut_through: bool,
	pub reopen: u32,
	pub compact_effective: u32,
	pub status_differs: bool,
	pub header_first: u32,
	pub sibling_reorgs: u32,
}

/// Full comparison of what the chain reports with the model state of its head.
pub fn scan(cb: &ChainBox, w: &World, when: &str) -> PResult {
	let chain = cb.c();
	let head = chain.head().map_err(|e| Fail::new("head-err", format!("{:?}", e)))?;
	let Some(hn) = w.node_of(&head.last_block_h) else {
		fail!("head-unknown", "{}: head {:?} is not a block of the world", when, head.last_block_h);
	};
	let model = &w.nodes[hn].model;
	ensure!(head.height == model.height, "head-height", "{}: head height {} model {}", when, head.height, model.height);
	let got = chain_unspent(chain, &w.commits).map_err(|e| Fail::new("get_unspent-err", format!("{}: {}", when, e)))?;
	for c in &w.commits {
		let k = c.0.to_vec();
		let m = model.utxo.get(&k);
		let g = got.get(&k);
		match (m, g) {
			(Some(_), None) => fail!("unspent-vanished", "{}: model-unspent output {} reported spent (head h={})", when, commit_hex(c), head.height),
			(None, Some(_)) => fail!("spent-reappeared", "{}: model-spent/absent output {} reported unspent (head h={})", when, commit_hex(c), head.height),
			(Some(a), Some(b)) => {
				ensure!(a == b, "unspent-meta", "{}: output {} model {:?} chain {:?}", when, commit_hex(c), a, b);
			}
			(None, None) => {}
		}
	}
	// enumeration by pmmr index returns exactly the model set
	let mut seen: BTreeMap<Vec<u8>, OutputFeatures> = BTreeMap::new();
	let mut start = 1u64;
	loop {
		let (last, max, outs) = chain.unspent_outputs_by_pmmr_index(start, 37, None).map_err(|e| Fail::new("enum-err", format!("{}: {:?}", when, e)))?;
		for o in &outs {
			if seen.insert(o.commitment().0.to_vec(), o.features()).is_some() {
				fail!("enum-duplicate", "{}: unspent enumeration lists {} twice", when, commit_hex(&o.commitment()));
			}
		}
		if outs.is_empty() || last >= max {
			break;
		}
		start = last + 1;
	}
	ensure!(
		seen.len() == model.utxo.len(),
		"enum-count",
		"{}: unspent enumeration has {} entries, model {}",
		when,
		seen.len(),
		model.utxo.len()
	);
	for (k, e) in &model.utxo {
		match seen.get(k) {
			Some(f) => ensure!(*f == e.features, "enum-features", "{}: features differ in enumeration", when),
			None => fail!("enum-missing", "{}: model-unspent output missing from enumeration", when),
		}
	}
	// probes: validate_inputs accepts exactly the model-unspent commitments
	for (i, c) in w.commits.iter().enumerate() {
		if i % 3 != (head.height % 3) as usize && w.commits.len() > 40 {
			continue;
		}
		let r = w.refs[&c.0.to_vec()];
		let inputs: Inputs = vec![grin_core::core::Input::new(r.features(), *c)].as_slice().into();
		let ok = chain.validate_inputs(&inputs).is_ok();
		let want = model.utxo.contains_key(&c.0.to_vec());
		ensure!(ok == want, if want { "probe-unspent-refused" } else { "probe-spent-accepted" }, "{}: validate_inputs({}) = {} but model unspent = {}", when, commit_hex(c), ok, want);
	}
	Ok(())
}

/// probe transactions through Chain::validate_tx (needs real outputs, so only a few)
fn probe_txs(cb: &ChainBox, w: &mut World, hn: usize) -> PResult {
	let chain = cb.c();
	let model = w.nodes[hn].model.clone();
	// one unspent plain output and one spent output, if any
	let unspent = model.utxo.iter().filter(|(_, e)| !e.features.is_coinbase()).filter_map(|(c, _)| w.refs.get(c).copied()).filter(|r| r.amount > 3).next();
	let spent = w.nodes[hn].spent.iter().rev().filter(|r| r.amount > 3 && !model.utxo.contains_key(&LIB.commit(r).0.to_vec())).next().copied();
	for (r, want) in [(unspent, true), (spent, false)] {
		let Some(r) = r else { continue };
		let out = OutRef {
			amount: r.amount - 2,
			key: 77,
			cb: false,
		};
		if model.utxo.contains_key(&LIB.commit(&out).0.to_vec()) {
			continue;
		}
		let (tx, _) = assemble(&TxSpec {
			inputs: vec![r],
			outputs: vec![out],
			kernels: vec![KernelSpec::plain(2)],
			zero_offset: false,
		});
		let res = chain.validate_tx(&tx);
		ensure!(
			res.is_ok() == want,
			if want { "probe-tx-refused" } else { "probe-tx-accepted" },
			"validate_tx spending {} output: {:?}",
			if want { "an unspent" } else { "a spent" },
			res.err().map(|e| err_name(&e))
		);
	}
	Ok(())
}

pub fn run_case(ctx: &Ctx, case: &Case, counting: bool) -> PResult {
	let t0 = std::time::Instant::now();
	let r = run_case_inner(ctx, case, counting);
	if std::env::var("GV_DEBUG").is_ok() {
		eprintln!("case ops={} base={} took {:.2}s", case.ops.len(), case.base, t0.elapsed().as_secs_f64());
	}
	r
}

fn run_case_inner(ctx: &Ctx, case: &Case, counting: bool) -> PResult {
	init_thread();
	let ev = &ctx.ev;
	let (mut cb, mut w, mut head) = open_case_full(ctx, case.base, case.real, case.archive)?;
	let pm = if case.real { PowMode::Real } else { PowMode::Skip(1) };
	let base_nodes = w.nodes.len();
	let mut st = Stats {
		reorgs: 0,
		blocks: 0,
		rejected: 0,
		negs: BTreeMap::new(),
		max_fork_depth: 0,
		spends: 0,
		recreated: false,
		cut_through: false,
		reopen: 0,
		compact_effective: 0,
		status_differs: false,
		header_first: 0,
		sibling_reorgs: 0,
	};
	scan(&cb, &w, "start")?;
	for (i, op) in case.ops.iter().enumerate() {
		match op {
			Op::Block(raw) => {
				let built = w.build(cb.c(), raw, head).map_err(|e| Fail::new("builder", format!("op {}: {}", i, e)))?;
				let prev_head = head;
				header_first(cb.c(), &built.block, raw.hdr, built.verdict.is_ok(), pm)?;
				if raw.hdr != 0 {
					st.header_first += 1;
				}
				let res = cb.c().process_block(built.block.clone(), opts(pm));
				match (&built.verdict, &res) {
					(Ok(model), Ok(tip)) => {
						let n = w.push(&built, model.clone());
						st.blocks += 1;
						st.spends += built.n_spends as u32;
						st.recreated |= built.recreated;
						st.cut_through |= built.cut_through;
						if tip.is_some() {
							head = n;
							if built.parent != prev_head {
								st.reorgs += 1;
								// fork depth = distance from old head to common ancestor
								let mut a = prev_head;
								let mut d = 0;
								while !w.is_ancestor(a, n) {
									a = w.nodes[a].parent;
									d += 1;
								}
								st.max_fork_depth = st.max_fork_depth.max(d);
								if d == 1 && built.parent == a {
									st.sibling_reorgs += 1;
								}
								// does some output differ in status between the two tips?
								let (ma, mb) = (&w.nodes[prev_head].model.utxo, &w.nodes[n].model.utxo);
								if ma.keys().any(|k| !mb.contains_key(k)) || mb.keys().any(|k| !ma.contains_key(k) && w.refs.get(k).map(|r| !r.cb).unwrap_or(false)) {
									st.status_differs = true;
								}
							}
						}
					}
					(Ok(_), Err(e)) => {
						fail!("valid-block-rejected", "op {}: model-valid block (h={}, {} inputs, parent node {}) rejected: {}", i, built.block.header.height, built.n_spends, built.parent, err_name(e));
					}
					(Err(why), Ok(_)) => {
						let kind = if built.neg == Neg::None { format!("{:?}", why).split('(').next().unwrap_or("").to_string() } else { format!("{:?}", built.neg) };
						fail!(format!("invalid-block-accepted:{}", kind), "op {}: block invalid in the model ({:?}) was accepted", i, why);
					}
					(Err(why), Err(_)) => {
						st.rejected += 1;
						let kind = if built.neg == Neg::None { format!("{:?}", why).split('(').next().unwrap_or("").to_string() } else { format!("{:?}", built.neg) };
						*st.negs.entry(kind).or_insert(0) += 1;
					}
				}
			}
			Op::Reopen => {
				let nrd = !w.nodes[head].model.nrd.is_empty();
				if let Err(f) = cb.reopen_classified(nrd) {
					if ctx.known_hit(&f.sig) {
						return Ok(());
					}
					return Err(f);
				}
				st.reopen += 1;
			}
			Op::Compact => {
				let tail_before = cb.c().tail().map(|t| t.height).unwrap_or(0);
				let hh = w.nodes[head].height();
				cb.c().compact().map_err(|e| Fail::new("compact-err", format!("op {}: {:?}", i, e)))?;
				let tail_after = cb.c().tail().map(|t| t.height).unwrap_or(0);
				if tail_after != tail_before {
					st.compact_effective += 1;
					let horizon = grin_core::global::cut_through_horizon() as u64;
					w.min_parent_height = w.min_parent_height.max(hh.saturating_sub(horizon));
				}
			}
			Op::Validate => {
				cb.c().validate(false).map_err(|e| Fail::new("validate-failed", format!("op {}: {:?}", i, e)))?;
			}
		}
		scan(&cb, &w, &format!("after op {}", i))?;
		if i % 4 == 3 {
			let hn = head;
			probe_txs(&cb, &mut w, hn)?;
		}
	}
	cb.c().validate(false).map_err(|e| Fail::new("validate-failed", format!("final: {:?}", e)))?;
	if counting {
		ev.eval();
		if st.reorgs > 0 {
			ev.class("histories_with_reorg");
		}
		if st.reopen > 0 {
			ev.class("histories_with_reopen");
		}
		if st.header_first > 0 {
			ev.class("histories_with_header_first_delivery");
		}
		if let (Ok(hh), Ok(h)) = (cb.c().header_head(), cb.c().head()) {
			if hh.last_block_h != h.last_block_h {
				ev.class("histories_ending_with_header_head_off_the_body_head");
			}
		}
		if st.compact_effective > 0 {
			ev.class("histories_with_effective_compaction");
		}
		if st.recreated {
			ev.class("histories_with_recreated_commitment");
		}
		if st.cut_through {
			ev.class("histories_with_cut_through_in_block");
		}
		if case.base {
			ev.class("histories_on_base_chain");
		}
		if case.archive {
			ev.class("histories_in_archive_mode");
		}
		if !case.real {
			ev.class("histories_with_free_difficulty");
			if st.sibling_reorgs > 0 {
				ev.class("histories_with_a_reorg_by_a_heavier_sibling");
			}
		}
		for (k, v) in &st.negs {
			ev.class_n(&format!("rejected_negative_blocks:{}", k), *v as u64);
		}
		ev.class_n("blocks_accepted", st.blocks as u64);
		ev.class_n("spends_in_accepted_blocks", st.spends as u64);
		if st.max_fork_depth >= 2 {
			ev.class("histories_with_fork_depth_ge2");
		}
		if st.reorgs > 0 && st.status_differs {
			ev.nontrivial(&(
				st.max_fork_depth,
				st.spends.min(12),
				st.recreated,
				st.reopen > 0,
				st.compact_effective > 0,
				st.reorgs.min(4),
				st.negs.keys().cloned().collect::<Vec<_>>(),
				case.base,
			));
		}
		let _ = base_nodes;
	}
	Ok(())
}

pub fn run(ctx: &Ctx) -> HResult<()> {
	init_global();
	let ev = &ctx.ev;
	ev.rule("delivery histories (blocks on a fork tree built by construction from the model UTXO of the chosen parent, single-defect negative blocks, reopen, compact, validate) generated by proptest; after every step get_unspent over every commitment ever created, the pmmr-index enumeration and validate_inputs/validate_tx probes are compared with a replay model; non-trivial = history with a reorg where some output's status differs between the two fork tips; distinct by (fork depth, spends, recreated, reopen, compaction, reorg count, negative kinds, base)");
	ev.assume("the harness's replay model (spends remove, outputs insert, coinbase maturity) is the oracle; blocks are rooted with Chain::set_txhashset_roots on the chain under test");
	let cases = ctx.n(576, 4800);
	if let Some((case, f)) = pbt_proc(ctx, "history", cases, 16) {
		ctx.report("history", &f.sig, case, &f.msg);
	}
	let s = sample_one(ctx.derive_seed("sample", 0), &case_strategy(6, 14));
	ev.sample("history", || serde_json::to_value(&s).unwrap());
	for cl in ["histories_with_reorg", "histories_with_reopen", "histories_with_effective_compaction", "histories_with_recreated_commitment"] {
		if ev.class_count(cl) == 0 {
			eprintln!("warning: class {} is empty in this run", cl);
		}
	}
	Ok(())
}

pub fn part(ctx: &Ctx, part: &str, seed: u64, cases: u32) -> Option<(Value, Fail)> {
	init_global();
	match part {
		"history" => {
			let t0 = std::time::Instant::now();
			if let Err(e) = base(ctx) {
				return Some((json!({}), Fail::new("harness:base", e)));
			}
			ctx.ev.extra("base_chain_build_s", json!(t0.elapsed().as_secs_f64()));
			let r = run_part(ctx, seed, cases, &case_strategy(if ctx.quick() { 18 } else { 24 }, 14), |c, counting| run_case(ctx, c, counting));
			ctx.ev.extra("proofs_created", json!(LIB.proofs_created.load(std::sync::atomic::Ordering::Relaxed)));
			r
		}
		_ => None,
	}
}

pub fn replay(ctx: &Ctx, part: &str, case: &Value) -> PResult {
	init_global();
	match part {
		"history" => {
			let c: Case = serde_json::from_value(case.clone()).map_err(|e| Fail::new("harness:replay-parse", e.to_string()))?;
			run_case(ctx, &c, false)
		}
		_ => Ok(()),
	}
}
