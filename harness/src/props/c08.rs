//! C08 — pruning, compaction, rewind, discard and reopen never change what a
//! prunable MMR commits to or reports for live data.
//!
//! Part "store": histories of units of work on a `PMMRBackend`, driven the way
//! `chain/src/txhashset/txhashset.rs` (`Extension`, `extending`, `TxHashSet::compact`)
//! drives it, compared after every step with an unpruned reference
//! (`refmmr::RefMmr`, own blake2b). Part "chain": `Chain::compact()` on the
//! prepared base chain, before/after comparison and an in-horizon reorg.

use crate::elems::{FixElem, LenElem, VarElem};
use crate::engine::*;
use crate::props::c02;
use crate::refmmr::{self, RefMmr, H32};
use crate::world::gen::{Neg, RawBlock, RawOut, RawTx};
use crate::world::*;
use crate::{ensure, fail};
use croaring::Bitmap;
use grin_core::core::hash::Hash;
use grin_core::core::pmmr::{ReadablePMMR, ReadonlyPMMR, PMMR};
use grin_core::ser::{PMMRIndexHashable, PMMRable, ProtocolVersion};
use grin_store::pmmr::PMMRBackend;
use proptest::prelude::*;
use serde_derive::{Deserialize, Serialize};
use serde_json::{json, Value};
use std::collections::BTreeSet;

const MAX_LEAVES: u64 = 400;
const MAX_STEPS: usize = 40;

fn h(x: &H32) -> Hash {
	Hash::from_vec(&x[..])
}

// ---------------------------------------------------------------- test elements

pub trait TElem: PMMRable<E = Self> + PMMRIndexHashable + Clone + PartialEq + std::fmt::Debug {
	/// payload number `serial` of a history with data seed `seed`
	fn make(seed: u64, serial: u64) -> Self;
	fn ser(&self) -> Vec<u8>;
}

impl TElem for FixElem {
	fn make(seed: u64, serial: u64) -> Self {
		// a few deliberate duplicates: equal data at different positions
		let d = if serial % 7 == 3 { serial - 1 } else { serial };
		let x = refmmr::blake(&[&seed.to_be_bytes(), &d.to_be_bytes()]);
		let mut a = [0u8; 16];
		a.copy_from_slice(&x[..16]);
		FixElem(a)
	}
	fn ser(&self) -> Vec<u8> {
		self.bytes()
	}
}

impl TElem for VarElem {
	fn make(seed: u64, serial: u64) -> Self {
		let x = refmmr::blake(&[&seed.to_be_bytes(), &serial.to_be_bytes(), b"v"]);
		let y = refmmr::blake(&[&x, b"w"]);
		let l = 1 + (x[0] as usize % 40);
		let mut v = x[1..].to_vec();
		v.extend_from_slice(&y);
		v.truncate(l);
		VarElem(v)
	}
	fn ser(&self) -> Vec<u8> {
		self.bytes()
	}
}

// ---------------------------------------------------------------- explicit history (the replayable case)

/// One "block": leaves appended, then leaves (insertion indices) removed. Like
/// `Extension::apply_block`: outputs are pushed first, then inputs are pruned,
/// and a block never spends its own outputs.
#[derive(Clone, Debug, Serialize, Deserialize, PartialEq)]
pub struct XBlock {
	pub appends: u32,
	pub removes: Vec<u64>,
}

#[derive(Clone, Debug, Serialize, Deserialize, PartialEq)]
pub enum XStep {
	/// one unit of work (one `txhashset::extending` call)
	Unit {
		/// boundary index to rewind to first (0 = empty MMR, k = state after the k-th block of the current branch)
		rewind_to: Option<usize>,
		blocks: Vec<XBlock>,
		/// true: sync, false: discard
		commit: bool,
	},
	/// `check_compact(size at boundary, removed positions of the blocks after it)`
	Compact { cutoff: usize },
	/// drop the backend and open it again from the same directory
	Reopen,
	/// non-prunable variable-size backend only: drop the backend, delete pmmr_size.bin and
	/// open again. This is what a fast-sync receiver does: the txhashset archive carries
	/// kernel/pmmr_data.bin and kernel/pmmr_hash.bin but no size file (txhashset.rs
	/// file_list), so AppendOnlyFile::open rebuilds it from the data file.
	ReopenWithoutSizeFile,
}

impl TElem for LenElem {
	fn make(seed: u64, serial: u64) -> Self {
		LenElem(VarElem::make(seed, serial).0)
	}
	fn ser(&self) -> Vec<u8> {
		self.bytes()
	}
}

#[derive(Clone, Debug, Serialize, Deserialize, PartialEq)]
pub struct History {
	/// true: VarElem on a non-prunable backend; false: FixElem on a prunable backend
	pub var: bool,
	/// VarElem on a PRUNABLE backend (removals and compaction as for FixElem). The node never prunes its
	/// variable-size MMR (kernels); the store supports it and the statement names variable-size elements
	#[serde(default)]
	pub var_prunable: bool,
	pub seed: u64,
	pub steps: Vec<XStep>,
}

// ---------------------------------------------------------------- raw (generated) history

#[derive(Clone, Debug)]
pub enum Spend {
	Nothing,
	/// a sibling pair of leaves
	Pair(u16),
	/// every live leaf of an aligned subtree of height 1..=4
	Subtree(u8, u16),
	/// every live leaf under one peak of the current MMR
	Peak(u16),
	/// every other live leaf in a window (start pick, length, parity)
	Alternate(u16, u8, bool),
	/// up to k live leaves that a rewind re-added
	Readded(u8),
	/// every live leaf before a boundary
	AllBefore(u16),
	/// a few single leaves
	Few(Vec<u16>),
}

#[derive(Clone, Debug)]
pub struct SBlk {
	pub appends: u16,
	pub spend: Spend,
}

#[derive(Clone, Debug)]
pub enum SStep {
	Unit {
		/// number of blocks to rewind first (0 = rewind to the current tip, as the chain does "for consistency")
		rewind: Option<u8>,
		blocks: Vec<SBlk>,
		commit: bool,
	},
	Compact(u16),
	Reopen,
	ReopenWithoutSizeFile,
}

#[derive(Clone, Debug)]
pub struct SCase {
	pub var: bool,
	pub var_prunable: bool,
	pub seed: u64,
	pub steps: Vec<SStep>,
}

fn spend_strategy() -> impl Strategy<Value = Spend> {
	prop_oneof![
		3 => Just(Spend::Nothing),
		3 => any::<u16>().prop_map(Spend::Pair),
		4 => (1u8..=4, any::<u16>()).prop_map(|(hh, p)| Spend::Subtree(hh, p)),
		2 => any::<u16>().prop_map(Spend::Peak),
		2 => (any::<u16>(), 2u8..=32, any::<bool>()).prop_map(|(p, l, b)| Spend::Alternate(p, l, b)),
		2 => (1u8..=8).prop_map(Spend::Readded),
		2 => any::<u16>().prop_map(Spend::AllBefore),
		3 => prop::collection::vec(any::<u16>(), 1..=5).prop_map(Spend::Few),
	]
}

fn blk_strategy() -> impl Strategy<Value = SBlk> {
	(prop_oneof![3 => 0u16..=3, 6 => 1u16..=16, 2 => 17u16..=64, 1 => 65u16..=130], spend_strategy()).prop_map(|(appends, spend)| SBlk { appends, spend })
}

fn step_strategy(var: bool) -> impl Strategy<Value = SStep> {
	let unit = (
		prop_oneof![5 => Just(None), 1 => Just(Some(0u8)), 5 => (1u8..=3).prop_map(Some), 2 => (4u8..=40).prop_map(Some)],
		prop_oneof![1 => Just(0usize), 7 => Just(1usize), 2 => Just(2usize), 1 => Just(3usize)].prop_flat_map(|n| prop::collection::vec(blk_strategy(), n)),
		prop::bool::weighted(0.8),
	)
		.prop_map(|(rewind, blocks, commit)| SStep::Unit { rewind, blocks, commit });
	if var {
		prop_oneof![10 => unit, 2 => Just(SStep::Reopen), 1 => Just(SStep::ReopenWithoutSizeFile)].boxed()
	} else {
		prop_oneof![10 => unit, 3 => any::<u16>().prop_map(SStep::Compact), 2 => Just(SStep::Reopen)].boxed()
	}
}

pub fn store_strategy() -> impl Strategy<Value = SCase> {
	// 70% FixElem prunable, 15% VarElem non-prunable (the kernel MMR's usage), 15% VarElem prunable
	prop_oneof![14 => Just((false, false)), 3 => Just((true, false)), 3 => Just((true, true))].prop_flat_map(|(var, var_prunable)| {
		(any::<u64>(), prop::collection::vec(step_strategy(var && !var_prunable), 1..=MAX_STEPS)).prop_map(move |(seed, steps)| SCase { var, var_prunable, seed, steps })
	})
}

fn pick_idx(p: u16, len: usize) -> usize {
	((p as usize) * len) >> 16
}

/// Resolve the shaped choices against a replay of the history itself (leaf
/// count, live flags, boundary log, horizon floor). Uses no code under test.
pub fn resolve(raw: &SCase) -> History {
	#[derive(Clone)]
	struct M {
		alive: Vec<bool>,
		blocks: Vec<(u64, Vec<u64>)>,
		readded: BTreeSet<u64>,
	}
	let n_at = |m: &M, k: usize| if k == 0 { 0 } else { m.blocks[k - 1].0 };
	let mut m = M {
		alive: vec![],
		blocks: vec![],
		readded: BTreeSet::new(),
	};
	let mut floor = 0usize;
	let mut steps = vec![];
	for st in &raw.steps {
		match st {
			SStep::Reopen => steps.push(XStep::Reopen),
			SStep::ReopenWithoutSizeFile => steps.push(if raw.var && !raw.var_prunable { XStep::ReopenWithoutSizeFile } else { XStep::Reopen }),
			SStep::Compact(p) => {
				if raw.var && !raw.var_prunable {
					continue;
				}
				let len = m.blocks.len();
				let cutoff = floor + pick_idx(*p, len - floor + 1);
				floor = cutoff;
				steps.push(XStep::Compact { cutoff });
			}
			SStep::Unit { rewind, blocks, commit } => {
				let snap = m.clone();
				let rewind_to = rewind.map(|d| {
					let len = m.blocks.len();
					let t = len.saturating_sub(d as usize).max(floor);
					while m.blocks.len() > t {
						let (_, removed) = m.blocks.pop().unwrap();
						for r in removed {
							m.alive[r as usize] = true;
							m.readded.insert(r);
						}
						let n = n_at(&m, m.blocks.len());
						m.alive.truncate(n as usize);
						m.readded = m.readded.iter().copied().filter(|x| *x < n).collect();
					}
					t
				});
				let mut xb = vec![];
				for b in blocks {
					let n0 = m.alive.len() as u64;
					let appends = (b.appends as u64).min(MAX_LEAVES.saturating_sub(n0)) as u32;
					let live: Vec<u64> = (0..n0).filter(|i| m.alive[*i as usize]).collect();
					let few = |ps: &[u16]| -> Vec<u64> {
						let mut c = live.clone();
						let mut out = vec![];
						for p in ps {
							if c.is_empty() {
								break;
							}
							out.push(c.remove(pick_idx(*p, c.len())));
						}
						out
					};
					let in_range = |a: u64, e: u64| -> Vec<u64> { live.iter().copied().filter(|i| *i >= a && *i < e).collect() };
					let mut removes: Vec<u64> = if raw.var && !raw.var_prunable {
						vec![]
					} else {
						match &b.spend {
							Spend::Nothing => vec![],
							Spend::Pair(p) => {
								let pairs: Vec<u64> = (0..n0 / 2).filter(|k| m.alive[2 * *k as usize] && m.alive[2 * *k as usize + 1]).collect();
								if pairs.is_empty() {
									few(&[*p])
								} else {
									let k = pairs[pick_idx(*p, pairs.len())];
									vec![2 * k, 2 * k + 1]
								}
							}
							Spend::Subtree(hh, p) => {
								let w = 1u64 << *hh;
								let c: Vec<u64> = (0..n0 / w).filter(|k| !in_range(k * w, (k + 1) * w).is_empty()).collect();
								if c.is_empty() {
									few(&[*p])
								} else {
									let k = c[pick_idx(*p, c.len())];
									in_range(k * w, (k + 1) * w)
								}
							}
							Spend::Peak(p) => {
								let mut ranges = vec![];
								let mut start = 0u64;
								for k in (0..32).rev() {
									if n0 & (1u64 << k) != 0 {
										ranges.push((start, start + (1u64 << k)));
										start += 1u64 << k;
									}
								}
								let c: Vec<(u64, u64)> = ranges.into_iter().filter(|(a, e)| !in_range(*a, *e).is_empty()).collect();
								if c.is_empty() {
									vec![]
								} else {
									let (a, e) = c[pick_idx(*p, c.len())];
									in_range(a, e)
								}
							}
							Spend::Alternate(p, l, par) => {
								let a = pick_idx(*p, n0 as usize) as u64;
								in_range(a, (a + *l as u64).min(n0)).into_iter().filter(|i| (i % 2 == 1) == *par).collect()
							}
							Spend::Readded(k) => m.readded.iter().copied().filter(|i| *i < n0 && m.alive[*i as usize]).take(*k as usize).collect(),
							Spend::AllBefore(p) => {
								let bidx = pick_idx(*p, m.blocks.len() + 1);
								in_range(0, n_at(&m, bidx))
							}
							Spend::Few(ps) => few(ps),
						}
					};
					removes.sort_unstable();
					removes.dedup();
					for _ in 0..appends {
						m.alive.push(true);
					}
					for r in &removes {
						m.alive[*r as usize] = false;
					}
					m.blocks.push((m.alive.len() as u64, removes.clone()));
					xb.push(XBlock { appends, removes });
				}
				if !*commit {
					m = snap;
				}
				steps.push(XStep::Unit {
					rewind_to,
					blocks: xb,
					commit: *commit,
				});
			}
		}
	}
	History {
		var: raw.var,
		var_prunable: raw.var_prunable,
		seed: raw.seed,
		steps,
	}
}

// ---------------------------------------------------------------- the unpruned reference

#[derive(Clone)]
struct Blk {
	n_after: u64,
	removed: Vec<u64>,
}

/// Unpruned reference: every leaf ever appended on the current branch with
/// its live flag, and the boundary log with the removals of each block.
#[derive(Clone)]
struct Ref {
	leaves: Vec<Vec<u8>>,
	alive: Vec<bool>,
	blocks: Vec<Blk>,
	/// statistics only
	readded: BTreeSet<u64>,
}

impl Ref {
	fn n_at(&self, k: usize) -> u64 {
		if k == 0 {
			0
		} else {
			self.blocks[k - 1].n_after
		}
	}
	fn size_at(&self, k: usize) -> u64 {
		refmmr::ref_mmr_size(self.n_at(k)) as u64
	}
	fn n(&self) -> u64 {
		self.leaves.len() as u64
	}
}

fn pos_of(leaf_idx: u64) -> u64 {
	refmmr::ref_leaf_pos(leaf_idx) as u64
}

/// 1-based positions, as `CommitPos.pos` / the block input bitmaps hold them
fn bitmap_of(leaf_idxs: impl Iterator<Item = u64>) -> Bitmap {
	leaf_idxs.map(|i| (pos_of(i) + 1) as u32).collect()
}

fn open_backend<T: TElem>(dir: &std::path::Path, prunable: bool) -> Result<PMMRBackend<T>, Fail> {
	PMMRBackend::<T>::new(dir, prunable, ProtocolVersion(1), None).map_err(|e| Fail::new("open-err", format!("PMMRBackend::new: {}", e)))
}

/// Everything the statement says about the observable state, against the reference.
fn check_state<T: TElem>(backend: &mut PMMRBackend<T>, size: u64, m: &Ref, elems: &[T], prunable: bool, synced: bool, when: &str) -> PResult {
	let r = RefMmr::build(&m.leaves);
	let n = m.n();
	ensure!(size == r.size(), "size", "{}: tracked PMMR size {} reference {} ({} leaves)", when, size, r.size(), n);
	let rroot = r.root();
	let lp = r.leaf_positions();
	let alive_pos: Vec<u64> = (0..n as usize).filter(|i| m.alive[*i]).map(|i| lp[i]).collect();
	{
		let p = PMMR::<T, _>::at(backend, size);
		ensure!(p.unpruned_size() == r.size(), "size", "{}: unpruned_size {} reference {}", when, p.unpruned_size(), r.size());
		let root = p.root().map_err(|e| Fail::new("root-err", format!("{}: root(): {}", when, e)))?;
		ensure!(root == h(&rroot), "root", "{}: root {:?} reference {:?} ({} leaves, {} live)", when, root, h(&rroot), n, alive_pos.len());
		let ph: Vec<Hash> = r.peaks.iter().map(|&i| h(&r.nodes[i].hash)).collect();
		ensure!(p.peaks() == ph, "peaks", "{}: peak hashes differ from the reference ({} peaks)", when, ph.len());
		for i in 0..n as usize {
			let pos = lp[i];
			if m.alive[i] {
				let d = p.get_data(pos);
				ensure!(d.as_ref().map(|x| x.ser()) == Some(m.leaves[i].clone()), "live-leaf-data", "{}: get_data of live leaf {} (pos {}) = {:?}, reference {:?}", when, i, pos, d, m.leaves[i]);
				let g = p.get_hash(pos);
				ensure!(g == Some(h(&r.nodes[pos as usize].hash)), "live-leaf-hash", "{}: get_hash of live leaf {} (pos {}) = {:?}", when, i, pos, g);
				let proof = p.merkle_proof(pos).map_err(|e| Fail::new("proof-err", format!("{}: merkle_proof of live leaf {} (pos {}): {}", when, i, pos, e)))?;
				ensure!(proof.mmr_size == size, "proof-size", "{}: proof.mmr_size {} != {}", when, proof.mmr_size, size);
				let rp: Vec<Hash> = r.merkle_path(pos).iter().map(h).collect();
				ensure!(
					proof.path == rp,
					"proof-path",
					"{}: Merkle path of live leaf {} (pos {}) has {} hashes and differs from the reference path ({} hashes)",
					when,
					i,
					pos,
					proof.path.len(),
					rp.len()
				);
				let raw_path: Vec<H32> = proof
					.path
					.iter()
					.map(|x| {
						let mut a = [0u8; 32];
						a.copy_from_slice(x.as_bytes());
						a
					})
					.collect();
				ensure!(r.verify_path(&rroot, &m.leaves[i], pos, &raw_path), "proof-unverifiable", "{}: proof of live leaf {} (pos {}) does not verify against the reference root", when, i, pos);
				ensure!(proof.verify(h(&rroot), &elems[i], pos).is_ok(), "proof-rejected", "{}: MerkleProof::verify rejects the proof of live leaf {} (pos {}) against the reference root", when, i, pos);
			} else {
				// only reachable on the prunable backend
				let d = p.get_data(pos);
				ensure!(d.is_none(), "removed-leaf-data", "{}: get_data of removed leaf {} (pos {}) = {:?}", when, i, pos, d);
				// documented: "Return None if pos is a leaf and it has been removed (or pruned or compacted)";
				// PMMR::prune relies on it to refuse a second spend
				let g = p.get_hash(pos);
				ensure!(g.is_none(), "removed-leaf-hash", "{}: get_hash of removed leaf {} (pos {}) = {:?}", when, i, pos, g);
			}
		}
		// a hash that is reported for an interior node is the reference hash
		// (pruned interior nodes need not be readable)
		for node in &r.nodes {
			if node.height > 0 {
				if let Some(g) = p.get_hash(node.pos) {
					ensure!(g == h(&node.hash), "node-hash", "{}: interior node {} (height {}) reports {:?}, reference {:?}", when, node.pos, node.height, g, h(&node.hash));
				}
			}
		}
		ensure!(p.get_hash(size).is_none() && p.get_data(size).is_none(), "beyond-size", "{}: something readable at pos == size {}", when, size);
		if prunable {
			let got: Vec<u64> = p.leaf_pos_iter().collect();
			ensure!(got == alive_pos, "leaf-set", "{}: leaf_pos_iter has {} entries, reference live set {}; first difference {:?}", when, got.len(), alive_pos.len(), first_diff(&got, &alive_pos));
			ensure!(p.n_unpruned_leaves() == alive_pos.len() as u64, "leaf-count", "{}: n_unpruned_leaves {} reference {}", when, p.n_unpruned_leaves(), alive_pos.len());
			let gi: Vec<u64> = p.leaf_idx_iter(0).collect();
			let wi: Vec<u64> = (0..n).filter(|i| m.alive[*i as usize]).collect();
			ensure!(gi == wi, "leaf-idx-set", "{}: leaf_idx_iter(0) differs from the live insertion indices; first difference {:?}", when, first_diff(&gi, &wi));
		} else if synced {
			// the non-prunable backend answers from the synced file size; leaf_pos_iter is unimplemented there
			ensure!(p.n_unpruned_leaves() == n, "leaf-count", "{}: non-prunable n_unpruned_leaves {} reference {}", when, p.n_unpruned_leaves(), n);
		}
		if let Err(e) = p.validate() {
			fail!("validate", "{}: PMMR::validate: {}", when, e);
		}
	}
	{
		// the read-only view the chain uses for the UTXO set
		let ro = ReadonlyPMMR::<T, _>::at(&*backend, size);
		let root = ro.root().map_err(|e| Fail::new("root-err", format!("{}: readonly root(): {}", when, e)))?;
		ensure!(root == h(&rroot), "root", "{}: readonly root differs from the reference", when);
		let (_, all) = ro.elements_from_pmmr_index(1, n + 8, None);
		let want: Vec<Vec<u8>> = (0..n as usize).filter(|i| m.alive[*i]).map(|i| m.leaves[i].clone()).collect();
		let got: Vec<Vec<u8>> = all.iter().map(|x| x.ser()).collect();
		ensure!(got == want, "live-enumeration", "{}: elements_from_pmmr_index lists {} elements, reference {} live leaves", when, got.len(), want.len());
	}
	if synced {
		let bs = backend.unpruned_size();
		ensure!(bs == r.size(), "backend-size", "{}: backend.unpruned_size() {} reference {}", when, bs, r.size());
	}
	Ok(())
}

fn first_diff(a: &[u64], b: &[u64]) -> Option<(usize, Option<u64>, Option<u64>)> {
	for i in 0..a.len().max(b.len()) {
		if a.get(i) != b.get(i) {
			return Some((i, a.get(i).copied(), b.get(i).copied()));
		}
	}
	None
}

#[derive(Default)]
struct Stats {
	reopen: u32,
	discard: u32,
	rewind: u32,
	rewind_noop: u32,
	max_rewind_depth: usize,
	multi_block_units: u32,
	compactions: u32,
	eff_compactions: u32,
	hashes_removed: u64,
	whole_peak_pruned: bool,
	readded_removed_again: u32,
	/// rewinds after an effective compaction that un-spent a leaf before the cutoff
	rewind_unspends_kept: u32,
	second_after_appends: bool,
	max_leaves: u64,
	removed_total: u64,
	unsynced_checks: u32,
	size_file_rebuilt: u32,
}

pub fn check_store(ctx: &Ctx, hist: &History, counting: bool) -> PResult {
	let dir = ctx.scratch_dir("s");
	// variable-size elements come in two encodings: one length byte + payload, or (odd data seeds) the u64 length
	// prefix of Writer::write_bytes read back with Reader::read_bytes_len_prefix
	let r = if hist.var && hist.seed % 2 == 1 {
		if counting {
			ctx.ev.class("store:var_size_elements_with_u64_length_prefix");
		}
		run_history::<LenElem>(ctx, hist, counting, &dir)
	} else if hist.var {
		run_history::<VarElem>(ctx, hist, counting, &dir)
	} else {
		run_history::<FixElem>(ctx, hist, counting, &dir)
	};
	let _ = std::fs::remove_dir_all(&dir);
	r
}

fn run_history<T: TElem>(ctx: &Ctx, hist: &History, counting: bool, dir: &std::path::Path) -> PResult {
	let prunable = !hist.var || hist.var_prunable;
	let mut backend: PMMRBackend<T> = open_backend(dir, prunable)?;
	// PMMRHandle { backend, size }: the size the handle carries between units
	let mut size = backend.unpruned_size();
	let mut m = Ref {
		leaves: vec![],
		alive: vec![],
		blocks: vec![],
		readded: BTreeSet::new(),
	};
	let mut elems: Vec<T> = vec![];
	let mut serial = 0u64;
	let mut floor = 0usize;
	let mut st = Stats::default();
	// pruned[i]: leaf physically compacted away according to the protocol (statistics only)
	let mut pruned: Vec<bool> = vec![];
	let mut last_eff_cutoff_n: Option<u64> = None;
	let mut appended_since_eff = false;
	check_state(&mut backend, size, &m, &elems, prunable, true, "start")?;
	for (si, step) in hist.steps.iter().enumerate() {
		match step {
			XStep::Unit { rewind_to, blocks, commit } => {
				let snap = (m.clone(), elems.clone());
				let ext_size;
				{
					// Extension::new: one PMMR::at(&mut backend, handle.size) for the whole unit
					let mut p = PMMR::<T, _>::at(&mut backend, size);
					if let Some(t) = *rewind_to {
						let len = m.blocks.len();
						ensure!(t >= floor && t <= len, "harness:bad-history", "step {}: rewind to boundary {} outside [{}, {}]", si, t, floor, len);
						if t == len {
							// Extension::rewind with head == header: "truncate the MMRs at header for consistency"
							p.rewind(m.size_at(len), &Bitmap::new()).map_err(|e| Fail::new("rewind-err", format!("step {}: {}", si, e)))?;
							st.rewind_noop += 1;
						} else {
							st.rewind += 1;
							st.max_rewind_depth = st.max_rewind_depth.max(len - t);
							let mut unspent_kept = false;
							// Extension::rewind: block by block, each with the positions that block spent
							for j in ((t + 1)..=len).rev() {
								let blk = m.blocks.pop().unwrap();
								let bm = bitmap_of(blk.removed.iter().copied());
								p.rewind(m.size_at(j - 1), &bm).map_err(|e| Fail::new("rewind-err", format!("step {}: rewind of block {}: {}", si, j, e)))?;
								for r in &blk.removed {
									m.alive[*r as usize] = true;
									m.readded.insert(*r);
									if let Some(cn) = last_eff_cutoff_n {
										if *r < cn {
											unspent_kept = true;
										}
									}
								}
								let n = m.n_at(j - 1) as usize;
								m.leaves.truncate(n);
								m.alive.truncate(n);
								elems.truncate(n);
								m.readded = m.readded.iter().copied().filter(|x| (*x as usize) < n).collect();
							}
							if unspent_kept {
								st.rewind_unspends_kept += 1;
							}
						}
					}
					if blocks.len() > 1 {
						st.multi_block_units += 1;
					}
					for (bi, b) in blocks.iter().enumerate() {
						let n0 = m.n();
						ensure!(n0 + b.appends as u64 <= 4 * MAX_LEAVES, "harness:bad-history", "step {}: too many leaves", si);
						for _ in 0..b.appends {
							let e = T::make(hist.seed, serial);
							serial += 1;
							let want = pos_of(m.n());
							let pos = p.push(&e).map_err(|e| Fail::new("push-err", format!("step {} block {}: push of leaf {}: {}", si, bi, m.n(), e)))?;
							ensure!(pos == want, "push-pos", "step {} block {}: push returned pos {} for leaf {}, reference {}", si, bi, pos, m.n(), want);
							m.leaves.push(e.ser());
							m.alive.push(true);
							elems.push(e);
							appended_since_eff = true;
						}
						for r in &b.removes {
							ensure!(prunable && *r < n0 && m.alive[*r as usize], "harness:bad-history", "step {} block {}: removal of leaf {} which is not a live leaf older than the block", si, bi, r);
							// Extension::apply_input: output_pmmr.prune(pos - 1); Ok(false) would be AlreadySpent
							let ok = p.prune(pos_of(*r)).map_err(|e| Fail::new("prune-err", format!("step {} block {}: prune of leaf {}: {}", si, bi, r, e)))?;
							ensure!(ok, "live-leaf-reported-spent", "step {} block {}: prune of live leaf {} (pos {}) returned false (already spent)", si, bi, r, pos_of(*r));
							m.alive[*r as usize] = false;
							st.removed_total += 1;
							if m.readded.remove(r) {
								st.readded_removed_again += 1;
							}
						}
						m.blocks.push(Blk {
							n_after: m.n(),
							removed: b.removes.clone(),
						});
						ensure!(m.blocks.len() <= 400, "harness:bad-history", "too many blocks");
					}
					ext_size = p.size;
				}
				st.max_leaves = st.max_leaves.max(m.n());
				// what the extension sees before it is committed (validate_roots, utxo_view, ... run here)
				check_state(&mut backend, ext_size, &m, &elems, prunable, false, &format!("step {} (unit, before {})", si, if *commit { "sync" } else { "discard" }))?;
				st.unsynced_checks += 1;
				if *commit {
					backend.sync().map_err(|e| Fail::new("sync-err", format!("step {}: {}", si, e)))?;
					size = ext_size;
					check_state(&mut backend, size, &m, &elems, prunable, true, &format!("step {} (unit, after sync)", si))?;
				} else {
					backend.discard();
					m = snap.0;
					elems = snap.1;
					st.discard += 1;
					check_state(&mut backend, size, &m, &elems, prunable, true, &format!("step {} (unit, after discard)", si))?;
				}
			}
			XStep::Compact { cutoff } => {
				let len = m.blocks.len();
				ensure!(prunable && *cutoff >= floor && *cutoff <= len, "harness:bad-history", "step {}: compaction at boundary {} outside [{}, {}] or on a non-prunable backend", si, cutoff, floor, len);
				// TxHashSet::compact: input_pos_to_rewind(horizon_header, head_header) = OR of the
				// input bitmaps of the blocks after the horizon; cutoff = horizon_header.output_mmr_size
				let bm = bitmap_of(m.blocks[*cutoff..].iter().flat_map(|b| b.removed.iter().copied()));
				let hs0 = backend.hash_size();
				backend.check_compact(m.size_at(*cutoff), &bm).map_err(|e| Fail::new("compact-err", format!("step {}: check_compact: {}", si, e)))?;
				let hs1 = backend.hash_size();
				floor = *cutoff;
				st.compactions += 1;
				// statistics: which leaves are now physically gone
				pruned.resize(m.n() as usize, false);
				let keep: BTreeSet<u64> = m.blocks[*cutoff..].iter().flat_map(|b| b.removed.iter().copied()).collect();
				for i in 0..m.n_at(*cutoff) as usize {
					if !m.alive[i] && !keep.contains(&(i as u64)) {
						pruned[i] = true;
					}
				}
				if hs1 < hs0 {
					st.eff_compactions += 1;
					st.hashes_removed += hs0 - hs1;
					if st.eff_compactions >= 2 && appended_since_eff {
						st.second_after_appends = true;
					}
					last_eff_cutoff_n = Some(m.n_at(*cutoff));
					appended_since_eff = false;
					// a whole peak (height >= 1) of the current MMR pruned?
					let mut start = 0u64;
					for k in (1..32).rev() {
						if m.n() & (1u64 << k) != 0 {
							if (start..start + (1u64 << k)).all(|i| pruned[i as usize]) {
								st.whole_peak_pruned = true;
							}
						}
						if m.n() & (1u64 << k) != 0 {
							start += 1u64 << k;
						}
					}
				}
				check_state(&mut backend, size, &m, &elems, prunable, true, &format!("step {} (after compaction at boundary {}, size {})", si, cutoff, m.size_at(*cutoff)))?;
			}
			XStep::Reopen | XStep::ReopenWithoutSizeFile => {
				drop(backend);
				if *step == XStep::ReopenWithoutSizeFile {
					ensure!(hist.var && !hist.var_prunable, "harness:bad-history", "step {}: only the non-prunable variable-size backend is reopened without its size file", si);
					let _ = std::fs::remove_file(dir.join("pmmr_size.bin"));
					st.size_file_rebuilt += 1;
				}
				backend = open_backend(dir, prunable)?;
				// PMMRHandle::new: size = backend.unpruned_size()
				let sz = backend.unpruned_size();
				let want = refmmr::ref_mmr_size(m.n()) as u64;
				ensure!(sz == want, "reopen-size", "step {}: unpruned_size() after reopen {} reference {}", si, sz, want);
				size = sz;
				st.reopen += 1;
				check_state(&mut backend, size, &m, &elems, prunable, true, &format!("step {} (after reopen)", si))?;
			}
		}
	}
	drop(backend);
	if counting {
		let ev = &ctx.ev;
		ev.eval();
		ev.class(if hist.var_prunable { "store:var_size_prunable_histories" } else if hist.var { "store:var_size_nonprunable_histories" } else { "store:fixed_size_prunable_histories" });
		if st.reopen > 0 {
			ev.class("store:histories_with_reopen");
		}
		if st.discard > 0 {
			ev.class("store:histories_with_discard");
		}
		if st.rewind > 0 {
			ev.class("store:histories_with_rewind");
		}
		if st.max_rewind_depth >= 4 {
			ev.class("store:histories_with_rewind_depth_ge4");
		}
		if st.rewind_noop > 0 {
			ev.class("store:histories_with_rewind_to_tip");
		}
		if st.multi_block_units > 0 {
			ev.class("store:histories_with_multi_block_unit");
		}
		if st.eff_compactions > 0 {
			ev.class("store:histories_with_effective_compaction");
		}
		if st.eff_compactions >= 2 {
			ev.class("store:histories_with_second_effective_compaction");
		}
		if st.whole_peak_pruned {
			ev.class("store:histories_with_whole_peak_pruned");
		}
		if st.size_file_rebuilt > 0 {
			ev.class("store:var_histories_with_size_file_rebuilt_on_open");
		}
		if hist.var && st.rewind > 0 {
			ev.class("store:var_histories_with_rewind");
		}
		ev.class(match st.max_leaves {
			0..=31 => "store:max_leaves_0_31",
			32..=127 => "store:max_leaves_32_127",
			128..=255 => "store:max_leaves_128_255",
			_ => "store:max_leaves_256_400",
		});
		if st.readded_removed_again > 0 {
			ev.class("store:histories_with_readded_leaf_removed_again");
		}
		if st.rewind_unspends_kept > 0 {
			ev.class("store:histories_rewind_unspends_leaf_kept_by_compaction");
		}
		ev.class_n("store:compactions", st.compactions as u64);
		ev.class_n("store:hashes_physically_removed", st.hashes_removed);
		ev.class_n("store:leaves_removed", st.removed_total);
		ev.class_n("store:state_checks_inside_unit", st.unsynced_checks as u64);
		let nontrivial = st.eff_compactions > 0 && (st.rewind_unspends_kept > 0 || st.second_after_appends);
		if nontrivial {
			ev.nontrivial(&(
				"store",
				st.rewind_unspends_kept.min(4),
				st.second_after_appends,
				st.eff_compactions.min(4),
				64 - st.max_leaves.leading_zeros(),
				64 - st.hashes_removed.leading_zeros(),
				st.whole_peak_pruned,
				st.reopen > 0,
				st.discard > 0,
				st.readded_removed_again.min(3),
				st.max_rewind_depth.min(6),
			));
			ev.class("store:nontrivial_histories");
			ev.sample("store", || serde_json::to_value(hist).unwrap());
		} else if hist.var && st.rewind > 0 && st.reopen > 0 {
			ev.sample("store-var", || serde_json::to_value(hist).unwrap());
		}
	}
	Ok(())
}

// ---------------------------------------------------------------- part "chain"

#[derive(Clone, Debug, Serialize, Deserialize)]
pub struct Second {
	/// every k-th filler block carries a spend (0: none)
	pub spend_every: u8,
	pub depth: u8,
	pub reopen: bool,
}

#[derive(Clone, Debug, Serialize, Deserialize)]
pub struct ChainCase {
	/// blocks added on top of the 90-block base chain before the compaction
	pub pre: Vec<RawBlock>,
	/// fork point: this many blocks below the head at compaction time (clamped to the horizon)
	pub depth: u8,
	/// the fork run has depth + extra blocks
	pub extra: u8,
	/// contents of the fork blocks (cycled)
	pub fork: Vec<RawBlock>,
	/// close and reopen the chain between the compaction and the fork
	pub reopen: bool,
	/// blocks added after the reorg
	pub post: Vec<RawBlock>,
	/// extend by >= 60 blocks, compact again, fork again
	pub second: Option<Second>,
	/// before the first compaction the node learns the header (not the body) of one further block: its
	/// header head is one ahead of its body head, as during header-first relay and sync. The horizon of
	/// the compaction is a matter of the BODY head
	#[serde(default)]
	pub header_ahead: bool,
}

fn chain_tx() -> impl Strategy<Value = RawTx> {
	(
		// spendable outputs are listed newest first: small picks spend outputs younger
		// than the horizon, large picks outputs older than the horizon
		prop::collection::vec(prop_oneof![3 => 0u16..6000, 3 => 40000u16..=65535, 1 => any::<u16>()], 1..=3),
		prop::collection::vec((0u8..6, 0u8..5).prop_map(|(amt, key)| RawOut { kind: 0, amt, key }), 1..=3),
		0u8..3,
		any::<bool>(),
	)
		.prop_map(|(ins, outs, fee, zero_offset)| RawTx {
			ins,
			outs,
			fee,
			kern: 0,
			zero_offset,
			chain_prev: false,
		})
}

fn chain_block(cb_keys: std::ops::Range<u8>) -> impl Strategy<Value = RawBlock> {
	(cb_keys, prop_oneof![1 => Just(0usize), 4 => Just(1usize), 2 => Just(2usize)].prop_flat_map(|n| prop::collection::vec(chain_tx(), n))).prop_map(|(cb_key, txs)| RawBlock {
		parent: 0,
		cb_key,
		txs,
		dt: 60,
		diff: 1,
		neg: Neg::None,
		neg_pick: 0,
			hdr: 0,
			inp: 0,
	})
}

pub fn chain_strategy(second_weight: f64) -> impl Strategy<Value = ChainCase> {
	(
		prop::collection::vec(chain_block(0..2), 0..=5),
		prop_oneof![3 => 1u8..=5, 3 => 6u8..=17, 2 => 18u8..=20],
		1u8..=2,
		prop::collection::vec(chain_block(2..3), 1..=4),
		prop::bool::weighted(0.4),
		prop::collection::vec(chain_block(0..2), 0..=2),
		prop::option::weighted(second_weight, (0u8..4, 1u8..=20, any::<bool>()).prop_map(|(spend_every, depth, reopen)| Second { spend_every, depth, reopen })),
		prop::bool::weighted(0.3),
	)
		.prop_map(|(pre, depth, extra, fork, reopen, post, second, header_ahead)| ChainCase {
			pre,
			depth,
			extra,
			fork,
			reopen,
			post,
			second,
			header_ahead,
		})
}

type RootsT = (Hash, Hash, Hash, Hash);

fn roots_of(cb: &ChainBox) -> Result<RootsT, Fail> {
	let ts = cb.c().txhashset();
	let ts = ts.read();
	let r = ts.roots().map_err(|e| Fail::new("roots-err", format!("{:?}", e)))?;
	Ok((r.output_roots.pmmr_root, r.output_roots.bitmap_root, r.rproof_root, r.kernel_root))
}

struct ChainRun {
	cb: ChainBox,
	w: crate::world::gen::World,
	head: usize,
	reorgs: u32,
	max_reorg_depth: u64,
	blocks: u32,
	spends: u32,
	status_differs: bool,
}

impl ChainRun {
	/// add one model-valid block; it must be accepted, and the chain's fork choice must follow total work
	fn add(&mut self, raw: &RawBlock, what: &str) -> PResult {
		let head_h = self.w.nodes[self.head].height();
		let built = self.w.build(self.cb.c(), raw, self.head).map_err(|e| {
			// the builder roots the block with Chain::set_txhashset_roots, i.e. the chain itself rewinds to the
			// fork point and applies the block in a read-only extension: if that fails for a model-valid
			// block the chain cannot follow this fork any more
			if e.contains("could not root a model-valid block") {
				Fail::new(
					if raw.parent == 0 { "valid-block-cannot-be-rooted" } else { "inhorizon-fork-cannot-be-applied" },
					format!("{} (head h={}, min parent height {}): {}", what, head_h, self.w.min_parent_height, e),
				)
			} else {
				Fail::new("harness:builder", format!("{}: {}", what, e))
			}
		})?;
		let model = match &built.verdict {
			Ok(m) => m.clone(),
			Err(e) => fail!("harness:builder-invalid", "{}: builder produced a block the model refuses: {:?}", what, e),
		};
		let old_head = self.head;
		let old_td = self.w.nodes[old_head].block.header.total_difficulty();
		let res = self.cb.c().process_block(built.block.clone(), opts(PowMode::Real));
		match res {
			Err(e) => {
				let on_head = built.parent == old_head;
				fail!(
					if on_head { "valid-block-rejected" } else { "inhorizon-fork-block-rejected" },
					"{}: model-valid block h={} ({} inputs, parent node {} at h={}, head h={}) rejected: {}",
					what,
					built.block.header.height,
					built.n_spends,
					built.parent,
					self.w.nodes[built.parent].height(),
					self.w.nodes[old_head].height(),
					err_name(&e)
				);
			}
			Ok(tip) => {
				let n = self.w.push(&built, model);
				self.blocks += 1;
				self.spends += built.n_spends as u32;
				let more_work = built.block.header.total_difficulty() > old_td;
				ensure!(
					tip.is_some() == more_work,
					if more_work { "reorg-refused" } else { "head-moved-without-more-work" },
					"{}: block h={} total difficulty {} vs head {}: process_block returned tip {:?}",
					what,
					built.block.header.height,
					built.block.header.total_difficulty(),
					old_td,
					tip.map(|t| t.height)
				);
				if tip.is_some() {
					self.head = n;
					if built.parent != old_head {
						self.reorgs += 1;
						let mut a = old_head;
						let mut d = 0;
						while !self.w.is_ancestor(a, n) {
							a = self.w.nodes[a].parent;
							d += 1;
						}
						self.max_reorg_depth = self.max_reorg_depth.max(d);
						let (ma, mb) = (&self.w.nodes[old_head].model.utxo, &self.w.nodes[n].model.utxo);
						if ma.keys().any(|k| !mb.contains_key(k)) {
							self.status_differs = true;
						}
					}
				}
			}
		}
		Ok(())
	}

	/// compaction with the before/after comparison of the statement
	fn compact(&mut self, what: &str) -> Result<bool, Fail> {
		let cb = &self.cb;
		c02::scan(cb, &self.w, &format!("{}: before compaction", what))?;
		let head0 = cb.c().head().map_err(|e| Fail::new("head-err", format!("{:?}", e)))?;
		let hhead0 = cb.c().header_head().map_err(|e| Fail::new("head-err", format!("{:?}", e)))?;
		let roots0 = roots_of(cb)?;
		let val0 = cb.c().validate(false);
		if let Err(e) = &val0 {
			fail!("validate-failed-before-compaction", "{}: validate(false) before compaction: {:?}", what, e);
		}
		let tail0 = cb.c().tail().map(|t| t.height).unwrap_or(0);
		cb.c().compact().map_err(|e| Fail::new("compact-err", format!("{}: {:?}", what, e)))?;
		let tail1 = cb.c().tail().map(|t| t.height).unwrap_or(0);
		let head1 = cb.c().head().map_err(|e| Fail::new("head-err", format!("{:?}", e)))?;
		let hhead1 = cb.c().header_head().map_err(|e| Fail::new("head-err", format!("{:?}", e)))?;
		ensure!(
			head0.last_block_h == head1.last_block_h && head0.height == head1.height && head0.total_difficulty == head1.total_difficulty,
			"compaction-changed-head",
			"{}: head before {:?} after {:?}",
			what,
			head0,
			head1
		);
		ensure!(hhead0.last_block_h == hhead1.last_block_h, "compaction-changed-header-head", "{}: header head before {:?} after {:?}", what, hhead0, hhead1);
		let roots1 = roots_of(cb)?;
		ensure!(roots0 == roots1, "compaction-changed-roots", "{}: roots before {:?} after {:?}", what, roots0, roots1);
		c02::scan(cb, &self.w, &format!("{}: after compaction", what))?;
		if let Err(e) = cb.c().validate(false) {
			fail!("compaction-broke-validation", "{}: validate(false) Ok before compaction, after: {:?}", what, e);
		}
		let effective = tail1 != tail0;
		if effective {
			let horizon = grin_core::global::cut_through_horizon() as u64;
			let hh = head1.height;
			self.w.min_parent_height = self.w.min_parent_height.max(hh.saturating_sub(horizon));
		}
		Ok(effective)
	}

	/// a fork run that branches `depth` blocks below the head (inside the horizon) and has `len` blocks
	fn fork_run(&mut self, depth: u8, len: usize, contents: &[RawBlock], what: &str) -> Result<u64, Fail> {
		let hh = self.w.nodes[self.head].height();
		let d = (depth as u64).min(hh.saturating_sub(self.w.min_parent_height)).max(1);
		for i in 0..len {
			let mut raw = contents[i % contents.len()].clone();
			raw.parent = if i == 0 { 100 + d as u8 } else { 1 };
			raw.cb_key = 2;
			raw.neg = Neg::None;
			self.add(&raw, &format!("{}: fork block {} of {} (fork point {} below the head h={})", what, i + 1, len, d, hh))?;
		}
		Ok(d)
	}
}

pub fn check_chain(ctx: &Ctx, case: &ChainCase, counting: bool) -> PResult {
	init_thread();
	let (cb, w, head) = c02::open_case(ctx, true)?;
	let mut run = ChainRun {
		cb,
		w,
		head,
		reorgs: 0,
		max_reorg_depth: 0,
		blocks: 0,
		spends: 0,
		status_differs: false,
	};
	for (i, raw) in case.pre.iter().enumerate() {
		let mut raw = raw.clone();
		raw.parent = 0;
		raw.neg = Neg::None;
		run.add(&raw, &format!("pre block {}", i))?;
	}
	let spends_pre = run.spends;
	if case.header_ahead {
		// the header of the next block arrives before its body (the body never does)
		let raw = RawBlock { parent: 0, cb_key: 3, txs: vec![], dt: 60, diff: 1, neg: Neg::None, neg_pick: 0, hdr: 0, inp: 0 };
		let built = run.w.build(run.cb.c(), &raw, run.head).map_err(|e| Fail::new("harness:builder", format!("header ahead: {}", e)))?;
		run.cb.c().process_block_header(&built.block.header, opts(PowMode::Real)).map_err(|e| Fail::new("valid-header-rejected", format!("header of the next block: {}", err_name(&e))))?;
		if counting {
			ctx.ev.class("chain:compaction_with_header_head_ahead_of_body_head");
		}
	}
	let eff1 = run.compact("first compaction")?;
	if case.reopen {
		let roots = roots_of(&run.cb)?;
		run.cb.reopen_classified(false)?;
		ensure!(roots_of(&run.cb)? == roots, "reopen-after-compaction-changed-roots", "roots differ after reopening the compacted chain");
		c02::scan(&run.cb, &run.w, "after reopen of the compacted chain")?;
	}
	let reorgs0 = run.reorgs;
	let d = run.fork_run(case.depth, case.depth as usize + case.extra.max(1) as usize, &case.fork, "after first compaction")?;
	let reorg1 = run.reorgs > reorgs0;
	c02::scan(&run.cb, &run.w, "after the in-horizon fork run")?;
	if let Err(e) = run.cb.c().validate(false) {
		fail!("validate-failed-after-reorg", "validate(false) after the in-horizon reorg: {:?}", e);
	}
	for (i, raw) in case.post.iter().enumerate() {
		let mut raw = raw.clone();
		raw.parent = 0;
		raw.neg = Neg::None;
		run.add(&raw, &format!("post block {}", i))?;
	}
	if !case.post.is_empty() {
		c02::scan(&run.cb, &run.w, "after post blocks")?;
	}
	let mut eff2 = false;
	let mut reorg2 = false;
	if let Some(sec) = &case.second {
		// Chain::compact runs again once head >= tail + horizon + 60
		let horizon = grin_core::global::cut_through_horizon() as u64;
		let mut k = 0u64;
		loop {
			let tail = run.cb.c().tail().map(|t| t.height).unwrap_or(0);
			let hh = run.w.nodes[run.head].height();
			if hh >= tail + horizon + 60 + 2 || k > 200 {
				break;
			}
			let txs = if sec.spend_every > 0 && k % sec.spend_every as u64 == 0 {
				vec![RawTx {
					ins: vec![if k % 2 == 0 { 500 } else { 60000 }],
					outs: vec![RawOut { kind: 0, amt: (k % 6) as u8, key: (k % 5) as u8 }, RawOut { kind: 0, amt: 0, key: ((k + 1) % 5) as u8 }],
					fee: 0,
					kern: 0,
					zero_offset: k % 2 == 0,
					chain_prev: false,
				}]
			} else {
				vec![]
			};
			run.add(
				&RawBlock {
					parent: 0,
					cb_key: 0,
					txs,
					dt: 60,
					diff: 1,
					neg: Neg::None,
					neg_pick: 0,
			hdr: 0,
			inp: 0,
				},
				&format!("filler block {}", k),
			)?;
			k += 1;
		}
		eff2 = run.compact("second compaction")?;
		if sec.reopen {
			run.cb.reopen_classified(false)?;
			c02::scan(&run.cb, &run.w, "after reopen of the twice compacted chain")?;
		}
		let r0 = run.reorgs;
		run.fork_run(sec.depth, sec.depth as usize + 1, &case.fork, "after second compaction")?;
		reorg2 = run.reorgs > r0;
		c02::scan(&run.cb, &run.w, "after the fork run following the second compaction")?;
		if let Err(e) = run.cb.c().validate(false) {
			fail!("validate-failed-after-reorg", "validate(false) after the reorg following the second compaction: {:?}", e);
		}
	}
	if counting {
		let ev = &ctx.ev;
		ev.eval();
		ev.class("chain:cases");
		if eff1 {
			ev.class("chain:first_compaction_effective");
		}
		if reorg1 {
			ev.class("chain:reorg_after_compaction");
		}
		if reorg1 && d >= 10 {
			ev.class("chain:reorg_depth_ge10_after_compaction");
		}
		if reorg1 && d == grin_core::global::cut_through_horizon() as u64 {
			ev.class("chain:reorg_from_the_horizon_block");
		}
		if case.reopen {
			ev.class("chain:reopen_between_compaction_and_reorg");
		}
		if eff2 {
			ev.class("chain:second_compaction_effective");
		}
		if reorg2 {
			ev.class("chain:reorg_after_second_compaction");
		}
		ev.class_n("chain:blocks_accepted", run.blocks as u64);
		ev.class_n("chain:spends_in_accepted_blocks", run.spends as u64);
		if eff1 && reorg1 && run.status_differs {
			ev.nontrivial(&("chain", d, case.extra, case.reopen, case.pre.len(), spends_pre.min(8), run.spends.min(16), eff2, reorg2));
			ev.class("chain:nontrivial_cases");
			ev.sample("chain", || serde_json::to_value(case).unwrap());
		}
	}
	Ok(())
}

// ---------------------------------------------------------------- entry points

pub fn run(ctx: &Ctx) -> HResult<()> {
	init_global();
	let ev = &ctx.ev;
	ev.rule("part store: histories (<=40 steps, <=400 leaves) of units of work [stepwise rewind to an earlier block boundary]? ; blocks (appends, then removals of live older leaves in shaped patterns: sibling pair / whole subtree of height 1-4 / whole peak / alternating leaves / leaves re-added by a rewind / everything before a boundary / a few / nothing) ; sync|discard, interleaved with check_compact at an earlier boundary and reopen, on a prunable FixElem backend (80%) or a non-prunable VarElem backend (20%, no removals/compaction); after every unit (before and after sync/discard), compaction and reopen the whole observable state (root, size, peaks, data+hash+Merkle proof of every live leaf, None for removed leaves, leaf set, validate) is compared with an unpruned reference (refmmr, own blake2b). Non-trivial store history = a compaction that physically removed >=1 hash followed by a rewind that un-spends a leaf lying before that cutoff (kept only because of rewind_rm_pos), or by appends and a second effective compaction; distinct by (un-spending rewinds, second compaction, #effective compactions, log2 leaves, log2 hashes removed, whole peak pruned, reopen, discard, re-added leaf removed again, rewind depth). part chain: base chain (90 real-PoW blocks) + blocks spending outputs older and younger than the horizon, Chain::compact (head/roots/unspent scan/validate(false) before=after), optional reopen, fork run from 1..20 blocks below the head with more work (every block must be accepted, fork choice must follow total work, scan against the model), optional >=60 more blocks + second compaction + second fork; non-trivial chain case = effective compaction followed by a reorg where some output's status differs between the tips.");
	ev.assume("usage protocol derived from chain/src/txhashset/txhashset.rs: one PMMR::at(&mut backend, handle.size) per unit (Extension::new); rewind only first in a unit and block by block, each step with the bitmap of the 1-based positions THAT block spent (Extension::rewind -> rewind_single_block -> rewind_mmrs_to_pos; rewinding to the current tip passes an empty bitmap); a block pushes its outputs, then prunes inputs through PMMR::prune, never its own outputs (apply_block, apply_input; verify_cut_through); commit = backend.sync(), rollback = backend.discard() (extending); the handle size is only advanced on commit and is backend.unpruned_size() after open (PMMRHandle::new)");
	ev.assume("compaction protocol (TxHashSet::compact, Chain::compact): check_compact(cutoff = output_mmr_size of a block on the current branch that is already synced, rewind_rm_pos = OR of the spent-position bitmaps of the blocks after it) only between units; cutoffs never decrease; HORIZON RULE: no later rewind goes below the highest cutoff ever compacted at (the chain never reorganises past its horizon); the variable-size MMR is never pruned or compacted (kernels)");
	ev.assume("blake2b (blake2-rfc) and the harness's reference forest are trusted; hash collisions are treated as impossible; for the non-prunable backend leaf_pos_iter is unimplemented and n_unpruned_leaves answers from the synced size, so it is only compared at synced points");
	ev.assume("chain part: the harness's replay model (c02 scan) is the oracle for the unspent set; a fork point exactly horizon blocks below the head counts as inside the horizon (Chain::check_txhashset_needed uses fork_point.height < head - horizon for 'beyond')");

	// part store
	let cases = ctx.n(4800, 40000);
	if let Some(fl) = pbt_par(ctx, "store", cases, 16, store_strategy, init_thread, |raw, counting| check_store(ctx, &resolve(raw), counting)) {
		let hist = resolve(&fl.value);
		ctx.report("store", &fl.fail.sig, serde_json::to_value(&hist).unwrap(), &fl.fail.msg);
	}
	ev.extra("store_wall_s", json!(ctx.start.elapsed().as_secs_f64()));

	// part chain
	let t1 = std::time::Instant::now();
	let ccases = ctx.n(32, 320);
	// directed: the block just inside the horizon (head - 19) spends a sibling pair of the oldest outputs,
	// the header head is one ahead at compaction time, then a fork from the horizon (depth 20) wins
	{
		let old_pair = RawBlock {
			parent: 0,
			cb_key: 0,
			txs: vec![RawTx { ins: vec![65535, 65534], outs: vec![RawOut { kind: 0, amt: 1, key: 1 }], fee: 1, kern: 0, zero_offset: false, chain_prev: false }],
			dt: 60,
			diff: 1,
			neg: Neg::None,
			neg_pick: 0,
			hdr: 0,
			inp: 0,
		};
		let empty = |k: u8| RawBlock { parent: 0, cb_key: k, txs: vec![], dt: 60, diff: 1, neg: Neg::None, neg_pick: 0, hdr: 0, inp: 0 };
		let mut pre = vec![old_pair];
		pre.extend((0..19).map(|_| empty(0)));
		let directed = ChainCase { pre, depth: 20, extra: 1, fork: vec![empty(2)], reopen: false, post: vec![], second: None, header_ahead: true };
		if c02::base(ctx).is_ok() {
			if let Ok(Err(f)) | Err(f) = catch(|| check_chain(ctx, &directed, true)) {
				ctx.report("chain", &f.sig, serde_json::to_value(&directed).unwrap(), &f.msg);
			}
		}
	}
	if let Some((case, f)) = pbt_proc(ctx, "chain", ccases, 16) {
		ctx.report("chain", &f.sig, case, &f.msg);
	}
	ev.extra("chain_wall_s", json!(t1.elapsed().as_secs_f64()));

	for cl in [
		"store:histories_with_reopen",
		"store:histories_with_discard",
		"store:histories_with_rewind",
		"store:histories_with_effective_compaction",
		"store:histories_with_second_effective_compaction",
		"store:histories_with_whole_peak_pruned",
		"store:var_size_nonprunable_histories",
		"store:histories_rewind_unspends_leaf_kept_by_compaction",
		"chain:first_compaction_effective",
		"chain:reorg_after_compaction",
	] {
		if ev.class_count(cl) == 0 {
			eprintln!("warning: class {} is empty in this run", cl);
		}
	}
	Ok(())
}

pub fn part(ctx: &Ctx, part: &str, seed: u64, cases: u32) -> Option<(Value, Fail)> {
	init_global();
	match part {
		"chain" => {
			if let Err(e) = c02::base(ctx) {
				return Some((json!({}), Fail::new("harness:base", e)));
			}
			let strat = chain_strategy(if ctx.quick() { 0.12 } else { 0.25 });
			run_part(ctx, seed, cases, &strat, |c, counting| check_chain(ctx, c, counting))
		}
		_ => None,
	}
}

pub fn replay(ctx: &Ctx, part: &str, case: &Value) -> PResult {
	init_global();
	match part {
		"store" => {
			let hcase: History = serde_json::from_value(case.clone()).map_err(|e| Fail::new("harness:replay-parse", e.to_string()))?;
			match check_store(ctx, &hcase, false) {
				Err(f) if f.sig == "harness:bad-history" => {
					// a stored history that leaves the usage protocol says nothing about the property
					eprintln!("C08 replay: history is outside the usage protocol and was skipped: {}", f.msg);
					Ok(())
				}
				r => r,
			}
		}
		"chain" => {
			let c: ChainCase = serde_json::from_value(case.clone()).map_err(|e| Fail::new("harness:replay-parse", e.to_string()))?;
			check_chain(ctx, &c, false)
		}
		_ => Ok(()),
	}
}

/// `gv child x C08 <args...>` — unused
pub fn child(_args: &[String]) -> i32 {
	2
}
