//! C08 — not built yet (stub).

use crate::engine::*;
use serde_json::Value;

pub fn run(_ctx: &Ctx) -> HResult<()> {
	Err(HarnessError("C08 check not built yet".into()))
}

pub fn replay(_ctx: &Ctx, _part: &str, _case: &Value) -> PResult {
	Ok(())
}

pub fn part(_ctx: &Ctx, _part: &str, _seed: u64, _cases: u32) -> Option<(Value, Fail)> {
	None
}

/// `gv child x C08 <args...>`
pub fn child(_args: &[String]) -> i32 {
	2
}
