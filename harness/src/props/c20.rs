//! C20 — keys, commitments and range-proof rewind are deterministic and
//! recoverable; blinding arithmetic is consistent; builder output validates.
//!
//! Parts (each with its own serde case type, used by `run` and `replay`):
//!  * `proof`   — seed × path × amount × switch × builder generation: derivation and
//!                commitment determinism, proof verifies, rewind with same seed /
//!                view key / other seed / bit-flipped proof.
//!  * `arith`   — BlindingFactor::split / add, Keychain::blind_sum against a
//!                reference implementation of arithmetic modulo the group order.
//!  * `builder` — build::transaction / build::partial_transaction (one and two
//!                parties) on balanced multisets → validate, kernel verify, rewind.
//!  * `reward`  — reward::output balances against consensus::reward(fees).

use crate::engine::*;
use crate::world::{init_global, init_thread, scalar_from, sign_kernel};
use crate::{ensure, fail};
use grin_core::consensus;
use grin_core::core::{Committed, FeeFields, KernelFeatures, Transaction, Weighting};
use grin_core::libtx::build::{self, Append};
use grin_core::libtx::proof::{self, LegacyProofBuilder, ProofBuild, ProofBuilder};
use grin_core::libtx::reward;
use grin_keychain::extkey_bip32::ChildNumber;
use grin_keychain::{
	BlindSum, BlindingFactor, ExtKeychain, ExtKeychainPath, Identifier, Keychain, SwitchCommitmentType, ViewKey,
};
use grin_util::secp::key::SecretKey;
use grin_util::secp::pedersen::{Commitment, RangeProof};
use grin_util::secp::{ContextFlag, Secp256k1};
use grin_util::{from_hex, ToHex};
use proptest::prelude::*;
use serde_derive::{Deserialize, Serialize};
use serde_json::{json, Value};

// ------------------------------------------------------------------ helpers

thread_local! {
	/// the harness's own libsecp context (independent of the keychain's)
	static SECP: Secp256k1 = Secp256k1::with_caps(ContextFlag::Commit);
	/// fixed keychain used for key-id terms of arithmetic cases
	static ARITH_KC: ExtKeychain = ExtKeychain::from_seed(b"gv c20 arithmetic keychain seed", false).expect("arith keychain");
}

fn unhex(s: &str) -> Result<Vec<u8>, Fail> {
	from_hex(s).map_err(|e| Fail::new("harness:hex", e))
}

fn unhex32(s: &str) -> Result<[u8; 32], Fail> {
	let v = unhex(s)?;
	ensure!(v.len() == 32, "harness:hex", "scalar of {} bytes", v.len());
	let mut a = [0u8; 32];
	a.copy_from_slice(&v);
	Ok(a)
}

fn sw(regular: bool) -> SwitchCommitmentType {
	if regular {
		SwitchCommitmentType::Regular
	} else {
		SwitchCommitmentType::None
	}
}

fn word(path: &[u32], i: usize) -> u32 {
	path.get(i).copied().unwrap_or(0)
}

fn key_id(depth: u8, path: &[u32]) -> Identifier {
	ExtKeychainPath::new(depth.min(4), word(path, 0), word(path, 1), word(path, 2), word(path, 3)).to_identifier()
}

/// the part of an identifier that determines the derived key
fn eff_path(id: &Identifier) -> (u8, Vec<u32>) {
	let p = id.to_path();
	(p.depth, (0..p.depth.min(4) as usize).map(|i| u32::from(p.path[i])).collect())
}

fn hardened_mask(depth: u8, path: &[u32]) -> u8 {
	(0..depth.min(4) as usize).fold(0u8, |m, i| m | (((word(path, i) >> 31) as u8) << i))
}

fn amount_class(a: u64) -> &'static str {
	match a {
		0 => "0",
		1 => "1",
		x if x == 1 << 32 => "2^32",
		x if x == 1 << 52 => "2^52",
		u64::MAX => "2^64-1",
		x if x < 1 << 32 => "lt2^32",
		x if x < 1 << 52 => "lt2^52",
		_ => "ge2^52",
	}
}

fn other_seed(seed: &[u8], other: Vec<u8>) -> Vec<u8> {
	if other == seed {
		let mut o = other;
		o[0] ^= 1;
		o
	} else {
		other
	}
}

fn keychain(seed: &[u8]) -> Result<ExtKeychain, Fail> {
	ExtKeychain::from_seed(seed, false).map_err(|e| Fail::new("from_seed-err", format!("from_seed({}): {:?}", seed.to_hex(), e)))
}

type Triple = (u64, Identifier, SwitchCommitmentType);

fn triple_str(t: &Triple) -> String {
	format!("(amount {}, id {}, {:?})", t.0, t.1.to_hex(), t.2)
}

// ------------------------------------------------------------------ strategies

fn child() -> impl Strategy<Value = u32> {
	prop_oneof![
		2 => Just(0u32),
		1 => Just(1u32),
		3 => 0u32..1000,
		1 => Just((1u32 << 31) - 1),
		1 => Just(1u32 << 31),
		2 => (0u32..1000).prop_map(|x| x | (1 << 31)),
		1 => Just(u32::MAX),
		2 => 0u32..(1 << 31),
		3 => any::<u32>(),
	]
}

fn amount() -> impl Strategy<Value = u64> {
	prop_oneof![
		2 => Just(0u64),
		2 => Just(1u64),
		2 => Just(1u64 << 32),
		2 => Just(1u64 << 52),
		2 => Just(u64::MAX),
		3 => 2u64..(1 << 20),
		3 => (1u32..64, 0u64..3).prop_map(|(k, d)| (1u64 << k).wrapping_add(d).wrapping_sub(1)),
		2 => 0u64..(1 << 52),
		5 => any::<u64>(),
	]
}

fn seed_bytes() -> impl Strategy<Value = Vec<u8>> {
	// from_seed takes any byte string: the usual 16..=64 bytes, shorter ones, and seeds longer than
	// one SHA-512 half-block / the 64 bytes of a mnemonic seed (whose tail must count as well)
	prop_oneof![
		6 => prop::collection::vec(any::<u8>(), 16..=64),
		1 => prop::collection::vec(any::<u8>(), 1..16),
		3 => prop::collection::vec(any::<u8>(), 65..=200),
	]
}

/// a seed and a different seed: independent, one bit apart, or one byte longer/shorter
fn seed_pair() -> impl Strategy<Value = (Vec<u8>, Vec<u8>)> {
	(seed_bytes(), seed_bytes(), 0u8..4, any::<u16>()).prop_map(|(s, r, kind, bit)| {
		let o = match kind {
			0 | 1 => r,
			2 => {
				let mut o = s.clone();
				let b = (bit as usize * (o.len() * 8)) >> 16;
				o[b / 8] ^= 1 << (b % 8);
				o
			}
			_ => {
				let mut o = s.clone();
				if bit % 2 == 0 || o.len() < 2 {
					o.push((bit >> 8) as u8);
				} else {
					o.pop();
				}
				o
			}
		};
		let o = other_seed(&s, o);
		(s, o)
	})
}

/// (depth, 4 words); words beyond the depth are zero unless `noncanon`
fn key_path(min_depth: u8) -> impl Strategy<Value = (u8, Vec<u32>)> {
	(min_depth..=4u8, [child(), child(), child(), child()], prop::bool::weighted(0.1)).prop_map(|(d, w, noncanon)| {
		let mut w = w.to_vec();
		if !noncanon {
			for x in w.iter_mut().skip(d as usize) {
				*x = 0;
			}
		}
		(d, w)
	})
}

// ------------------------------------------------------------------ part: proof

#[derive(Clone, Debug, Serialize, Deserialize)]
pub struct ProofCase {
	/// seed bytes (hex)
	pub seed: String,
	/// a different seed (hex)
	pub other_seed: String,
	pub depth: u8,
	/// the four 32-bit words of the identifier (bit 31 = hardened)
	pub path: Vec<u32>,
	pub amount: u64,
	pub switch_regular: bool,
	/// LegacyProofBuilder (only generated with depth 3 and the regular switch)
	pub legacy: bool,
	/// depth of the view key (clamped to `depth`)
	pub vk_depth: u8,
	/// view key created from the privately derived child instead of ckd_pub from the root
	pub vk_from_priv: bool,
	/// flip a bit of the `mu` scalar (which carries amount and message) instead of anywhere
	pub flip_mu: bool,
	pub flip: u16,
}

fn proof_strategy() -> impl Strategy<Value = ProofCase> {
	(
		seed_pair(),
		key_path(0),
		amount(),
		any::<bool>(),
		prop::bool::weighted(0.2),
		(0u8..=4, any::<bool>()),
		(prop::bool::weighted(0.6), any::<u16>()),
	)
		.prop_map(|((s, o), (depth, path), amount, switch_regular, legacy, (vk_depth, vk_from_priv), (flip_mu, flip))| {
			// the legacy message format carries neither depth nor switch type:
			// check_output assumes depth 3 and the regular switch (proof.rs:324,332)
			let (depth, switch_regular) = if legacy { (3, true) } else { (depth, switch_regular) };
			ProofCase {
				seed: s.to_hex(),
				other_seed: o.to_hex(),
				depth,
				path,
				amount,
				switch_regular,
				legacy,
				vk_depth,
				vk_from_priv,
				flip_mu,
				flip,
			}
		})
}

/// create → verify → rewind(same seed) → rewind(other seed) → rewind(flipped)
fn roundtrip<B0: ProofBuild, B1: ProofBuild, B2: ProofBuild>(
	ctx: &Ctx,
	kc: &ExtKeychain,
	b_create: &B0,
	b_same: &B1,
	b_other: &B2,
	want: &Triple,
	commit: Commitment,
	flip: Option<(bool, u16)>,
	counting: bool,
) -> Result<RangeProof, Fail> {
	let ev = &ctx.ev;
	let secp = kc.secp();
	let (amount, id, switch) = (want.0, &want.1, want.2);
	let proof = proof::create(kc, b_create, amount, id, switch, commit, None).map_err(|e| Fail::new("proof-create-err", format!("create {}: {:?}", triple_str(want), e)))?;
	if let Err(e) = proof::verify(secp, commit, proof, None) {
		fail!("honest-proof-rejected", "proof for {} does not verify: {:?}", triple_str(want), e);
	}
	match proof::rewind(secp, b_same, commit, None, proof) {
		Ok(Some(got)) => {
			ensure!(got.0 == amount, "rewind-amount", "rewind gave {} for {}", triple_str(&got), triple_str(want));
			ensure!(got.1 == *id, "rewind-path", "rewind gave {} for {}", triple_str(&got), triple_str(want));
			ensure!(got.2 == switch, "rewind-switch", "rewind gave {} for {}", triple_str(&got), triple_str(want));
		}
		Ok(None) => fail!("rewind-none", "rewind with the same seed recovered nothing for {}", triple_str(want)),
		Err(e) => fail!("rewind-err", "rewind with the same seed failed for {}: {:?}", triple_str(want), e),
	}
	match proof::rewind(secp, b_other, commit, None, proof) {
		Ok(None) => {}
		Ok(Some(got)) => fail!("other-seed-rewinds", "builder of another seed recovered {} from the proof for {}", triple_str(&got), triple_str(want)),
		Err(_) => {
			if counting {
				ev.class("other_seed_rewind_returned_err");
			}
		}
	}
	if let Some((flip_mu, flip)) = flip {
		let mut p2 = proof;
		let bit = if flip_mu {
			// mu = proof[32..64]; amount and message are read from mu + rho*x + alpha
			256 + ((flip as usize * 256) >> 16)
		} else {
			(flip as usize * (p2.plen * 8)) >> 16
		};
		p2.proof[bit / 8] ^= 1 << (bit % 8);
		match proof::rewind(secp, b_same, commit, None, p2) {
			Ok(Some(got)) => {
				// only the key-determining part of the identifier can be compared:
				// words beyond the depth do not influence the commitment
				ensure!(
					got.0 == amount && got.2 == switch && eff_path(&got.1) == eff_path(id),
					"flipped-proof-rewinds-different",
					"proof with bit {} flipped rewinds to {} instead of {}",
					bit,
					triple_str(&got),
					triple_str(want)
				);
				if counting {
					ev.class(if got.1 == *id { "flipped_rewind_same_triple" } else { "flipped_rewind_same_key_other_padding" });
				}
			}
			Ok(None) | Err(_) => {
				if counting {
					ev.class("flipped_rewind_nothing");
				}
			}
		}
	}
	Ok(proof)
}

pub fn check_proof(ctx: &Ctx, c: &ProofCase, counting: bool) -> PResult {
	let ev = &ctx.ev;
	let seed = unhex(&c.seed)?;
	ensure!(!seed.is_empty(), "harness:case", "empty seed");
	let other = other_seed(&seed, unhex(&c.other_seed)?);
	let depth = c.depth.min(4);
	let id = key_id(depth, &c.path);
	let switch = sw(c.switch_regular);
	let amount = c.amount;
	let want: Triple = (amount, id.clone(), switch);

	// two independently constructed keychains + one of another seed
	let kc1 = keychain(&seed)?;
	let kc2 = keychain(&seed)?;
	let kco = keychain(&other)?;
	let derr = |e| Fail::new("derive-err", format!("derive_key {}: {:?}", triple_str(&want), e));
	let k1 = kc1.derive_key(amount, &id, switch).map_err(derr)?;
	let k2 = kc2.derive_key(amount, &id, switch).map_err(derr)?;
	ensure!(k1 == k2, "derive-nondeterministic", "two keychains of seed {} derive different keys for {}", c.seed, triple_str(&want));
	// state must not leak between derivations on one keychain
	let _ = kc1.derive_key(amount ^ 1, &key_id(4 - depth, &[7, 1 << 31, 3, c.path.len() as u32]), sw(!c.switch_regular));
	let k1b = kc1.derive_key(amount, &id, switch).map_err(derr)?;
	ensure!(k1 == k1b, "derive-nondeterministic", "repeated derive_key differs for {}", triple_str(&want));
	let cerr = |e| Fail::new("commit-err", format!("commit {}: {:?}", triple_str(&want), e));
	let commit = kc1.commit(amount, &id, switch).map_err(cerr)?;
	let commit2 = kc2.commit(amount, &id, switch).map_err(cerr)?;
	ensure!(commit == commit2, "commit-nondeterministic", "two keychains of seed {} commit differently for {}", c.seed, triple_str(&want));
	let own = SECP.with(|s| s.commit(amount, k1.clone())).map_err(|e| Fail::new("commit-err", format!("own commit: {:?}", e)))?;
	ensure!(own == commit, "commit-not-amount-key", "Keychain::commit differs from amount*H + derive_key*G for {}", triple_str(&want));
	let commit_o = kco.commit(amount, &id, switch).map_err(cerr)?;
	ensure!(commit_o != commit, "other-seed-same-commit", "seeds {} and {} give the same commitment for {}", c.seed, other.to_hex(), triple_str(&want));

	let flip = Some((c.flip_mu, c.flip));
	let proof = if c.legacy {
		let (b0, b1, b2) = (LegacyProofBuilder::new(&kc1), LegacyProofBuilder::new(&kc2), LegacyProofBuilder::new(&kco));
		roundtrip(ctx, &kc1, &b0, &b1, &b2, &want, commit, flip, counting)?
	} else {
		let (b0, b1, b2) = (ProofBuilder::new(&kc1), ProofBuilder::new(&kc2), ProofBuilder::new(&kco));
		roundtrip(ctx, &kc1, &b0, &b1, &b2, &want, commit, flip, counting)?
	};

	// view keys share the rewind nonce of ProofBuilder only
	let mut vk_class = "viewkey_not_applicable_legacy";
	if !c.legacy {
		let secp = kc2.secp();
		let vd = c.vk_depth.min(depth) as usize;
		let mut h = kc2.hasher();
		let verr = |e| Fail::new("viewkey-create-err", format!("{:?}", e));
		let vk = if c.vk_from_priv {
			let mut ext = kc2.master.clone();
			for i in 0..vd {
				ext = ext.ckd_priv(secp, &mut h, ChildNumber::from(word(&c.path, i))).map_err(|e| Fail::new("derive-err", format!("ckd_priv: {:?}", e)))?;
			}
			Some(ViewKey::create(&kc2, ext, &mut h, false).map_err(verr)?)
		} else {
			let mut vk = Some(ViewKey::create(&kc2, kc2.master.clone(), &mut h, false).map_err(verr)?);
			for i in 0..vd {
				let cn = ChildNumber::from(word(&c.path, i));
				match vk.as_ref().unwrap().ckd_pub(secp, &mut h, cn) {
					Ok(v) => vk = Some(v),
					Err(e) => {
						ensure!(cn.is_hardened(), "viewkey-ckd_pub-err", "ckd_pub({}) failed: {:?}", cn, e);
						vk = None; // public derivation through a hardened step is impossible by design
						break;
					}
				}
			}
			vk
		};
		if let Some(vk) = vk {
			let suffix_hardened = (vd..depth as usize).any(|i| word(&c.path, i) >> 31 == 1);
			// ViewKey::commit returns Err(SwitchCommitment) for the regular switch (view_key.rs:190)
			let supported = !c.switch_regular && !suffix_hardened;
			let r = proof::rewind(secp, &vk, commit, None, proof);
			match (supported, r) {
				(true, Ok(Some(got))) => {
					ensure!(got == want, "viewkey-rewind-mismatch", "view key (depth {}) rewinds to {} instead of {}", vd, triple_str(&got), triple_str(&want));
					vk_class = "viewkey_recovered";
				}
				// regression signature of the repaired defect (ViewKey::commit(0), fix eecf4abf0)
				(true, Err(e)) if amount == 0 => fail!(
					"viewkey-zero-amount-err",
					"matching view key (depth {}) fails on a zero-value output instead of recovering {}: rewind -> {:?}; ViewKey::commit(0) -> {:?}",
					vd,
					triple_str(&want),
					e,
					vk.commit(secp, 0, switch).map(|_| ())
				),
				(true, r) => fail!("viewkey-rewind-failed", "matching view key (depth {}, from_priv {}) did not recover {}: {:?}", vd, c.vk_from_priv, triple_str(&want), r.map(|o| o.map(|t| triple_str(&t)))),
				(false, Ok(Some(got))) => {
					ensure!(got == want, "viewkey-rewind-mismatch", "view key (depth {}) rewinds to {} instead of {}", vd, triple_str(&got), triple_str(&want));
					vk_class = "viewkey_recovered_outside_documented_domain";
				}
				(false, Ok(None)) => vk_class = if suffix_hardened { "viewkey_hardened_suffix_none" } else { "viewkey_regular_switch_none" },
				(false, Err(_)) => vk_class = "viewkey_regular_switch_err",
			}
			// a root view key of another seed recovers nothing
			let mut ho = kco.hasher();
			let vko = ViewKey::create(&kco, kco.master.clone(), &mut ho, false).map_err(verr)?;
			match proof::rewind(secp, &vko, commit, None, proof) {
				Ok(Some(got)) => fail!("other-seed-viewkey-rewinds", "view key of another seed recovered {}", triple_str(&got)),
				_ => {}
			}
		} else {
			vk_class = "viewkey_ckd_pub_hardened_refused";
		}
	}

	if counting {
		ev.eval();
		ev.class(&format!("proof_amount:{}", amount_class(amount)));
		ev.class(&format!("proof_depth:{}", depth));
		ev.class(if c.switch_regular { "proof_switch:regular" } else { "proof_switch:none" });
		ev.class(if c.legacy { "proof_builder:legacy" } else { "proof_builder:new" });
		ev.class(vk_class);
		if vk_class == "viewkey_recovered" && amount == 0 {
			ev.class("viewkey_recovered_zero_amount");
		}
		if vk_class == "viewkey_recovered" && c.vk_depth.min(depth) > 0 {
			ev.class("viewkey_recovered_child_key");
		}
		if hardened_mask(depth, &c.path) != 0 {
			ev.class("proof_path_with_hardened_step");
		}
		if depth >= 2 && amount != 0 {
			ev.nontrivial(&("proof", depth, hardened_mask(depth, &c.path), amount_class(amount), c.switch_regular, c.legacy));
		}
	}
	Ok(())
}

// ------------------------------------------------------------------ part: arith

/// order of the secp256k1 group
const N: [u8; 32] = [
	0xFF, 0xFF, 0xFF, 0xFF, 0xFF, 0xFF, 0xFF, 0xFF, 0xFF, 0xFF, 0xFF, 0xFF, 0xFF, 0xFF, 0xFF, 0xFE, 0xBA, 0xAE, 0xDC, 0xE6, 0xAF, 0x48, 0xA0, 0x3B, 0xBF, 0xD2, 0x5E, 0x8C, 0xD0,
	0x36, 0x41, 0x41,
];
const ZERO: [u8; 32] = [0u8; 32];

/// reference arithmetic modulo N on 32-byte big-endian numbers < N
fn add_mod(a: &[u8; 32], b: &[u8; 32]) -> [u8; 32] {
	let mut s = [0u8; 32];
	let mut carry = 0u16;
	for i in (0..32).rev() {
		let t = a[i] as u16 + b[i] as u16 + carry;
		s[i] = t as u8;
		carry = t >> 8;
	}
	if carry == 1 || s >= N {
		// wrapping subtraction of N is exact: the true result is < N < 2^256
		let mut borrow = 0i16;
		for i in (0..32).rev() {
			let t = s[i] as i16 - N[i] as i16 - borrow;
			s[i] = t.rem_euclid(256) as u8;
			borrow = if t < 0 { 1 } else { 0 };
		}
	}
	s
}

fn neg_mod(a: &[u8; 32]) -> [u8; 32] {
	if *a == ZERO {
		return ZERO;
	}
	let mut s = [0u8; 32];
	let mut borrow = 0i16;
	for i in (0..32).rev() {
		let t = N[i] as i16 - a[i] as i16 - borrow;
		s[i] = t.rem_euclid(256) as u8;
		borrow = if t < 0 { 1 } else { 0 };
	}
	s
}

fn sub_mod(a: &[u8; 32], b: &[u8; 32]) -> [u8; 32] {
	add_mod(a, &neg_mod(b))
}

fn bf(b: &[u8; 32]) -> BlindingFactor {
	BlindingFactor::from_slice(b)
}

fn bf_bytes(b: &BlindingFactor) -> [u8; 32] {
	let mut a = [0u8; 32];
	a.copy_from_slice(b.as_ref());
	a
}

/// Σpos·G − Σneg·G == 0, computed on curve points by libsecp (zero scalars contribute nothing)
fn tally_to_zero(secp: &Secp256k1, pos: &[[u8; 32]], neg: &[[u8; 32]]) -> Result<bool, Fail> {
	let conv = |v: &[[u8; 32]]| -> Result<Vec<Commitment>, Fail> {
		v.iter()
			.filter(|x| **x != ZERO)
			.map(|x| {
				let k = SecretKey::from_slice(secp, x).map_err(|e| Fail::new("harness:scalar", format!("{:?}", e)))?;
				secp.commit(0, k).map_err(|e| Fail::new("harness:commit", format!("{:?}", e)))
			})
			.collect()
	};
	let (p, n) = (conv(pos)?, conv(neg)?);
	if p.is_empty() && n.is_empty() {
		return Ok(true);
	}
	Ok(secp.verify_commit_sum(p, n))
}

#[derive(Clone, Debug, Serialize, Deserialize)]
pub struct IdTerm {
	pub value: u64,
	pub depth: u8,
	pub path: Vec<u32>,
	pub switch_regular: bool,
	pub positive: bool,
}

#[derive(Clone, Debug, Serialize, Deserialize)]
pub struct ArithCase {
	/// positive / negative blinding factors of the sum (hex scalars < N, zero allowed)
	pub pos: Vec<String>,
	pub neg: Vec<String>,
	/// key-id operands (derived on a fixed keychain)
	pub ids: Vec<IdTerm>,
	/// seed of the permutation applied to all operand lists
	pub perm: u64,
	/// operands of split / add-then-subtract
	pub a: String,
	pub b: String,
}

fn scalar() -> impl Strategy<Value = [u8; 32]> {
	let small = |k: u8| {
		let mut a = ZERO;
		a[31] = k;
		a
	};
	prop_oneof![
		8 => any::<[u8; 32]>().prop_map(|mut b| {
			if b >= N {
				b[0] &= 0x7f;
			}
			b
		}),
		2 => (1u8..=16).prop_map(small),
		2 => (1u8..=16).prop_map(move |k| neg_mod(&small(k))),
		1 => Just(ZERO),
	]
}

fn arith_strategy() -> impl Strategy<Value = ArithCase> {
	let id_term = (amount(), key_path(0), any::<bool>(), any::<bool>()).prop_map(|(value, (depth, path), switch_regular, positive)| IdTerm {
		value,
		depth,
		path,
		switch_regular,
		positive,
	});
	(
		prop::collection::vec(scalar(), 0..=4),
		prop::collection::vec(scalar(), 0..=4),
		// 0: nothing, 1: cancel one operand, 2: make the whole sum cancel
		prop_oneof![6 => Just(0u8), 1 => Just(1u8), 1 => Just(2u8)],
		prop_oneof![4 => Just(vec![]).boxed(), 1 => prop::collection::vec(id_term, 1..=3).boxed()],
		any::<u64>(),
		(scalar(), scalar(), prop_oneof![8 => Just(0u8), 1 => Just(1u8), 1 => Just(2u8)]),
	)
		.prop_map(|(pos, mut neg, cancel, ids, perm, (a, b, rel))| {
			match cancel {
				1 if !pos.is_empty() => neg.push(pos[0]),
				2 if ids.is_empty() => {
					// neg := [Σpos − Σneg] appended, so that the total is zero
					let mut t = ZERO;
					for p in &pos {
						t = add_mod(&t, p);
					}
					for n in &neg {
						t = sub_mod(&t, n);
					}
					neg.push(t);
				}
				_ => {}
			}
			let b = match rel {
				1 => a,
				2 => neg_mod(&a),
				_ => b,
			};
			ArithCase {
				pos: pos.iter().map(|x| x.to_hex()).collect(),
				neg: neg.iter().map(|x| x.to_hex()).collect(),
				ids,
				perm,
				a: a.to_hex(),
				b: b.to_hex(),
			}
		})
}

fn shuffle<T>(v: &mut Vec<T>, seed: &mut u64) {
	for i in (1..v.len()).rev() {
		*seed = seed.wrapping_mul(6364136223846793005).wrapping_add(1442695040888963407);
		let j = ((*seed >> 33) as usize) % (i + 1);
		v.swap(i, j);
	}
}

fn blind_sum_of(kc: &ExtKeychain, pos: &[[u8; 32]], neg: &[[u8; 32]], ids: &[IdTerm]) -> Result<BlindingFactor, grin_keychain::Error> {
	let mut bs = BlindSum::new();
	for p in pos {
		bs = bs.add_blinding_factor(bf(p));
	}
	for n in neg {
		bs = bs.sub_blinding_factor(bf(n));
	}
	for t in ids {
		// (ValueExtKeychainPath is not exported by name; its fields are public)
		let mut v = key_id(t.depth, &t.path).to_value_path(t.value);
		v.switch = sw(t.switch_regular);
		bs = if t.positive { bs.add_key_id(v) } else { bs.sub_key_id(v) };
	}
	kc.blind_sum(&bs)
}

pub fn check_arith(ctx: &Ctx, c: &ArithCase, counting: bool) -> PResult {
	ARITH_KC.with(|kc| check_arith_kc(ctx, kc, c, counting))
}

fn check_arith_kc(ctx: &Ctx, kc: &ExtKeychain, c: &ArithCase, counting: bool) -> PResult {
	let ev = &ctx.ev;
	let secp = kc.secp();
	let valid = |s: &String| -> Result<[u8; 32], Fail> {
		let x = unhex32(s)?;
		ensure!(x < N, "harness:case", "scalar {} is not below the group order", s);
		Ok(x)
	};
	let mut pos = c.pos.iter().map(valid).collect::<Result<Vec<_>, _>>()?;
	let mut neg = c.neg.iter().map(valid).collect::<Result<Vec<_>, _>>()?;
	let mut ids = c.ids.clone();
	let (a, b) = (valid(&c.a)?, valid(&c.b)?);

	// --- blind_sum against the reference sum, Err exactly when the sum is zero
	let mut want = ZERO;
	for p in &pos {
		want = add_mod(&want, p);
	}
	for n in &neg {
		want = sub_mod(&want, n);
	}
	for t in &ids {
		let k = kc
			.derive_key(t.value, &key_id(t.depth, &t.path), sw(t.switch_regular))
			.map_err(|e| Fail::new("derive-err", format!("{:?}", e)))?;
		want = if t.positive { add_mod(&want, &k.0) } else { sub_mod(&want, &k.0) };
	}
	let r1 = blind_sum_of(kc, &pos, &neg, &ids);
	match (&r1, want == ZERO) {
		(Ok(s), false) => ensure!(bf_bytes(s) == want, "blind_sum-wrong", "blind_sum gives {} reference {}", bf_bytes(s).to_hex(), want.to_hex()),
		(Ok(s), true) => fail!("blind_sum-zero-accepted", "blind_sum returned {} for operands summing to zero", bf_bytes(s).to_hex()),
		(Err(e), false) => fail!("blind_sum-err", "blind_sum failed ({:?}) for a non-zero sum {}", e, want.to_hex()),
		(Err(_), true) => {} // libsecp rejects the zero key: outside the domain
	}
	// --- permutation invariance
	let mut sd = c.perm;
	shuffle(&mut pos, &mut sd);
	shuffle(&mut neg, &mut sd);
	shuffle(&mut ids, &mut sd);
	let r2 = blind_sum_of(kc, &pos, &neg, &ids);
	match (&r1, &r2) {
		(Ok(x), Ok(y)) => ensure!(x == y, "blind_sum-order-dependent", "blind_sum {} after permutation {}", bf_bytes(x).to_hex(), bf_bytes(y).to_hex()),
		(Err(_), Err(_)) => {}
		_ => fail!("blind_sum-order-dependent", "blind_sum is Ok in one operand order and Err in another"),
	}

	// --- split: b + split(a, b) == a
	let diff = sub_mod(&a, &b);
	match (bf(&a).split(&bf(&b), secp), diff == ZERO) {
		(Ok(b2), false) => {
			let b2 = bf_bytes(&b2);
			ensure!(b2 == diff, "split-wrong", "split({}, {}) = {} reference {}", c.a, c.b, b2.to_hex(), diff.to_hex());
			ensure!(tally_to_zero(secp, &[b, b2], &[a])?, "split-parts-do-not-sum", "commitments to zero of the parts of split({}, {}) do not sum to the whole", c.a, c.b);
		}
		(Ok(b2), true) => fail!("split-zero-accepted", "split of equal operands returned {}", bf_bytes(&b2).to_hex()),
		(Err(e), false) => fail!("split-err", "split({}, {}) failed: {:?}", c.a, c.b, e),
		(Err(_), true) => {}
	}

	// --- add, then subtract restores
	let sum = add_mod(&a, &b);
	let both_zero = a == ZERO && b == ZERO;
	match (bf(&a).add(&bf(&b), secp), sum == ZERO && !both_zero) {
		(Ok(s), false) => {
			let s = bf_bytes(&s);
			ensure!(s == sum, "add-wrong", "add({}, {}) = {} reference {}", c.a, c.b, s.to_hex(), sum.to_hex());
			// commutative
			let s2 = bf(&b).add(&bf(&a), secp).map_err(|e| Fail::new("add-err", format!("{:?}", e)))?;
			ensure!(bf_bytes(&s2) == s, "add-order-dependent", "add({},{}) != add({},{})", c.a, c.b, c.b, c.a);
			if a != ZERO {
				// (a + b) − b == a, through split and through blind_sum
				let back = bf(&s).split(&bf(&b), secp).map_err(|e| Fail::new("sub-after-add-err", format!("{:?}", e)))?;
				ensure!(bf_bytes(&back) == a, "add-sub-not-restored", "({} + {}) - {} = {}", c.a, c.b, c.b, bf_bytes(&back).to_hex());
				let back2 = kc
					.blind_sum(&BlindSum::new().add_blinding_factor(bf(&s)).sub_blinding_factor(bf(&b)))
					.map_err(|e| Fail::new("sub-after-add-err", format!("{:?}", e)))?;
				ensure!(bf_bytes(&back2) == a, "add-sub-not-restored", "blind_sum(+({} + {}), -{}) = {}", c.a, c.b, c.b, bf_bytes(&back2).to_hex());
				ensure!(tally_to_zero(secp, &[a, b], &[s])?, "add-not-additive-on-curve", "a*G + b*G != (a+b)*G for {} {}", c.a, c.b);
			}
		}
		(Ok(s), true) => fail!("add-zero-accepted", "add of opposite operands returned {}", bf_bytes(&s).to_hex()),
		(Err(e), false) => fail!("add-err", "add({}, {}) failed: {:?}", c.a, c.b, e),
		(Err(_), true) => {}
	}

	if counting {
		ev.eval();
		if want == ZERO {
			ev.class("arith_sum_zero_rejected");
		}
		if !ids.is_empty() {
			ev.class("arith_sum_with_key_ids");
		}
		if diff == ZERO || (sum == ZERO && !both_zero) {
			ev.class("arith_split_or_add_zero_rejected");
		}
		if a == ZERO || b == ZERO || pos.iter().chain(neg.iter()).any(|x| *x == ZERO) {
			ev.class("arith_zero_operand");
		}
		if pos.len() + neg.len() + ids.len() >= 3 {
			ev.class("arith_sum_3plus_operands");
		}
	}
	Ok(())
}

// ------------------------------------------------------------------ part: builder

#[derive(Clone, Debug, Serialize, Deserialize)]
pub struct Item {
	/// output value; for inputs the wanted value (actual input values are
	/// derived so that the transaction balances)
	pub value: u64,
	pub depth: u8,
	pub path: Vec<u32>,
	/// inputs only: spend as coinbase
	pub coinbase: bool,
}

#[derive(Clone, Debug, Serialize, Deserialize)]
pub struct BuilderCase {
	pub seed: String,
	pub other_seed: String,
	/// 0 build::transaction; 1 build::partial_transaction, one party;
	/// 2 partial_transaction by the sender, then by a receiver with another seed on top
	pub kind: u8,
	pub legacy: bool,
	pub inputs: Vec<Item>,
	pub outputs: Vec<Item>,
	/// receiver's outputs (kind 2)
	pub outputs_b: Vec<Item>,
	pub fee: u64,
	pub fee_shift: u8,
	/// 0 = plain kernel, otherwise height locked
	pub lock_height: u64,
	/// tag of the kernel excess chosen by the harness (kinds 1, 2)
	pub excess_tag: u64,
}

const FEE_MAX: u64 = (1 << 40) - 1;

fn builder_strategy() -> impl Strategy<Value = BuilderCase> {
	let item = || {
		(amount(), key_path(1), any::<bool>()).prop_map(|(value, (depth, path), coinbase)| Item {
			value,
			depth,
			path,
			coinbase,
		})
	};
	(
		seed_pair(),
		(0u8..3, prop::bool::weighted(0.2)),
		prop::collection::vec(item(), 1..=3),
		prop::collection::vec(item(), 0..=3),
		prop::collection::vec(item(), 1..=2),
		prop_oneof![3 => 1u64..1000, 1 => Just(1u64), 1 => Just(FEE_MAX), 2 => 1u64..=FEE_MAX],
		0u8..16,
		prop_oneof![2 => Just(0u64), 1 => 1u64..1_000_000],
		any::<u64>(),
	)
		.prop_map(|((s, o), (kind, legacy), inputs, outputs, outputs_b, fee, fee_shift, lock_height, excess_tag)| BuilderCase {
			seed: s.to_hex(),
			other_seed: o.to_hex(),
			kind,
			legacy,
			inputs,
			outputs,
			outputs_b: if kind == 2 { outputs_b } else { vec![] },
			fee,
			fee_shift,
			lock_height,
			excess_tag,
		})
}

/// one concrete element of the transaction: value, identifier, owner (0 = sender, 1 = receiver)
#[derive(Clone, Debug)]
struct Elem {
	value: u64,
	id: Identifier,
	coinbase: bool,
	owner: usize,
}

/// Concrete balanced plan of a case: distinct key ids (the builder silently
/// drops a duplicate commitment, transaction.rs:968), input values adding up
/// to outputs + fee.
fn plan(c: &BuilderCase) -> (Vec<Elem>, Vec<Elem>, u64) {
	let fee = c.fee.clamp(1, FEE_MAX);
	let mut n = 0u32;
	let mut mk = |it: &Item, value: u64, owner: usize, is_output: bool| {
		let mut path = it.path.clone();
		path.resize(4, 0);
		path[0] = (path[0] & !0x1f) | (n & 0x1f);
		n += 1;
		// legacy proofs can only be rewound at depth 3
		let depth = if c.legacy && is_output { 3 } else { it.depth.clamp(1, 4) };
		Elem {
			value,
			id: key_id(depth, &path),
			coinbase: it.coinbase && !is_output,
			owner,
		}
	};
	let mut outs = vec![];
	for it in &c.outputs {
		outs.push(mk(it, it.value, 0, true));
	}
	if c.kind == 2 {
		for it in &c.outputs_b {
			outs.push(mk(it, it.value, 1, true));
		}
	}
	let mut remaining: u128 = outs.iter().map(|o| o.value as u128).sum::<u128>() + fee as u128;
	let mut ins = vec![];
	let default_item = Item {
		value: 0,
		depth: 2,
		path: vec![0, 0x8000_0001, 0, 0],
		coinbase: false,
	};
	let k = c.inputs.len().max(1);
	for i in 0..k {
		let it = c.inputs.get(i).unwrap_or(&default_item);
		let v = if i + 1 == k { remaining.min(u64::MAX as u128) } else { remaining.min(it.value as u128) } as u64;
		remaining -= v as u128;
		ins.push(mk(it, v, 0, false));
	}
	while remaining > 0 {
		let v = remaining.min(u64::MAX as u128) as u64;
		remaining -= v as u128;
		ins.push(mk(&default_item, v, 0, false));
	}
	(ins, outs, fee)
}

fn build_with<B: ProofBuild>(
	ctx: &Ctx,
	c: &BuilderCase,
	kcs: [&ExtKeychain; 2],
	bs: [&B; 2],
	ins: &[Elem],
	outs: &[Elem],
	features: KernelFeatures,
	fee: u64,
	counting: bool,
) -> Result<Transaction, Fail> {
	let elems = |owner: usize, with_inputs: bool| -> Vec<Box<Append<ExtKeychain, B>>> {
		let mut v: Vec<Box<Append<ExtKeychain, B>>> = vec![];
		if with_inputs {
			for e in ins {
				v.push(if e.coinbase { build::coinbase_input(e.value, e.id.clone()) } else { build::input(e.value, e.id.clone()) });
			}
		}
		for e in outs.iter().filter(|e| e.owner == owner) {
			v.push(build::output(e.value, e.id.clone()));
		}
		v
	};
	if c.kind == 0 {
		return build::transaction(features, &elems(0, true), kcs[0], bs[0]).map_err(|e| Fail::new("builder-err", format!("build::transaction failed: {:?}", e)));
	}
	let secp = kcs[0].secp();
	let (mut tx, mut total) =
		build::partial_transaction(Transaction::empty(), &elems(0, true), kcs[0], bs[0]).map_err(|e| Fail::new("builder-err", format!("partial_transaction (sender) failed: {:?}", e)))?;
	if c.kind == 2 && outs.iter().any(|e| e.owner == 1) {
		let (tx2, bf_b) = build::partial_transaction(tx, &elems(1, false), kcs[1], bs[1]).map_err(|e| Fail::new("builder-err", format!("partial_transaction (receiver) failed: {:?}", e)))?;
		tx = tx2;
		total = total.add(&bf_b, secp).map_err(|e| Fail::new("builder-err", format!("adding the parties' blinding sums: {:?}", e)))?;
		if counting {
			ctx.ev.class("builder_two_party");
		}
	}
	// the returned blinding factor is the excess of what was put into the
	// transaction: Σout − Σin + fee·H == total·G, on curve points
	let mut pos = tx.outputs_committed();
	let mut neg = tx.inputs_committed();
	let ok = SECP.with(|s| -> Result<bool, Fail> {
		pos.push(s.commit_value(fee).map_err(|e| Fail::new("harness:commit", format!("{:?}", e)))?);
		let k = total.secret_key(s).map_err(|e| Fail::new("builder-err", format!("blind sum is not a key: {:?}", e)))?;
		neg.push(s.commit(0, k).map_err(|e| Fail::new("harness:commit", format!("{:?}", e)))?);
		Ok(s.verify_commit_sum(pos, neg))
	})?;
	ensure!(ok, "partial-blind-sum-wrong", "partial_transaction's blinding factor is not the excess of its inputs and outputs");
	// complete it the way transaction_with_kernel does, with our own excess key
	let k1 = scalar_from(format!("c20-excess-{}", c.excess_tag).as_bytes());
	let kernel = sign_kernel(features, &k1);
	let offset = total
		.split(&BlindingFactor::from_secret_key(k1), secp)
		.map_err(|e| Fail::new("builder-err", format!("split of the total blinding factor: {:?}", e)))?;
	Ok(tx.with_kernel(kernel).with_offset(offset))
}

pub fn check_builder(ctx: &Ctx, c: &BuilderCase, counting: bool) -> PResult {
	let ev = &ctx.ev;
	let seed = unhex(&c.seed)?;
	ensure!(!seed.is_empty(), "harness:case", "empty seed");
	let other = other_seed(&seed, unhex(&c.other_seed)?);
	let (ins, outs, fee) = plan(c);
	let total_in: u128 = ins.iter().map(|e| e.value as u128).sum();
	let total_out: u128 = outs.iter().map(|e| e.value as u128).sum();
	ensure!(total_in == total_out + fee as u128, "harness:plan", "plan does not balance");
	let ff = FeeFields::new((c.fee_shift & 15) as u64, fee).map_err(|e| Fail::new("harness:fee", format!("{:?}", e)))?;
	let features = if c.lock_height == 0 {
		KernelFeatures::Plain { fee: ff }
	} else {
		KernelFeatures::HeightLocked {
			fee: ff,
			lock_height: c.lock_height,
		}
	};
	let kc_a = keychain(&seed)?;
	let kc_b = keychain(&other)?;
	let tx = if c.legacy {
		let (ba, bb) = (LegacyProofBuilder::new(&kc_a), LegacyProofBuilder::new(&kc_b));
		build_with(ctx, c, [&kc_a, &kc_b], [&ba, &bb], &ins, &outs, features, fee, counting)?
	} else {
		let (ba, bb) = (ProofBuilder::new(&kc_a), ProofBuilder::new(&kc_b));
		build_with(ctx, c, [&kc_a, &kc_b], [&ba, &bb], &ins, &outs, features, fee, counting)?
	};

	// everything handed to the builder is in the transaction, under the
	// commitments an independent keychain of the same seed computes
	let kcs = [keychain(&seed)?, keychain(&other)?];
	let commit_of = |e: &Elem| kcs[e.owner].commit(e.value, &e.id, SwitchCommitmentType::Regular).map_err(|x| Fail::new("commit-err", format!("{:?}", x)));
	let mut want_in = ins.iter().map(commit_of).collect::<Result<Vec<_>, _>>()?;
	let mut want_out = outs.iter().map(commit_of).collect::<Result<Vec<_>, _>>()?;
	want_in.sort();
	want_out.sort();
	let (mut got_in, mut got_out) = (tx.inputs_committed(), tx.outputs_committed());
	got_in.sort();
	got_out.sort();
	ensure!(got_in == want_in, "builder-inputs-differ", "inputs of the built transaction are not the commitments of the given (value, key id) pairs: {} vs {}", got_in.len(), want_in.len());
	ensure!(got_out == want_out, "builder-outputs-differ", "outputs of the built transaction are not the commitments of the given (value, key id) pairs: {} vs {}", got_out.len(), want_out.len());
	ensure!(tx.kernels().len() == 1 && tx.fee() == fee, "builder-kernel", "kernels {} fee {} (wanted 1, {})", tx.kernels().len(), tx.fee(), fee);

	if let Err(e) = tx.validate(Weighting::AsTransaction) {
		fail!(
			format!("built-tx-invalid:{}", crate::world::err_name(&e)),
			"transaction built from {} inputs {:?}, outputs {:?}, fee {} does not validate: {:?}",
			ins.len(),
			ins.iter().map(|e| e.value).collect::<Vec<_>>(),
			outs.iter().map(|e| e.value).collect::<Vec<_>>(),
			fee,
			e
		);
	}
	for k in tx.kernels() {
		if let Err(e) = k.verify() {
			fail!("built-kernel-sig-invalid", "kernel signature of the built transaction does not verify: {:?}", e);
		}
	}
	// every output is recoverable by its owner's seed, and only by it
	for e in &outs {
		let cm = commit_of(e)?;
		let o = tx.outputs().iter().find(|o| o.commitment() == cm).unwrap();
		let want: Triple = (e.value, e.id.clone(), SwitchCommitmentType::Regular);
		let secp = kcs[0].secp();
		if let Err(x) = proof::verify(secp, cm, o.proof(), None) {
			fail!("honest-proof-rejected", "proof of built output {} does not verify: {:?}", triple_str(&want), x);
		}
		let (own, foreign) = (&kcs[e.owner], &kcs[1 - e.owner]);
		let (r_own, r_foreign) = if c.legacy {
			(
				proof::rewind(secp, &LegacyProofBuilder::new(own), cm, None, o.proof()),
				proof::rewind(secp, &LegacyProofBuilder::new(foreign), cm, None, o.proof()),
			)
		} else {
			(
				proof::rewind(secp, &ProofBuilder::new(own), cm, None, o.proof()),
				proof::rewind(secp, &ProofBuilder::new(foreign), cm, None, o.proof()),
			)
		};
		match r_own {
			Ok(Some(got)) => ensure!(got == want, "rewind-mismatch", "built output rewinds to {} instead of {}", triple_str(&got), triple_str(&want)),
			r => fail!("rewind-none", "built output {} not recovered by its seed: {:?}", triple_str(&want), r.map(|o| o.map(|t| triple_str(&t)))),
		}
		if let Ok(Some(got)) = r_foreign {
			fail!("other-seed-rewinds", "the other party's seed recovered {} from a built output", triple_str(&got));
		}
	}

	if counting {
		ev.eval();
		ev.class(&format!("builder_kind:{}", ["transaction", "partial_one_party", "partial_two_party"][c.kind.min(2) as usize]));
		ev.class(&format!("builder_outputs:{}", outs.len()));
		ev.class(if c.legacy { "builder_gen:legacy" } else { "builder_gen:new" });
		for e in &outs {
			ev.class(&format!("builder_output_amount:{}", amount_class(e.value)));
		}
		if ins.iter().any(|e| e.coinbase) {
			ev.class("builder_with_coinbase_input");
		}
		if c.lock_height != 0 {
			ev.class("builder_height_locked_kernel");
		}
		if outs.len() >= 2 {
			let mut cls: Vec<&str> = outs.iter().map(|e| amount_class(e.value)).collect();
			cls.sort();
			let hard: Vec<u8> = outs.iter().map(|e| {
				let (d, p) = eff_path(&e.id);
				hardened_mask(d, &p) | (d << 4)
			}).collect();
			ev.nontrivial(&("builder", c.kind, ins.len(), cls, hard, c.legacy, c.lock_height != 0));
		}
	}
	Ok(())
}

// ------------------------------------------------------------------ part: reward

#[derive(Clone, Debug, Serialize, Deserialize)]
pub struct RewardCase {
	pub seed: String,
	pub other_seed: String,
	pub depth: u8,
	pub path: Vec<u32>,
	pub fees: u64,
	pub legacy: bool,
	/// fixed signing nonce (reward::output's test_mode)
	pub test_mode: bool,
}

fn reward_strategy() -> impl Strategy<Value = RewardCase> {
	(
		seed_pair(),
		key_path(0),
		prop_oneof![2 => Just(0u64), 3 => 0u64..1_000_000_000, 2 => 0u64..(1 << 44), 1 => any::<u64>(), 1 => Just(u64::MAX)],
		prop::bool::weighted(0.2),
		prop::bool::weighted(0.25),
	)
		.prop_map(|((s, o), (depth, path), fees, legacy, test_mode)| RewardCase {
			seed: s.to_hex(),
			other_seed: o.to_hex(),
			depth: if legacy { 3 } else { depth },
			path,
			fees,
			legacy,
			test_mode,
		})
}

pub fn check_reward(ctx: &Ctx, c: &RewardCase, counting: bool) -> PResult {
	let ev = &ctx.ev;
	let seed = unhex(&c.seed)?;
	ensure!(!seed.is_empty(), "harness:case", "empty seed");
	let other = other_seed(&seed, unhex(&c.other_seed)?);
	let depth = c.depth.min(4);
	let id = key_id(depth, &c.path);
	let kc = keychain(&seed)?;
	let kc2 = keychain(&seed)?;
	let kco = keychain(&other)?;
	let value = consensus::reward(c.fees);
	let want: Triple = (value, id.clone(), SwitchCommitmentType::Regular);
	let rerr = |e| Fail::new("reward-output-err", format!("reward::output(fees {}): {:?}", c.fees, e));
	let (out, kern) = if c.legacy {
		reward::output(&kc, &LegacyProofBuilder::new(&kc), &id, c.fees, c.test_mode).map_err(rerr)?
	} else {
		reward::output(&kc, &ProofBuilder::new(&kc), &id, c.fees, c.test_mode).map_err(rerr)?
	};
	ensure!(out.is_coinbase() && kern.is_coinbase(), "reward-features", "reward output/kernel are not flagged coinbase");
	let cm = kc2.commit(value, &id, SwitchCommitmentType::Regular).map_err(|e| Fail::new("commit-err", format!("{:?}", e)))?;
	ensure!(out.commitment() == cm, "reward-commit", "reward output does not commit to reward(fees) = {} under the key id", value);
	// the block-level coinbase rule: Σ cb outputs − reward·H == Σ cb kernel excesses
	let lhs = SECP.with(|s| -> Result<Commitment, Fail> {
		let over = s.commit_value(value).map_err(|e| Fail::new("harness:commit", format!("{:?}", e)))?;
		s.commit_sum(vec![out.commitment()], vec![over]).map_err(|e| Fail::new("harness:commit", format!("{:?}", e)))
	})?;
	ensure!(lhs == kern.excess, "reward-does-not-balance", "output - reward({})*H != kernel excess", c.fees);
	if let Err(e) = kern.verify() {
		fail!("reward-kernel-sig-invalid", "coinbase kernel signature does not verify (fees {}): {:?}", c.fees, e);
	}
	let secp = kc2.secp();
	if let Err(e) = proof::verify(secp, cm, out.proof(), None) {
		fail!("honest-proof-rejected", "coinbase proof does not verify (value {}): {:?}", value, e);
	}
	let (r_own, r_other) = if c.legacy {
		(
			proof::rewind(secp, &LegacyProofBuilder::new(&kc2), cm, None, out.proof()),
			proof::rewind(secp, &LegacyProofBuilder::new(&kco), cm, None, out.proof()),
		)
	} else {
		(
			proof::rewind(secp, &ProofBuilder::new(&kc2), cm, None, out.proof()),
			proof::rewind(secp, &ProofBuilder::new(&kco), cm, None, out.proof()),
		)
	};
	match r_own {
		Ok(Some(got)) => ensure!(got == want, "rewind-mismatch", "coinbase output rewinds to {} instead of {}", triple_str(&got), triple_str(&want)),
		r => fail!("rewind-none", "coinbase output {} not recovered by its seed: {:?}", triple_str(&want), r.map(|o| o.map(|t| triple_str(&t)))),
	}
	if let Ok(Some(got)) = r_other {
		fail!("other-seed-rewinds", "another seed recovered {} from a coinbase output", triple_str(&got));
	}
	if counting {
		ev.eval();
		ev.class(if c.legacy { "reward_gen:legacy" } else { "reward_gen:new" });
		ev.class(&format!("reward_depth:{}", depth));
		if c.fees == 0 {
			ev.class("reward_fees_zero");
		}
		if value == u64::MAX {
			ev.class("reward_value_saturated");
		}
		if depth >= 2 {
			ev.nontrivial(&("reward", depth, hardened_mask(depth, &c.path), amount_class(value), c.legacy, c.test_mode));
		}
	}
	Ok(())
}

// ------------------------------------------------------------------ run / replay

pub fn run(ctx: &Ctx) -> HResult<()> {
	init_global();
	let ev = &ctx.ev;
	ev.rule("proptest cases: (seed 1-200 bytes, mostly 16-64 + a different seed [independent / one bit apart anywhere / one byte longer or shorter], path depth 0-4 with hardened and non-hardened 32-bit words, amount from {0,1,2^32,2^52,2^64-1,2^k+-1,random}, switch mode, builder generation, view-key depth and construction, bit to flip); arithmetic cases: scalars below the group order incl. 1..16, N-1..N-16, zero, cancelling operands, optional key-id terms; builder cases: 1-3 wanted inputs, 0-3 (+1-2 receiver) outputs, fee 1..2^40-1, input values derived so the plan balances; non-trivial = proof/reward case with depth >= 2 and non-zero amount, or builder case with >= 2 outputs; distinct by (part, depth, hardened pattern, amount class, switch, builder generation) resp. (kind, #inputs, output amount classes, output path patterns, generation, kernel type)");
	ev.assume("libsecp256k1-zkp point arithmetic (commit, commit_sum, verify_commit_sum) and bulletproof verification are trusted; the reference for scalar sums is the harness's own arithmetic modulo the group order");
	ev.assume("LegacyProofBuilder is exercised only at depth 3 with the regular switch: its message carries neither depth nor switch type and check_output hard-codes both (core/src/libtx/proof.rs:324,332)");
	ev.assume("ViewKey recovery is asserted only for SwitchCommitmentType::None and a non-hardened path suffix below the view key: ViewKey::commit returns Err(SwitchCommitment) for the regular switch (keychain/src/view_key.rs:190) and check_output returns None on a hardened step (proof.rs:418); elsewhere only 'no different triple' is asserted");
	ev.assume("a zero scalar result is outside the domain: libsecp rejects the zero secret key, so blind_sum/split/add must return Err exactly then (checked in both directions)");
	ev.assume("key ids handed to the builder are pairwise distinct (a duplicate commitment is a double spend and is silently dropped by with_input/with_output); the builder always uses the regular switch; fees are 1..2^40-1 (FeeFields)");
	ev.assume("a bit-flipped proof may rewind to an identifier that differs only in words beyond its depth (they do not influence the key); only (amount, switch, depth, words below depth) are compared there");
	ev.assume("a proof of value 2^64-1 is inside the domain: bullet_proof proves 64 bits and never returns an error");
	ev.assume("zero-value outputs are inside the view-key domain (repaired defect, regression signature viewkey-zero-amount-err)");
	let threads = 16;
	// libsecp's shared bulletproof generators are created lazily through an
	// unsynchronised `static mut` (secp256k1zkp pedersen.rs:43): create them
	// here, before any worker thread can race on the first proof
	{
		let kc = keychain(b"gv c20 generator warm-up seed").map_err(|f| HarnessError(f.msg))?;
		let id = key_id(0, &[]);
		let cm = kc.commit(1, &id, SwitchCommitmentType::None)?;
		let p = proof::create(&kc, &ProofBuilder::new(&kc), 1, &id, SwitchCommitmentType::None, cm, None)?;
		proof::verify(kc.secp(), cm, p, None)?;
	}

	let t0 = std::time::Instant::now();
	let fl = pbt_par(ctx, "proof", ctx.n(800, 16_000), threads, proof_strategy, init_thread, |c, counting| check_proof(ctx, c, counting));
	if let Some(fl) = fl {
		ctx.report("proof", &fl.fail.sig, serde_json::to_value(&fl.value).unwrap(), &fl.fail.msg);
	}
	ev.extra("wall_s_proof", json!(t0.elapsed().as_secs_f64()));
	let t0 = std::time::Instant::now();
	let fl = pbt_par(ctx, "builder", ctx.n(160, 3_200), threads, builder_strategy, init_thread, |c, counting| check_builder(ctx, c, counting));
	if let Some(fl) = fl {
		ctx.report("builder", &fl.fail.sig, serde_json::to_value(&fl.value).unwrap(), &fl.fail.msg);
	}
	ev.extra("wall_s_builder", json!(t0.elapsed().as_secs_f64()));
	let t0 = std::time::Instant::now();
	let fl = pbt_par(ctx, "reward", ctx.n(120, 2_400), threads, reward_strategy, init_thread, |c, counting| check_reward(ctx, c, counting));
	if let Some(fl) = fl {
		ctx.report("reward", &fl.fail.sig, serde_json::to_value(&fl.value).unwrap(), &fl.fail.msg);
	}
	ev.extra("wall_s_reward", json!(t0.elapsed().as_secs_f64()));
	let t0 = std::time::Instant::now();
	let fl = pbt_par(ctx, "arith", ctx.n(12_000, 240_000), threads, arith_strategy, init_thread, |c, counting| check_arith(ctx, c, counting));
	if let Some(fl) = fl {
		ctx.report("arith", &fl.fail.sig, serde_json::to_value(&fl.value).unwrap(), &fl.fail.msg);
	}
	ev.extra("wall_s_arith", json!(t0.elapsed().as_secs_f64()));

	// samples are drawn from derived seeds so that they do not depend on thread scheduling
	ev.sample("proof", || serde_json::to_value(sample_one(ctx.derive_seed("sample", 0), &proof_strategy())).unwrap());
	ev.sample("builder", || {
		let c = sample_one(ctx.derive_seed("sample", 1), &builder_strategy());
		let (ins, outs, fee) = plan(&c);
		json!({"case": serde_json::to_value(&c).unwrap(), "derived_input_values": ins.iter().map(|e| e.value).collect::<Vec<_>>(), "output_values": outs.iter().map(|e| e.value).collect::<Vec<_>>(), "fee": fee})
	});
	ev.sample("reward", || serde_json::to_value(sample_one(ctx.derive_seed("sample", 2), &reward_strategy())).unwrap());
	ev.sample("arith", || serde_json::to_value(sample_one(ctx.derive_seed("sample", 3), &arith_strategy())).unwrap());

	for cl in [
		"proof_amount:0",
		"proof_amount:1",
		"proof_amount:2^32",
		"proof_amount:2^52",
		"proof_amount:2^64-1",
		"proof_depth:0",
		"proof_depth:4",
		"proof_switch:none",
		"proof_switch:regular",
		"proof_builder:legacy",
		"viewkey_recovered",
		"viewkey_recovered_child_key",
		"viewkey_recovered_zero_amount",
		"builder_two_party",
		"arith_sum_zero_rejected",
	] {
		if ev.class_count(cl) == 0 && !ctx.violated() {
			eprintln!("warning: class {} is empty in this run", cl);
		}
	}
	Ok(())
}

pub fn replay(ctx: &Ctx, part: &str, case: &Value) -> PResult {
	init_global();
	fn parse<T: serde::de::DeserializeOwned>(case: &Value) -> Result<T, Fail> {
		serde_json::from_value(case.clone()).map_err(|e| Fail::new("harness:replay-parse", e.to_string()))
	}
	match part {
		"proof" => check_proof(ctx, &parse::<ProofCase>(case)?, false),
		"arith" => check_arith(ctx, &parse::<ArithCase>(case)?, false),
		"builder" => check_builder(ctx, &parse::<BuilderCase>(case)?, false),
		"reward" => check_reward(ctx, &parse::<RewardCase>(case)?, false),
		_ => Ok(()),
	}
}
