//! C16 — state segments are sound and state sync reproduces the validated state.
//!
//! Part "seg" (Domain A): `Segment::from_pmmr` over in-memory and store backends
//! in prune/compaction states reached through the store's usage protocol (driver
//! copied from C08). Every honest segment must validate against the root of an
//! independent reference MMR (refmmr, own blake2b); every single-element
//! corruption of something the reconstruction depends on must be refused.
//! "Depends on" comes from an instrumented reference implementation of segment
//! evaluation written from the definition over the explicit reference forest
//! (`ref_eval`): it records which leaves, hashes and proof entries it reads.
//!
//! Part "sync" (Domain B): end-to-end state sync between real `Chain`s, driven in
//! the call order of servers/src/grin/sync/state_sync.rs and
//! servers/src/common/adapters.rs, with generated arrival orders, duplicates,
//! unrequested segments and (adversarial variant) one corrupted segment; plus the
//! state-archive path (`txhashset_read` → `txhashset_write`).

use crate::elems::FixElem;
use crate::engine::*;
use crate::props::c02;
use crate::props::c08::{self, History, TElem, XBlock, XStep};
use crate::refmmr::{self, RefMmr, H32};
use crate::world::gen::{Neg, RawBlock, RawOut, RawTx, World};
use crate::world::*;
use crate::{ensure, fail};
use croaring::Bitmap;
use grin_chain::txhashset::BitmapChunk;
use grin_chain::types::SyncState;
use grin_core::core::hash::{Hash, Hashed};
use grin_core::core::pmmr::segment::{Segment, SegmentIdentifier, SegmentType, SegmentTypeIdentifier};
use grin_core::core::pmmr::{Backend, ReadablePMMR, ReadonlyPMMR, VecBackend, PMMR};
use grin_core::core::{BlockHeader, OutputIdentifier, TxKernel};
use grin_core::ser::{self, DeserializationMode, PMMRIndexHashable, ProtocolVersion, Readable, Writeable};
use grin_store::pmmr::PMMRBackend;
use grin_util::secp::pedersen::RangeProof;
use grin_util::StopState;
use proptest::prelude::*;
use serde_derive::{Deserialize, Serialize};
use serde_json::{json, Value};
use std::collections::{BTreeMap, BTreeSet};
use std::sync::Arc;

fn h(x: &H32) -> Hash {
	Hash::from_vec(&x[..])
}

fn h32(x: &Hash) -> H32 {
	let mut a = [0u8; 32];
	a.copy_from_slice(x.as_bytes());
	a
}

/// deterministic 64-bit mixer for in-case sampling (all of it derives from the case's seed)
fn mix(a: u64, b: u64) -> u64 {
	let x = refmmr::blake(&[b"c16-mix", &a.to_be_bytes(), &b.to_be_bytes()]);
	u64::from_be_bytes([x[0], x[1], x[2], x[3], x[4], x[5], x[6], x[7]])
}

// ================================================================ the segment as it travels

/// A segment in the harness's own representation: exactly the fields of the wire
/// format (core/src/core/pmmr/segment.rs, `impl Writeable for Segment`), positions 0-based.
#[derive(Clone, Debug, PartialEq)]
pub struct SegView {
	pub height: u8,
	pub idx: u64,
	pub hash_pos: Vec<u64>,
	pub hashes: Vec<H32>,
	pub leaf_pos: Vec<u64>,
	pub leaves: Vec<Vec<u8>>,
	pub proof: Vec<H32>,
}

impl SegView {
	pub fn of<T: Writeable>(seg: &Segment<T>) -> Result<SegView, Fail> {
		let e = |e: ser::Error| Fail::new("harness:ser", format!("{:?}", e));
		let id = seg.identifier();
		let pb = ser::ser_vec(seg.proof(), ProtocolVersion(1)).map_err(e)?;
		ensure!(pb.len() >= 8 && (pb.len() - 8) % 32 == 0, "harness:proof-bytes", "unexpected proof encoding of {} bytes", pb.len());
		let np = u64::from_be_bytes(pb[..8].try_into().unwrap()) as usize;
		ensure!(pb.len() == 8 + 32 * np, "harness:proof-bytes", "proof announces {} hashes in {} bytes", np, pb.len());
		let proof = (0..np)
			.map(|k| {
				let mut a = [0u8; 32];
				a.copy_from_slice(&pb[8 + 32 * k..8 + 32 * (k + 1)]);
				a
			})
			.collect();
		let mut leaves = vec![];
		let mut leaf_pos = vec![];
		for (p, d) in seg.leaf_iter() {
			leaf_pos.push(p);
			leaves.push(ser::ser_vec(d, ProtocolVersion(1)).map_err(e)?);
		}
		Ok(SegView {
			height: id.height,
			idx: id.idx,
			hash_pos: seg.hash_iter().map(|(p, _)| p).collect(),
			hashes: seg.hash_iter().map(|(_, x)| h32(&x)).collect(),
			leaf_pos,
			leaves,
			proof,
		})
	}

	/// the bytes a peer would send
	pub fn wire(&self) -> Vec<u8> {
		let mut v = vec![self.height];
		v.extend_from_slice(&self.idx.to_be_bytes());
		v.extend_from_slice(&(self.hashes.len() as u64).to_be_bytes());
		for p in &self.hash_pos {
			v.extend_from_slice(&(p + 1).to_be_bytes());
		}
		for x in &self.hashes {
			v.extend_from_slice(x);
		}
		v.extend_from_slice(&(self.leaves.len() as u64).to_be_bytes());
		for p in &self.leaf_pos {
			v.extend_from_slice(&(p + 1).to_be_bytes());
		}
		for d in &self.leaves {
			v.extend_from_slice(d);
		}
		v.extend_from_slice(&(self.proof.len() as u64).to_be_bytes());
		for x in &self.proof {
			v.extend_from_slice(x);
		}
		v
	}

	pub fn read<T: Readable>(&self) -> Result<Segment<T>, ser::Error> {
		let b = self.wire();
		ser::deserialize::<Segment<T>, _>(&mut &b[..], ProtocolVersion(1), DeserializationMode::default())
	}
}

// ================================================================ instrumented reference evaluation

/// what the reconstruction read
#[derive(Clone, Debug, Default)]
pub struct Deps {
	/// positions of leaves whose data was hashed
	pub leaves: BTreeSet<u64>,
	/// positions of segment hashes that were used
	pub hashes: BTreeSet<u64>,
	/// number of proof hashes consumed (always a prefix)
	pub proof_used: usize,
	/// the subtree root stood in for by a hash of an enclosing fully spent subtree
	pub root_from_ancestor: bool,
}

pub struct RefTree<'a> {
	pub m: &'a RefMmr,
	/// position of leaf i
	pub lp: Vec<u64>,
	/// unspent leaf indices (None: not a prunable tree)
	pub bm: Option<&'a BTreeSet<u64>>,
}

impl<'a> RefTree<'a> {
	pub fn new(m: &'a RefMmr, bm: Option<&'a BTreeSet<u64>>) -> RefTree<'a> {
		RefTree { m, lp: m.leaf_positions(), bm }
	}

	fn n(&self) -> u64 {
		self.m.n_leaves
	}

	/// the leaf's data is needed: not a prunable tree, or the bitmap marks it or its
	/// sibling unspent, or it is the very last position of the MMR (a lone final leaf)
	fn required(&self, i: u64) -> bool {
		match self.bm {
			None => true,
			Some(b) => b.contains(&i) || b.contains(&(i ^ 1)) || self.lp[i as usize] + 1 == self.m.size(),
		}
	}

	fn leaf_range(&self, node: usize) -> (u64, u64) {
		let nd = &self.m.nodes[node];
		let a = self.m.nodes[nd.leftmost as usize].leaf_idx.unwrap();
		let b = self.m.nodes[nd.rightmost as usize].leaf_idx.unwrap();
		(a, b + 1)
	}

	fn eval_node(&self, node: usize, leaves: &BTreeMap<u64, &Vec<u8>>, hashes: &BTreeMap<u64, H32>, d: &mut Deps) -> Result<Option<H32>, String> {
		let nd = &self.m.nodes[node];
		if let Some(i) = nd.leaf_idx {
			if !self.required(i) {
				return Ok(None);
			}
			let data = leaves.get(&nd.pos).ok_or_else(|| format!("missing leaf {}", nd.pos))?;
			d.leaves.insert(nd.pos);
			return Ok(Some(refmmr::leaf_hash(nd.pos, data)));
		}
		let (l, r) = (nd.left.unwrap(), nd.right.unwrap());
		let lh = self.eval_node(l, leaves, hashes, d)?;
		let rh = self.eval_node(r, leaves, hashes, d)?;
		let stand_in = |child: usize, d: &mut Deps| -> Result<H32, String> {
			let p = self.m.nodes[child].pos;
			let x = hashes.get(&p).ok_or_else(|| format!("missing hash {}", p))?;
			d.hashes.insert(p);
			Ok(*x)
		};
		Ok(match (lh, rh) {
			(None, None) => None,
			(Some(a), Some(b)) => Some(refmmr::node_hash(nd.pos, &a, &b)),
			(None, Some(b)) => {
				let a = stand_in(l, d)?;
				Some(refmmr::node_hash(nd.pos, &a, &b))
			}
			(Some(a), None) => {
				let b = stand_in(r, d)?;
				Some(refmmr::node_hash(nd.pos, &a, &b))
			}
		})
	}

	/// Reconstruct the MMR root from a segment by the definition; Err = the segment
	/// lacks something the definition needs.
	pub fn eval(&self, v: &SegView) -> Result<(H32, Deps), String> {
		let n = self.n();
		let size = self.m.size();
		if v.height >= 40 {
			return Err("height".into());
		}
		let cap = 1u64 << v.height;
		let lo = v.idx.checked_mul(cap).ok_or("idx")?;
		if lo >= n {
			return Err("segment does not exist".into());
		}
		let hi = (lo + cap).min(n);
		let full = hi - lo == cap;
		let mut leaves: BTreeMap<u64, &Vec<u8>> = BTreeMap::new();
		for (p, x) in v.leaf_pos.iter().zip(&v.leaves) {
			leaves.entry(*p).or_insert(x);
		}
		let mut hashes: BTreeMap<u64, H32> = BTreeMap::new();
		for (p, x) in v.hash_pos.iter().zip(&v.hashes) {
			hashes.entry(*p).or_insert(*x);
		}
		let mut d = Deps::default();
		let mut proof = v.proof.iter();
		let mut acc: H32;
		// index (in peaks) of the leftmost peak the segment touches
		let peak_k: usize;
		if full {
			// the subtree of height `height` over leaves lo..hi
			let mut node = self.lp[lo as usize] as usize;
			for _ in 0..v.height {
				node = self.m.nodes[node].parent.ok_or("segment subtree is not inside the MMR")?;
			}
			let mut start = node;
			acc = match self.eval_node(node, &leaves, &hashes, &mut d)? {
				Some(x) => x,
				None => {
					// fully spent: a hash of this subtree, or of the smallest enclosing
					// subtree that is fully spent as well
					let mut cur = node;
					loop {
						let p = self.m.nodes[cur].pos;
						if let Some(x) = hashes.get(&p) {
							d.hashes.insert(p);
							d.root_from_ancestor = cur != node;
							start = cur;
							break *x;
						}
						let Some(par) = self.m.nodes[cur].parent else {
							return Err(format!("missing hash {} (no stand-in up to the peak)", p));
						};
						let (a, b) = self.leaf_range(par);
						if self.bm.map(|bm| bm.range(a..b).next().is_some()).unwrap_or(true) {
							return Err(format!("missing hash {} (enclosing subtree is not fully spent)", p));
						}
						cur = par;
					}
				}
			};
			// siblings up to the peak
			let mut cur = start;
			while let Some(par) = self.m.nodes[cur].parent {
				let s = proof.next().ok_or("proof too short (path)")?;
				d.proof_used += 1;
				acc = if self.m.nodes[par].left == Some(cur) { refmmr::node_hash(par as u64, &acc, s) } else { refmmr::node_hash(par as u64, s, &acc) };
				cur = par;
			}
			peak_k = self.m.peaks.iter().position(|&p| p == cur).ok_or("not a peak")?;
			if peak_k + 1 < self.m.peaks.len() {
				let s = proof.next().ok_or("proof too short (right-hand peaks)")?;
				d.proof_used += 1;
				acc = refmmr::node_hash(size, &acc, s);
			}
		} else {
			// final partial segment: the peaks over its leaves, bagged right to left
			let inside: Vec<usize> = self.m.peaks.iter().copied().filter(|&p| self.leaf_range(p).0 >= lo).collect();
			if inside.is_empty() {
				return Err("partial segment without a peak".into());
			}
			peak_k = self.m.peaks.len() - inside.len();
			let mut bag: Option<H32> = None;
			for &p in inside.iter().rev() {
				let ph = match self.eval_node(p, &leaves, &hashes, &mut d)? {
					Some(x) => x,
					None => {
						let pos = self.m.nodes[p].pos;
						let x = hashes.get(&pos).ok_or_else(|| format!("missing hash {} (spent peak)", pos))?;
						d.hashes.insert(pos);
						*x
					}
				};
				bag = Some(match bag {
					None => ph,
					Some(r) => refmmr::node_hash(size, &ph, &r),
				});
			}
			acc = bag.unwrap();
		}
		// peaks to the left, nearest first
		for _ in 0..peak_k {
			let s = proof.next().ok_or("proof too short (left peaks)")?;
			d.proof_used += 1;
			acc = refmmr::node_hash(size, s, &acc);
		}
		Ok((acc, d))
	}
}

// ================================================================ verdicts of the code under test

#[derive(Clone, Debug, PartialEq)]
pub enum Verdict {
	/// refused when read from the wire
	ReadErr(String),
	Rejected(String),
	Accepted,
}

impl Verdict {
	fn accepted(&self) -> bool {
		*self == Verdict::Accepted
	}
}

/// how the root is checked: `validate` or `validate_with` (root merged with another root)
#[derive(Clone, Copy, Debug)]
pub struct With {
	pub hash_last_pos: u64,
	pub other: H32,
	pub other_is_left: bool,
}

fn merged(root: &H32, w: &With) -> H32 {
	if w.other_is_left {
		refmmr::node_hash(w.hash_last_pos, &w.other, root)
	} else {
		refmmr::node_hash(w.hash_last_pos, root, &w.other)
	}
}

/// receive path of the code under test: deserialise, then validate
fn grin_verdict<T>(v: &SegView, mmr_size: u64, bm: Option<&Bitmap>, root: &H32, with: Option<&With>) -> Result<Verdict, Fail>
where
	T: Readable + Writeable + std::fmt::Debug + PMMRIndexHashable,
{
	let seg: Segment<T> = match catch(|| v.read::<T>())? {
		Ok(s) => s,
		Err(e) => return Ok(Verdict::ReadErr(format!("{:?}", e))),
	};
	let r = catch(|| match with {
		None => seg.validate(mmr_size, bm, h(root)),
		Some(w) => seg.validate_with(mmr_size, bm, h(&merged(root, w)), w.hash_last_pos, h(&w.other), w.other_is_left),
	})?;
	Ok(match r {
		Ok(()) => Verdict::Accepted,
		Err(e) => Verdict::Rejected(format!("{:?}", e)),
	})
}

// ================================================================ corruptions

#[derive(Clone, Debug, PartialEq, Eq, Hash, PartialOrd, Ord)]
pub enum Mut {
	LeafData(u64),
	LeafPos(u64, u64),
	LeafOmit(u64),
	HashVal(u64),
	HashPos(u64, u64),
	HashOmit(u64),
	ProofFlip(usize),
	ProofDrop(usize),
	ProofInsert(usize),
	Id(u8, u64),
	// --- things the reconstruction never reads: not asserted
	ExtraLeafData(u64),
	ExtraHashVal(u64),
	ExtraHashAdded(u64),
	ProofTrailing,
}

impl Mut {
	fn kind(&self) -> &'static str {
		match self {
			Mut::LeafData(_) => "leaf-data",
			Mut::LeafPos(..) => "leaf-pos",
			Mut::LeafOmit(_) => "leaf-omitted",
			Mut::HashVal(_) => "hash-value",
			Mut::HashPos(..) => "hash-pos",
			Mut::HashOmit(_) => "hash-omitted",
			Mut::ProofFlip(_) => "proof-hash",
			Mut::ProofDrop(_) => "proof-shortened",
			Mut::ProofInsert(_) => "proof-lengthened",
			Mut::Id(..) => "identifier",
			Mut::ExtraLeafData(_) => "unread-leaf-data",
			Mut::ExtraHashVal(_) => "unread-hash-value",
			Mut::ExtraHashAdded(_) => "unread-hash-added",
			Mut::ProofTrailing => "proof-trailing-extra",
		}
	}
	fn asserted(&self) -> bool {
		!matches!(self, Mut::ExtraLeafData(_) | Mut::ExtraHashVal(_) | Mut::ExtraHashAdded(_) | Mut::ProofTrailing)
	}
}

fn flip(x: &mut H32, salt: u64) {
	x[(salt % 32) as usize] ^= 1 << ((salt >> 8) % 8);
}

fn apply_mut(v: &SegView, m: &Mut, salt: u64) -> Option<SegView> {
	let mut o = v.clone();
	let li = |p: u64| v.leaf_pos.iter().position(|x| *x == p);
	let hi = |p: u64| v.hash_pos.iter().position(|x| *x == p);
	match m {
		Mut::LeafData(p) | Mut::ExtraLeafData(p) => {
			let i = li(*p)?;
			let l = o.leaves[i].len();
			if l == 0 {
				return None;
			}
			o.leaves[i][(salt as usize) % l] ^= 1 << ((salt >> 8) % 8);
		}
		Mut::LeafPos(p, q) => {
			let i = li(*p)?;
			o.leaf_pos[i] = *q;
		}
		Mut::LeafOmit(p) => {
			let i = li(*p)?;
			o.leaf_pos.remove(i);
			o.leaves.remove(i);
		}
		Mut::HashVal(p) | Mut::ExtraHashVal(p) => {
			let i = hi(*p)?;
			flip(&mut o.hashes[i], salt);
		}
		Mut::HashPos(p, q) => {
			let i = hi(*p)?;
			o.hash_pos[i] = *q;
		}
		Mut::HashOmit(p) => {
			let i = hi(*p)?;
			o.hash_pos.remove(i);
			o.hashes.remove(i);
		}
		Mut::ExtraHashAdded(p) => {
			if hi(*p).is_some() {
				return None;
			}
			let at = v.hash_pos.iter().position(|x| *x > *p).unwrap_or(v.hash_pos.len());
			o.hash_pos.insert(at, *p);
			o.hashes.insert(at, refmmr::blake(&[b"extra", &salt.to_be_bytes()]));
		}
		Mut::ProofFlip(k) => flip(o.proof.get_mut(*k)?, salt),
		Mut::ProofDrop(k) => {
			if *k >= o.proof.len() {
				return None;
			}
			o.proof.remove(*k);
		}
		Mut::ProofInsert(k) => {
			if *k > o.proof.len() {
				return None;
			}
			o.proof.insert(*k, refmmr::blake(&[b"ins", &salt.to_be_bytes()]));
		}
		Mut::ProofTrailing => o.proof.push(refmmr::blake(&[b"trail", &salt.to_be_bytes()])),
		Mut::Id(hh, ix) => {
			o.height = *hh;
			o.idx = *ix;
		}
	}
	if o == *v {
		None
	} else {
		Some(o)
	}
}

/// up to `k` elements of `all`, always the first and the last, the rest seeded
fn sample<T: Clone>(all: &[T], k: usize, salt: u64) -> Vec<T> {
	if all.len() <= k {
		return all.to_vec();
	}
	let mut idx: BTreeSet<usize> = BTreeSet::new();
	idx.insert(0);
	idx.insert(all.len() - 1);
	let mut c = 0u64;
	while idx.len() < k {
		idx.insert((mix(salt, c) % all.len() as u64) as usize);
		c += 1;
	}
	idx.into_iter().map(|i| all[i].clone()).collect()
}

/// the corruptions tried on one honest segment
fn mutations(v: &SegView, d: &Deps, t: &RefTree, salt: u64, per_kind: usize) -> Vec<Mut> {
	let size = t.m.size();
	let n = t.n();
	let mut out = vec![];
	let dl: Vec<u64> = d.leaves.iter().copied().collect();
	let dh: Vec<u64> = d.hashes.iter().copied().collect();
	for p in sample(&dl, per_kind, mix(salt, 1)) {
		out.push(Mut::LeafData(p));
	}
	for p in sample(&dl, per_kind, mix(salt, 2)) {
		out.push(Mut::LeafOmit(p));
	}
	for p in sample(&dl, per_kind, mix(salt, 3)) {
		// another valid leaf position that the segment does not carry: the nearest one
		// above or below (the wire format wants ascending positions: a position that
		// breaks the order is refused when read, which counts as refused)
		let i = t.m.nodes[p as usize].leaf_idx.unwrap();
		let up = (i + 1..n).map(|j| t.lp[j as usize]).find(|q| !v.leaf_pos.contains(q));
		let down = (0..i).rev().map(|j| t.lp[j as usize]).find(|q| !v.leaf_pos.contains(q));
		let pick = if mix(salt, p) & 1 == 0 { up.or(down) } else { down.or(up) };
		if let Some(q) = pick {
			out.push(Mut::LeafPos(p, q));
		}
	}
	for p in sample(&dh, per_kind, mix(salt, 4)) {
		out.push(Mut::HashVal(p));
		out.push(Mut::HashOmit(p));
		let up = (p + 1..size).find(|q| !v.hash_pos.contains(q));
		let down = (0..p).rev().find(|q| !v.hash_pos.contains(q));
		let pick = if mix(salt, p ^ 0x55) & 1 == 0 { up.or(down) } else { down.or(up) };
		if let Some(q) = pick {
			out.push(Mut::HashPos(p, q));
		}
	}
	for k in 0..d.proof_used {
		out.push(Mut::ProofFlip(k));
	}
	let ks: Vec<usize> = (0..d.proof_used).collect();
	for k in sample(&ks, 3, mix(salt, 5)) {
		out.push(Mut::ProofDrop(k));
		out.push(Mut::ProofInsert(k));
	}
	// another existing segment's identifier
	let mut ids: BTreeSet<(u8, u64)> = BTreeSet::new();
	let nseg = |hh: u8| (n + (1u64 << hh) - 1) >> hh;
	if v.idx + 1 < nseg(v.height) {
		ids.insert((v.height, v.idx + 1));
	}
	if v.idx > 0 {
		ids.insert((v.height, v.idx - 1));
	}
	if v.height > 0 {
		ids.insert((v.height - 1, (v.idx * 2).min(nseg(v.height - 1) - 1)));
		ids.insert((v.height - 1, (v.idx * 2 + 1).min(nseg(v.height - 1) - 1)));
	}
	ids.insert((v.height + 1, v.idx / 2));
	let rh = (mix(salt, 6) % 9) as u8;
	ids.insert((rh, mix(salt, 7) % nseg(rh)));
	ids.remove(&(v.height, v.idx));
	for (hh, ix) in ids {
		out.push(Mut::Id(hh, ix));
	}
	// not asserted: data that the reconstruction never reads
	let el: Vec<u64> = v.leaf_pos.iter().copied().filter(|p| !d.leaves.contains(p)).collect();
	for p in sample(&el, 2, mix(salt, 8)) {
		out.push(Mut::ExtraLeafData(p));
	}
	let eh: Vec<u64> = v.hash_pos.iter().copied().filter(|p| !d.hashes.contains(p)).collect();
	for p in sample(&eh, 2, mix(salt, 9)) {
		out.push(Mut::ExtraHashVal(p));
	}
	out.push(Mut::ExtraHashAdded(mix(salt, 10) % size));
	out.push(Mut::ProofTrailing);
	out
}

// ================================================================ one tree, all its segments

#[derive(Default)]
struct TreeStats {
	evals: u64,
	segments: u64,
	nontrivial: u64,
}

/// everything Domain A says about one MMR state
#[allow(clippy::too_many_arguments)]
fn check_tree<B: Backend<FixElem>>(
	ctx: &Ctx,
	kind: &str,
	backend: &B,
	size: u64,
	leaves: &[Vec<u8>],
	alive: Option<&[bool]>,
	heights: &[u8],
	only: Option<(u8, u64)>,
	salt: u64,
	per_kind: usize,
	counting: bool,
) -> PResult {
	let ev = &ctx.ev;
	let r = RefMmr::build(leaves);
	let n = leaves.len() as u64;
	ensure!(size == r.size(), "harness:size", "{}: backend size {} reference {}", kind, size, r.size());
	let root = r.root();
	let prunable = alive.is_some();
	let unspent: Option<BTreeSet<u64>> = alive.map(|a| (0..n).filter(|i| a[*i as usize]).collect());
	let bitmap: Option<Bitmap> = unspent.as_ref().map(|s| s.iter().map(|i| *i as u32).collect());
	let t = RefTree::new(&r, unspent.as_ref());
	let pmmr = ReadonlyPMMR::<FixElem, B>::at(backend, size);
	let mut st = TreeStats::default();
	if n == 0 {
		let res = catch(|| Segment::from_pmmr(SegmentIdentifier { height: 0, idx: 0 }, &pmmr, prunable))?;
		ensure!(res.is_err(), "segment-of-empty-mmr", "{}: a segment of the empty MMR was produced", kind);
		return Ok(());
	}
	for &hh in heights {
		let nseg = (n + (1u64 << hh) - 1) >> hh;
		for idx in 0..nseg {
			if let Some(o) = only {
				if o != (hh, idx) {
					continue;
				}
			}
			let when = format!("{} n={} segment(h={},idx={})", kind, n, hh, idx);
			let id = SegmentIdentifier { height: hh, idx };
			let seg = match catch(|| Segment::from_pmmr(id, &pmmr, prunable))? {
				Ok(s) => s,
				Err(e) => {
					// SegmentProof::generate reads the siblings on the path with get_hash, which answers
					// None for a leaf that has been removed: a height-0 segment next to a spent leaf cannot be
					// produced. The node only serves heights >= 7 (adapters.rs *_SEGMENT_HEIGHT_RANGE), where
					// no sibling on the path is a leaf, so this is outside the served domain: counted only.
					let sib = idx ^ 1;
					let sib_spent = prunable && sib < n && !alive.unwrap()[sib as usize];
					if hh == 0 && sib_spent {
						if counting {
							ev.class("seg:not_producible:height0_next_to_spent_leaf(not asserted)");
						}
						continue;
					}
					fail!("honest-segment-not-produced", "{}: from_pmmr: {:?}", when, e);
				}
			};
			st.segments += 1;
			let v = SegView::of(&seg)?;
			// the harness's reading of the wire format is the code's
			match v.read::<FixElem>() {
				Ok(back) => ensure!(back == seg, "wire-roundtrip", "{}: segment differs after the harness's own encoding was read back", when),
				Err(e) => fail!("wire-roundtrip", "{}: the harness's encoding of an honest segment is refused: {:?}", when, e),
			}
			// Second height-0 limitation of from_pmmr on a prunable tree: a spent leaf whose data is still
			// on file (not compacted) is shipped as data WITHOUT its hash; if its sibling is spent too the
			// bitmap makes the reconstruction ask for the hash of the leaf (or of an enclosing spent
			// subtree), which a height-0 segment then does not carry. Heights below 7 are never served
			// (adapters.rs), from height 1 on the subtree root is an inner node whose hash is shipped:
			// counted, not asserted.
			if hh == 0 && prunable {
				let a = alive.unwrap();
				let sib = idx ^ 1;
				let needed = a[idx as usize] || (sib < n && a[sib as usize]) || t.lp[idx as usize] + 1 == size;
				if !needed && v.hash_pos.is_empty() && v.leaf_pos == vec![t.lp[idx as usize]] {
					if counting {
						ev.class("seg:not_provable:height0_spent_leaf_shipped_as_data(not asserted)");
					}
					continue;
				}
			}
			// honest: reference reconstruction gives the reference root, and the code accepts it
			let (rr, deps) = match t.eval(&v) {
				Ok(x) => x,
				Err(e) => fail!("honest-segment-incomplete-by-reference", "{}: the reference reconstruction cannot use the produced segment: {} ; segment {:?}", when, e, brief(&v)),
			};
			ensure!(rr == root, "honest-segment-reference-root-differs", "{}: reference reconstruction of the produced segment does not give the MMR root; segment {:?}", when, brief(&v));
			let w = With {
				hash_last_pos: size,
				other: refmmr::blake(&[b"other-root", &salt.to_be_bytes(), &idx.to_be_bytes()]),
				other_is_left: (mix(salt, idx) >> 3) & 1 == 0,
			};
			let w2 = With { other_is_left: !w.other_is_left, ..w };
			for (name, with) in [("validate", None), ("validate_with", Some(&w)), ("validate_with", Some(&w2))] {
				let g = grin_verdict::<FixElem>(&v, size, bitmap.as_ref(), &root, with)?;
				st.evals += 1;
				ensure!(
					g.accepted(),
					"honest-segment-rejected",
					"{}: {} of the produced segment against the reference root: {:?}; segment {:?}",
					when,
					name,
					g,
					brief(&v)
				);
			}
			// the merged root commits to the other root, its side and the position it is hashed with
			{
				let mut bad = w;
				flip(&mut bad.other, salt);
				let seg2 = seg.clone();
				let r1 = catch(|| seg2.validate_with(size, bitmap.as_ref(), h(&merged(&root, &w)), w.hash_last_pos, h(&bad.other), w.other_is_left))?;
				let r2 = catch(|| seg2.validate_with(size, bitmap.as_ref(), h(&merged(&root, &w)), w.hash_last_pos, h(&w.other), !w.other_is_left))?;
				let r3 = catch(|| seg2.validate_with(size, bitmap.as_ref(), h(&merged(&root, &w)), w.hash_last_pos + 1, h(&w.other), w.other_is_left))?;
				st.evals += 3;
				ensure!(r1.is_err() && r2.is_err() && r3.is_err(), "validate_with-ignores-argument", "{}: validate_with accepts a changed other root / side / position: {:?} {:?} {:?}", when, r1, r2, r3);
			}
			let n_pruned_hashes = deps.hashes.len();
			let nontrivial = n_pruned_hashes >= 1 && !deps.leaves.is_empty();
			if counting {
				ev.class(&format!("seg:{}:height{}", kind, hh));
				if deps.root_from_ancestor {
					ev.class("seg:fully_spent_segment_proved_by_enclosing_subtree_hash");
				} else if deps.leaves.is_empty() {
					ev.class("seg:fully_spent_segment_proved_by_own_hash");
				}
				if v.leaf_pos.iter().any(|p| !deps.leaves.contains(p)) {
					ev.class("seg:carries_unread_leaf_data(spent, not compacted)");
				}
				if nontrivial {
					st.nontrivial += 1;
					ev.nontrivial(&("seg", kind.to_string(), hh, 64 - n.leading_zeros(), n_pruned_hashes.min(6), deps.leaves.len().min(8), hi_full(n, hh, idx), deps.proof_used));
				}
			}
			// corruptions
			for (mi, m) in mutations(&v, &deps, &t, mix(salt, (hh as u64) << 32 | idx), per_kind).into_iter().enumerate() {
				let Some(mv) = apply_mut(&v, &m, mix(salt, mi as u64 ^ idx << 8)) else { continue };
				let with = if mi % 2 == 0 { None } else { Some(&w) };
				let g = grin_verdict::<FixElem>(&mv, size, bitmap.as_ref(), &root, with)?;
				st.evals += 1;
				let reference_accepts = matches!(t.eval(&mv), Ok((x, _)) if x == root);
				if !m.asserted() {
					if counting {
						ev.class(&format!("seg:not_asserted:{}:{}", m.kind(), if g.accepted() { "accepted" } else { "refused" }));
					}
					continue;
				}
				if reference_accepts {
					// the change leaves a segment that still proves what it claims (e.g. the same
					// leaves under another identifier): nothing to refuse
					if counting {
						ev.class(&format!("seg:change_keeps_segment_valid:{}(not asserted)", m.kind()));
					}
					continue;
				}
				if counting {
					ev.class(&format!(
						"seg:corruption_refused:{}{}",
						m.kind(),
						match &g {
							Verdict::ReadErr(_) => ":at_read",
							_ => "",
						}
					));
					if let Mut::LeafOmit(p) = &m {
						let i = r.nodes[*p as usize].leaf_idx.unwrap();
						ev.class(if unspent.as_ref().map(|u| u.contains(&i)).unwrap_or(true) { "seg:omitted_leaf:marked_unspent" } else { "seg:omitted_leaf:needed_as_sibling_or_last" });
					}
				}
				ensure!(
					!g.accepted(),
					format!("corruption-accepted:{}", m.kind()),
					"{}: corruption {:?} of an element the root depends on is ACCEPTED by {} (reference reconstruction refuses it); honest segment {:?}",
					when,
					m,
					if with.is_some() { "validate_with" } else { "validate" },
					brief(&v)
				);
			}
		}
	}
	if counting {
		ev.evals(st.evals);
		ev.class_n(&format!("seg:{}:segments", kind), st.segments);
		ev.class_n("seg:nontrivial_segments", st.nontrivial);
	}
	Ok(())
}

fn hi_full(n: u64, hh: u8, idx: u64) -> bool {
	(idx + 1) << hh <= n
}

fn brief(v: &SegView) -> Value {
	json!({"id": [v.height, v.idx], "hash_pos": v.hash_pos, "leaf_pos": v.leaf_pos, "proof_len": v.proof.len()})
}

// ================================================================ trees (the replayable case)

#[derive(Clone, Debug, Serialize, Deserialize, PartialEq)]
pub enum Tree {
	/// VecBackend, nothing removed. `spent`: None = not prunable (kernel-like, no bitmap);
	/// Some = prunable with these leaf indices spent but all data still present
	Vec { n: u32, spent: Option<Vec<u32>> },
	/// store backend, not prunable (kernel-like), optional reopen before serving
	StoreFlat { n: u32, reopen: bool },
	/// store backend, prunable, state reached through a C08 history
	Store(History),
}

#[derive(Clone, Debug, Serialize, Deserialize, PartialEq)]
pub struct SegCase {
	pub tree: Tree,
	pub seed: u64,
	pub heights: Vec<u8>,
	/// restrict to one segment (replay convenience)
	pub only: Option<(u8, u64)>,
}

fn elem(seed: u64, serial: u64) -> FixElem {
	<FixElem as TElem>::make(seed, serial)
}

fn open_store(dir: &std::path::Path, prunable: bool) -> Result<PMMRBackend<FixElem>, Fail> {
	PMMRBackend::<FixElem>::new(dir, prunable, ProtocolVersion(1), None).map_err(|e| Fail::new("open-err", format!("PMMRBackend::new: {}", e)))
}

fn pos_of(leaf_idx: u64) -> u64 {
	refmmr::ref_leaf_pos(leaf_idx) as u64
}

fn bitmap_of(leaf_idxs: impl Iterator<Item = u64>) -> Bitmap {
	leaf_idxs.map(|i| (pos_of(i) + 1) as u32).collect()
}

struct Driven {
	backend: PMMRBackend<FixElem>,
	size: u64,
	leaves: Vec<Vec<u8>>,
	alive: Vec<bool>,
	eff_compactions: u32,
	rewinds: u32,
}

/// C08's driver without the per-step comparison: the usage protocol of
/// chain/src/txhashset/txhashset.rs (Extension::new / rewind / apply_block,
/// extending's sync|discard, TxHashSet::compact).
fn drive(dir: &std::path::Path, hist: &History) -> Result<Driven, Fail> {
	#[derive(Clone)]
	struct Blk {
		n_after: u64,
		removed: Vec<u64>,
	}
	ensure!(!hist.var, "harness:bad-history", "variable-size histories are not used here");
	let mut backend = open_store(dir, true)?;
	let mut size = backend.unpruned_size();
	let mut leaves: Vec<Vec<u8>> = vec![];
	let mut alive: Vec<bool> = vec![];
	let mut blocks: Vec<Blk> = vec![];
	let mut serial = 0u64;
	let mut floor = 0usize;
	let (mut eff, mut rewinds) = (0u32, 0u32);
	let n_at = |blocks: &Vec<Blk>, k: usize| if k == 0 { 0 } else { blocks[k - 1].n_after };
	let size_at = |blocks: &Vec<Blk>, k: usize| refmmr::ref_mmr_size(n_at(blocks, k)) as u64;
	for (si, step) in hist.steps.iter().enumerate() {
		match step {
			XStep::Unit { rewind_to, blocks: xb, commit } => {
				let snap = (leaves.clone(), alive.clone(), blocks.clone());
				let ext_size;
				{
					let mut p = PMMR::<FixElem, _>::at(&mut backend, size);
					if let Some(t) = *rewind_to {
						let len = blocks.len();
						ensure!(t >= floor && t <= len, "harness:bad-history", "step {}: rewind to boundary {} outside [{}, {}]", si, t, floor, len);
						if t == len {
							p.rewind(size_at(&blocks, len), &Bitmap::new()).map_err(|e| Fail::new("rewind-err", format!("step {}: {}", si, e)))?;
						} else {
							rewinds += 1;
							for j in ((t + 1)..=len).rev() {
								let blk = blocks.pop().unwrap();
								let bm = bitmap_of(blk.removed.iter().copied());
								p.rewind(size_at(&blocks, j - 1), &bm).map_err(|e| Fail::new("rewind-err", format!("step {}: rewind of block {}: {}", si, j, e)))?;
								for r in &blk.removed {
									alive[*r as usize] = true;
								}
								let n = n_at(&blocks, j - 1) as usize;
								leaves.truncate(n);
								alive.truncate(n);
							}
						}
					}
					for (bi, b) in xb.iter().enumerate() {
						let n0 = leaves.len() as u64;
						ensure!(n0 + b.appends as u64 <= 4096, "harness:bad-history", "step {}: too many leaves", si);
						for _ in 0..b.appends {
							let e = elem(hist.seed, serial);
							serial += 1;
							p.push(&e).map_err(|e| Fail::new("push-err", format!("step {} block {}: {}", si, bi, e)))?;
							leaves.push(e.bytes());
							alive.push(true);
						}
						for r in &b.removes {
							ensure!(*r < n0 && alive[*r as usize], "harness:bad-history", "step {} block {}: removal of leaf {} which is not a live leaf older than the block", si, bi, r);
							let ok = p.prune(pos_of(*r)).map_err(|e| Fail::new("prune-err", format!("step {} block {}: prune of leaf {}: {}", si, bi, r, e)))?;
							ensure!(ok, "live-leaf-reported-spent", "step {} block {}: prune of live leaf {} returned false", si, bi, r);
							alive[*r as usize] = false;
						}
						blocks.push(Blk {
							n_after: leaves.len() as u64,
							removed: b.removes.clone(),
						});
					}
					ext_size = p.size;
				}
				if *commit {
					backend.sync().map_err(|e| Fail::new("sync-err", format!("step {}: {}", si, e)))?;
					size = ext_size;
				} else {
					backend.discard();
					leaves = snap.0;
					alive = snap.1;
					blocks = snap.2;
				}
			}
			XStep::Compact { cutoff } => {
				let len = blocks.len();
				ensure!(*cutoff >= floor && *cutoff <= len, "harness:bad-history", "step {}: compaction at boundary {} outside [{}, {}]", si, cutoff, floor, len);
				let bm = bitmap_of(blocks[*cutoff..].iter().flat_map(|b| b.removed.iter().copied()));
				let hs0 = backend.hash_size();
				backend.check_compact(size_at(&blocks, *cutoff), &bm).map_err(|e| Fail::new("compact-err", format!("step {}: check_compact: {}", si, e)))?;
				if backend.hash_size() < hs0 {
					eff += 1;
				}
				floor = *cutoff;
			}
			XStep::Reopen | XStep::ReopenWithoutSizeFile => {
				drop(backend);
				backend = open_store(dir, true)?;
				let sz = backend.unpruned_size();
				let want = refmmr::ref_mmr_size(leaves.len() as u64) as u64;
				ensure!(sz == want, "reopen-size", "step {}: unpruned_size() after reopen {} reference {}", si, sz, want);
				size = sz;
			}
		}
	}
	Ok(Driven {
		backend,
		size,
		leaves,
		alive,
		eff_compactions: eff,
		rewinds,
	})
}

pub fn check_seg(ctx: &Ctx, c: &SegCase, counting: bool) -> PResult {
	let per_kind = if ctx.quick() { 4 } else { 8 };
	let ev = &ctx.ev;
	match &c.tree {
		Tree::Vec { n, spent } => {
			let mut b = VecBackend::<FixElem>::new();
			let mut leaves = vec![];
			{
				let mut p = PMMR::new(&mut b);
				for i in 0..*n as u64 {
					let e = elem(c.seed, i);
					p.push(&e).map_err(|e| Fail::new("push-err", e))?;
					leaves.push(e.bytes());
				}
			}
			let alive: Option<Vec<bool>> = spent.as_ref().map(|s| {
				let s: BTreeSet<u32> = s.iter().copied().collect();
				(0..*n).map(|i| !s.contains(&i)).collect()
			});
			let kind = if alive.is_some() { "vec_prunable" } else { "vec_flat" };
			check_tree(ctx, kind, &b, b.size(), &leaves, alive.as_deref(), &c.heights, c.only, c.seed, per_kind, counting)?;
			if counting {
				ev.class(&format!("seg:trees:{}", kind));
			}
		}
		Tree::StoreFlat { n, reopen } => {
			let dir = ctx.scratch_dir("sf");
			let r: PResult = (|| {
				let mut b = open_store(&dir, false)?;
				let mut leaves = vec![];
				let size;
				{
					let mut p = PMMR::<FixElem, _>::at(&mut b, 0);
					for i in 0..*n as u64 {
						let e = elem(c.seed, i);
						p.push(&e).map_err(|e| Fail::new("push-err", e))?;
						leaves.push(e.bytes());
					}
					size = p.size;
				}
				b.sync().map_err(|e| Fail::new("sync-err", e.to_string()))?;
				if *reopen {
					drop(b);
					b = open_store(&dir, false)?;
				}
				check_tree(ctx, "store_flat", &b, size, &leaves, None, &c.heights, c.only, c.seed, per_kind, counting)
			})();
			let _ = std::fs::remove_dir_all(&dir);
			r?;
			if counting {
				ev.class("seg:trees:store_flat");
			}
		}
		Tree::Store(hist) => {
			let dir = ctx.scratch_dir("sp");
			let r: PResult = (|| {
				let d = drive(&dir, hist)?;
				check_tree(ctx, "store_prunable", &d.backend, d.size, &d.leaves, Some(&d.alive), &c.heights, c.only, c.seed, per_kind, counting)?;
				if counting {
					ev.class("seg:trees:store_prunable");
					if d.eff_compactions > 0 {
						ev.class("seg:trees:store_prunable:with_effective_compaction");
						if d.leaves.len() >= 24 && d.leaves.len() <= 64 {
							ev.sample("seg-store", || serde_json::to_value(c).unwrap());
						}
					}
					if d.rewinds > 0 {
						ev.class("seg:trees:store_prunable:with_rewind");
					}
					let spent = d.alive.iter().filter(|a| !**a).count();
					if spent > 0 {
						ev.class("seg:trees:store_prunable:with_spent_leaves");
					}
				}
				Ok(())
			})();
			let _ = std::fs::remove_dir_all(&dir);
			match r {
				Err(f) if f.sig == "harness:bad-history" => {
					eprintln!("C16: history outside the usage protocol skipped: {}", f.msg);
				}
				r => r?,
			}
		}
	}
	if counting && matches!(&c.tree, Tree::Vec { n, spent: Some(_) } if *n >= 20 && *n <= 40) {
		ev.sample("seg-vec", || serde_json::to_value(c).unwrap());
	}
	Ok(())
}

// ---------------------------------------------------------------- generated trees

/// forward history up to 600 leaves: blocks append and spend in shaped patterns, compactions in between
#[derive(Clone, Debug)]
pub struct Fwd {
	pub n_target: u16,
	pub blocks: u8,
	pub pat: Vec<(u8, u16, u8)>,
	pub compact_every: u8,
	pub lag: u8,
	pub seed: u64,
}

fn fwd_history(f: &Fwd) -> History {
	let mut alive: Vec<bool> = vec![];
	let mut bounds: Vec<u64> = vec![];
	let mut steps = vec![];
	let nb = f.blocks.max(1) as u64;
	let per = (f.n_target as u64 + nb - 1) / nb;
	let mut floor = 0usize;
	for k in 0..nb {
		let n0 = alive.len() as u64;
		let appends = per.min((f.n_target as u64).saturating_sub(n0)) as u32;
		let (pk, pp, pl) = f.pat[(k as usize) % f.pat.len()];
		let live: Vec<u64> = (0..n0).filter(|i| alive[*i as usize]).collect();
		let in_range = |a: u64, e: u64| -> Vec<u64> { live.iter().copied().filter(|i| *i >= a && *i < e).collect() };
		let pick = |len: u64| ((pp as u64) * len) >> 16;
		let mut removes: Vec<u64> = if n0 == 0 {
			vec![]
		} else {
			match pk % 7 {
				0 => vec![],
				1 => {
					// an aligned subtree of height 1..=6
					let w = 1u64 << (1 + pl % 6);
					let cands = (n0 + w - 1) / w;
					let s = pick(cands) * w;
					in_range(s, s + w)
				}
				2 => {
					// every other leaf of a window
					let a = pick(n0);
					in_range(a, a + 2 + 4 * pl as u64).into_iter().filter(|i| i % 2 == (pl as u64 & 1)).collect()
				}
				3 => in_range(0, pick(n0 + 1)),                                                     // everything before a point
				4 => (0..1 + pl % 5).filter_map(|j| live.get((mix(f.seed, k << 8 | j as u64) % live.len().max(1) as u64) as usize).copied()).collect(), // a few
				5 => {
					// all but one leaf of an aligned subtree
					let w = 1u64 << (1 + pl % 5);
					let s = pick((n0 + w - 1) / w) * w;
					let mut v = in_range(s, s + w);
					if !v.is_empty() {
						v.remove((pl as usize) % v.len());
					}
					v
				}
				_ => in_range(n0.saturating_sub(1 + pl as u64), n0), // the youngest leaves
			}
		};
		removes.sort_unstable();
		removes.dedup();
		for _ in 0..appends {
			alive.push(true);
		}
		for r in &removes {
			alive[*r as usize] = false;
		}
		bounds.push(alive.len() as u64);
		steps.push(XStep::Unit {
			rewind_to: None,
			blocks: vec![XBlock { appends, removes }],
			commit: true,
		});
		if f.compact_every > 0 && (k + 1) % f.compact_every as u64 == 0 {
			let cutoff = (bounds.len()).saturating_sub(f.lag as usize).max(floor);
			floor = cutoff;
			steps.push(XStep::Compact { cutoff });
		}
	}
	History { var: false, var_prunable: false, seed: f.seed, steps }
}

#[derive(Clone, Debug)]
pub enum RawTree {
	Vec { n: u16, spend: Option<(u8, u16)> },
	StoreFlat { n: u16, reopen: bool },
	C08(c08::SCase),
	Fwd(Fwd),
}

#[derive(Clone, Debug)]
pub struct RawSeg {
	pub tree: RawTree,
	pub seed: u64,
}

fn size_strategy() -> impl Strategy<Value = u16> {
	prop_oneof![3 => 1u16..=16, 3 => 17u16..=130, 2 => 131u16..=600, 1 => prop::sample::select(vec![1u16, 2, 3, 4, 7, 8, 15, 16, 31, 32, 33, 63, 64, 65, 127, 128, 129, 255, 256, 257, 511, 512, 513, 600])]
}

pub fn seg_strategy() -> impl Strategy<Value = RawSeg> {
	let vecs = (size_strategy(), prop::option::weighted(0.7, (0u8..6, any::<u16>()))).prop_map(|(n, spend)| RawTree::Vec { n, spend });
	let flat = (size_strategy(), any::<bool>()).prop_map(|(n, reopen)| RawTree::StoreFlat { n, reopen });
	let c8 = c08::store_strategy().prop_map(|mut c| {
		c.var = false;
		RawTree::C08(c)
	});
	let fwd = (size_strategy(), 1u8..=24, prop::collection::vec((0u8..7, any::<u16>(), any::<u8>()), 1..=8), 0u8..=6, 0u8..=3, any::<u64>()).prop_map(|(n_target, blocks, pat, compact_every, lag, seed)| {
		RawTree::Fwd(Fwd {
			n_target,
			blocks,
			pat,
			compact_every,
			lag,
			seed,
		})
	});
	(prop_oneof![2 => vecs, 1 => flat, 4 => c8, 5 => fwd], any::<u64>()).prop_map(|(tree, seed)| RawSeg { tree, seed })
}

/// spent leaf indices of an unpruned prunable tree by pattern
fn spend_set(n: u32, pat: u8, p: u16, seed: u64) -> Vec<u32> {
	match pat {
		0 => vec![],                                                    // everything unspent
		1 => (0..n).collect(),                                         // everything spent
		2 => (0..n).filter(|i| mix(seed, *i as u64) % 100 < 50).collect(), // half
		3 => (0..n).filter(|i| mix(seed, *i as u64) % 100 < 90).collect(), // most
		4 => {
			// aligned subtrees fully spent
			let w = 1u32 << (1 + p % 5);
			(0..n).filter(|i| mix(seed, (*i / w) as u64) % 3 == 0).collect()
		}
		_ => (0..n).filter(|i| (*i as u64) < ((p as u64 * n as u64) >> 16)).collect(), // a prefix
	}
}

pub fn resolve_seg(raw: &RawSeg) -> SegCase {
	let tree = match &raw.tree {
		RawTree::Vec { n, spend } => Tree::Vec {
			n: *n as u32,
			spent: spend.map(|(pat, p)| spend_set(*n as u32, pat, p, raw.seed)),
		},
		RawTree::StoreFlat { n, reopen } => Tree::StoreFlat { n: *n as u32, reopen: *reopen },
		RawTree::C08(c) => Tree::Store(c08::resolve(c)),
		RawTree::Fwd(f) => Tree::Store(fwd_history(f)),
	};
	SegCase {
		tree,
		seed: raw.seed,
		heights: (0..=6).collect(),
		only: None,
	}
}

/// exhaustive small part: every leaf count up to `max_n` on the in-memory backend (flat, all
/// unspent, all spent, alternating), and every spend subset of a store MMR of up to
/// `max_sub` leaves with and without compaction
fn exhaustive_cases(max_n: u32, max_sub: u32) -> Vec<SegCase> {
	let mut v = vec![];
	let heights: Vec<u8> = (0..=6).collect();
	for n in 1..=max_n {
		for spent in [None, Some(vec![]), Some((0..n).collect::<Vec<u32>>()), Some((0..n).filter(|i| i % 2 == 0).collect()), Some((0..n).filter(|i| i % 4 != 1).collect())] {
			v.push(SegCase {
				tree: Tree::Vec { n, spent },
				seed: n as u64,
				heights: heights.clone(),
				only: None,
			});
		}
	}
	for n in 1..=max_sub {
		for mask in 0u32..(1 << n) {
			for compact in [false, true] {
				let removes: Vec<u64> = (0..n as u64).filter(|i| mask >> i & 1 == 1).collect();
				let mut steps = vec![
					XStep::Unit {
						rewind_to: None,
						blocks: vec![XBlock { appends: n, removes: vec![] }],
						commit: true,
					},
					XStep::Unit {
						rewind_to: None,
						blocks: vec![XBlock { appends: 0, removes }],
						commit: true,
					},
				];
				if compact {
					steps.push(XStep::Compact { cutoff: 2 });
				}
				v.push(SegCase {
					tree: Tree::Store(History { var: false, var_prunable: false, seed: 7, steps }),
					seed: (n as u64) << 32 | mask as u64,
					heights: (0..=4).collect(),
					only: None,
				});
			}
		}
	}
	v
}

// ================================================================ part "bitmapseg": synthetic multi-chunk bitmap trees

#[derive(Clone, Debug, Serialize, Deserialize)]
pub struct BmCase {
	/// number of outputs ever (bits)
	pub n_bits: u32,
	pub density: u8,
	pub seed: u64,
	pub height: u8,
}

pub fn bm_strategy() -> impl Strategy<Value = BmCase> {
	(prop_oneof![2 => 1u32..3000, 2 => 3000u32..40_000, 1 => prop::sample::select(vec![1u32, 1023, 1024, 1025, 2048, 2049, 4096, 8191, 8192])], 0u8..5, any::<u64>(), 0u8..=3).prop_map(|(n_bits, density, seed, height)| BmCase { n_bits, density, seed, height })
}

/// bitmap accumulator segments (Segment<BitmapChunk>, served by Segmenter::bitmap_segment and
/// checked by Desegmenter::add_bitmap_segment with validate_with(.., output_root, other_is_left = true))
pub fn check_bm(ctx: &Ctx, c: &BmCase, counting: bool) -> PResult {
	use grin_chain::txhashset::{BitmapAccumulator, BitmapSegment};
	let unspent: Vec<u64> = (0..c.n_bits as u64)
		.filter(|i| match c.density {
			0 => *i + 1 == c.n_bits as u64,
			1 => mix(c.seed, *i) % 100 < 5,
			2 => mix(c.seed, *i) % 100 < 50,
			3 => mix(c.seed, *i) % 100 < 97,
			_ => mix(c.seed, *i / 1024) % 2 == 0 || *i + 1 == c.n_bits as u64,
		})
		.collect();
	if unspent.is_empty() {
		return Ok(());
	}
	let mut acc = BitmapAccumulator::new();
	acc.init(unspent.iter().copied(), c.n_bits as u64).map_err(|e| Fail::new("harness:acc", format!("{:?}", e)))?;
	// reference chunks and root
	let n_chunks = (unspent.iter().max().unwrap() / 1024 + 1) as usize;
	let mut chunks = vec![vec![0u8; 128]; n_chunks];
	for i in &unspent {
		chunks[(*i / 1024) as usize][(*i % 1024) as usize / 8] |= 0x80 >> (*i % 8);
	}
	let r = RefMmr::build(&chunks);
	let root = r.root();
	let t = RefTree::new(&r, None);
	let pm = acc.readonly_pmmr();
	let size = pm.unpruned_size();
	ensure!(size == r.size(), "bitmap-accumulator-size", "accumulator has {} nodes, reference {} ({} chunks)", size, r.size(), n_chunks);
	let out_mmr_size = refmmr::ref_mmr_size(c.n_bits as u64) as u64;
	let w = With {
		hash_last_pos: out_mmr_size,
		other: refmmr::blake(&[b"output-root", &c.seed.to_be_bytes()]),
		other_is_left: true,
	};
	let nseg = (n_chunks as u64 + (1 << c.height) - 1) >> c.height;
	let mut evals = 0u64;
	for idx in 0..nseg {
		let when = format!("bitmap tree of {} chunks, segment(h={},idx={})", n_chunks, c.height, idx);
		let id = SegmentIdentifier { height: c.height, idx };
		let seg = match catch(|| Segment::from_pmmr(id, &pm, false))? {
			Ok(s) => s,
			Err(e) => fail!("honest-segment-not-produced", "{}: {:?}", when, e),
		};
		// the wire form of a bitmap segment is BitmapSegment: there and back
		let bs = BitmapSegment::from(seg.clone());
		let bytes = ser::ser_vec(&bs, ProtocolVersion(1)).map_err(|e| Fail::new("bitmap-segment-ser", format!("{}: {:?}", when, e)))?;
		let back: BitmapSegment = match ser::deserialize(&mut &bytes[..], ProtocolVersion(1), DeserializationMode::default()) {
			Ok(b) => b,
			Err(e) => fail!("bitmap-segment-roundtrip", "{}: own encoding refused: {:?}", when, e),
		};
		let seg2: Segment<BitmapChunk> = match catch(|| back.into_segment())? {
			Ok(s) => s,
			Err(e) => fail!("bitmap-segment-roundtrip", "{}: into_segment: {:?}", when, e),
		};
		ensure!(seg2 == seg, "bitmap-segment-roundtrip", "{}: segment differs after BitmapSegment round trip", when);
		let v = SegView::of(&seg2)?;
		let (rr, deps) = t.eval(&v).map_err(|e| Fail::new("honest-segment-incomplete-by-reference", format!("{}: {}", when, e)))?;
		ensure!(rr == root, "honest-segment-reference-root-differs", "{}: reference reconstruction differs from the reference bitmap root", when);
		let ok = catch(|| seg2.validate_with(size, None, h(&merged(&root, &w)), w.hash_last_pos, h(&w.other), true))?;
		evals += 1;
		ensure!(ok.is_ok(), "honest-segment-rejected", "{}: validate_with against H(size|output root|reference bitmap root): {:?}", when, ok);
		// corruptions: one bit of one chunk, a chunk dropped, a proof hash, the identifier
		let (sid, hp, hs, lp, ld, _pf) = seg2.clone().parts();
		let rebuild = |lp: Vec<u64>, ld: Vec<BitmapChunk>, view: &SegView, id: SegmentIdentifier| -> Result<Segment<BitmapChunk>, Fail> {
			// proof through its wire form
			let mut pb = (view.proof.len() as u64).to_be_bytes().to_vec();
			for x in &view.proof {
				pb.extend_from_slice(x);
			}
			let proof = ser::deserialize(&mut &pb[..], ProtocolVersion(1), DeserializationMode::default()).map_err(|e| Fail::new("harness:proof", format!("{:?}", e)))?;
			Ok(Segment::from_parts(id, hp.clone(), hs.clone(), lp, ld, proof))
		};
		let check_bad = |s: Segment<BitmapChunk>, what: &str| -> PResult {
			let g = catch(|| s.validate_with(size, None, h(&merged(&root, &w)), w.hash_last_pos, h(&w.other), true))?;
			ensure!(g.is_err(), format!("corruption-accepted:bitmap:{}", what), "{}: {} accepted", when, what);
			Ok(())
		};
		for (k, p) in sample(&lp, 3, mix(c.seed, idx)).into_iter().enumerate() {
			let i = lp.iter().position(|x| *x == p).unwrap();
			let mut ld2 = ld.clone();
			let bit = mix(c.seed, idx << 8 | k as u64) % 1024;
			let cur = ld2[i].set_iter(0).any(|b| b as u64 == bit);
			ld2[i].set(bit, !cur);
			check_bad(rebuild(lp.clone(), ld2, &v, sid)?, "chunk-bit")?;
			evals += 1;
			if lp.len() > 1 {
				let (mut lp3, mut ld3) = (lp.clone(), ld.clone());
				lp3.remove(i);
				ld3.remove(i);
				check_bad(rebuild(lp3, ld3, &v, sid)?, "chunk-omitted")?;
				evals += 1;
			}
		}
		for k in 0..deps.proof_used {
			let mut v2 = v.clone();
			flip(&mut v2.proof[k], mix(c.seed, k as u64));
			check_bad(rebuild(lp.clone(), ld.clone(), &v2, sid)?, "proof-hash")?;
			evals += 1;
		}
		if idx + 1 < nseg && hi_full(n_chunks as u64, c.height, idx + 1) {
			check_bad(rebuild(lp.clone(), ld.clone(), &v, SegmentIdentifier { height: c.height, idx: idx + 1 })?, "identifier")?;
			evals += 1;
		}
	}
	if counting {
		ctx.ev.evals(evals);
		ctx.ev.class(&format!("bitmapseg:chunks_{}", match n_chunks { 1 => "1", 2..=3 => "2_3", 4..=8 => "4_8", _ => "9_40" }));
		ctx.ev.class_n("bitmapseg:segments", nseg);
		if n_chunks >= 3 && nseg >= 2 {
			ctx.ev.nontrivial(&("bm", n_chunks.min(12), c.height, c.density));
		}
	}
	Ok(())
}

// ================================================================ part "sync" (Domain B)

/// Genesis as on the real networks: one reward output and one kernel, with the header committing to
/// them (sizes 1, roots of the one-leaf MMRs). The desegmenter's handling of position 0 ("don't re-push
/// the genesis output") is written for exactly this shape; the harness's usual plain dev genesis has
/// an empty body, which state sync from segments does not support.
fn genesis_rewarded() -> &'static (grin_core::core::Block, OutRef) {
	static G: std::sync::OnceLock<(grin_core::core::Block, OutRef)> = std::sync::OnceLock::new();
	G.get_or_init(|| {
		init_thread();
		let (r, out, kern) = LIB.coinbase(0, 3);
		let mut g = grin_core::genesis::genesis_dev().with_reward(out.clone(), kern.clone());
		g.header.output_mmr_size = 1;
		g.header.kernel_mmr_size = 1;
		g.header.output_root = out.identifier().hash_with_index(0);
		g.header.range_proof_root = out.proof().hash_with_index(0);
		g.header.kernel_root = kern.hash_with_index(0);
		(g, r)
	})
}

fn open_box(dir: &std::path::Path) -> Result<ChainBox, String> {
	let adapter = Arc::new(RecAdapter::default());
	let genesis = genesis_rewarded().0.clone();
	let chain = grin_chain::Chain::init(dir.to_string_lossy().to_string(), adapter.clone(), genesis.clone(), grin_core::pow::verify_size, false, None).map_err(|e| format!("Chain::init: {:?}", e))?;
	Ok(ChainBox {
		dir: dir.to_path_buf(),
		chain: Some(Arc::new(chain)),
		adapter,
		genesis,
		archive: false,
	})
}

fn new_world(cb: &ChainBox) -> World {
	let mut w = World::new(&cb.genesis, true);
	w.note(&genesis_rewarded().1);
	w
}

type RootsT = (Hash, Hash, Hash, Hash);

fn roots_of(cb: &ChainBox) -> Result<RootsT, Fail> {
	let ts = cb.c().txhashset();
	let ts = ts.read();
	let r = ts.roots().map_err(|e| Fail::new("roots-err", format!("{:?}", e)))?;
	Ok((r.output_roots.pmmr_root, r.output_roots.bitmap_root, r.rproof_root, r.kernel_root))
}

#[derive(Clone, Debug, Serialize, Deserialize)]
pub enum Src {
	/// a 130-block real-PoW chain built from `base_seed` whose blocks carry ~10 outputs each, so
	/// that the archive state has more than 1024 outputs (two bitmap chunks), + `pre` blocks;
	/// optionally fillers up to a height divisible by 10 and Chain::compact() there; then `post` blocks
	Big { base_seed: u64, pre: Vec<RawBlock>, compact: bool, post: Vec<RawBlock> },
	/// a fresh chain of these blocks (padded with empty blocks to at least 30)
	Short { blocks: Vec<RawBlock> },
	/// a serving node that is reorganised across its archive header: `main` blocks padded to height
	/// 31 (archive header at height 10); the node serves one segment of every tree (as a peer's
	/// request would make it); then a heavier fork from height `fork_at` (2..=8) of `fork` blocks
	/// padded to height 32 replaces the block at the archive height while the archive height stays 10
	Reorged { main: Vec<RawBlock>, fork_at: u8, fork: Vec<RawBlock> },
}

#[derive(Clone, Debug, Serialize, Deserialize)]
pub struct Corrupt {
	/// 0 bitmap, 1 output, 2 rangeproof, 3 kernel
	pub tree: u8,
	/// which delivered segment of that tree (modulo what is delivered)
	pub nth: u8,
	/// 0 needed leaf datum, 1 needed hash, 2 proof hash, 3 needed leaf omitted, 4 unread leaf datum
	/// (spent, not compacted), 5 unread hash, 6 a valid segment of another height with the same idx
	pub kind: u8,
	pub pick: u16,
	/// after a failed sync: reset as state_sync.rs does and sync honestly
	pub retry_after_reset: bool,
}

#[derive(Clone, Debug, Serialize, Deserialize)]
pub struct SyncCase {
	pub src: Src,
	/// segment heights (bitmap 0..=1, output / rangeproof / kernel 2..=4)
	pub heights: (u8, u8, u8, u8),
	/// argument of next_desired_segments (3..=15)
	pub max_req: u8,
	/// 0: process_block_header one by one; k: sync_block_headers in chunks of 8k
	pub header_chunks: u8,
	/// seeds of the delivery schedule (order keys, duplicates, extras, drops)
	pub order: Vec<u16>,
	pub dup_pct: u8,
	pub extra_pct: u8,
	pub drop_pct: u8,
	pub corrupt: Option<Corrupt>,
	/// 0 none, 1 also sync a second receiver from the state archive, 2 from a well-formed archive with one
	/// MMR data / hash file changed (byte flipped, tail cut, junk appended; chosen by `archive_byte`)
	pub archive: u8,
	pub archive_byte: u32,
	/// after the sync feed the receiver the source's blocks above the archive header
	pub continue_blocks: bool,
}

fn sync_tx() -> impl Strategy<Value = RawTx> {
	(
		prop::collection::vec(prop_oneof![3 => 0u16..6000, 3 => 40000u16..=65535, 2 => any::<u16>()], 1..=3),
		prop::collection::vec((0u8..6, 0u8..5).prop_map(|(amt, key)| RawOut { kind: 0, amt, key }), 1..=3),
		0u8..3,
		prop_oneof![8 => Just(0u8), 1 => Just(1u8), 1 => Just(2u8), 1 => Just(3u8), 1 => 5u8..=10],
		any::<bool>(),
		prop::bool::weighted(0.15),
	)
		.prop_map(|(ins, outs, fee, kern, zero_offset, chain_prev)| RawTx {
			ins,
			outs,
			fee,
			kern,
			zero_offset,
			chain_prev,
		})
}

fn sync_block() -> impl Strategy<Value = RawBlock> {
	(0u8..2, prop_oneof![2 => Just(0usize), 5 => Just(1usize), 3 => Just(2usize)].prop_flat_map(|n| prop::collection::vec(sync_tx(), n))).prop_map(|(cb_key, txs)| RawBlock {
		parent: 0,
		cb_key,
		txs,
		dt: 60,
		diff: 1,
		neg: Neg::None,
		neg_pick: 0,
			hdr: 0,
			inp: 0,
	})
}

pub fn sync_strategy(base_seed: u64, small_weight: u32, adversarial_weight: f64) -> impl Strategy<Value = SyncCase> {
	let big = (prop::collection::vec(sync_block(), 0..=12), prop::bool::weighted(0.55), prop::collection::vec(sync_block(), 0..=6)).prop_map(move |(pre, compact, post)| Src::Big { base_seed, pre, compact, post });
	let short = prop_oneof![
		1 => prop::collection::vec(sync_block(), 30..=60).prop_map(|blocks| Src::Short { blocks }),
		1 => (prop::collection::vec(sync_block(), 20..=31), 2u8..=8, prop::collection::vec(sync_block(), 10..=30)).prop_map(|(main, fork_at, fork)| Src::Reorged { main, fork_at, fork }),
	];
	let corrupt = (0u8..4, any::<u8>(), 0u8..7, any::<u16>(), any::<bool>()).prop_map(|(tree, nth, kind, pick, retry_after_reset)| Corrupt {
		tree,
		nth,
		kind,
		pick,
		retry_after_reset,
	});
	(
		prop_oneof![(10 - small_weight.min(9)) => big, small_weight => short],
		// bitmap height 0: every segment is a single node whose position equals the local size when it
		// is next — next_desired_segments used to skip exactly those (`last > local_size`, fixed)
		(0u8..=2, 2u8..=4, 2u8..=4, 2u8..=4),
		prop_oneof![Just(3u8), Just(6u8), Just(9u8), Just(15u8)],
		0u8..=3,
		prop::collection::vec(any::<u16>(), 4..=24),
		prop_oneof![Just(0u8), Just(20u8), Just(50u8)],
		prop_oneof![Just(0u8), Just(15u8), Just(40u8)],
		prop_oneof![Just(0u8), Just(25u8)],
		prop::option::weighted(adversarial_weight, corrupt),
		prop_oneof![3 => Just(0u8), 2 => Just(1u8), 1 => Just(2u8)],
		any::<u32>(),
		prop::bool::weighted(0.6),
	)
		.prop_map(|(src, heights, max_req, header_chunks, order, dup_pct, extra_pct, drop_pct, corrupt, archive, archive_byte, continue_blocks)| SyncCase {
			src,
			heights,
			max_req,
			header_chunks,
			order,
			dup_pct,
			extra_pct,
			drop_pct,
			corrupt,
			archive,
			archive_byte,
			continue_blocks,
		})
}

/// what a node that processed every block up to the archive header reports
pub struct TwinInfo {
	pub head: Hash,
	pub height: u64,
	pub roots: RootsT,
	/// (commitment, coinbase?) in MMR order
	pub unspent: Vec<(Vec<u8>, bool)>,
	/// unspent leaf indices
	pub unspent_idx: BTreeSet<u64>,
}

fn enumerate_unspent(cb: &ChainBox, when: &str) -> Result<Vec<(Vec<u8>, bool)>, Fail> {
	let mut v = vec![];
	let mut start = 1u64;
	loop {
		let (last, max, outs) = cb.c().unspent_outputs_by_pmmr_index(start, 41, None).map_err(|e| Fail::new("enum-err", format!("{}: {:?}", when, e)))?;
		for o in &outs {
			v.push((o.commitment().0.to_vec(), o.features().is_coinbase()));
		}
		if outs.is_empty() || last >= max {
			break;
		}
		start = last + 1;
	}
	Ok(v)
}

fn info_of(cb: &ChainBox) -> Result<TwinInfo, Fail> {
	let head = cb.c().head().map_err(|e| Fail::new("head-err", format!("{:?}", e)))?;
	let unspent = enumerate_unspent(cb, "twin")?;
	let mut unspent_idx = BTreeSet::new();
	for (c, _) in &unspent {
		let pos0 = cb
			.c()
			.get_output_pos(&grin_util::secp::pedersen::Commitment::from_vec(c.clone()))
			.map_err(|e| Fail::new("harness:twin-pos", format!("{:?}", e)))?;
		unspent_idx.insert(refmmr::ref_leaves_below(pos0 + 1) - 1);
	}
	Ok(TwinInfo {
		head: head.last_block_h,
		height: head.height,
		roots: roots_of(cb)?,
		unspent,
		unspent_idx,
	})
}

fn fresh_twin(ctx: &Ctx, path: &[grin_core::core::Block], height: u64) -> Result<Arc<TwinInfo>, Fail> {
	let cb = open_box(&ctx.scratch_dir("twin1")).map_err(|e| Fail::new("init-fresh", e))?;
	for b in &path[..height as usize] {
		cb.c().process_block(b.clone(), opts(PowMode::Real)).map_err(|e| Fail::new("harness:twin-block", format!("twin refused block {}: {:?}", b.header.height, e)))?;
	}
	Ok(Arc::new(info_of(&cb)?))
}

// ---------------------------------------------------------------- the big base chain (> 1024 outputs)

pub const BIG_LEN: u64 = 130;

pub struct BigBase {
	pub dir: std::path::PathBuf,
	pub world: World,
	/// what the node reported when its head was at these heights (multiples of 10)
	pub infos: BTreeMap<u64, Arc<TwinInfo>>,
}

static BIG: std::sync::OnceLock<std::sync::Mutex<BTreeMap<u64, Arc<BigBase>>>> = std::sync::OnceLock::new();

/// block i of the big base chain: one transaction spending about ten of the youngest outputs (now and
/// then an older one, so that single unspent outputs stay behind everywhere) and creating 10 (sometimes
/// 8 or 9) outputs, mostly from the small amount menu so that few distinct bulletproofs are needed
fn big_raw(seed: u64, i: u64) -> RawBlock {
	let r = |k: u64| mix(seed, i << 8 | k);
	let txs = if i >= 4 {
		let n_out = match r(0) % 20 {
			0 => 8,
			1 | 2 => 9,
			_ => 10,
		};
		// every fourth base chain spends its OLDEST outputs, twelve per block: by the time an archive header can
		// fall on it the first 1024 outputs are all spent — a bitmap chunk without a single bit set below chunks
		// that have some (the other chains leave single unspent outputs behind everywhere)
		let oldest_first = seed % 4 == 3;
		let n_in = if i == 4 { 1 } else if oldest_first { 12 } else { 8 + r(1) % 4 };
		let ins: Vec<u16> = (0..n_in)
			.map(|k| match r(10 + k) % 20 {
				_ if oldest_first => u16::MAX,
				0..=14 => 0u16,
				15..=17 => (r(30 + k) % 5000) as u16,
				_ => 40000 + (r(30 + k) % 25000) as u16,
			})
			.collect();
		let outs: Vec<RawOut> = (0..n_out)
			.map(|k| RawOut {
				kind: 0,
				amt: if r(50 + k) % 4 == 0 { (r(60 + k) % 6) as u8 } else { 5 },
				key: (r(70 + k) % 5) as u8,
			})
			.collect();
		let kern = if n_out == 10 {
			0
		} else {
			match r(2) % 8 {
				0 => 1,
				1 => 2,
				2 if i >= 9 => 5 + (r(3) % 6) as u8,
				_ => 0,
			}
		};
		vec![RawTx {
			ins,
			outs,
			fee: (r(4) % 3) as u8,
			kern,
			zero_offset: r(5) % 2 == 0,
			chain_prev: false,
		}]
	} else {
		vec![]
	};
	RawBlock {
		parent: 0,
		cb_key: 0,
		txs,
		dt: 60,
		diff: 1,
		neg: Neg::None,
		neg_pick: 0,
			hdr: 0,
			inp: 0,
	}
}

pub fn big_base(ctx: &Ctx, seed: u64) -> Result<Arc<BigBase>, Fail> {
	let m = BIG.get_or_init(|| std::sync::Mutex::new(BTreeMap::new()));
	if let Some(b) = m.lock().unwrap().get(&seed) {
		return Ok(b.clone());
	}
	init_thread();
	let t0 = std::time::Instant::now();
	let dir = ctx.scratch_dir("big");
	let cb = open_box(&dir).map_err(|e| Fail::new("harness:big-base", e))?;
	{
		// the genesis header the harness wrote commits to what the chain computes
		let hd = &cb.genesis.header;
		let r = roots_of(&cb)?;
		ensure!(r.0 == hd.output_root && r.2 == hd.range_proof_root && r.3 == hd.kernel_root, "harness:genesis", "rewarded genesis header does not commit to the genesis state");
	}
	let mut world = new_world(&cb);
	let mut head = 0usize;
	let mut infos = BTreeMap::new();
	// Two of four base chains are steered so that a block an archive header can fall on (height 110 or 120)
	// commits to exactly 1024 outputs — a whole number of bitmap chunks, the boundary between one and two
	// leaves of the bitmap MMR: the running count is held at 1024 - (blocks still to come), each of which adds
	// its coinbase output at least.
	let exact_at: Option<u64> = match seed % 4 {
		1 => Some(110),
		2 => Some(120),
		_ => None,
	};
	for i in 1..=BIG_LEN {
		let mut raw = big_raw(seed, i);
		if let Some(ht) = exact_at {
			if i <= ht {
				let have = world.nodes[head].model.n_outputs_ever;
				let allowed = (1024 - (ht - i)).saturating_sub(have);
				let natural = 1 + raw.txs.iter().map(|t| t.outs.len() as u64).sum::<u64>();
				if allowed < natural {
					if allowed <= 1 {
						raw.txs.clear();
					} else {
						raw.txs[0].outs.truncate(allowed as usize - 1);
					}
				}
			}
		}
		let built = loop {
			let built = world.build(cb.c(), &raw, head).map_err(|e| Fail::new("harness:big-base", format!("block {}: {}", i, e)))?;
			if built.verdict.is_ok() {
				break built;
			}
			// e.g. an NRD kernel too close to its twin: plain kernel instead
			ensure!(raw.txs.iter().any(|t| t.kern != 0), "harness:big-base", "block {} invalid in the model: {:?}", i, built.verdict.as_ref().err());
			for t in raw.txs.iter_mut() {
				t.kern = 0;
			}
		};
		let model = built.verdict.clone().unwrap();
		cb.c().process_block(built.block.clone(), opts(PowMode::Real)).map_err(|e| Fail::new("harness:big-base", format!("block {} refused: {:?}", i, e)))?;
		head = world.push(&built, model);
		if i % 10 == 0 && i >= 90 {
			infos.insert(i, Arc::new(info_of(&cb)?));
		}
	}
	if std::env::var("GV_DEBUG").is_ok() {
		let hd = cb.c().head_header().unwrap();
		eprintln!(
			"C16 big base seed {}: {} blocks, {} outputs, {} kernels, built in {:.1}s ({} proofs created, {} from cache)",
			seed,
			BIG_LEN,
			refmmr::ref_leaves_below(hd.output_mmr_size),
			refmmr::ref_leaves_below(hd.kernel_mmr_size),
			t0.elapsed().as_secs_f64(),
			LIB.proofs_created.load(std::sync::atomic::Ordering::Relaxed),
			LIB.proofs_from_cache.load(std::sync::atomic::Ordering::Relaxed)
		);
	}
	let mut cb = cb;
	cb.close();
	let d = cb.dir.clone();
	std::mem::forget(cb);
	let b = Arc::new(BigBase { dir: d, world, infos });
	m.lock().unwrap().insert(seed, b.clone());
	Ok(b)
}

struct Source {
	cb: ChainBox,
	w: World,
	head: usize,
	compacted: bool,
	spends: usize,
	/// records taken while the chain was being built (big base)
	infos: BTreeMap<u64, Arc<TwinInfo>>,
}

impl Source {
	/// blocks of the best chain, path[k] at height k+1
	fn path(&self) -> Vec<grin_core::core::Block> {
		let mut v = vec![];
		let mut n = self.head;
		while n != 0 {
			v.push(self.w.nodes[n].block.clone());
			n = self.w.nodes[n].parent;
		}
		v.reverse();
		v
	}

	fn add(&mut self, raw: &RawBlock, what: &str) -> Result<bool, Fail> {
		let mut raw = raw.clone();
		raw.parent = 0;
		raw.neg = Neg::None;
		let built = self.w.build(self.cb.c(), &raw, self.head).map_err(|e| Fail::new("harness:builder", format!("{}: {}", what, e)))?;
		let Ok(model) = built.verdict.clone() else {
			return Ok(false); // e.g. an NRD kernel too early or too close to its twin: not a block of this chain
		};
		self.cb
			.c()
			.process_block(built.block.clone(), opts(PowMode::Real))
			.map_err(|e| Fail::new("harness:source-block", format!("{}: source refused a model-valid block h={}: {}", what, built.block.header.height, err_name(&e))))?;
		self.spends += built.n_spends;
		self.head = self.w.push(&built, model);
		Ok(true)
	}

	fn filler(&mut self, what: &str) -> PResult {
		let ok = self.add(
			&RawBlock {
				parent: 0,
				cb_key: 0,
				txs: vec![],
				dt: 60,
				diff: 1,
				neg: Neg::None,
				neg_pick: 0,
			hdr: 0,
			inp: 0,
			},
			what,
		)?;
		ensure!(ok, "harness:builder", "{}: empty block refused by the model", what);
		Ok(())
	}
}

fn build_source(ctx: &Ctx, src: &Src) -> Result<Source, Fail> {
	match src {
		Src::Big { base_seed, pre, compact, post } => {
			let b = big_base(ctx, *base_seed)?;
			let dir = ctx.scratch_dir("c");
			copy_dir(&b.dir, &dir).map_err(|e| Fail::new("harness:copy", e.to_string()))?;
			let cb = open_box(&dir).map_err(|e| Fail::new("init-base-copy", e))?;
			let w = c02::clone_world(&b.world);
			let head = w.nodes.len() - 1;
			let mut s = Source {
				cb,
				w,
				head,
				compacted: false,
				spends: 0,
				infos: b.infos.clone(),
			};
			for (i, b) in pre.iter().enumerate() {
				s.add(b, &format!("pre block {}", i))?;
			}
			if *compact {
				// Chain::compact prunes up to head - cut_through_horizon (20 on this chain type) while the
				// archive header sits at (head - state_sync_threshold (20)) rounded down to a multiple of 10.
				// On mainnet the horizon (1 week) is far below the archive header (2 days); here the two
				// coincide only when the head height is a multiple of 10 — only then is a compacted node
				// still able to serve the archive state, so compaction happens exactly there.
				while s.w.nodes[s.head].height() % 10 != 0 {
					s.filler("filler before compaction")?;
				}
				let tail0 = s.cb.c().tail().map(|t| t.height).unwrap_or(0);
				s.cb.c().compact().map_err(|e| Fail::new("harness:compact", format!("{:?}", e)))?;
				let tail1 = s.cb.c().tail().map(|t| t.height).unwrap_or(0);
				s.compacted = tail1 != tail0;
			}
			let first_archive = s.w.nodes[s.head].height().saturating_sub(20) / 10 * 10;
			for (i, b) in post.iter().enumerate() {
				if *compact && (s.w.nodes[s.head].height() + 1).saturating_sub(20) / 10 * 10 != first_archive {
					break; // stay within the archive period the compaction was aligned with
				}
				s.add(b, &format!("post block {}", i))?;
			}
			Ok(s)
		}
		Src::Short { blocks } => {
			let cb = open_box(&ctx.scratch_dir("c")).map_err(|e| Fail::new("init-fresh", e))?;
			let w = new_world(&cb);
			let mut s = Source {
				cb,
				w,
				head: 0,
				compacted: false,
				spends: 0,
				infos: BTreeMap::new(),
			};
			for (i, b) in blocks.iter().enumerate() {
				s.add(b, &format!("block {}", i))?;
			}
			while s.w.nodes[s.head].height() < 30 {
				s.filler("padding")?;
			}
			Ok(s)
		}
		Src::Reorged { main, fork_at, fork } => {
			let cb = open_box(&ctx.scratch_dir("c")).map_err(|e| Fail::new("init-fresh", e))?;
			let w = new_world(&cb);
			let mut s = Source {
				cb,
				w,
				head: 0,
				compacted: false,
				spends: 0,
				infos: BTreeMap::new(),
			};
			for (i, b) in main.iter().enumerate() {
				if s.w.nodes[s.head].height() >= 31 {
					break;
				}
				s.add(b, &format!("main block {}", i))?;
			}
			while s.w.nodes[s.head].height() < 31 {
				s.filler("main padding")?;
			}
			// a peer asks for segments of the current archive state (header at height 10)
			{
				let seg = s.cb.c().segmenter().map_err(|e| Fail::new("segmenter-err", format!("before the reorganisation: {:?}", e)))?;
				let id = SegmentIdentifier { height: 3, idx: 0 };
				let _ = catch(|| seg.bitmap_segment(SegmentIdentifier { height: 1, idx: 0 }).map(|_| ()))?;
				let _ = catch(|| seg.output_segment(id).map(|_| ()))?;
				let _ = catch(|| seg.rangeproof_segment(id).map(|_| ()))?;
				let _ = catch(|| seg.kernel_segment(id).map(|_| ()))?;
			}
			let old_archive = s.cb.c().txhashset_archive_header().map_err(|e| Fail::new("archive-header-err", format!("{:?}", e)))?;
			// the fork: from the ancestor at height fork_at, one block longer than the main chain
			let mut n = s.head;
			while s.w.nodes[n].height() > *fork_at as u64 {
				n = s.w.nodes[n].parent;
			}
			s.head = n;
			for (i, b) in fork.iter().enumerate() {
				if s.w.nodes[s.head].height() >= 32 {
					break;
				}
				s.add(b, &format!("fork block {}", i))?;
			}
			while s.w.nodes[s.head].height() < 32 {
				s.filler("fork padding")?;
			}
			let head = s.cb.c().head().map_err(|e| Fail::new("head-err", format!("{:?}", e)))?;
			ensure!(head.last_block_h == s.w.nodes[s.head].block.hash(), "harness:reorg", "the longer fork did not become the head (head h={})", head.height);
			let new_archive = s.cb.c().txhashset_archive_header().map_err(|e| Fail::new("archive-header-err", format!("{:?}", e)))?;
			ensure!(new_archive.height == old_archive.height && new_archive.hash() != old_archive.hash(), "harness:reorg", "archive header not replaced at the same height: {} -> {}", old_archive.height, new_archive.height);
			Ok(s)
		}
	}
}

/// a receiver that knows every header of the source and no block
fn headers_only(ctx: &Ctx, path: &[grin_core::core::Block], chunks: u8) -> Result<ChainBox, Fail> {
	let cb = open_box(&ctx.scratch_dir("recv")).map_err(|e| Fail::new("init-fresh", e))?;
	let headers: Vec<BlockHeader> = path.iter().map(|b| b.header.clone()).collect();
	if chunks == 0 {
		for hd in &headers {
			cb.c().process_block_header(hd, grin_chain::Options::NONE).map_err(|e| Fail::new("header-refused", format!("header {}: {:?}", hd.height, e)))?;
		}
	} else {
		let mut sync_head = cb.c().header_head().map_err(|e| Fail::new("head-err", format!("{:?}", e)))?;
		for ch in headers.chunks(8 * chunks as usize) {
			match cb.c().sync_block_headers(ch, sync_head, grin_chain::Options::SYNC) {
				Ok(Some(t)) => sync_head = t,
				Ok(None) => {}
				Err(e) => fail!("header-refused", "sync_block_headers at {}: {:?}", ch[0].height, e),
			}
		}
	}
	let hh = cb.c().header_head().map_err(|e| Fail::new("head-err", format!("{:?}", e)))?;
	ensure!(hh.last_block_h == headers.last().unwrap().hash(), "header-head", "receiver header head {:?} after all headers", hh);
	Ok(cb)
}

#[derive(Default, Debug)]
struct SyncStats {
	delivered: [u32; 4],
	distinct: [BTreeSet<u64>; 4],
	out_of_order: [bool; 4],
	dups: u32,
	extras: u32,
	extras_refused: u32,
	drops: u32,
	rounds: u32,
	/// the corrupted segment: what was done and what became of it
	corrupt_what: Option<String>,
	corrupt_outcome: Option<&'static str>,
}

#[derive(Debug, PartialEq)]
enum SyncEnd {
	Complete,
	/// a step failed: which and how
	Failed(String),
	Stalled,
	/// state sync from segments cannot even start (known finding)
	Skipped,
}

fn tix(t: &SegmentType) -> usize {
	match t {
		SegmentType::Bitmap => 0,
		SegmentType::Output => 1,
		SegmentType::RangeProof => 2,
		SegmentType::Kernel => 3,
	}
}

/// reference check of a served segment against the archive header + choice of a corruption
struct RefSide<'a> {
	twin: &'a TwinInfo,
	archive: &'a BlockHeader,
	out_tree: RefMmr,
	ker_tree: RefMmr,
}

impl<'a> RefSide<'a> {
	fn new(twin: &'a TwinInfo, archive: &'a BlockHeader) -> RefSide<'a> {
		RefSide {
			twin,
			archive,
			out_tree: RefMmr::structure(refmmr::ref_leaves_below(archive.output_mmr_size)),
			ker_tree: RefMmr::structure(refmmr::ref_leaves_below(archive.kernel_mmr_size)),
		}
	}

	/// the produced segment, reconstructed by the reference, commits to the archive header's root
	fn check_served<T: Writeable>(&self, seg: &Segment<T>, tree: usize, when: &str) -> Result<(SegView, Deps), Fail> {
		let v = SegView::of(seg)?;
		let (m, bm) = match tree {
			1 | 2 => (&self.out_tree, Some(&self.twin.unspent_idx)),
			_ => (&self.ker_tree, None),
		};
		let t = RefTree::new(m, bm);
		let (rr, deps) = t.eval(&v).map_err(|e| Fail::new("served-segment-incomplete-by-reference", format!("{}: {} ; segment {:?}", when, e, brief(&v))))?;
		let want = match tree {
			1 => {
				let merged = refmmr::node_hash(self.archive.output_mmr_size, &rr, &h32(&self.twin.roots.1));
				(h(&merged), self.archive.output_root)
			}
			2 => (h(&rr), self.archive.range_proof_root),
			_ => (h(&rr), self.archive.kernel_root),
		};
		ensure!(want.0 == want.1, "served-segment-not-header-root", "{}: reference reconstruction of the served segment gives {:?}, the archive header commits to {:?}", when, want.0, want.1);
		Ok((v, deps))
	}

	fn corrupt<T: Readable + Writeable + std::fmt::Debug>(&self, seg: &Segment<T>, tree: usize, c: &Corrupt, when: &str) -> Result<Option<(Option<Segment<T>>, String)>, Fail> {
		let (v, d) = self.check_served(seg, tree, when)?;
		let dl: Vec<u64> = d.leaves.iter().copied().collect();
		let dh: Vec<u64> = d.hashes.iter().copied().collect();
		let el: Vec<u64> = v.leaf_pos.iter().copied().filter(|p| !d.leaves.contains(p)).collect();
		let eh: Vec<u64> = v.hash_pos.iter().copied().filter(|p| !d.hashes.contains(p)).collect();
		let pk = |l: &Vec<u64>| l.get(((c.pick as usize) * l.len()) >> 16).copied();
		// the chosen kind, or the next one that this segment has an element for
		let m = (0..6).find_map(|j| match (c.kind + j) % 6 {
			0 => pk(&dl).map(Mut::LeafData),
			1 => pk(&dh).map(Mut::HashVal),
			2 => (d.proof_used > 0).then(|| Mut::ProofFlip(((c.pick as usize) * d.proof_used) >> 16)),
			3 => pk(&dl).map(Mut::LeafOmit),
			4 => pk(&el).map(Mut::ExtraLeafData),
			_ => pk(&eh).map(Mut::ExtraHashVal),
		});
		let Some(m) = m else { return Ok(None) };
		let Some(mv) = apply_mut(&v, &m, c.pick as u64 * 2654435761) else { return Ok(None) };
		let what = format!("{}:{}", ["bitmap", "output", "rangeproof", "kernel"][tree], m.kind());
		Ok(Some((mv.read::<T>().ok(), what)))
	}
}

struct Syncer<'a> {
	case: &'a SyncCase,
	src: &'a Source,
	recv: &'a ChainBox,
	archive: BlockHeader,
	rs: RefSide<'a>,
	honest: bool,
	ctr: u64,
	seen: [u32; 4],
	st: SyncStats,
}

impl<'a> Syncer<'a> {
	fn rnd(&mut self) -> u64 {
		let o = &self.case.order;
		let v = mix(o[(self.ctr as usize) % o.len()] as u64, self.ctr);
		self.ctr += 1;
		v
	}

	fn n_segments(&self, t: &SegmentType, bitmap_size: u64) -> u64 {
		let (size, hh) = match t {
			SegmentType::Bitmap => (bitmap_size, self.case.heights.0),
			SegmentType::Output => (self.archive.output_mmr_size, self.case.heights.1),
			SegmentType::RangeProof => (self.archive.output_mmr_size, self.case.heights.2),
			SegmentType::Kernel => (self.archive.kernel_mmr_size, self.case.heights.3),
		};
		let n = refmmr::ref_leaves_below(size);
		(n + (1u64 << hh) - 1) >> hh
	}

	/// serve one identifier from the source (adapters.rs get_*_segment) and hand it to the
	/// receiver (adapters.rs receive_*_segment). Ok(Ok) accepted, Ok(Err) refused by the receiver.
	fn deliver(&mut self, id: &SegmentTypeIdentifier, requested: bool) -> Result<Result<(), String>, Fail> {
		let when = format!("{:?} segment {:?}", id.segment_type, id.identifier);
		let segmenter = self.src.cb.c().segmenter().map_err(|e| Fail::new("segmenter-err", format!("{:?}", e)))?;
		ensure!(segmenter.header().hash() == self.archive.hash(), "segmenter-header", "segmenter serves {:?}, archive header {:?}", segmenter.header().hash(), self.archive.hash());
		let des = self.recv.c().desegmenter(&self.archive).map_err(|e| Fail::new("desegmenter-err", format!("{:?}", e)))?;
		let t = tix(&id.segment_type);
		let sid = id.identifier;
		// is this the segment to corrupt?
		let mut corrupt: Option<Corrupt> = None;
		if !self.honest && requested && self.st.corrupt_what.is_none() {
			if let Some(c) = &self.case.corrupt {
				if c.tree as usize == t {
					if self.seen[t] == if t == 0 { 0 } else { c.nth as u32 % 5 } {
						corrupt = Some(c.clone());
					}
					self.seen[t] += 1;
				}
			}
		}
		let serve_err = |e: grin_chain::Error| Fail::new("honest-segment-not-produced", format!("{}: {:?}", when, e));
		macro_rules! finish {
			($res:expr) => {{
				let r: Result<(), grin_chain::Error> = $res;
				Ok(r.map_err(|e| format!("{:?}", e)))
			}};
		}
		// kind 6: a valid segment of another height with the same idx instead of the requested one
		let mut sid_served = sid;
		if let Some(c) = &corrupt {
			if c.kind == 6 && t != 0 {
				let alt = if sid.height == 2 { 3 } else { sid.height - 1 };
				let n = refmmr::ref_leaves_below(if t == 3 { self.archive.kernel_mmr_size } else { self.archive.output_mmr_size });
				if sid.idx << alt < n {
					sid_served = SegmentIdentifier { height: alt, idx: sid.idx };
					self.st.corrupt_what = Some(format!("{}:valid-segment-of-other-height", ["bitmap", "output", "rangeproof", "kernel"][t]));
				}
			}
		}
		match id.segment_type {
			SegmentType::Bitmap => {
				let (seg, output_root) = catch(|| segmenter.bitmap_segment(sid_served))?.map_err(serve_err)?;
				let mut seg = seg;
				if let Some(c) = &corrupt {
					let (i, hp, hs, lp, mut ld, pf) = seg.clone().parts();
					if !ld.is_empty() {
						let k = ((c.pick as usize) * ld.len()) >> 16;
						let bit = (c.pick as u64 * 31) % 1024;
						let cur = ld[k].set_iter(0).any(|b| b as u64 == bit);
						ld[k].set(bit, !cur);
						seg = Segment::from_parts(i, hp, hs, lp, ld, pf);
						self.st.corrupt_what = Some("bitmap:chunk-bit".into());
					}
				}
				let mut g = des.write();
				let d = g.as_mut().ok_or_else(|| Fail::new("desegmenter-missing", "no desegmenter"))?;
				finish!(catch(|| d.add_bitmap_segment(seg, output_root))?)
			}
			SegmentType::Output => {
				let (seg, bitmap_root) = catch(|| segmenter.output_segment(sid_served))?.map_err(serve_err)?;
				let mut seg: Option<Segment<OutputIdentifier>> = Some(seg);
				if sid_served == sid {
					self.rs.check_served(seg.as_ref().unwrap(), 1, &when)?;
					if let Some(c) = &corrupt {
						if let Some((s, what)) = self.rs.corrupt(seg.as_ref().unwrap(), 1, c, &when)? {
							self.st.corrupt_what = Some(what);
							seg = s;
						}
					}
				}
				let Some(seg) = seg else { return Ok(Err("refused when read from the wire".into())) };
				let mut g = des.write();
				let d = g.as_mut().ok_or_else(|| Fail::new("desegmenter-missing", "no desegmenter"))?;
				finish!(catch(|| d.add_output_segment(seg, Some(bitmap_root)))?)
			}
			SegmentType::RangeProof => {
				let seg = catch(|| segmenter.rangeproof_segment(sid_served))?.map_err(serve_err)?;
				let mut seg: Option<Segment<RangeProof>> = Some(seg);
				if sid_served == sid {
					self.rs.check_served(seg.as_ref().unwrap(), 2, &when)?;
					if let Some(c) = &corrupt {
						if let Some((s, what)) = self.rs.corrupt(seg.as_ref().unwrap(), 2, c, &when)? {
							self.st.corrupt_what = Some(what);
							seg = s;
						}
					}
				}
				let Some(seg) = seg else { return Ok(Err("refused when read from the wire".into())) };
				let mut g = des.write();
				let d = g.as_mut().ok_or_else(|| Fail::new("desegmenter-missing", "no desegmenter"))?;
				finish!(catch(|| d.add_rangeproof_segment(seg))?)
			}
			SegmentType::Kernel => {
				let seg = catch(|| segmenter.kernel_segment(sid_served))?.map_err(serve_err)?;
				let mut seg: Option<Segment<TxKernel>> = Some(seg);
				if sid_served == sid {
					self.rs.check_served(seg.as_ref().unwrap(), 3, &when)?;
					if let Some(c) = &corrupt {
						if let Some((s, what)) = self.rs.corrupt(seg.as_ref().unwrap(), 3, c, &when)? {
							self.st.corrupt_what = Some(what);
							seg = s;
						}
					}
				}
				let Some(seg) = seg else { return Ok(Err("refused when read from the wire".into())) };
				let mut g = des.write();
				let d = g.as_mut().ok_or_else(|| Fail::new("desegmenter-missing", "no desegmenter"))?;
				finish!(catch(|| d.add_kernel_segment(seg))?)
			}
		}
	}

	/// the loop of StateSync::check_run / continue_pibd (servers/src/grin/sync/state_sync.rs)
	fn run(&mut self, sync_state: &Arc<SyncState>, stop: &Arc<StopState>) -> Result<SyncEnd, Fail> {
		let des = self.recv.c().desegmenter(&self.archive).map_err(|e| Fail::new("desegmenter-err", format!("{:?}", e)))?;
		{
			let mut g = des.write();
			let d = g.as_mut().ok_or_else(|| Fail::new("desegmenter-missing", "no desegmenter"))?;
			let hs = self.case.heights;
			d.verif_set_segment_heights(hs.0, hs.1, hs.2, hs.3);
		}
		let bitmap_size = des.read().as_ref().map(|d| d.expected_bitmap_mmr_size()).unwrap_or(0);
		let mut complete = false;
		for round in 0..600u32 {
			self.st.rounds = round + 1;
			// continue_pibd: apply what can be applied
			let applied = {
				let mut g = des.write();
				let d = g.as_mut().unwrap();
				catch(|| d.apply_next_segments())?
			};
			if let Err(e) = applied {
				return Ok(SyncEnd::Failed(format!("apply_next_segments: {:?}", e)));
			}
			let ids = {
				let mut g = des.write();
				let d = g.as_mut().unwrap();
				match catch(|| d.check_progress(sync_state.clone()))? {
					Ok(true) => {
						complete = true;
						vec![]
					}
					Ok(false) => catch(|| d.next_desired_segments(self.case.max_req as usize))?,
					Err(e) => return Ok(SyncEnd::Failed(format!("check_progress: {:?}", e))),
				}
			};
			if complete {
				break;
			}
			if std::env::var("GV_DEBUG3").is_ok() {
				let ts = self.recv.c().txhashset();
				let ts = ts.read();
				eprintln!("round {}: archive out {} ker {} sizes out {} rp {} ker {} ; ids {:?}", round, self.archive.output_mmr_size, self.archive.kernel_mmr_size, ts.output_mmr_size(), ts.rangeproof_mmr_size(), ts.kernel_mmr_size(), ids.iter().map(|i| (tix(&i.segment_type), i.identifier.height, i.identifier.idx)).collect::<Vec<_>>());
			}
			// arrival schedule of this round
			let mut sched: Vec<(u64, SegmentTypeIdentifier, bool)> = vec![];
			for id in &ids {
				if round < 60 && self.rnd() % 100 < self.case.drop_pct as u64 {
					self.st.drops += 1; // never arrives: asked for again next round
					continue;
				}
				let k = self.rnd();
				sched.push((k, id.clone(), true));
				if self.rnd() % 100 < self.case.dup_pct as u64 {
					let k = self.rnd();
					sched.push((k, id.clone(), false));
					self.st.dups += 1;
				}
				if self.rnd() % 100 < self.case.extra_pct as u64 {
					// a segment nobody asked for now: same tree and height, any existing idx
					let n = self.n_segments(&id.segment_type, bitmap_size);
					let x = SegmentTypeIdentifier::new(
						id.segment_type.clone(),
						SegmentIdentifier {
							height: id.identifier.height,
							idx: self.rnd() % n.max(1),
						},
					);
					if !ids.contains(&x) {
						let k = self.rnd();
						sched.push((k, x, false));
						self.st.extras += 1;
					}
				}
			}
			sched.sort_by_key(|x| x.0);
			let mut last_idx: [Option<u64>; 4] = [None; 4];
			for (_, id, requested) in sched {
				let t = tix(&id.segment_type);
				let was_corrupt = self.st.corrupt_what.is_some();
				let r = self.deliver(&id, requested)?;
				let is_corrupt = !was_corrupt && self.st.corrupt_what.is_some();
				self.st.delivered[t] += 1;
				if requested {
					self.st.distinct[t].insert(id.identifier.idx);
					if let Some(l) = last_idx[t] {
						if id.identifier.idx < l {
							self.st.out_of_order[t] = true;
						}
					}
					last_idx[t] = Some(id.identifier.idx);
				}
				match r {
					Ok(()) => {
						if is_corrupt {
							self.st.corrupt_outcome = Some("accepted-by-add");
						}
					}
					Err(e) => {
						if is_corrupt {
							self.st.corrupt_outcome = Some("refused-by-add");
						} else if requested || ids.contains(&id) {
							// an honest segment that was asked for (or a duplicate of one)
							fail!("honest-segment-refused-by-receiver", "{:?} segment {:?} served by the source is refused by add_*_segment: {}", id.segment_type, id.identifier, e);
						} else {
							self.st.extras_refused += 1;
						}
					}
				}
			}
		}
		if !complete {
			return Ok(SyncEnd::Stalled);
		}
		// check_run: all segments in → leaf sets, then full validation
		let mut g = des.write();
		let d = g.as_mut().unwrap();
		match catch(|| d.check_progress(sync_state.clone()))? {
			Ok(true) => {}
			other => return Ok(SyncEnd::Failed(format!("second check_progress: {:?}", other))),
		}
		if let Err(e) = catch(|| d.check_update_leaf_set_state())? {
			return Ok(SyncEnd::Failed(format!("check_update_leaf_set_state: {:?}", e)));
		}
		if let Err(e) = catch(|| d.validate_complete_state(sync_state.clone(), stop.clone()))? {
			return Ok(SyncEnd::Failed(format!("validate_complete_state: {:?}", e)));
		}
		Ok(SyncEnd::Complete)
	}
}

/// "never finalises a state whose roots differ from the archive header"
fn safety(recv: &ChainBox, archive: &BlockHeader, twin: &TwinInfo, when: &str) -> Result<bool, Fail> {
	let head = recv.c().head().map_err(|e| Fail::new("head-err", format!("{:?}", e)))?;
	if head.last_block_h != archive.hash() {
		return Ok(false);
	}
	let roots = roots_of(recv)?;
	ensure!(roots == twin.roots, "finalised-state-with-wrong-roots", "{}: head is the archive header (h={}) but roots {:?} differ from a fully validating node's {:?}", when, archive.height, roots, twin.roots);
	Ok(true)
}

/// the receiver reports what a node that processed every block up to the archive header reports
fn same_state(recv: &ChainBox, src: &Source, archive: &BlockHeader, twin: &TwinInfo, when: &str) -> PResult {
	let head = recv.c().head().map_err(|e| Fail::new("head-err", format!("{:?}", e)))?;
	ensure!(head.last_block_h == archive.hash() && head.height == archive.height, "head-not-archive-header", "{}: head {:?} (h={}) after a completed sync, archive header {:?} (h={})", when, head.last_block_h, head.height, archive.hash(), archive.height);
	ensure!(twin.head == archive.hash(), "harness:twin", "twin head differs from the archive header");
	let roots = roots_of(recv)?;
	ensure!(roots == twin.roots, "roots-differ", "{}: roots {:?}, fully validating node {:?}", when, roots, twin.roots);
	// independent of the twin: roots commit to the header (merged output root by the harness's own hash)
	let merged = refmmr::node_hash(archive.output_mmr_size, &h32(&roots.0), &h32(&roots.1));
	ensure!(h(&merged) == archive.output_root && roots.2 == archive.range_proof_root && roots.3 == archive.kernel_root, "roots-not-header", "{}: roots do not match the archive header", when);
	let got = enumerate_unspent(recv, when)?;
	ensure!(got == twin.unspent, "unspent-set-differs", "{}: unspent enumeration has {} entries, fully validating node {}; first difference at {:?}", when, got.len(), twin.unspent.len(), got.iter().zip(&twin.unspent).position(|(a, b)| a != b));
	c02::scan(recv, &src.w, when)?;
	if let Err(e) = recv.c().validate(false) {
		fail!("validate-failed-after-sync", "{}: validate(false): {:?}", when, e);
	}
	Ok(())
}

pub fn check_sync(ctx: &Ctx, case: &SyncCase, counting: bool) -> PResult {
	init_thread();
	let t0 = std::time::Instant::now();
	let ev = &ctx.ev;
	let src = build_source(ctx, &case.src)?;
	let path = src.path();
	let archive = src.cb.c().txhashset_archive_header().map_err(|e| Fail::new("archive-header-err", format!("{:?}", e)))?;
	let head_h = src.w.nodes[src.head].height();
	// the header the statement talks about, by the documented rule
	let want_h = head_h.saturating_sub(grin_core::global::state_sync_threshold() as u64);
	let want_h = want_h - want_h % grin_core::global::txhashset_archive_interval();
	ensure!(archive.height == want_h && want_h >= 10, "archive-header-height", "archive header at {} for head {}, expected {}", archive.height, head_h, want_h);
	ensure!(archive.hash() == path[archive.height as usize - 1].hash(), "archive-header-hash", "archive header is not the block of the best chain at its height");
	let twin = if let Some(i) = src.infos.get(&archive.height) {
		i.clone()
	} else {
		fresh_twin(ctx, &path, archive.height)?
	};
	ensure!(twin.head == archive.hash(), "harness:twin", "twin head is not the archive header");
	let t_src = t0.elapsed().as_secs_f64();

	let recv = headers_only(ctx, &path, case.header_chunks)?;
	let ah = recv.c().txhashset_archive_header_header_only().map_err(|e| Fail::new("archive-header-err", format!("{:?}", e)))?;
	ensure!(ah.hash() == archive.hash(), "archive-header-differs", "receiver derives archive header h={} from its headers, source serves h={}", ah.height, archive.height);
	let sync_state = Arc::new(SyncState::new());
	let stop = Arc::new(StopState::new());
	let honest = case.corrupt.is_none();
	// Chain::desegmenter as state_sync.rs / adapters.rs obtain it
	let n_out = refmmr::ref_leaves_below(archive.output_mmr_size);
	let mut pibd = true;
	match catch(|| recv.c().desegmenter(&archive).map(|_| ())) {
		Ok(Ok(())) => {}
		Ok(Err(e)) => fail!("desegmenter-err", "Chain::desegmenter: {:?}", e),
		Err(f) => {
			// Desegmenter::new -> calc_bitmap_mmr_sizes: `peaks(..).last().unwrap_or(&(peaks(insertion_to_pmmr_index(leaf_count - 1)).last().unwrap()))`
			// evaluates the fallback eagerly; with one bitmap chunk (1..=1024 outputs) that is peaks(0) = [] -> unwrap on None
			if f.sig.contains("desegmenter.rs") && n_out >= 1 && n_out <= 1024 {
				let sig = "desegmenter-init-panics:archive-state-of-at-most-1024-outputs";
				if ctx.known_hit(sig) {
					pibd = false;
				} else {
					return Err(Fail::new(sig, format!("Chain::desegmenter(archive header h={}, {} outputs ever = one bitmap chunk) panics: {}", archive.height, n_out, f.msg)));
				}
			} else {
				return Err(f);
			}
		}
	}
	let mut sy = Syncer {
		case,
		src: &src,
		recv: &recv,
		archive: archive.clone(),
		rs: RefSide::new(&twin, &archive),
		honest,
		ctr: 0,
		seen: [0; 4],
		st: SyncStats::default(),
	};
	let end = if pibd { sy.run(&sync_state, &stop)? } else { SyncEnd::Skipped };
	let st = std::mem::take(&mut sy.st);
	let corrupted = st.corrupt_what.is_some();
	let t_sync = t0.elapsed().as_secs_f64() - t_src;
	let mut recovery: Option<bool> = None;
	match &end {
		SyncEnd::Complete => {
			same_state(&recv, &src, &archive, &twin, "after state sync from segments")?;
		}
		SyncEnd::Skipped => {}
		other => {
			// refusing is only legitimate when something false was sent and made it past add_*
			let excused = corrupted && st.corrupt_outcome == Some("accepted-by-add");
			ensure!(
				excused,
				if corrupted { "sync-fails-after-refused-segment" } else { "honest-sync-fails" },
				"state sync from {} segments ends {:?} (corruption {:?} {:?}); rounds {}, delivered {:?}",
				if corrupted { "honest (one corrupted one refused on arrival and served again honestly)" } else { "honest" },
				other,
				st.corrupt_what,
				st.corrupt_outcome,
				st.rounds,
				st.delivered
			);
			safety(&recv, &archive, &twin, "after a failed state sync")?;
			if case.corrupt.as_ref().map(|c| c.retry_after_reset).unwrap_or(false) {
				// StateSync::check_run on a reported PIBD failure
				let des = recv.c().desegmenter(&archive).map_err(|e| Fail::new("desegmenter-err", format!("{:?}", e)))?;
				if let Some(d) = des.write().as_mut() {
					d.reset();
				}
				let r1 = recv.c().reset_pibd_head();
				let r2 = recv.c().reset_chain_head_to_genesis();
				let r3 = recv.c().reset_prune_lists();
				let mut sy2 = Syncer {
					case,
					src: &src,
					recv: &recv,
					archive: archive.clone(),
					rs: RefSide::new(&twin, &archive),
					honest: true,
					ctr: 1000,
					seen: [0; 4],
					st: SyncStats::default(),
				};
				let end2 = match (r1, r2, r3) {
					(Ok(()), Ok(()), Ok(())) => match sy2.run(&sync_state, &stop) {
						Ok(e) => e,
						Err(f) => SyncEnd::Failed(format!("{}: {}", f.sig, f.msg)),
					},
					e => SyncEnd::Failed(format!("reset: {:?}", e)),
				};
				if end2 == SyncEnd::Complete {
					same_state(&recv, &src, &archive, &twin, "after reset and a second, honest state sync")?;
					recovery = Some(true);
				} else {
					safety(&recv, &archive, &twin, "after reset and a failed second state sync")?;
					recovery = Some(false);
					if std::env::var("GV_DEBUG").is_ok() {
						eprintln!("C16: recovery after reset failed: {:?}", end2);
					}
				}
			}
		}
	}
	// the synced node goes on like body sync does: the blocks above the archive header
	let mut continued = 0u32;
	if case.continue_blocks && (end == SyncEnd::Complete || recovery == Some(true)) {
		for b in &path[archive.height as usize..] {
			if let Err(e) = recv.c().process_block(b.clone(), opts(PowMode::Real)) {
				fail!("synced-node-refuses-next-block", "block h={} of the source's chain refused by the state-synced node: {}", b.header.height, err_name(&e));
			}
			continued += 1;
		}
		if continued > 0 {
			let (a, b) = (roots_of(&recv)?, roots_of(&src.cb)?);
			ensure!(a == b, "roots-differ-after-catching-up", "after applying the {} blocks above the archive header the synced node's roots {:?} differ from the source's {:?}", continued, a, b);
			c02::scan(&recv, &src.w, "after catching up with the source")?;
		}
	}
	let t_pibd_total = t0.elapsed().as_secs_f64() - t_src;

	// the state archive path
	let mut archive_outcome = String::new();
	if case.archive > 0 {
		let recv2 = headers_only(ctx, &path, case.header_chunks)?;
		let (_o, _k, file) = src.cb.c().txhashset_read(archive.hash()).map_err(|e| Fail::new("txhashset_read-err", format!("{:?}", e)))?;
		let mut archive_what = String::new();
		let file = if case.archive == 2 {
			// a well-formed archive (valid checksums) whose content differs in one place: unpack with the
			// node's own helper, change one of the MMR data / hash files, pack again
			let tmp = ctx.scratch_dir("zipx");
			let hh = archive.hash().to_string();
			let files: Vec<std::path::PathBuf> = [
				"kernel/pmmr_data.bin",
				"kernel/pmmr_hash.bin",
				"output/pmmr_data.bin",
				"output/pmmr_hash.bin",
				"output/pmmr_prun.bin",
				"rangeproof/pmmr_data.bin",
				"rangeproof/pmmr_hash.bin",
				"rangeproof/pmmr_prun.bin",
			]
			.iter()
			.map(std::path::PathBuf::from)
			.chain([std::path::PathBuf::from(format!("output/pmmr_leaf.bin.{}", hh)), std::path::PathBuf::from(format!("rangeproof/pmmr_leaf.bin.{}", hh))])
			.collect();
			grin_util::zip::extract_files(file, &tmp, files.clone()).map_err(|e| Fail::new("harness:zip", e.to_string()))?;
			let targets = ["kernel/pmmr_data.bin", "kernel/pmmr_hash.bin", "output/pmmr_data.bin", "output/pmmr_hash.bin", "rangeproof/pmmr_data.bin", "rangeproof/pmmr_hash.bin"];
			let target = targets[(case.archive_byte % 6) as usize];
			let fp = tmp.join(target);
			let mut bytes = std::fs::read(&fp).map_err(|e| Fail::new("harness:zip", format!("{}: {}", target, e)))?;
			let x = (case.archive_byte >> 3) as usize;
			match (case.archive_byte >> 1) % 3 {
				0 if !bytes.is_empty() => {
					let at = x % bytes.len();
					bytes[at] ^= 1 << (x % 8);
					archive_what = format!("{}:byte-flipped", target);
				}
				1 if !bytes.is_empty() => {
					let k = (1 + x % 40).min(bytes.len());
					bytes.truncate(bytes.len() - k);
					archive_what = format!("{}:truncated", target);
				}
				_ => {
					let k = 1 + x % 40;
					bytes.extend((0..k).map(|i| (mix(x as u64, i as u64) & 0xff) as u8));
					archive_what = format!("{}:junk-appended", target);
				}
			}
			std::fs::write(&fp, &bytes).map_err(|e| Fail::new("harness:zip", e.to_string()))?;
			let zp = tmp.join("changed.zip");
			{
				let zf = std::fs::File::create(&zp).map_err(|e| Fail::new("harness:zip", e.to_string()))?;
				grin_util::zip::create_zip(&zf, &tmp, files).map_err(|e| Fail::new("harness:zip", e.to_string()))?;
			}
			std::fs::File::open(&zp).map_err(|e| Fail::new("harness:zip", e.to_string()))?
		} else {
			file
		};
		let ss = SyncState::new();
		let r = catch(|| recv2.c().txhashset_write(archive.hash(), file, &ss))?;
		match (&r, case.archive) {
			(Ok(false), _) => {
				same_state(&recv2, &src, &archive, &twin, "after txhashset_write of the state archive")?;
				archive_outcome = if case.archive == 1 { "honest:accepted".to_string() } else { format!("changed:{}:accepted-and-state-correct", archive_what) };
			}
			(other, 1) => fail!("honest-archive-refused", "txhashset_write of the archive produced by txhashset_read: {:?}", other),
			(_, _) => {
				recv2.c().clean_txhashset_sandbox();
				safety(&recv2, &archive, &twin, "after a refused state archive")?;
				archive_outcome = format!("changed:{}:refused", archive_what);
			}
		}
	}
	if std::env::var("GV_DEBUG").is_ok() {
		eprintln!(
			"C16 sync: src {:.2}s sync {:.2}s (+continue {:.2}s) total {:.2}s; archive h={} outputs {} kernels {}; end {:?}; {:?}",
			t_src,
			t_sync,
			t_pibd_total - t_sync,
			t0.elapsed().as_secs_f64(),
			archive.height,
			refmmr::ref_leaves_below(archive.output_mmr_size),
			refmmr::ref_leaves_below(archive.kernel_mmr_size),
			end,
			(st.delivered, st.distinct.iter().map(|d| d.len()).collect::<Vec<_>>(), st.out_of_order, st.dups, st.extras, st.extras_refused, st.drops, st.rounds, &st.corrupt_what, st.corrupt_outcome)
		);
	}
	if counting {
		ev.eval();
		ev.class(match &case.src {
			Src::Big { compact: true, .. } => "sync:source:big_chain_compacted",
			Src::Big { .. } => "sync:source:big_chain",
			Src::Short { .. } => "sync:source:short_chain",
			Src::Reorged { .. } => "sync:source:reorganised_across_the_archive_header_after_serving",
		});
		ev.class(&format!("sync:archive_header_height:{}", archive.height));
		{
			let top = twin.unspent_idx.iter().next_back().copied().unwrap_or(0) / 1024;
			if (0..top).any(|c| twin.unspent_idx.range(c * 1024..(c + 1) * 1024).next().is_none()) {
				ev.class("sync:archive_bitmap:empty_chunk_below_unspent_outputs");
			}
		}
		let n_out = refmmr::ref_leaves_below(archive.output_mmr_size);
		ev.class(if n_out % 1024 == 0 { "sync:archive_outputs:whole_number_of_bitmap_chunks" } else if n_out > 1024 { "sync:archive_outputs:above_1024" } else { "sync:archive_outputs:below_1024" });
		ev.class(if honest { "sync:honest" } else { "sync:adversarial" });
		ev.class(&format!("sync:end:{}", match &end { SyncEnd::Complete => "complete", SyncEnd::Failed(_) => "failed", SyncEnd::Stalled => "stalled", SyncEnd::Skipped => "not_started(known finding)" }));
		if let Some(w) = &st.corrupt_what {
			ev.class(&format!("sync:corrupted:{}:{}:{}", w, st.corrupt_outcome.unwrap_or("?"), match &end { SyncEnd::Complete => "sync-complete-and-correct", _ => "sync-refused" }));
		} else if !honest {
			ev.class("sync:adversarial:no_element_of_that_kind(honest run)");
		}
		if let Some(r) = recovery {
			ev.class(if r { "sync:recovery_after_reset:complete-and-correct" } else { "sync:recovery_after_reset:failed(not asserted)" });
		}
		if !archive_outcome.is_empty() {
			ev.class(&format!("sync:archive:{}", archive_outcome));
		}
		if continued > 0 {
			ev.class("sync:synced_node_caught_up_with_source_blocks");
		}
		ev.class_n("sync:segments_delivered", st.delivered.iter().map(|x| *x as u64).sum());
		ev.class_n("sync:duplicates_delivered", st.dups as u64);
		ev.class_n("sync:unrequested_delivered", st.extras as u64);
		ev.class_n("sync:unrequested_refused(not asserted)", st.extras_refused as u64);
		ev.class_n("sync:requests_dropped", st.drops as u64);
		let three = (1..4).all(|t| st.distinct[t].len() >= 3);
		let ooo = (1..4).any(|t| st.out_of_order[t]);
		if three && ooo {
			ev.class("sync:ge3_segments_per_tree_out_of_order");
		}
		if three && ooo && src.compacted && end == SyncEnd::Complete {
			ev.class("sync:nontrivial");
			ev.nontrivial(&("sync", archive.height, case.heights, st.distinct[1].len(), st.distinct[3].len(), st.dups.min(3), st.extras.min(3), honest, case.archive));
			ev.sample("sync", || serde_json::to_value(case).unwrap());
		}
		ev.extra("sync_case_seconds_max", json!(t0.elapsed().as_secs_f64()));
	}
	Ok(())
}

// ================================================================ entry points

fn run_seg(ctx: &Ctx) {
	let ev = &ctx.ev;
	// exhaustive small part
	let (max_n, max_sub) = if ctx.quick() { (40, 7) } else { (160, 10) };
	let cases = exhaustive_cases(max_n, max_sub);
	let failed: std::sync::Mutex<Option<(SegCase, Fail)>> = std::sync::Mutex::new(None);
	{
		use rayon::prelude::*;
		cases.par_iter().for_each(|c| {
			init_thread();
			if failed.lock().unwrap().is_some() {
				return;
			}
			let r = match catch(|| check_seg(ctx, c, true)) {
				Ok(r) => r,
				Err(f) => Err(f),
			};
			if let Err(f) = r {
				let mut g = failed.lock().unwrap();
				if g.is_none() {
					*g = Some((c.clone(), f));
				}
			}
		});
	}
	ev.class_n("seg:exhaustive_small_trees", cases.len() as u64);
	if let Some((c, f)) = failed.lock().unwrap().take() {
		ctx.report("seg", &f.sig, serde_json::to_value(&c).unwrap(), &f.msg);
	}
	// generated trees
	let n = ctx.n(1600, 40000);
	if let Some(fl) = pbt_par(ctx, "seg", n, 16, seg_strategy, init_thread, |raw, counting| check_seg(ctx, &resolve_seg(raw), counting)) {
		ctx.report("seg", &fl.fail.sig, serde_json::to_value(resolve_seg(&fl.value)).unwrap(), &fl.fail.msg);
	}
	let nb = ctx.n(320, 6000);
	if let Some(fl) = pbt_par(ctx, "bitmapseg", nb, 16, bm_strategy, init_thread, |c, counting| check_bm(ctx, c, counting)) {
		ctx.report("bitmapseg", &fl.fail.sig, serde_json::to_value(&fl.value).unwrap(), &fl.fail.msg);
	}
}

pub fn run(ctx: &Ctx) -> HResult<()> {
	init_global();
	let ev = &ctx.ev;
	ev.rule("part seg: MMR states of 1..600 leaves — VecBackend (not prunable / prunable with leaves spent but nothing pruned), store PMMRBackend not prunable (optionally reopened), store PMMRBackend prunable in prune/compaction states reached through the store's usage protocol (C08 histories with rewinds, discards, reopen, compaction; forward histories up to 600 leaves spending aligned subtrees, windows, prefixes, all-but-one; exhaustively every spend subset of up to 7 (thorough 10) leaves with/without compaction and every leaf count up to 40 (thorough 160) in memory); for every segment height 0..6 and EVERY index: Segment::from_pmmr, the harness's own wire encoding read back, reference reconstruction (instrumented, own blake2b, explicit forest) must give the reference root, validate and validate_with (both sides) must accept; then every single-element corruption of what the reference reconstruction READ (leaf datum, leaf position -> another valid position, leaf omitted, stand-in hash value / position / omitted, each proof hash flipped, proof shortened / lengthened inside the consumed prefix, identifier -> another existing segment) must be refused by read+validate whenever the reference refuses it; changes to data the reconstruction never reads (data of spent-but-not-compacted leaves, intermediate hashes, trailing proof hashes) are counted and NOT asserted. Non-trivial segment = its reconstruction uses >=1 hash standing in for a fully spent subtree and >=1 leaf; distinct by (backend, height, log2 leaves, #stand-in hashes, #leaves read, full/partial, proof length). part bitmapseg: BitmapAccumulator trees of 1..40 chunks, Segment<BitmapChunk> <-> BitmapSegment round trip, validate_with(output root on the left) against the reference bitmap root, chunk bit / chunk omitted / proof hash / identifier corruptions. part sync: see below");
	ev.rule("part sync: chains start from a genesis with one reward output and one kernel committed by its header (the shape of the real networks, which the desegmenter's handling of position 0 assumes). Source = copy of a 130-block real-PoW chain built per worker process from its seed (every block spends ~10 young and now and then old outputs and creates 8..10, NRD / height-locked / multi-kernel transactions mixed in: > 1024 outputs = 2 bitmap chunks at the archive header, most outputs spent, unspent ones scattered) + 0..12 generated blocks, optionally fillers to a head height divisible by 10 + Chain::compact() + 0..6 blocks (archive header 110 / 120 / 130); or (10%) a fresh 30..60 block chain (one bitmap chunk; before fix 925185992 Chain::desegmenter panicked there). Receiver = fresh chain given all headers (process_block_header one by one or sync_block_headers in chunks); Desegmenter heights set through verif_set_segment_heights (bitmap 0..2, output/rangeproof/kernel 2..4: 70..300 segments per tree); loop as StateSync::continue_pibd: apply_next_segments, check_progress, next_desired_segments(3|6|9|15), each identifier served by source.segmenter().{bitmap,output,rangeproof,kernel}_segment and handed to add_*_segment in a generated arrival order with duplicates, unrequested segments of the same tree/height and requests that never arrive; every served segment is also reconstructed by the reference (structure + unspent set of the twin) against the archive header's roots; then check_progress, check_update_leaf_set_state, validate_complete_state. Oracle: head, roots, unspent enumeration equal to the record the source itself gave when its head WAS the archive header (a node that processed every block up to it), roots re-merged with the harness's own hash against the header, c02::scan against the replay model (get_unspent of every commitment ever created, enumeration, validate_inputs probes), validate(false), and (60%) the synced node accepts the source's blocks above the archive header and ends with the source's roots. Archive path (50%): txhashset_read -> txhashset_write on a second receiver, same oracle; 1/3 of those with a well-formed archive in which one MMR data/hash file has a flipped byte, a cut tail or appended junk. Adversarial (40%): one served segment corrupted (needed leaf datum / needed stand-in hash / proof hash / needed leaf omitted / unread leaf datum / unread hash / a valid segment of another height with the same idx / one bit of a bitmap chunk): the receiver never has head == archive header with other roots; a corrupted segment refused on arrival must not prevent completion; after a failed sync optionally reset as state_sync.rs does (Desegmenter::reset, reset_pibd_head, reset_chain_head_to_genesis, reset_prune_lists) and sync honestly (completion counted, not asserted; if complete the full oracle applies). Non-trivial sync = completed sync from a compacted source with >=3 segments of each of the three trees and requested segments arriving out of index order");
	ev.assume("blake2b (blake2-rfc), the harness's reference forest and its reading of the segment wire format (checked by reading every honest segment back) are trusted; hash collisions are treated as impossible");
	ev.assume("heights 0: two limitations of Segment::from_pmmr on prunable trees are outside the served domain (a node serves heights >= 7, adapters.rs *_SEGMENT_HEIGHT_RANGE) and are counted, not asserted: a height-0 segment next to a spent leaf cannot be produced (the proof wants the removed sibling leaf's hash through get_hash), and a height-0 segment of a spent, not yet compacted leaf with a spent sibling carries the leaf data but not the hash the bitmap-driven reconstruction asks for");
	ev.assume("identifiers beyond the last segment are not generated (panic in Segment::root, handled under C11)");
	ev.assume("sync: on AutomatedTesting cut_through_horizon == state_sync_threshold == 20, so Chain::compact prunes up to head-20 while the archive header is (head-20) rounded down to a multiple of 10: a compacted node can only serve the archive state if it compacted at a head height divisible by 10 (on mainnet the horizon is a week, the archive header two days old); compaction is therefore done at height 90 only");
	ev.assume("sync: the record taken from the source chain when its head was the archive header (or a twin fed the same blocks) and the harness's replay model (c02 scan) are the oracle for the state at the archive header");
	ev.assume("sync: bitmap segment height 0 is not used: Desegmenter::next_desired_segments asks for a bitmap segment only if its last position is GREATER than the local accumulator size, so a single-node segment at position == size is never requested (production height is 9); the plain dev genesis with an empty body is not used because the desegmenter skips position 0 of every tree as 'the genesis output/kernel'");

	let t0 = std::time::Instant::now();
	run_seg(ctx);
	ev.extra("seg_wall_s", json!(t0.elapsed().as_secs_f64()));

	let t1 = std::time::Instant::now();
	let n = ctx.n(96, 960);
	if let Some((case, f)) = pbt_proc(ctx, "sync", n, 16) {
		ctx.report("sync", &f.sig, case, &f.msg);
	}
	ev.extra("sync_wall_s", json!(t1.elapsed().as_secs_f64()));
	for cl in ["sync:honest", "sync:adversarial", "sync:source:big_chain_compacted", "sync:nontrivial", "seg:trees:store_prunable:with_effective_compaction"] {
		if ev.class_count(cl) == 0 {
			eprintln!("warning: class {} is empty in this run", cl);
		}
	}
	Ok(())
}

pub fn part(ctx: &Ctx, part: &str, seed: u64, cases: u32) -> Option<(Value, Fail)> {
	init_global();
	match part {
		"sync" => {
			// each worker process builds its own big base chain from its seed
			let strat = sync_strategy(seed, 2, 0.4);
			run_part(ctx, seed, cases, &strat, |c, counting| check_sync(ctx, c, counting))
		}
		_ => None,
	}
}

pub fn replay(ctx: &Ctx, part: &str, case: &Value) -> PResult {
	init_global();
	let bad = |e: serde_json::Error| Fail::new("harness:replay-parse", e.to_string());
	match part {
		"seg" => check_seg(ctx, &serde_json::from_value(case.clone()).map_err(bad)?, false),
		"bitmapseg" => check_bm(ctx, &serde_json::from_value(case.clone()).map_err(bad)?, false),
		"sync" => check_sync(ctx, &serde_json::from_value(case.clone()).map_err(bad)?, false),
		_ => Ok(()),
	}
}
