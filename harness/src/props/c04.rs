//! C04 — not built yet (stub).

use crate::engine::*;
use serde_json::Value;

pub fn run(_ctx: &Ctx) -> HResult<()> {
	Err(HarnessError("C04 check not built yet".into()))
}

pub fn replay(_ctx: &Ctx, _part: &str, _case: &Value) -> PResult {
	Ok(())
}
