//! C04 — Only headers obeying height, time, version, difficulty and PoW rules pass.
//!
//! Part A: real-PoW AutomatedTesting header chains; every single-field mutation of
//!         one header through process_block_header / sync_block_headers / process_block.
//! Part B: consensus::next_difficulty against a u128 reference on all chain types/eras.
//! Part C: read-time policy of UntrustedBlockHeader.

use crate::engine::*;
use crate::refmmr::{self, RefMmr};
use crate::world::*;
use crate::{ensure, fail};
use chrono::{DateTime, Duration, Utc};
use grin_chain::types::{Options, Tip};
use grin_core::consensus::{self, HeaderDifficultyInfo};
use grin_core::core::hash::{Hash, Hashed};
use grin_core::core::{Block, BlockHeader, HeaderVersion, UntrustedBlockHeader};
use grin_core::global::{self, ChainTypes};
use grin_core::pow::{self, Difficulty};
use grin_core::ser::{self, DeserializationMode, ProtocolVersion};
use grin_util::ToHex;
use proptest::prelude::*;
use serde_derive::{Deserialize, Serialize};
use serde_json::{json, Value};

// =====================================================================
// Reference model. All constants are written out here from the protocol
// documentation, none is imported from grin.
// =====================================================================

#[derive(Clone, Copy, Debug, PartialEq, Eq, Hash, Serialize, Deserialize)]
pub enum Ct {
	AutomatedTesting,
	UserTesting,
	Testnet,
	Mainnet,
}

impl Ct {
	fn grin(self) -> ChainTypes {
		match self {
			Ct::AutomatedTesting => ChainTypes::AutomatedTesting,
			Ct::UserTesting => ChainTypes::UserTesting,
			Ct::Testnet => ChainTypes::Testnet,
			Ct::Mainnet => ChainTypes::Mainnet,
		}
	}
	fn from_idx(i: u8) -> Ct {
		match i % 4 {
			0 => Ct::AutomatedTesting,
			1 => Ct::UserTesting,
			2 => Ct::Testnet,
			_ => Ct::Mainnet,
		}
	}
}

/// one block per minute, 60 per hour, 1440 per day, 10080 per week, 52 weeks per "year"
const R_YEAR: u64 = 52 * 7 * 24 * 60;
/// scheduled hard forks every half "year" on mainnet
const R_HF: u64 = R_YEAR / 2;
const R_WINDOW: usize = 60;
const R_BLOCK_SEC: u128 = 60;
const R_WINDOW_SEC: u128 = 3600;
const R_MIN_DMA: u128 = 3;
const R_MIN_AR_SCALE: u128 = 13;
const R_HALF_LIFE: u128 = 4 * 3600;

/// first height of header versions 1..=5
fn ref_era_starts(ct: Ct) -> [u64; 5] {
	match ct {
		Ct::Mainnet => [0, R_HF, 2 * R_HF, 3 * R_HF, 4 * R_HF],
		Ct::Testnet => [0, 185_040, 298_080, 552_960, 642_240],
		Ct::AutomatedTesting | Ct::UserTesting => [0, 3, 6, 9, 12],
	}
}

/// first height at which 1 + height/3 no longer fits 16 bits
const R_WRAP_TESTING: u64 = 3 * 65_535;

/// true when grin's schedule computation truncates its interval count to 16 bits at this height
fn schedule_wraps(ct: Ct, height: u64) -> bool {
	match ct {
		Ct::AutomatedTesting | Ct::UserTesting => 1 + height / 3 > 65_535,
		Ct::Mainnet => 1 + height / R_HF > 65_535,
		Ct::Testnet => false,
	}
}

fn ref_version(ct: Ct, height: u64) -> u16 {
	ref_era_starts(ct).iter().filter(|&&s| s <= height).count() as u16
}

/// graph weight 2^(bits - base + 1) * bits of the smallest allowed graph
fn ref_min_wtema(ct: Ct) -> u128 {
	match ct {
		Ct::Mainnet => 512 * 32,
		Ct::Testnet => 64 * 29,
		Ct::AutomatedTesting => 2 * 10,
		Ct::UserTesting => 2 * 15,
	}
}

fn ref_initial_scaling(ct: Ct) -> u32 {
	match ct {
		Ct::Mainnet | Ct::Testnet => 64 * 29,
		Ct::AutomatedTesting => 2 * 10,
		Ct::UserTesting => 2 * 15,
	}
}

/// one header as the retarget sees it
#[derive(Clone, Copy, Debug, PartialEq, Eq, Serialize, Deserialize)]
pub struct Entry {
	pub ts: u64,
	pub diff: u64,
	pub scaling: u32,
	pub sec: bool,
}

#[derive(Clone, Debug, Default)]
pub struct RefOut {
	pub diff: u128,
	pub scaling: u128,
	pub dma: bool,
	/// DMA diagnostics
	pub diff_sum: u128,
	pub ts_delta: u128,
	pub adj_ts: u128,
	pub padded: usize,
}

fn r_damp(actual: u128, goal: u128, f: u128) -> u128 {
	(actual + (f - 1) * goal) / f
}

fn r_clamp(actual: u128, goal: u128, f: u128) -> u128 {
	std::cmp::max(goal / f, std::cmp::min(actual, goal * f))
}

/// Retarget reference, `w` newest first.
pub fn ref_next(ct: Ct, height: u64, w: &[Entry]) -> RefOut {
	if ref_version(ct, height) < 5 {
		// damped moving average over the last 60 blocks (61 timestamps)
		let mut v: Vec<Entry> = w.iter().take(R_WINDOW + 1).cloned().collect();
		let n = v.len();
		if n < R_WINDOW + 1 {
			// simulated pre-genesis blocks "with values from the previous real block"
			let delta = if n > 1 { v[0].ts - v[1].ts } else { 60 };
			let d0 = v[0].diff;
			let mut ts = v[n - 1].ts;
			for _ in n..R_WINDOW + 1 {
				ts = ts.saturating_sub(delta);
				v.push(Entry {
					ts,
					diff: d0,
					scaling: ref_initial_scaling(ct),
					sec: true,
				});
			}
		}
		let ts_delta = (v[0].ts as u128) - (v[R_WINDOW].ts as u128);
		let diff_sum: u128 = v[..R_WINDOW].iter().map(|e| e.diff as u128).sum();
		let adj_ts = r_clamp(r_damp(ts_delta, R_WINDOW_SEC, 3), R_WINDOW_SEC, 2);
		let diff = std::cmp::max(R_MIN_DMA, diff_sum * R_BLOCK_SEC / adj_ts);
		// secondary scaling
		let scale_sum: u128 = v[..R_WINDOW].iter().map(|e| e.scaling as u128).sum();
		let pct = 90u64.saturating_sub(height / (2 * R_YEAR / 90)) as u128;
		let target = R_WINDOW as u128 * pct;
		let ar = 100 * v[..R_WINDOW].iter().filter(|e| e.sec).count() as u128;
		let adj_c = r_clamp(r_damp(ar, target, 13), target, 2);
		let scale = scale_sum * pct / std::cmp::max(1, adj_c);
		RefOut {
			diff,
			scaling: std::cmp::max(R_MIN_AR_SCALE, scale),
			dma: true,
			diff_sum,
			ts_delta,
			adj_ts,
			padded: R_WINDOW + 1 - n,
		}
	} else {
		let t = (w[0].ts as u128) - (w[1].ts as u128);
		let next = (w[0].diff as u128) * R_HALF_LIFE / (R_HALF_LIFE - R_BLOCK_SEC + t);
		RefOut {
			diff: std::cmp::max(ref_min_wtema(ct), next),
			scaling: 0,
			dma: false,
			ts_delta: t,
			..Default::default()
		}
	}
}


// ---------------------------------------------------------------------
// Reference proof-of-work check (Cuckatoo cycle from its definition), so
// that the verdict for every mutant is derived and never assumed: a proof
// that was mined for other bytes / another graph size can still be a cycle.
// ---------------------------------------------------------------------

fn r_sipround(v: &mut [u64; 4]) {
	v[0] = v[0].wrapping_add(v[1]);
	v[2] = v[2].wrapping_add(v[3]);
	v[1] = v[1].rotate_left(13);
	v[3] = v[3].rotate_left(16);
	v[1] ^= v[0];
	v[3] ^= v[2];
	v[0] = v[0].rotate_left(32);
	v[2] = v[2].wrapping_add(v[1]);
	v[0] = v[0].wrapping_add(v[3]);
	v[1] = v[1].rotate_left(17);
	v[3] = v[3].rotate_left(21);
	v[1] ^= v[2];
	v[3] ^= v[0];
	v[2] = v[2].rotate_left(32);
}

/// SipHash-2-4 of one 64-bit word, the four key words used as the initial state
fn r_siphash24(k: &[u64; 4], x: u64) -> u64 {
	let mut v = *k;
	v[3] ^= x;
	r_sipround(&mut v);
	r_sipround(&mut v);
	v[0] ^= x;
	v[2] ^= 0xff;
	for _ in 0..4 {
		r_sipround(&mut v);
	}
	v[0] ^ v[1] ^ v[2] ^ v[3]
}

/// the bytes the proof of work commits to: every header field in order, big endian, up to and including the nonce
fn ref_pre_pow(h: &BlockHeader) -> Vec<u8> {
	let mut b: Vec<u8> = vec![];
	b.extend_from_slice(&h.version.0.to_be_bytes());
	b.extend_from_slice(&h.height.to_be_bytes());
	b.extend_from_slice(&h.timestamp.timestamp().to_be_bytes());
	for x in [&h.prev_hash, &h.prev_root, &h.output_root, &h.range_proof_root, &h.kernel_root] {
		b.extend_from_slice(&x.to_vec());
	}
	b.extend_from_slice(h.total_kernel_offset.as_ref());
	b.extend_from_slice(&h.output_mmr_size.to_be_bytes());
	b.extend_from_slice(&h.kernel_mmr_size.to_be_bytes());
	b.extend_from_slice(&h.pow.total_difficulty.to_num().to_be_bytes());
	b.extend_from_slice(&h.pow.secondary_scaling.to_be_bytes());
	b.extend_from_slice(&h.pow.nonce.to_be_bytes());
	b
}

/// AutomatedTesting: 8 edges, strictly ascending, below 2^edge_bits with 10 <= edge_bits
/// (29 is the "secondary" size, also >= 10), forming one 8-cycle in the bipartite graph
/// whose edge n joins u = sip(2n) and v = sip(2n+1) (masked to edge_bits bits) and where
/// two edges meet when their endpoints on one side differ exactly in the lowest bit.
fn ref_cycle_ok(h: &BlockHeader) -> bool {
	let e = h.pow.proof.edge_bits as u32;
	let nonces = &h.pow.proof.nonces;
	if e < 10 || e > 63 || nonces.len() != 8 {
		return false;
	}
	let mask = (1u64 << e) - 1;
	if nonces.iter().any(|n| *n > mask) || nonces.windows(2).any(|w| w[1] <= w[0]) {
		return false;
	}
	let d = refmmr::blake(&[&ref_pre_pow(h)]);
	let mut k = [0u64; 4];
	for i in 0..4 {
		let mut w = [0u8; 8];
		w.copy_from_slice(&d[8 * i..8 * i + 8]);
		k[i] = u64::from_le_bytes(w);
	}
	let side: [Vec<u64>; 2] = [
		nonces.iter().map(|n| r_siphash24(&k, 2 * n) & mask).collect(),
		nonces.iter().map(|n| r_siphash24(&k, 2 * n + 1) & mask).collect(),
	];
	// the unique other edge meeting edge i on side s
	let mut partner = [[usize::MAX; 8]; 2];
	for s in 0..2 {
		for i in 0..8 {
			let same_pair: Vec<usize> = (0..8).filter(|&j| j != i && side[s][j] >> 1 == side[s][i] >> 1).collect();
			if same_pair.len() != 1 || side[s][same_pair[0]] == side[s][i] {
				return false;
			}
			partner[s][i] = same_pair[0];
		}
	}
	let (mut cur, mut steps) = (0usize, 0usize);
	loop {
		cur = partner[1][partner[0][cur]];
		steps += 2;
		if cur == 0 || steps > 8 {
			break;
		}
	}
	cur == 0 && steps == 8
}

/// difficulty a proof is worth: graph weight * 2^64 / (first 8 bytes, big endian, of blake2b
/// over the nonces packed at edge_bits bits each, little endian), capped to 64 bits
fn ref_pow_difficulty(h: &BlockHeader) -> u128 {
	let e = h.pow.proof.edge_bits as usize;
	let mut packed = vec![0u8; (e * 8 + 7) / 8];
	for (i, n) in h.pow.proof.nonces.iter().enumerate() {
		for b in 0..e {
			if (n >> b) & 1 == 1 {
				let pos = i * e + b;
				packed[pos / 8] |= 1 << (pos % 8);
			}
		}
	}
	let d = refmmr::blake(&[&packed]);
	let mut w = [0u8; 8];
	w.copy_from_slice(&d[..8]);
	let hash = std::cmp::max(1, u64::from_be_bytes(w)) as u128;
	// AutomatedTesting base graph is 2^10 edges; 29 bits is scaled by the header's own factor
	let weight: u128 = if e == 29 { h.pow.secondary_scaling as u128 } else { (2u128 << (e - 10)) * e as u128 };
	std::cmp::max(1, std::cmp::min((weight << 64) / hash, u64::MAX as u128))
}

fn ref_pow_ok(h: &BlockHeader, needed: u64) -> bool {
	ref_cycle_ok(h) && ref_pow_difficulty(h) >= needed as u128
}

fn mmr_size(leaves: u64) -> u64 {
	2 * leaves - leaves.count_ones() as u64
}

fn mix(salt: u64, tag: u64) -> u64 {
	hash_of(&(salt, tag, "c04"))
}

fn rand_hash(salt: u64, tag: u64) -> Hash {
	Hash::from_vec(&refmmr::blake(&[&salt.to_be_bytes(), &tag.to_be_bytes(), b"c04-hash"]))
}

fn err_variant(s: &str) -> String {
	s.chars().take_while(|c| c.is_alphanumeric() || *c == '_').collect()
}


// =====================================================================
// Part A
// =====================================================================

#[derive(Clone, Copy, Debug, PartialEq, Eq, Hash, Serialize, Deserialize)]
pub enum Kind {
	HeightPlus,
	HeightMinus,
	TsEqParent,
	TsBeforeParent,
	VersionPlus,
	VersionMinus,
	PrevHashKnown,
	PrevHashRandom,
	PrevRoot,
	TdPlus1,
	TdMinus1,
	TdPlusK,
	TdMinusK,
	ScalingPlus,
	ScalingMinus,
	Nonce,
	EdgeBitsLow,
	EdgeBits29,
	EdgeBitsHigh,
	ProofNonce,
	OutSizeZero,
	KernSizeZero,
	OutSizeHeavy,
	KernSizeHeavy,
	/// a valid cycle for the header bytes whose difficulty is below the network difficulty
	PowBelowTarget,
	/// sync chunk [.., header with wrong prev_root (re-mined), its child]
	SyncMidChunkPrevRoot,
	/// child of the accepted CtlTimestamp fork header carrying the difficulty of the main chain instead of its own ancestors'
	ForkChildMainDifficulty,
	/// controls: still valid
	CtlTimestamp,
	CtlRemine,
	/// child of the accepted CtlTimestamp fork header, difficulty/scaling/prev_root from the reference over its own ancestors
	ForkChild,
	/// sync chunk [true header t, x] where x names the (later-dated) fork header as its parent and is dated
	/// exactly like that parent: not later than the parent it names, but later than the header that
	/// precedes it in the chunk — every rule is judged against the named parent, not the neighbour
	SyncUnlinkedChunkTsOfNamedParent,
}

#[derive(Clone, Copy, Debug, PartialEq, Eq, Hash, Serialize, Deserialize)]
pub enum Path {
	Header,
	Sync,
	Block,
}

const PATHS: [Path; 3] = [Path::Header, Path::Sync, Path::Block];

#[derive(Clone, Copy, Debug, PartialEq, Eq, Hash, Serialize, Deserialize)]
pub struct Only {
	/// mutated height
	pub pos: u16,
	pub kind: Kind,
	pub remined: bool,
	pub path: Path,
}

#[derive(Clone, Debug, Serialize, Deserialize)]
pub struct CaseA {
	/// block at height i+1: (seconds after its parent, k) with coinbase key height*4+k
	pub recipe: Vec<(u16, u8)>,
	/// heights of the mutated headers (clipped to the chain length; sorted, kept when >= 2 apart)
	pub pos: Vec<u16>,
	/// chunk size used by the sync delivery of the valid chain
	pub chunk: u8,
	/// number of valid headers preceding the mutant in its sync chunk
	pub tail: u8,
	pub salt: u64,
	/// replay of one (mutation kind, delivery path) only
	#[serde(default)]
	pub only: Option<Only>,
}

pub fn strat_a() -> impl Strategy<Value = CaseA> {
	let step = prop_oneof![
		4 => (1u16..=600, 0u8..4),
		2 => (1u16..=4, 0u8..4),
		1 => (590u16..=600, 0u8..4),
	];
	(
		prop::collection::vec(step, 5..=40),
		prop_oneof![3 => Just(0u8), 2 => 8u8..=16],
		prop::collection::vec(prop_oneof![2 => 1u16..=40, 2 => prop::sample::select(vec![1u16, 2, 3, 4, 6, 9, 11, 12, 13, 14, 15])], 3),
		1u8..=8,
		0u8..=4,
		any::<u64>(),
	)
		.prop_map(|(mut recipe, fast, pos, chunk, tail, salt)| {
			// fast prefix: difficulty rises through the DMA era so that the WTEMA
			// era starts above its minimum
			for s in recipe.iter_mut().take(fast as usize) {
				s.0 = 1 + s.0 % 3;
			}
			CaseA {
				recipe,
				pos,
				chunk,
				tail,
				salt,
				only: None,
			}
		})
}

struct Mutant {
	kind: Kind,
	remined: bool,
	header: BlockHeader,
	accept: bool,
	/// 0: rejected mutants, 1: controls, 2: children of the control fork
	stage: u8,
	/// delivery paths (None = all three)
	paths: Option<Vec<Path>>,
	/// extra headers delivered in the same sync chunk just before this one
	pre: Vec<BlockHeader>,
}

impl Mutant {
	fn new(kind: Kind, remined: bool, header: BlockHeader, accept: bool) -> Mutant {
		Mutant {
			kind,
			remined,
			header,
			accept,
			stage: if accept { 1 } else { 0 },
			paths: None,
			pre: vec![],
		}
	}
}

/// A header-only child of `ancestors.last()` (ancestors = genesis..parent): version,
/// network difficulty, scaling and prev_root all come from the reference model.
fn child_of(ancestors: &[BlockHeader], template: &BlockHeader, dt: i64, diff_override: Option<u128>) -> Result<BlockHeader, Fail> {
	let parent = ancestors.last().unwrap();
	let h = parent.height + 1;
	let r = ref_next(Ct::AutomatedTesting, h, &window_of(ancestors, ancestors.len() - 1));
	let ver = ref_version(Ct::AutomatedTesting, h);
	let diff = diff_override.unwrap_or(r.diff) as u64;
	let leaves: Vec<Vec<u8>> = ancestors.iter().map(|a| a.pow.proof.pack_nonces()).collect();
	let mut c = template.clone();
	c.version = HeaderVersion(ver);
	c.height = h;
	c.prev_hash = parent.hash();
	c.prev_root = Hash::from_vec(&RefMmr::build(&leaves).root());
	c.timestamp = parent.timestamp + Duration::seconds(dt);
	c.output_mmr_size = mmr_size(h);
	c.kernel_mmr_size = mmr_size(h);
	c.pow.total_difficulty = Difficulty::from_num(parent.total_difficulty().to_num() + diff);
	c.pow.secondary_scaling = if ver < 5 { r.scaling as u32 } else { 0 };
	c.pow.nonce = 0;
	remine(&mut c, diff)?;
	Ok(c)
}

fn remine(h: &mut BlockHeader, target: u64) -> Result<(), Fail> {
	h.pow.proof.edge_bits = global::min_edge_bits();
	pow::pow_size(h, Difficulty::from_num(target), global::proofsize(), global::min_edge_bits())
		.map_err(|e| Fail::new("harness:remine", format!("{:?}", e)))
}

/// All mutants of header `t` (parent `q`); `other` = hash of another known header.
fn mutants(t: &BlockHeader, q: &BlockHeader, other: Option<Hash>, salt: u64) -> Result<Vec<Mutant>, Fail> {
	let d = t.total_difficulty().to_num() - q.total_difficulty().to_num();
	let td = t.total_difficulty().to_num();
	let v5 = t.version.0 >= 5;
	let mut out: Vec<Mutant> = vec![];
	// (kind, mutated header, mining target, accept when re-mined, also keep raw variant)
	let mut pre: Vec<(Kind, BlockHeader, u64, bool)> = vec![];
	let mut m = |k: Kind, f: &dyn Fn(&mut BlockHeader), target: u64, accept: bool| {
		let mut h = t.clone();
		f(&mut h);
		pre.push((k, h, target, accept));
	};
	m(Kind::HeightPlus, &|h| h.height += 1, d, false);
	m(Kind::HeightMinus, &|h| h.height -= 1, d, false);
	m(Kind::TsEqParent, &|h| h.timestamp = q.timestamp, d, false);
	let back = 1 + (mix(salt, 1) % 1000) as i64;
	m(Kind::TsBeforeParent, &|h| h.timestamp = q.timestamp - Duration::seconds(back), d, false);
	m(Kind::VersionPlus, &|h| h.version = HeaderVersion(h.version.0 + 1), d, false);
	m(Kind::VersionMinus, &|h| h.version = HeaderVersion(h.version.0 - 1), d, false);
	if let Some(o) = other {
		m(Kind::PrevHashKnown, &|h| h.prev_hash = o, d, false);
	}
	m(Kind::PrevHashRandom, &|h| h.prev_hash = rand_hash(salt, 2), d, false);
	m(Kind::PrevRoot, &|h| h.prev_root = rand_hash(salt, 3), d, false);
	m(Kind::TdPlus1, &|h| h.pow.total_difficulty = Difficulty::from_num(td + 1), d + 1, false);
	m(Kind::TdMinus1, &|h| h.pow.total_difficulty = Difficulty::from_num(td - 1), d, false);
	let k = 2 + mix(salt, 4) % 99;
	m(Kind::TdPlusK, &|h| h.pow.total_difficulty = Difficulty::from_num(td + k), d + k, false);
	// may end at or below the parent's total
	let k2 = 2 + mix(salt, 5) % (d + 3);
	if td > k2 {
		m(Kind::TdMinusK, &|h| h.pow.total_difficulty = Difficulty::from_num(td - k2), d, false);
	}
	// before the last hard fork the scaling is dictated; afterwards it is free
	m(Kind::ScalingPlus, &|h| h.pow.secondary_scaling = h.pow.secondary_scaling.wrapping_add(1), d, v5);
	m(Kind::ScalingMinus, &|h| h.pow.secondary_scaling = h.pow.secondary_scaling.wrapping_sub(1), d, v5);
	// every block adds one output and one kernel to an initially empty set
	let leaves = q.height;
	m(Kind::OutSizeZero, &|h| h.output_mmr_size = q.output_mmr_size, d, false);
	m(Kind::KernSizeZero, &|h| h.kernel_mmr_size = q.kernel_mmr_size, d, false);
	// 12 outputs weigh 252 > 250; 1 output + 77 kernels weigh 252 > 250
	let xo = 12 + mix(salt, 6) % 5;
	m(Kind::OutSizeHeavy, &|h| h.output_mmr_size = mmr_size(leaves + xo), d, false);
	let xk = 77 + mix(salt, 7) % 9;
	m(Kind::KernSizeHeavy, &|h| h.kernel_mmr_size = mmr_size(leaves + xk), d, false);
	// controls
	let mut ndt = 1 + (mix(salt, 8) % 3600) as i64;
	if q.timestamp + Duration::seconds(ndt) == t.timestamp {
		ndt += 1;
	}
	m(Kind::CtlTimestamp, &|h| h.timestamp = q.timestamp + Duration::seconds(ndt), d, true);
	let bump = 1 + mix(salt, 9) % 1000;
	m(Kind::CtlRemine, &|h| h.pow.nonce = h.pow.nonce.wrapping_add(bump), d, true);
	for (k, h, target, accept) in pre {
		// raw variant: the proof no longer belongs to the header bytes (for
		// CtlRemine this is the "nonce changed without re-mining" case)
		// The verdict is derived: valid iff the field change keeps every other rule
		// satisfied (`accept`) AND the proof is a cycle for these bytes worth >= d
		// under the reference (for a stale proof that is astronomically unlikely, but
		// it is computed, not assumed).
		if k != Kind::CtlRemine {
			let ok = accept && ref_pow_ok(&h, d);
			out.push(Mutant::new(k, false, h.clone(), ok));
		}
		let mut r = h;
		remine(&mut r, target)?;
		let ok = accept && ref_pow_ok(&r, d);
		out.push(Mutant::new(k, true, r, ok));
	}
	// a genuine cycle that does not reach the network difficulty (every AutomatedTesting
	// solution is worth at least the graph weight 20, so only where d > 20)
	if d > 20 {
		let mut h = t.clone();
		h.pow.nonce = h.pow.nonce.wrapping_add(bump);
		for _ in 0..800 {
			remine(&mut h, 1)?;
			if h.pow.to_difficulty(h.height).to_num() < d {
				let ok = ref_pow_ok(&h, d);
				out.push(Mutant::new(Kind::PowBelowTarget, true, h.clone(), ok));
				break;
			}
			h.pow.nonce = h.pow.nonce.wrapping_add(1);
		}
	}
	// proof-of-work fields themselves: no other rule is touched, so the mutant is valid
	// exactly when the reference finds a cycle worth >= d. edge_bits is not part of the
	// bytes the proof commits to, and a Cuckatoo10 cycle is also a cycle of the
	// (10+k)-bit graph with probability about 2^-8k (measured 167/40000 for k=1): such a
	// header is legitimately valid and must then be ACCEPTED.
	let mut raw = |k: Kind, f: &dyn Fn(&mut BlockHeader)| {
		let mut h = t.clone();
		f(&mut h);
		let ok = ref_pow_ok(&h, d);
		out.push(Mutant::new(k, false, h, ok));
	};
	raw(Kind::Nonce, &|h| h.pow.nonce = h.pow.nonce.wrapping_add(bump));
	let low = 1 + (mix(salt, 10) % 9) as u8;
	raw(Kind::EdgeBitsLow, &|h| {
		h.pow.proof.edge_bits = low;
		for n in h.pow.proof.nonces.iter_mut() {
			*n &= (1u64 << low) - 1;
		}
	});
	raw(Kind::EdgeBits29, &|h| h.pow.proof.edge_bits = 29);
	// half of the time 11 bits, where about 1 in 250 of these mutants is a genuine cycle
	let high = if mix(salt, 11) % 2 == 0 { 11 } else { 12 + (mix(salt, 14) % 16) as u8 };
	raw(Kind::EdgeBitsHigh, &|h| h.pow.proof.edge_bits = high);
	let which = (mix(salt, 12) % t.pow.proof.nonces.len() as u64) as usize;
	raw(Kind::ProofNonce, &|h| {
		h.pow.proof.nonces[which] ^= 1 << (mix(salt, 13) % 10);
	});
	Ok(out)
}

fn window_of(headers: &[BlockHeader], upto: usize) -> Vec<Entry> {
	// headers[0] = genesis; entries for heights upto..0, newest first
	(0..=upto)
		.rev()
		.map(|i| Entry {
			ts: headers[i].timestamp.timestamp() as u64,
			diff: headers[i].total_difficulty().to_num() - if i > 0 { headers[i - 1].total_difficulty().to_num() } else { 0 },
			scaling: headers[i].pow.secondary_scaling,
			sec: headers[i].pow.proof.edge_bits == 29,
		})
		.collect()
}

/// Build the valid source chain with real PoW; every block is checked against
/// the reference model (version, difficulty increment, scaling, prev_root).
fn build_chain(ctx: &Ctx, recipe: &[(u16, u8)], tag: &str) -> Result<(ChainBox, Vec<Block>), Fail> {
	let src = ChainBox::open(&ctx.scratch_dir(tag)).map_err(|e| Fail::new("harness:init", e))?;
	let mut blocks: Vec<Block> = vec![];
	let mut headers: Vec<BlockHeader> = vec![src.genesis.header.clone()];
	let mut leaves: Vec<Vec<u8>> = vec![src.genesis.header.pow.proof.pack_nonces()];
	for (i, (dt, k)) in recipe.iter().enumerate() {
		let h = i as u64 + 1;
		let prev = headers.last().unwrap().clone();
		let b = make_block(src.c(), &prev, &[], (h * 4 + (*k as u64 % 4)) as u32, *dt as i64, PowMode::Real).map_err(|e| Fail::new("harness:build", format!("height {}: {}", h, e)))?;
		// reference expectations for the header grin's own builder produced
		let r = ref_next(Ct::AutomatedTesting, h, &window_of(&headers, i));
		let inc = b.header.total_difficulty().to_num() - prev.total_difficulty().to_num();
		ensure!(
			inc as u128 == r.diff,
			"network-difficulty-differs-from-reference",
			"height {}: chain's network difficulty {} reference {} (window {:?})",
			h,
			inc,
			r.diff,
			window_of(&headers, i)
		);
		let ver = ref_version(Ct::AutomatedTesting, h);
		ensure!(b.header.version.0 == ver, "scheduled-version-differs-from-reference", "height {}: version {} reference {}", h, b.header.version.0, ver);
		if ver < 5 {
			ensure!(
				b.header.pow.secondary_scaling as u128 == r.scaling,
				"network-scaling-differs-from-reference",
				"height {}: scaling {} reference {}",
				h,
				b.header.pow.secondary_scaling,
				r.scaling
			);
		}
		// prev_root = MMR root over the ancestors (leaf = proof bytes, which is what a header hashes to)
		let root = RefMmr::build(&leaves).root();
		ensure!(
			b.header.prev_root == Hash::from_vec(&root),
			"prev-root-differs-from-reference",
			"height {}: prev_root {:?} reference MMR root {:?}",
			h,
			b.header.prev_root,
			Hash::from_vec(&root)
		);
		ensure!(
			ref_pow_ok(&b.header, inc),
			"accepted-pow-invalid-under-reference",
			"height {}: mined header's proof is not a cycle worth >= {} under the reference: {:?}",
			h,
			inc,
			b.header
		);
		match catch(|| src.c().process_block(b.clone(), Options::NONE)) {
			Ok(Ok(Some(_))) => {}
			Ok(r) => fail!("valid-block-rejected:source", "height {}: source chain answered {:?}", h, r.map_err(|e| err_name(&e))),
			Err(f) => return Err(f),
		}
		leaves.push(b.header.pow.proof.pack_nonces());
		headers.push(b.header.clone());
		blocks.push(b);
	}
	Ok((src, blocks))
}

fn deliver(path: Path, cb: &ChainBox, hdr: &BlockHeader, tail: &[BlockHeader], body: &Block) -> Result<Result<(), String>, Fail> {
	catch(|| match path {
		Path::Header => cb.c().process_block_header(hdr, Options::NONE).map_err(|e| format!("{:?}", e)),
		Path::Sync => {
			let mut v = tail.to_vec();
			v.push(hdr.clone());
			let sh = cb.c().header_head().map_err(|e| format!("header_head: {:?}", e))?;
			cb.c().sync_block_headers(&v, sh, Options::SYNC).map(|_| ()).map_err(|e| format!("{:?}", e))
		}
		Path::Block => {
			let b = Block {
				header: hdr.clone(),
				body: body.body.clone(),
			};
			cb.c().process_block(b, Options::NONE).map(|_| ()).map_err(|e| format!("{:?}", e))
		}
	})
}

fn hh(cb: &ChainBox) -> Result<Tip, Fail> {
	cb.c().header_head().map_err(|e| Fail::new("header-head-err", format!("{:?}", e)))
}

fn era_name(height: u64) -> String {
	let v = ref_version(Ct::AutomatedTesting, height);
	if height == 12 {
		"v5-first".into()
	} else if height == 13 {
		"v5-second".into()
	} else {
		format!("v{}", v)
	}
}

pub fn check_a(ctx: &Ctx, case: &CaseA, counting: bool, at: &mut Option<Only>) -> PResult {
	init_thread();
	*at = None;
	let ev = &ctx.ev;
	let dbg = std::env::var("GV_DEBUG").is_ok();
	let t_start = std::time::Instant::now();
	let n = case.recipe.len();
	ensure!(n >= 1, "harness:case", "empty recipe");
	let (src, blocks) = build_chain(ctx, &case.recipe, "a-src")?;
	if dbg {
		eprintln!("A: n={} build {:.2}s", n, t_start.elapsed().as_secs_f64());
	}
	let genesis = src.genesis.header.clone();
	let hdr = |h: usize| -> &BlockHeader {
		if h == 0 {
			&genesis
		} else {
			&blocks[h - 1].header
		}
	};
	let src_hh = hh(&src)?;
	ensure!(src_hh.last_block_h == blocks[n - 1].hash(), "valid-block-rejected:source", "source header_head is not the last block");
	// mutated heights: increasing, at least 2 apart (so that the valid chain is
	// the head again before the next one)
	let mut positions: Vec<usize> = case.pos.iter().map(|p| (*p as usize).clamp(1, n)).collect();
	positions.sort();
	let mut keep: Vec<usize> = vec![];
	for p in positions {
		if keep.last().map(|l| p >= l + 2).unwrap_or(true) {
			keep.push(p);
		}
	}
	if let Some(o) = case.only {
		keep.retain(|p| *p == o.pos as usize);
	}
	let positions = keep;
	let chunk = (case.chunk as usize).max(1);

	// --- three receiving chains
	let ch = ChainBox::open(&ctx.scratch_dir("a-h")).map_err(|e| Fail::new("harness:init", e))?;
	let cs = ChainBox::open(&ctx.scratch_dir("a-s")).map_err(|e| Fail::new("harness:init", e))?;
	let cf = ChainBox::open(&ctx.scratch_dir("a-f")).map_err(|e| Fail::new("harness:init", e))?;
	let feed_h = |from: usize, to: usize| -> PResult {
		for h in from..=to {
			match deliver(Path::Header, &ch, hdr(h), &[], &blocks[h - 1])? {
				Ok(()) => {}
				Err(e) => fail!("valid-header-rejected:Header", "height {} of {} refused by process_block_header: {}", h, n, e),
			}
		}
		Ok(())
	};
	let feed_s = |from: usize, to: usize| -> PResult {
		let mut a = from;
		while a <= to {
			let b = (a + chunk - 1).min(to);
			let v: Vec<BlockHeader> = (a..b).map(|h| hdr(h).clone()).collect();
			match deliver(Path::Sync, &cs, hdr(b), &v, &blocks[b - 1])? {
				Ok(()) => {}
				Err(e) => fail!("valid-header-rejected:Sync", "chunk {}..={} of {} refused by sync_block_headers: {}", a, b, n, e),
			}
			a = b + 1;
		}
		Ok(())
	};
	let feed_f = |from: usize, to: usize| -> PResult {
		for h in from..=to {
			match deliver(Path::Block, &cf, hdr(h), &[], &blocks[h - 1])? {
				Ok(()) => {}
				Err(e) => fail!("valid-header-rejected:Block", "block {} of {} refused by process_block: {}", h, n, e),
			}
		}
		Ok(())
	};
	let chain_of = |path: Path| match path {
		Path::Header => &ch,
		Path::Sync => &cs,
		Path::Block => &cf,
	};
	// highest valid height delivered so far on each path
	let (mut fed_h, mut fed_s, mut fed_f) = (0usize, 0usize, 0usize);
	let mut prev_pos: Option<usize> = None;
	let mut controls_ok = 0u64;
	// highest total difficulty of an accepted header that is not on the valid chain, per path
	let mut foreign = [0u64; 3];
	// the head is the given valid header unless an accepted foreign header has at least as much work
	let head_is = |tip: Tip, want: &BlockHeader, foreign: u64| -> bool {
		let w = want.total_difficulty().to_num();
		if w > foreign {
			tip.last_block_h == want.hash()
		} else {
			tip.total_difficulty.to_num() == foreign
		}
	};
	let mut sample_mutants: Vec<String> = vec![];
	for &p in &positions {
		let t = hdr(p).clone();
		let q = hdr(p - 1).clone();
		// the sync chain stops `tail_n` headers short of the parent; those come with the mutant
		let room = match prev_pos {
			Some(pp) => p - 2 - pp,
			None => p - 1,
		};
		let tail_n = (case.tail as usize).min(room);
		if p - 1 > fed_h {
			feed_h(fed_h + 1, p - 1)?;
			fed_h = p - 1;
		}
		if p - 1 > fed_f {
			feed_f(fed_f + 1, p - 1)?;
			fed_f = p - 1;
		}
		if p - 1 - tail_n > fed_s {
			feed_s(fed_s + 1, p - 1 - tail_n)?;
			fed_s = p - 1 - tail_n;
		}
		ensure!(head_is(hh(&ch)?, &q, foreign[0]), "valid-header-rejected:Header", "header_head after prefix {} is not the parent", p - 1);
		ensure!(head_is(hh(&cf)?, &q, foreign[2]), "valid-header-rejected:Block", "header_head after prefix {} is not the parent", p - 1);
		ensure!(
			cf.c().head().map(|h| head_is(h, &q, foreign[2])).unwrap_or(false),
			"valid-header-rejected:Block",
			"head after prefix {} is not the parent",
			p - 1
		);
		ensure!(head_is(hh(&cs)?, hdr(p - 1 - tail_n), foreign[1]), "valid-header-rejected:Sync", "header_head after prefix {} is not the expected ancestor", p - 1 - tail_n);
		let tail: Vec<BlockHeader> = (p - tail_n..p).map(|h| hdr(h).clone()).collect();
		let other = if p >= 2 { Some(hdr(p - 2).hash()) } else { None };
		if dbg {
			eprintln!("A: p={} prefix fed {:.2}s", p, t_start.elapsed().as_secs_f64());
		}
		let mut ms = mutants(&t, &q, other, mix(case.salt, p as u64))?;
		// ancestors genesis..=p-1; header-only children built from the reference model
		let anc: Vec<BlockHeader> = (0..p).map(|h| hdr(h).clone()).collect();
		let template = if p < n { hdr(p + 1).clone() } else { t.clone() };
		let xdt = 1 + (mix(case.salt, 100 + p as u64) % 600) as i64;
		if let Some(bad) = ms.iter().find(|m| m.kind == Kind::PrevRoot && m.remined).map(|m| m.header.clone()) {
			let mut a = anc.clone();
			a.push(bad.clone());
			let mut m = Mutant::new(Kind::SyncMidChunkPrevRoot, true, child_of(&a, &template, xdt, None)?, false);
			m.stage = 0;
			m.paths = Some(vec![Path::Sync]);
			m.pre = vec![bad];
			ms.push(m);
		}
		let fork_parent = ms.iter().find(|m| m.kind == Kind::CtlTimestamp && m.remined).map(|m| m.header.clone());
		if let Some(c) = &fork_parent {
			let mut a = anc.clone();
			a.push(c.clone());
			let good = child_of(&a, &template, xdt, None)?;
			let own = (good.total_difficulty().to_num() - c.total_difficulty().to_num()) as u128;
			// what the main chain demands after the true header of this height
			let mut b = anc.clone();
			b.push(t.clone());
			let main = ref_next(Ct::AutomatedTesting, p as u64 + 1, &window_of(&b, b.len() - 1));
			if main.diff != own {
				let mut w = Mutant::new(Kind::ForkChildMainDifficulty, true, child_of(&a, &template, xdt, Some(main.diff))?, false);
				w.stage = 2;
				w.paths = Some(vec![Path::Header, Path::Sync]);
				ms.push(w);
			}
			if c.timestamp > t.timestamp {
				let bogus = child_of(&a, &template, 0, None)?;
				let mut u = Mutant::new(Kind::SyncUnlinkedChunkTsOfNamedParent, true, bogus, false);
				u.stage = 2;
				u.paths = Some(vec![Path::Sync]);
				u.pre = vec![t.clone()];
				ms.push(u);
			}
			let ok = ref_pow_ok(&good, own as u64);
			let mut m = Mutant::new(Kind::ForkChild, true, good, ok);
			m.stage = 2;
			m.paths = Some(vec![Path::Header, Path::Sync]);
			ms.push(m);
		}
		if dbg {
			eprintln!("A: {} mutants made {:.2}s", ms.len(), t_start.elapsed().as_secs_f64());
		}
		if sample_mutants.is_empty() {
			sample_mutants = ms.iter().map(|m| format!("{:?}/{}{}", m.kind, if m.remined { "remined" } else { "raw" }, if m.accept { " (control)" } else { "" })).collect();
		}
		let era = era_name(p as u64);
		// rejected mutants first, controls afterwards (they move the head), then children of the control fork
		for pass in 0..3u8 {
			if pass == 2 && case.only.is_some() {
				// replay of a single fork-child case: its parent must be known first
				if let Some(c) = &fork_parent {
					let _ = deliver(Path::Header, &ch, c, &[], &blocks[p - 1])?;
					let _ = deliver(Path::Sync, &cs, c, &tail, &blocks[p - 1])?;
				}
			}
			for m in ms.iter().filter(|m| m.stage == pass) {
				for path in PATHS {
					if let Some(ps) = &m.paths {
						if !ps.contains(&path) {
							continue;
						}
					}
					let me = Only {
						pos: p as u16,
						kind: m.kind,
						remined: m.remined,
						path,
					};
					if let Some(o) = case.only {
						if o != me {
							continue;
						}
					}
					*at = Some(me);
					let cb = chain_of(path);
					let before = hh(cb)?;
					let body_before = cb.c().head().map_err(|e| Fail::new("head-err", format!("{:?}", e)))?;
					let mut chunk_pre: Vec<BlockHeader> = if path == Path::Sync && pass < 2 { tail.clone() } else { vec![] };
					chunk_pre.extend(m.pre.iter().cloned());
					// A header hashes to its proof bytes only. If the receiver already stores a
					// DIFFERENT header under the mutant's hash, grin treats the mutant as
					// "already known": whatever the call returns, the only sound expectation is
					// that the stored header and the heads stay as they are.
					let shadow = cb.c().get_block_header(&m.header.hash()).ok().filter(|s| *s != m.header);
					let res = deliver(path, cb, &m.header, &chunk_pre, &blocks[p - 1])?;
					let after = hh(cb)?;
					let label = format!("{:?}:{}:{:?}", m.kind, if m.remined { "remined" } else { "raw" }, path);
					let what = format!("chain of {} blocks, mutated height {} ({}), {}", n, p, era, label);
					if let Some(stored) = shadow {
						ensure!(after == before, format!("head-moved-on-reject:{}", label), "{}: header_head moved by a header whose hash was already known", what);
						ensure!(
							cb.c().get_block_header(&m.header.hash()).ok().as_ref() == Some(&stored),
							"known-header-replaced-by-mutant",
							"{}: the header stored under this hash changed",
							what
						);
						if counting {
							ev.eval();
							ev.class("A:mutant_hash_already_known");
						}
						continue;
					}
					if !m.accept {
						match &res {
							Ok(()) => fail!(format!("mutant-accepted:{}", label), "{}: accepted; true header {:?} mutant {:?}", what, t, m.header),
							Err(e) => {
								if counting {
									ev.class(&format!("A:refused:{:?}:{} -> {}", m.kind, if m.remined { "remined" } else { "raw" }, err_variant(e)));
								}
							}
						}
						ensure!(after == before, format!("head-moved-on-reject:{}", label), "{}: header_head moved from {:?} to {:?}", what, before, after);
						let body_after = cb.c().head().map_err(|e| Fail::new("head-err", format!("{:?}", e)))?;
						ensure!(body_after == body_before, format!("head-moved-on-reject:{}", label), "{}: head moved from {:?} to {:?}", what, body_before, body_after);
						for x in m.pre.iter().chain(std::iter::once(&m.header)) {
							ensure!(
								cb.c().get_block_header(&x.hash()).is_err(),
								format!("rejected-header-stored:{}", label),
								"{}: header refused but retrievable from the store",
								what
							);
						}
					} else {
						if let Err(e) = &res {
							fail!(format!("control-rejected:{}", label), "{}: still-valid header refused: {}; true {:?} control {:?}", what, e, t, m.header);
						}
						let want = std::cmp::max(before.total_difficulty, m.header.total_difficulty());
						ensure!(
							after.total_difficulty == want,
							format!("control-rejected:{}", label),
							"{}: header_head after accepting a valid header of total difficulty {} is {:?} (before {:?})",
							what,
							m.header.total_difficulty(),
							after,
							before
						);
						match cb.c().get_block_header(&m.header.hash()) {
							Ok(h) => ensure!(h == m.header, format!("control-rejected:{}", label), "{}: stored header differs", what),
							Err(e) => fail!(format!("control-rejected:{}", label), "{}: accepted header not stored: {:?}", what, e),
						}
						let f = &mut foreign[path as usize];
						*f = (*f).max(m.header.total_difficulty().to_num());
						controls_ok += 1;
					}
					if counting {
						ev.eval();
						ev.class(&format!("A:kind:{:?}", m.kind));
						ev.class(&format!("A:path:{:?}", path));
						if m.remined {
							ev.class("A:mutants_with_valid_pow");
							ev.nontrivial(&("A", m.kind, era.clone(), path));
						} else {
							ev.class("A:mutants_with_stale_pow");
							if m.accept {
								// e.g. a Cuckatoo10 cycle that is also a cycle of the bigger graph
								ev.class(&format!("A:raw_mutant_valid_under_reference:{:?}", m.kind));
							}
						}
					}
				}
			}
		}
		*at = None;
		if counting {
			ev.class(&format!("A:pos_era:{}", era));
		}
		prev_pos = Some(p);
		if dbg {
			eprintln!("A: mutants delivered {:.2}s", t_start.elapsed().as_secs_f64());
		}
	}
	if counting && controls_ok > 0 {
		ev.class_n("controls_accepted", controls_ok);
	}
	if case.only.is_some() || positions.is_empty() {
		return Ok(());
	}
	let plast = *positions.last().unwrap();

	// --- the true header and its descendants still go through on every path
	// (full blocks only two past the last mutated height: block validation is the expensive part)
	let f_to = n.min(plast + 2);
	feed_h(fed_h + 1, n)?;
	feed_s(fed_s + 1, n)?;
	feed_f(fed_f + 1, f_to)?;
	for (path, cb) in [(Path::Header, &ch), (Path::Sync, &cs)] {
		let e = hh(cb)?;
		ensure!(
			head_is(e, hdr(n), foreign[path as usize]),
			format!("valid-header-rejected:{:?}", path),
			"after delivering the whole valid chain header_head is {:?}, source chain {:?}",
			e,
			src_hh
		);
	}
	for e in [hh(&cf)?, cf.c().head().map_err(|e| Fail::new("head-err", format!("{:?}", e)))?] {
		ensure!(
			head_is(e, hdr(f_to), foreign[2]),
			"valid-header-rejected:Block",
			"after delivering blocks up to {} head/header_head is {:?}",
			f_to,
			e
		);
	}
	// a stale-PoW mutant shares the hash of the (now known) true header: it must
	// not replace it nor move the head, whatever the call returns
	{
		let t = hdr(plast).clone();
		let mut m = t.clone();
		m.timestamp = hdr(plast - 1).timestamp;
		let before = hh(&ch)?;
		let r = deliver(Path::Header, &ch, &m, &[], &blocks[plast - 1])?;
		if counting {
			ev.class(if r.is_ok() { "A:same_hash_mutant_after_original:returned_ok" } else { "A:same_hash_mutant_after_original:returned_err" });
		}
		ensure!(hh(&ch)? == before, "head-moved-on-reject:same-hash", "header_head moved by a same-hash mutant of a known header");
		match ch.c().get_block_header(&t.hash()) {
			Ok(h) => ensure!(h == t, "known-header-replaced-by-mutant", "stored header at height {} replaced by a stale-PoW mutant with the same hash", plast),
			Err(e) => fail!("known-header-replaced-by-mutant", "true header vanished: {:?}", e),
		}
	}
	// a SIBLING of a known header (same parent, another timestamp, re-mined) that commits to a wrong
	// header-MMR root: it has no more work than the header head, so it can never become the head — it
	// must be refused all the same (single-header path and full-block path), and must not be stored
	{
		let t = hdr(plast).clone();
		let q = hdr(plast - 1).clone();
		let d = t.total_difficulty().to_num() - q.total_difficulty().to_num();
		let mut m = t.clone();
		m.timestamp = t.timestamp + Duration::seconds(1);
		let mut v = m.prev_root.to_vec();
		v[(case.salt % 32) as usize] ^= 0x10;
		m.prev_root = Hash::from_vec(&v);
		m.pow.nonce = 0;
		remine(&mut m, d)?;
		if m.hash() != t.hash() {
			for (path, cb) in [(Path::Header, &ch), (Path::Block, &cf)] {
				let before_hh = hh(cb)?;
				let before_head = cb.c().head().map_err(|e| Fail::new("head-err", format!("{:?}", e)))?;
				let r = deliver(path, cb, &m, &[], &blocks[plast - 1])?;
				if counting {
					ev.eval();
					ev.class(&format!("A:fork_sibling_with_wrong_prev_root:{:?}:{}", path, if r.is_ok() { "returned_ok" } else { "refused" }));
				}
				ensure!(r.is_err(), format!("mutant-accepted:ForkSiblingPrevRoot:remined:{:?}", path), "chain of {} blocks: a sibling of the header at height {} (no more work than the head) with a wrong prev_root is accepted", n, plast);
				let after_head = cb.c().head().map_err(|e| Fail::new("head-err", format!("{:?}", e)))?;
				ensure!(hh(cb)? == before_hh && after_head == before_head, format!("head-moved-on-reject:ForkSiblingPrevRoot:{:?}", path), "heads moved");
				ensure!(cb.c().get_block_header(&m.hash()).is_err(), format!("rejected-header-stored:ForkSiblingPrevRoot:{:?}", path), "refused sibling header is retrievable from the store");
			}
		}
	}
	// the same, one step earlier in a block's life: the true header is known HEADER-FIRST only (no body
	// yet) and a full block arrives whose header has the same proof (hence the same hash) but another
	// timestamp / cumulative difficulty. Its proof of work does not cover those bytes: it must be refused,
	// must not become the head and must not replace the stored header
	if f_to < n {
		let t = hdr(f_to + 1).clone();
		cf.c().process_block_header(&t, Options::NONE).map_err(|e| Fail::new("valid-header-rejected:Header", format!("header-first delivery of the true header at height {}: {:?}", f_to + 1, e)))?;
		let body = &blocks[f_to];
		for (what, m) in [
			("timestamp", {
				let mut m = t.clone();
				m.timestamp = t.timestamp + Duration::seconds(1);
				m
			}),
			("total_difficulty", {
				let mut m = t.clone();
				m.pow.total_difficulty = Difficulty::from_num(t.total_difficulty().to_num() + 1_000_000);
				m
			}),
		] {
			let before_head = cf.c().head().map_err(|e| Fail::new("head-err", format!("{:?}", e)))?;
			let before_hh = hh(&cf)?;
			let r = deliver(Path::Block, &cf, &m, &[], body)?;
			if counting {
				ev.eval();
				ev.class(&format!("A:same_hash_block_after_header_first:{}:{}", what, if r.is_ok() { "returned_ok" } else { "refused" }));
			}
			ensure!(r.is_err(), format!("mutant-accepted:SameHashBlockAfterHeaderFirst:{}", what), "chain of {} blocks: header at height {} known header-first, then a full block with the same proof but another {}: accepted", n, f_to + 1, what);
			let after_head = cf.c().head().map_err(|e| Fail::new("head-err", format!("{:?}", e)))?;
			ensure!(after_head == before_head && hh(&cf)? == before_hh, format!("head-moved-on-reject:SameHashBlockAfterHeaderFirst:{}", what), "head moved from {:?} to {:?}", before_head, after_head);
			match cf.c().get_block_header(&t.hash()) {
				Ok(h) => ensure!(h == t, "known-header-replaced-by-mutant", "stored header at height {} replaced by a same-hash block header with another {}", f_to + 1, what),
				Err(e) => fail!("known-header-replaced-by-mutant", "true header vanished: {:?}", e),
			}
		}
		// and the true block still goes through
		let r = deliver(Path::Block, &cf, &t, &[], body)?;
		ensure!(r.is_ok(), "valid-header-rejected:Block", "true block at height {} refused after same-hash impostors: {:?}", f_to + 1, r);
	}
	if dbg {
		eprintln!("A: done {:.2}s", t_start.elapsed().as_secs_f64());
	}
	if counting {
		ev.class_n("A:valid_headers_accepted_per_path", n as u64);
		if n >= 13 {
			ev.class("A:chains_crossing_both_eras");
		}
		if (12..=n).any(|h| hdr(h).total_difficulty().to_num() - hdr(h - 1).total_difficulty().to_num() > 20) {
			ev.class("A:chains_with_wtema_above_minimum");
		}
		if (1..=n.min(11)).any(|h| hdr(h).total_difficulty().to_num() - hdr(h - 1).total_difficulty().to_num() > 3) {
			ev.class("A:chains_with_dma_above_minimum");
		}
		ev.sample("A", || json!({"recipe": case.recipe, "mutated_heights": positions, "sync_chunk": chunk, "sync_tail": case.tail, "mutants_per_height": sample_mutants}));
	}
	Ok(())
}

// =====================================================================
// Part B
// =====================================================================

#[derive(Clone, Debug, Serialize, Deserialize)]
pub struct CaseB {
	pub chain_type: Ct,
	pub height: u64,
	/// newest first
	pub entries: Vec<Entry>,
}

fn era_range(ct: Ct, era: u8) -> (u64, u64) {
	let s = ref_era_starts(ct);
	let e = (era.clamp(1, 5) - 1) as usize;
	let lo = if e == 0 { 1 } else { s[e] };
	// (heights past 196_605 on the testing chain types include the points where a 16-bit
	// interval count would wrap - a repaired defect, also probed directly in `run`)
	let hi = if e == 4 { s[4] + 20_000_000 } else { s[e + 1] };
	(lo, hi) // [lo, hi)
}

pub fn strat_b() -> impl Strategy<Value = CaseB> {
	let diff = prop_oneof![
		3 => (0u32..48, any::<u64>()).prop_map(|(b, r)| (1u64 << b) + (r & ((1u64 << b) - 1))),
		1 => 1u64..=64,
		1 => Just(1u64 << 48),
	];
	let delta = prop_oneof![4 => 1u32..=600, 2 => 1u32..=3, 1 => 1u32..=1_000_000, 1 => 55u32..=65];
	(
		(0u8..4, 1u8..=5, 0u8..6, any::<u64>(), 0u8..8, any::<u16>()),
		(1_000_000_000u64..2_000_000_000, 0u8..4, 0u8..4),
		prop::collection::vec((delta, diff, 0u32..(1u32 << 31), any::<bool>(), 0u8..=255), 70),
	)
		.prop_map(|((cti, era, hmode, hr, nmode, nr), (base_ts, dmode, smode), raw)| {
			let ct = Ct::from_idx(cti);
			let (lo, hi) = era_range(ct, era);
			let span = hi - lo;
			let height = match hmode {
				0 => lo + hr % span.min(3),
				1 => hi - 1 - hr % span.min(3),
				2 => lo + hr % span.min(70),
				_ => lo + hr % span,
			};
			let dma = ref_version(ct, height) < 5;
			let maxn = height.min(70) as usize;
			let want = height.min(61) as usize;
			let n = if dma {
				match nmode {
					0 | 1 | 2 => want,
					3 => 1 + (nr as usize * maxn >> 16),
					4 => 1 + (nr as usize * want >> 16),
					5 => maxn,
					6 => 1.max(want.saturating_sub(1 + nr as usize % 3)),
					_ => 1 + (nr as usize % 3).min(maxn - 1),
				}
			} else {
				(match nmode {
					0 | 1 => 2,
					2 => 3,
					_ => 2 + (nr as usize * 69 >> 16),
				})
				.min(height.max(2) as usize)
			};
			let mut entries = Vec::with_capacity(n);
			let mut ts = base_ts;
			let d0 = raw[0].1;
			for (i, (dl, df, sc, sec, j)) in raw.iter().take(n).enumerate() {
				if i > 0 {
					ts -= *dl as u64;
				}
				let diff = match dmode {
					// independent, constant, slowly varying around the first
					0 => *df,
					1 => d0,
					_ => (d0 as u128 * (240 + (*j as u128 % 32)) / 256).max(1) as u64,
				};
				let (scaling, sec) = match smode {
					0 => (*sc, *sec),
					1 => (ref_initial_scaling(ct), *j % 10 != 0),
					2 => (1 + *sc % 4096, *j % 10 == 0),
					_ => (*sc, false),
				};
				entries.push(Entry {
					ts,
					diff,
					scaling,
					sec,
				});
			}
			CaseB {
				chain_type: ct,
				height,
				entries,
			}
		})
}

fn grin_next(case: &CaseB, entries: &[Entry]) -> Result<HeaderDifficultyInfo, Fail> {
	global::set_local_chain_type(case.chain_type.grin());
	let h = case.height;
	let r = catch(|| {
		consensus::next_difficulty(
			h,
			entries
				.iter()
				.map(|e| HeaderDifficultyInfo::new(None, e.ts, Difficulty::from_num(e.diff), e.scaling, e.sec))
				.collect::<Vec<_>>(),
		)
	});
	global::set_local_chain_type(ChainTypes::AutomatedTesting);
	r
}

pub fn check_b(ctx: &Ctx, case: &CaseB, counting: bool) -> PResult {
	let ev = &ctx.ev;
	let ct = case.chain_type;
	let h = case.height;
	let w = &case.entries;
	let dma = ref_version(ct, h) < 5;
	// domain
	ensure!(h >= 1 && !w.is_empty() && (dma || w.len() >= 2), "harness:case", "window outside the domain");
	ensure!(w.windows(2).all(|p| p[0].ts > p[1].ts), "harness:case", "timestamps not strictly increasing");
	let g1 = grin_next(case, w)?;
	let g2 = grin_next(case, w)?;
	let tag = format!("{:?}:{}", ct, if dma { "dma" } else { "wtema" });
	ensure!(g1 == g2, format!("nondeterministic:{}", tag), "same window, two results: {:?} vs {:?}", g1, g2);
	// scheduled version agrees with the reference (selects the algorithm)
	global::set_local_chain_type(ct.grin());
	let gv = consensus::header_version(h).0;
	global::set_local_chain_type(ChainTypes::AutomatedTesting);
	ensure!(
		gv == ref_version(ct, h),
		format!("{}:{:?}", if schedule_wraps(ct, h) { "version-schedule-u16-wrap" } else { "version-schedule" }, ct),
		"{:?}: header_version({}) = {} but the schedule (version 5 from height {} on, for ever) says {}",
		ct,
		h,
		gv,
		ref_era_starts(ct)[4],
		ref_version(ct, h)
	);
	let r = ref_next(ct, h, w);
	let got = g1.difficulty.to_num() as u128;
	ensure!(
		got == r.diff,
		format!("retarget-mismatch:{}", tag),
		"{:?} height {} window of {}: next difficulty {} reference {} (ts_delta {} diff_sum {} adj_ts {})",
		ct,
		h,
		w.len(),
		got,
		r.diff,
		r.ts_delta,
		r.diff_sum,
		r.adj_ts
	);
	ensure!(
		g1.secondary_scaling as u128 == r.scaling,
		format!("scaling-mismatch:{}", tag),
		"{:?} height {} window of {}: secondary scaling {} reference {}",
		ct,
		h,
		w.len(),
		g1.secondary_scaling,
		r.scaling
	);
	// bounds of the statement, written without the reference's intermediate steps
	let at_min;
	let mut clamp_active = false;
	if dma {
		ensure!(got >= R_MIN_DMA, format!("below-minimum:{}", tag), "difficulty {} < 3", got);
		ensure!(g1.secondary_scaling as u128 >= R_MIN_AR_SCALE, format!("below-minimum-scaling:{}", tag), "scaling {} < 13", g1.secondary_scaling);
		// adjusted timespan within [window/2, 2*window], and by damping of a
		// non-negative timespan never below 2/3 of the window
		let lo = std::cmp::max(R_MIN_DMA, r.diff_sum * 60 / 7200);
		let hi = std::cmp::max(R_MIN_DMA, r.diff_sum * 60 / 1800);
		let hi_damp = std::cmp::max(R_MIN_DMA, r.diff_sum * 60 / 2400);
		ensure!(got >= lo && got <= hi && got <= hi_damp, format!("dma-bound:{}", tag), "difficulty {} outside [{}, {}] (window sum {})", got, lo, hi.min(hi_damp), r.diff_sum);
		at_min = got == R_MIN_DMA;
		clamp_active = r.adj_ts == 7200 || r.adj_ts == 1800;
	} else {
		let min = ref_min_wtema(ct);
		ensure!(got >= min, format!("below-minimum:{}", tag), "difficulty {} < {}", got, min);
		// block time >= 1 s: rises by at most the factor 14400/14341; never rises for blocks of >= 60 s
		let up = std::cmp::max(min, (w[0].diff as u128) * 14400 / 14341);
		ensure!(got <= up, format!("wtema-bound:{}", tag), "difficulty {} after {} exceeds the one-block bound {}", got, w[0].diff, up);
		if w[0].ts - w[1].ts >= 60 {
			ensure!(got <= std::cmp::max(min, w[0].diff as u128), format!("wtema-bound:{}", tag), "difficulty rose from {} to {} after a block of {} s", w[0].diff, got, w[0].ts - w[1].ts);
		}
		at_min = got == min;
	}
	// a later newest timestamp never raises the next difficulty
	{
		let shift = 1 + hash_of(&(h, w.len(), w[0].ts)) % 5000;
		let mut w2 = w.clone();
		w2[0].ts += shift;
		let g3 = grin_next(case, &w2)?;
		ensure!(
			g3.difficulty.to_num() as u128 <= got,
			format!("not-monotone:{}", tag),
			"newest timestamp +{} s raised the difficulty from {} to {}",
			shift,
			got,
			g3.difficulty.to_num()
		);
	}
	if counting {
		ev.eval();
		let era = ref_version(ct, h);
		let (lo, hi) = era_range(ct, era as u8);
		let boundary = h < lo + 3 || h + 3 >= hi && era < 5;
		let short = dma && w.len() < R_WINDOW + 1;
		let ncls = if dma {
			match w.len() {
				1 => "1",
				2..=10 => "2-10",
				11..=59 => "11-59",
				60 => "60",
				61 => "61",
				_ => "62+",
			}
		} else {
			match w.len() {
				2 => "2",
				_ => "3+",
			}
		};
		ev.class(&format!("B:{:?}:v{}", ct, era));
		ev.class(&format!("B:window:{}:{}", if dma { "dma" } else { "wtema" }, ncls));
		if boundary {
			ev.class("B:era_boundary_adjacent");
		}
		if at_min {
			ev.class("B:result_at_minimum");
		}
		if clamp_active {
			ev.class("B:dma_clamp_active");
		}
		if short || boundary {
			ev.nontrivial(&("B", ct, era, ncls, boundary, at_min, clamp_active));
		}
		ev.sample("B", || serde_json::to_value(case).unwrap());
	}
	Ok(())
}

// =====================================================================
// Part C
// =====================================================================

#[derive(Clone, Copy, Debug, PartialEq, Eq, Hash, Serialize, Deserialize)]
pub enum CKind {
	Untouched,
	CtlRecentTimestamp,
	TsFuture,
	Version,
	EdgeBits,
	EdgeBits29,
	OutSize,
	KernSize,
	CtlSizeAtBound,
}

#[derive(Clone, Debug, Serialize, Deserialize)]
pub struct CaseC {
	/// a valid mined AutomatedTesting header
	pub header: String,
	pub mutation: CKind,
	pub param: u64,
	pub remine: bool,
}

fn hdr_hex(h: &BlockHeader) -> Result<String, Fail> {
	let b = catch(|| ser::ser_vec(h, ProtocolVersion(1)))?.map_err(|e| Fail::new("harness:ser", format!("{:?}", e)))?;
	Ok(b.to_hex())
}

fn hdr_from_hex(s: &str) -> Result<BlockHeader, Fail> {
	let b = grin_util::from_hex(s).map_err(|e| Fail::new("harness:hex", format!("{:?}", e)))?;
	ser::deserialize::<BlockHeader, _>(&mut &b[..], ProtocolVersion(1), DeserializationMode::default()).map_err(|e| Fail::new("harness:deser", format!("{:?}", e)))
}

/// What the peer-message codec hands to the node when the stream `frames` arrives from the network (AutomatedTesting
/// magic): every header it delivers (single `Header` messages and the batches of a `Headers` message), and whether
/// reading ended in an error. This is the path headers actually take during header sync and block announcement.
fn codec_headers(frames: &[u8]) -> Result<(Vec<BlockHeader>, bool), Fail> {
	use grin_p2p::msg::Message;
	use std::io::Write;
	let io = |w: &str| { let w = w.to_string(); move |e: std::io::Error| Fail::new("harness:io", format!("{}: {}", w, e)) };
	let lis = std::net::TcpListener::bind("127.0.0.1:0").map_err(io("bind"))?;
	let mut w = std::net::TcpStream::connect(lis.local_addr().map_err(io("addr"))?).map_err(io("connect"))?;
	let (r, _) = lis.accept().map_err(io("accept"))?;
	w.write_all(frames).map_err(io("write"))?;
	w.shutdown(std::net::Shutdown::Write).map_err(io("shutdown"))?;
	let mut codec = grin_p2p::verif_export::Codec::new(ProtocolVersion(1), r);
	let mut got = vec![];
	let mut errored = false;
	for _ in 0..64 {
		match catch(|| codec.read())?.0 {
			Ok(Message::Header(h)) => got.push(BlockHeader::from(h)),
			Ok(Message::Headers(d)) => {
				let done = d.remaining == 0;
				got.extend(d.headers.into_iter());
				let _ = done;
			}
			Ok(_) => {}
			Err(_) => {
				// end of stream (the writer half-closed) and refusals both end the loop; only a header that was
				// DELIVERED matters to the oracle
				errored = true;
				break;
			}
		}
	}
	Ok((got, errored))
}

fn net_frame(t: grin_p2p::msg::Type, body: &[u8]) -> Result<Vec<u8>, Fail> {
	let mut f = catch(|| ser::ser_vec(&grin_p2p::msg::MsgHeader::new(t, body.len() as u64), ProtocolVersion(1)))?.map_err(|e| Fail::new("harness:ser", format!("{:?}", e)))?;
	f.extend_from_slice(body);
	Ok(f)
}

pub fn check_c(ctx: &Ctx, case: &CaseC, counting: bool) -> PResult {
	init_thread();
	let ev = &ctx.ev;
	let t = hdr_from_hex(&case.header)?;
	let mut m = t.clone();
	let now = Utc::now().timestamp();
	let ftl = 300i64; // documented default future time limit: 5 minutes
	ensure!(global::get_future_time_limit() as i64 == ftl, "harness:ftl", "future time limit is not the default");
	let bound = 250 * (t.height + 1); // weight bound: max block weight per block so far
	// does the change keep the header inside the read-time policy?
	let mut policy_ok = false;
	match case.mutation {
		CKind::Untouched => policy_ok = true,
		CKind::CtlRecentTimestamp => {
			// within the limit by a margin of one hour
			m.timestamp = DateTime::<Utc>::from_timestamp(now + ftl - 3600 - (case.param % 100_000) as i64, 0).unwrap();
			policy_ok = true;
		}
		CKind::TsFuture => {
			m.timestamp = DateTime::<Utc>::from_timestamp(now + ftl + 3600 + (case.param % 1_000_000_000) as i64, 0).unwrap();
		}
		CKind::Version => {
			let cands: Vec<u16> = [0u16, 1, 2, 3, 4, 5, 6, 7, 255, 65535].iter().cloned().filter(|v| *v != ref_version(Ct::AutomatedTesting, t.height)).collect();
			m.version = HeaderVersion(cands[(case.param % cands.len() as u64) as usize]);
		}
		CKind::EdgeBits => {
			let e = 1 + (case.param % 9) as u8; // 1..=9: below the minimum 10, not 29
			m.pow.proof.edge_bits = e;
			for n in m.pow.proof.nonces.iter_mut() {
				*n &= (1u64 << e) - 1;
			}
		}
		CKind::EdgeBits29 => {
			// the "secondary" size is allowed by the edge-bits policy; what remains is the cycle itself
			m.pow.proof.edge_bits = 29;
			policy_ok = true;
		}
		CKind::OutSize => {
			// smallest leaf count whose weight (21 each, kernels 3 each) exceeds the bound, plus a bit
			let k = t.height; // kernels so far
			let l = (bound - 3 * k) / 21 + 1 + case.param % 1000;
			m.output_mmr_size = mmr_size(l);
		}
		CKind::KernSize => {
			let o = t.height;
			let l = (bound - 21 * o) / 3 + 1 + case.param % 1000;
			m.kernel_mmr_size = mmr_size(l);
		}
		CKind::CtlSizeAtBound => {
			let k = t.height;
			let l = (bound - 3 * k) / 21; // largest output count within the bound
			m.output_mmr_size = mmr_size(l);
			policy_ok = true;
		}
	}
	let pow_fields = matches!(case.mutation, CKind::EdgeBits | CKind::EdgeBits29 | CKind::Untouched);
	let remined = case.remine && !pow_fields;
	if remined {
		remine(&mut m, 1)?;
	}
	// derived verdict: decodes iff inside the policy and the proof is a cycle for these
	// bytes under the reference (read time does not look at the difficulty)
	let accept = policy_ok && ref_cycle_ok(&m);
	let bytes = catch(|| ser::ser_vec(&m, ProtocolVersion(1)))?.map_err(|e| Fail::new("harness:ser", format!("{:?}", e)))?;
	let res = catch(|| ser::deserialize::<UntrustedBlockHeader, _>(&mut &bytes[..], ProtocolVersion(1), DeserializationMode::default()))?;
	let label = format!("{:?}:{}", case.mutation, if remined { "remined" } else { "raw" });
	if accept {
		match res {
			Ok(u) => {
				let back: BlockHeader = u.into();
				ensure!(back == m, format!("decoded-header-differs:{}", label), "decoded {:?} encoded {:?}", back, m);
			}
			Err(e) => fail!(format!("valid-header-refused-at-read:{}", label), "height {}: {:?}; header {:?}", t.height, e, m),
		}
	} else {
		if let Ok(_) = res {
			fail!(format!("policy-violating-header-decoded:{}", label), "height {} param {}: decoded {:?}", t.height, case.param, m);
		}
	}
	// the same header arriving the way headers arrive from the network: as a `Header` message and inside a
	// `Headers` list (in front of, between or behind untouched headers), through the real codec
	if case.param % 3 != 2 || !accept {
		let t_bytes = catch(|| ser::ser_vec(&t, ProtocolVersion(1)))?.map_err(|e| Fail::new("harness:ser", format!("{:?}", e)))?;
		let stream = net_frame(grin_p2p::msg::Type::Header, &bytes)?;
		let n_before = (case.param / 3 % 3) as usize;
		let n_after = (case.param / 9 % 2) as usize;
		let mut list = ((n_before + 1 + n_after) as u16).to_be_bytes().to_vec();
		for _ in 0..n_before {
			list.extend_from_slice(&t_bytes);
		}
		list.extend_from_slice(&bytes);
		for _ in 0..n_after {
			list.extend_from_slice(&t_bytes);
		}
		// one connection per message: a refused message ends the connection, as it does in the node
		let (mut got, _) = codec_headers(&stream)?;
		got.extend(codec_headers(&net_frame(grin_p2p::msg::Type::Headers, &list)?)?.0);
		let delivered = got.iter().filter(|h| **h == m).count();
		if accept {
			// (an untouched header equals the neighbours it is listed with)
			let want = if m == t { 2 + n_before + n_after } else { 2 };
			ensure!(delivered == want, format!("valid-header-not-delivered-by-codec:{}", label), "height {}: the codec delivered the in-policy header {} times, expected {} (Header message + Headers list with {} before / {} after)", t.height, delivered, want, n_before, n_after);
		} else if policy_ok {
			// inside the policy with a proof that is no cycle: reading refuses it today, but the chain checks the
			// proof itself (part A), so delivery by the codec alone would not be an acceptance — measured only
			if counting {
				ev.class(&format!("C:through-codec:bad-pow-{}", if delivered == 0 { "refused" } else { "delivered" }));
			}
		} else {
			ensure!(delivered == 0, format!("policy-violating-header-delivered-by-codec:{}", label), "height {} param {}: the codec delivered a header outside the read-time policy ({} times; Header message + Headers list with {} before / {} after): {:?}", t.height, case.param, delivered, n_before, n_after, m);
		}
		if counting {
			ev.class(&format!("C:through-codec:{}", if accept { "delivered" } else { "refused" }));
		}
	}
	if counting {
		ev.eval();
		ev.class(&format!("C:{}", label));
		if accept {
			ev.class("controls_accepted");
		} else if remined {
			ev.nontrivial(&("C", case.mutation, ref_version(Ct::AutomatedTesting, t.height)));
		}
		ev.sample("C", || serde_json::to_value(case).unwrap());
	}
	Ok(())
}

fn strat_c(pool: usize) -> impl Strategy<Value = (usize, CKind, u64, bool)> {
	(
		0..pool,
		prop_oneof![
			1 => Just(CKind::Untouched),
			1 => Just(CKind::CtlRecentTimestamp),
			3 => Just(CKind::TsFuture),
			3 => Just(CKind::Version),
			2 => Just(CKind::EdgeBits),
			1 => Just(CKind::EdgeBits29),
			2 => Just(CKind::OutSize),
			2 => Just(CKind::KernSize),
			1 => Just(CKind::CtlSizeAtBound),
		],
		any::<u64>(),
		prop::bool::weighted(0.75),
	)
}

// =====================================================================

pub fn run(ctx: &Ctx) -> HResult<()> {
	init_global();
	let ev = &ctx.ev;
	ev.rule("A: AutomatedTesting chains of 5-40 empty blocks mined with real PoW (block times 1-600 s, optional fast prefix so that difficulty leaves its minimum in both retarget eras); every block is cross-checked against the reference (version schedule, network difficulty, scaling, prev_root = reference MMR root over the ancestors). Up to three headers per chain (random / era-boundary heights, >= 2 apart) get every single-field mutation, each both re-mined (valid PoW for the changed bytes: only the semantic rule can refuse it) and raw (stale PoW), plus: a genuine cycle below the network difficulty, a sync chunk with a wrong-prev_root header followed by its child, and header-only children of an accepted fork header built purely from the reference (accepted with their own ancestors' difficulty, refused with the main chain's). Each mutant goes through process_block_header, sync_block_headers([valid tail.., mutant]) and process_block on chains holding exactly its ancestors: expected Err, header_head/head unchanged, nothing stored; controls (other later timestamp, re-mined nonce, free scaling after HF4, reference-built fork child) expected Ok; afterwards the true remainder of the chain must be accepted on all paths. non-trivial = mutant with valid PoW; distinct by (kind, era of position, path)");
	ev.rule("B: windows as DifficultyIter yields them (newest first, strictly increasing time, 1<=n<=min(height,70) before HF4, n>=2 after), all four chain types, every header-version era, heights at era starts/ends; result compared with a u128 reference, minimum, clamp/damping bounds, determinism, monotonicity in the newest timestamp; header_version compared with the reference schedule. non-trivial = window shorter than 61 or height within 3 of an era boundary; distinct by (chain type, era, window-length class, boundary, at-minimum, clamp-active)");
	ev.rule("C: valid mined headers re-encoded with one field out of read-time policy (re-mined so that only that policy can refuse) must fail UntrustedBlockHeader decoding; untouched / in-policy controls decode to the same header");
	ev.assume("blake2b (blake2-rfc) trusted; the reference retarget, version schedule and MMR are the harness's own; PoW mining uses grin's own pow_size (cuckatoo solver) and mmr sizes use the closed form 2n-popcount(n)");
	ev.assume("the verdict of every mutant is derived: valid iff its field change keeps the non-PoW rules AND the reference Cuckatoo check (own siphash-2-4, own header byte layout, own nonce packing) finds an 8-cycle worth the network difficulty for the mutant's bytes and edge_bits; a mutant whose hash is already stored under a different header is only required to leave store and heads untouched");
	ev.assume("B: timestamps >= 10^9 so the pre-genesis padding never saturates at 0 (global.rs:510 saturating_sub); secondary_scaling < 2^31 so that the scaling result fits the u32 it is cast to (consensus.rs:416)");

	// coinbase universe: key = height*4+k
	let cbs: Vec<OutRef> = (1..=40u32)
		.flat_map(|h| (0..4u32).map(move |k| (h, k)))
		.map(|(h, k)| OutRef {
			amount: consensus::reward(0),
			key: h * 4 + k,
			cb: true,
		})
		.collect();
	LIB.prefetch(&cbs);

	// ---- A (child processes: grin serialises all libsecp work on one process-wide mutex)
	let t0 = std::time::Instant::now();
	let cases = ctx.n(192, 2880);
	if let Some((case, f)) = pbt_proc(ctx, "A", cases, 16) {
		ctx.report("A", &f.sig, case, &f.msg);
	}
	ev.extra("A_wall_s", json!(t0.elapsed().as_secs_f64()));

	// ---- B
	let t0 = std::time::Instant::now();
	let fl = pbt_par(ctx, "B", ctx.n(100_000, 1_500_000), 8, strat_b, init_thread, |c, counting| check_b(ctx, c, counting));
	if let Some(fl) = fl {
		ctx.report("B", &fl.fail.sig, serde_json::to_value(&fl.value).unwrap(), &fl.fail.msg);
	}
	global::set_local_chain_type(ChainTypes::AutomatedTesting);
	// directed probes: the heights where the testing schedules' interval count passes 16 bits
	for ct in [Ct::AutomatedTesting, Ct::UserTesting] {
		let mut reported = false;
		for h in [R_WRAP_TESTING - 1, R_WRAP_TESTING, R_WRAP_TESTING + 7, R_WRAP_TESTING + 14, R_WRAP_TESTING + 15, 2 * R_WRAP_TESTING + 3, 2 * R_WRAP_TESTING + 18] {
			let case = CaseB {
				chain_type: ct,
				height: h,
				entries: vec![
					Entry {
						ts: 1_600_000_060,
						diff: 1000,
						scaling: 0,
						sec: false,
					},
					Entry {
						ts: 1_600_000_000,
						diff: 1000,
						scaling: 0,
						sec: false,
					},
				],
			};
			ev.class("B:directed_wrap_height_probes");
			if let Ok(Err(f)) | Err(f) = catch(|| check_b(ctx, &case, true)) {
				if !reported {
					ctx.report("B", &f.sig, serde_json::to_value(&case).unwrap(), &f.msg);
					reported = true;
				}
			}
			global::set_local_chain_type(ChainTypes::AutomatedTesting);
		}
	}
	ev.extra("B_wall_s", json!(t0.elapsed().as_secs_f64()));

	// ---- C
	let t0 = std::time::Instant::now();
	let recipe: Vec<(u16, u8)> = (0..40u64)
		.map(|i| {
			let r = ctx.derive_seed("c-pool", i);
			let dt = if i < 12 && r % 3 == 0 { 1 + (r >> 8) % 3 } else { 1 + (r >> 8) % 600 };
			(dt as u16, (r >> 32) as u8 % 4)
		})
		.collect();
	let pool: Vec<String> = match catch(|| build_chain(ctx, &recipe, "c-pool")) {
		Ok(Ok((_cb, blocks))) => {
			let mut v = vec![];
			for b in &blocks {
				v.push(hdr_hex(&b.header).map_err(|f| HarnessError(f.msg))?);
			}
			v
		}
		Ok(Err(f)) | Err(f) => {
			ctx.report("A", &f.sig, json!({"recipe": recipe, "pos": [1], "chunk": 1, "tail": 0, "salt": 0}), &f.msg);
			vec![]
		}
	};
	if !pool.is_empty() {
		let mk = |v: &(usize, CKind, u64, bool)| CaseC {
			header: pool[v.0].clone(),
			mutation: v.1,
			param: v.2,
			remine: v.3,
		};
		let fl = pbt_par(ctx, "C", ctx.n(5_000, 75_000), 16, || strat_c(pool.len()), init_thread, |v, counting| check_c(ctx, &mk(v), counting));
		if let Some(fl) = fl {
			ctx.report("C", &fl.fail.sig, serde_json::to_value(&mk(&fl.value)).unwrap(), &fl.fail.msg);
		}
	}
	ev.extra("C_wall_s", json!(t0.elapsed().as_secs_f64()));
	ev.extra("proofs_created", json!(LIB.proofs_created.load(std::sync::atomic::Ordering::Relaxed)));
	for cl in ["controls_accepted", "A:chains_crossing_both_eras", "A:chains_with_wtema_above_minimum", "B:era_boundary_adjacent", "B:dma_clamp_active"] {
		if ev.class_count(cl) == 0 {
			eprintln!("warning: class {} is empty in this run", cl);
		}
	}
	Ok(())
}

/// one child process of part A: `cases` chains, single-threaded
pub fn part(ctx: &Ctx, part: &str, seed: u64, cases: u32) -> Option<(Value, Fail)> {
	init_global();
	match part {
		"A" => {
			let r = run_part(ctx, seed, cases, &strat_a(), |c, counting| {
				let mut at = None;
				check_a(ctx, c, counting, &mut at)
			});
			r.map(|(v, f)| narrow_a(ctx, v, f))
		}
		_ => None,
	}
}

/// narrow a failing chain case to the (height, kind, path) that fails, when it also fails in isolation
fn narrow_a(ctx: &Ctx, v: Value, f: Fail) -> (Value, Fail) {
	let Ok(case) = serde_json::from_value::<CaseA>(v.clone()) else {
		return (v, f);
	};
	let mut at = None;
	let _ = catch(|| check_a(ctx, &case, false, &mut at));
	if let Some(o) = at {
		let mut c = case.clone();
		c.only = Some(o);
		let mut at2 = None;
		if let Ok(Err(f2)) | Err(f2) = catch(|| check_a(ctx, &c, false, &mut at2)) {
			return (serde_json::to_value(&c).unwrap_or(v), f2);
		}
	}
	(v, f)
}

pub fn replay(ctx: &Ctx, part: &str, case: &Value) -> PResult {
	init_global();
	let bad = |e: serde_json::Error| Fail::new("harness:replay-parse", e.to_string());
	match part {
		"A" => {
			let c: CaseA = serde_json::from_value(case.clone()).map_err(bad)?;
			let mut at = None;
			check_a(ctx, &c, false, &mut at)
		}
		"B" => {
			let c: CaseB = serde_json::from_value(case.clone()).map_err(bad)?;
			let r = check_b(ctx, &c, false);
			global::set_local_chain_type(ChainTypes::AutomatedTesting);
			r
		}
		"C" => {
			let c: CaseC = serde_json::from_value(case.clone()).map_err(bad)?;
			check_c(ctx, &c, false)
		}
		_ => Ok(()),
	}
}
