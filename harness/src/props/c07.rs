//! C07 — MMR roots, positions and Merkle proofs follow the MMR definition.

use crate::elems::{FixElem, VarElem};
use crate::engine::*;
use crate::refmmr::{self, RefMmr, H32};
use crate::ensure;
use grin_core::core::hash::Hash;
use grin_core::core::merkle_proof::MerkleProof;
use grin_core::core::pmmr::{self, ReadablePMMR, ReadonlyPMMR, RewindablePMMR, VecBackend, PMMR};
use proptest::prelude::*;
use serde_json::{json, Value};

fn h(x: &H32) -> Hash {
	Hash::from_vec(&x[..])
}

fn leaf_data(seed: u64, i: u64) -> FixElem {
	// deterministic pseudo-random content; a few deliberate duplicates so equal
	// data at different positions must still hash differently
	let d = if i % 7 == 3 { i - 1 } else { i };
	let x = refmmr::blake(&[&seed.to_be_bytes(), &d.to_be_bytes()]);
	let mut a = [0u8; 16];
	a.copy_from_slice(&x[..16]);
	FixElem(a)
}

/// Part A+B for one data seed: build grin PMMR leaf by leaf over VecBackend
/// and compare with the reference after every push; for every size check all
/// proofs and corruptions when `proofs` is set.
fn sizes_and_proofs(ctx: &Ctx, seed: u64, max_leaves: u64, proof_stride: u64, counting: bool) -> PResult {
	let ev = &ctx.ev;
	let mut backend: VecBackend<FixElem> = VecBackend::new();
	let mut datas: Vec<Vec<u8>> = vec![];
	// size 0
	{
		let p = PMMR::<FixElem, _>::new(&mut backend);
		ensure!(p.unpruned_size() == 0, "empty-size", "empty size {}", p.unpruned_size());
		let r = p.root().map_err(|e| Fail::new("root-err", e))?;
		ensure!(r == h(&[0u8; 32]), "empty-root", "root of empty MMR is {:?}", r);
		ensure!(p.peaks().is_empty(), "empty-peaks", "peaks of empty");
	}
	let mut size = 0u64;
	for n in 1..=max_leaves {
		let e = leaf_data(seed, n - 1);
		let pos = {
			let mut p = PMMR::<FixElem, _>::at(&mut backend, size);
			let pos = p.push(&e).map_err(|e| Fail::new("push-err", e))?;
			size = p.unpruned_size();
			pos
		};
		datas.push(e.bytes());
		let r = RefMmr::build(&datas);
		let p = PMMR::<FixElem, _>::at(&mut backend, size);
		if counting {
			ev.eval();
		}
		ensure!(size == r.size(), "size", "n={} size {} ref {}", n, size, r.size());
		ensure!(
			pos == r.leaf_positions()[n as usize - 1],
			"push-pos",
			"n={} push returned {} ref {}",
			n,
			pos,
			r.leaf_positions()[n as usize - 1]
		);
		let root = p.root().map_err(|e| Fail::new("root-err", e))?;
		ensure!(root == h(&r.root()), "root", "n={} root {:?} != ref {:?}", n, root, h(&r.root()));
		let gp = pmmr::peaks(size);
		ensure!(gp == r.peak_positions(), "peaks-pos", "n={} peaks {:?} ref {:?}", n, gp, r.peak_positions());
		let ph: Vec<Hash> = r.peaks.iter().map(|&i| h(&r.nodes[i].hash)).collect();
		ensure!(p.peaks() == ph, "peaks-hash", "n={} peak hashes differ", n);
		ensure!(pmmr::n_leaves(size) == n, "n_leaves", "n_leaves({})={} ref {}", size, pmmr::n_leaves(size), n);
		for node in &r.nodes {
			let g = p.get_hash(node.pos);
			ensure!(g == Some(h(&node.hash)), "node-hash", "n={} pos {} hash {:?} ref {:?}", n, node.pos, g, h(&node.hash));
			if node.height == 0 {
				let d = p.get_data(node.pos);
				ensure!(
					d.map(|x| x.bytes()) == Some(datas[node.leaf_idx.unwrap() as usize].clone()),
					"leaf-data",
					"n={} pos {} data mismatch",
					n,
					node.pos
				);
			} else {
				ensure!(p.get_data(node.pos).is_none(), "nonleaf-data", "data at non-leaf {}", node.pos);
			}
		}
		ensure!(p.get_hash(size).is_none(), "beyond", "hash beyond size");
		ensure!(p.validate().is_ok(), "validate", "PMMR::validate failed at n={}", n);
		if counting && r.peaks.len() >= 2 {
			ev.nontrivial(&("size", n, seed % 4));
			ev.class("sizes_with_2plus_peaks");
		}

		// readonly / rewindable views at an earlier size agree with the
		// reference over the prefix
		if n % 5 == 0 || n < 20 {
			let k = (seed.wrapping_mul(31).wrapping_add(n * 17)) % n + 1; // 1..=n leaves
			let rk = RefMmr::build(&datas[..k as usize]);
			drop(p);
			let ro = ReadonlyPMMR::<FixElem, _>::at(&backend, rk.size());
			let rr = ro.root().map_err(|e| Fail::new("root-err", e))?;
			ensure!(rr == h(&rk.root()), "readonly-root", "n={} readonly at {} leaves root differs", n, k);
			let mut rw = RewindablePMMR::<FixElem, _>::at(&backend, size);
			// any position behind the last kept leaf and up to the prefix size names that prefix ("rounding to a
			// leaf": the parents the last leaf completes come with it)
			let last_leaf = *rk.leaf_positions().last().unwrap();
			let to = rk.size() - (seed ^ n.wrapping_mul(7)) % (rk.size() - last_leaf);
			if counting && to != rk.size() {
				ev.class("prefix_views_rewound_to_a_parent_position");
			}
			rw.rewind(to).map_err(|e| Fail::new("rewind-err", e))?;
			let rw = rw.as_readonly();
			let rr2 = rw.root().map_err(|e| Fail::new("root-err", e))?;
			ensure!(rr2 == h(&rk.root()), "rewindable-root", "n={} rewindable to {} leaves root differs", n, k);
			ensure!(rw.unpruned_size() == rk.size(), "rewindable-size", "rewindable size");
			if counting {
				ev.class("prefix_views_checked");
			}
			// a proof made under the prefix view verifies against the prefix root
			let lp = rk.leaf_positions()[((seed ^ n) % k) as usize];
			let proof = ro.merkle_proof(lp).map_err(|e| Fail::new("proof-err", e))?;
			let li = rk.nodes[lp as usize].leaf_idx.unwrap() as usize;
			let el = leaf_data(seed, li as u64);
			ensure!(
				proof.verify(h(&rk.root()), &el, lp).is_ok(),
				"prefix-proof",
				"prefix proof n={} k={} pos={}",
				n,
				k,
				lp
			);
		}

		if proof_stride > 0 && (n % proof_stride == 0 || n <= 40) {
			let p = PMMR::<FixElem, _>::at(&mut backend, size);
			proofs_at(ctx, seed, n, &p, &r, &datas, counting)?;
		}
	}
	Ok(())
}

fn proofs_at(
	ctx: &Ctx,
	seed: u64,
	n: u64,
	p: &PMMR<'_, FixElem, VecBackend<FixElem>>,
	r: &RefMmr,
	datas: &[Vec<u8>],
	counting: bool,
) -> PResult {
	let ev = &ctx.ev;
	let root = h(&r.root());
	let size = r.size();
	let leaves = r.leaf_positions();
	for (li, &lp) in leaves.iter().enumerate() {
		let el = leaf_data(seed, li as u64);
		let proof = p.merkle_proof(lp).map_err(|e| Fail::new("proof-err", format!("n={} pos={} {}", n, lp, e)))?;
		if counting {
			ev.eval();
		}
		// path equals the reference path
		let rp: Vec<Hash> = r.merkle_path(lp).iter().map(h).collect();
		ensure!(proof.mmr_size == size, "proof-size", "proof.mmr_size {} != {}", proof.mmr_size, size);
		ensure!(proof.path == rp, "proof-path", "n={} pos={} path differs from reference path", n, lp);
		ensure!(
			r.verify_path(&r.root(), &datas[li], lp, &r.merkle_path(lp)),
			"oracle-self",
			"reference verifier rejects its own path (oracle bug) n={} pos={}",
			n,
			lp
		);
		ensure!(proof.verify(root, &el, lp).is_ok(), "honest-proof-rejected", "n={} pos={} honest proof rejected", n, lp);
		let has_sib = r.nodes[lp as usize].parent.is_some();
		let nontriv = has_sib && r.peaks.len() >= 2;
		if counting && nontriv {
			ev.nontrivial(&("proof", n, lp));
			ev.class("proofs_with_sibling_and_bagging");
		}
		if counting && li == leaves.len() / 2 && n % 16 == 5 {
			ev.sample("proof", || {
				json!({"leaves": n, "mmr_size": size, "leaf_pos": lp, "path_len": proof.path.len(), "peaks": r.peak_positions(),
					"corruptions": "other element; every other position class; each path hash flipped; each single removal; insertion at each index; each adjacent swap"})
			});
		}

		// --- corruptions: each must fail ---
		let rej = |what: &str, pr: &MerkleProof, e: &FixElem, pos: u64| -> PResult {
			if counting {
				ev.class("corrupted_proofs_checked");
			}
			match catch(|| pr.verify(root, e, pos)) {
				Ok(Err(_)) => Ok(()),
				Ok(Ok(())) => Err(Fail::new(
					format!("corrupt-accepted:{}", what),
					format!("corrupted proof accepted ({}): leaves={} leaf_pos={} used_pos={}", what, n, lp, pos),
				)),
				Err(f) => Err(Fail::new(f.sig, format!("{} during corrupted verify ({}) n={} pos={}", f.msg, what, n, pos))),
			}
		};
		// other element
		let mut other = el;
		other.0[(li % 16) as usize] ^= 1 << (li % 8);
		rej("other-element", &proof, &other, lp)?;
		// element of another leaf
		if leaves.len() > 1 {
			let oj = (li + 1 + (seed as usize % (leaves.len() - 1))) % leaves.len();
			let oe = leaf_data(seed, oj as u64);
			if oe != el {
				rej("other-leaf-element", &proof, &oe, lp)?;
			}
		}
		// other positions: neighbours, every other leaf for small n, non-leaf, size, beyond
		let mut others: Vec<u64> = vec![size, size + 1, size + 2, lp + 1, lp.wrapping_sub(1), lp + 2, 2 * size + 1, (1u64 << 40) + lp];
		if n <= 24 {
			others.extend(0..size);
		} else {
			others.push(leaves[(li + 1) % leaves.len()]);
			others.push(leaves[(li + leaves.len() - 1) % leaves.len()]);
			others.push(leaves[(li * 7 + 3) % leaves.len()]);
			others.extend(r.peak_positions());
		}
		for op in others {
			if op != lp && op < (1u64 << 62) {
				rej("other-position", &proof, &el, op)?;
			}
		}
		// each path hash flipped
		for i in 0..proof.path.len() {
			let mut pr = proof.clone();
			let mut b = pr.path[i].to_vec();
			b[(i * 5) % 32] ^= 0x10;
			pr.path[i] = Hash::from_vec(&b);
			rej("path-hash-flipped", &pr, &el, lp)?;
		}
		// shortened by one (each index)
		for i in 0..proof.path.len() {
			let mut pr = proof.clone();
			pr.path.remove(i);
			rej("path-shortened", &pr, &el, lp)?;
		}
		// lengthened by one (each index; inserted hash: a real node hash, the root, zero)
		for i in 0..=proof.path.len() {
			for (k, ins) in [root, h(&r.nodes[0].hash), h(&[0u8; 32])].iter().enumerate() {
				if k > 0 && i != proof.path.len() && i != 0 {
					continue;
				}
				let mut pr = proof.clone();
				pr.path.insert(i, *ins);
				rej("path-lengthened", &pr, &el, lp)?;
			}
		}
		// two entries swapped
		for i in 0..proof.path.len().saturating_sub(1) {
			if proof.path[i] != proof.path[i + 1] {
				let mut pr = proof.clone();
				pr.path.swap(i, i + 1);
				rej("path-swapped", &pr, &el, lp)?;
			}
		}
	}
	Ok(())
}

/// Part C: position arithmetic against an explicitly built tree.
fn positions_explicit(ctx: &Ctx, height: u32) -> PResult {
	let ev = &ctx.ev;
	// one perfect tree of the given height plus a second smaller peak so that
	// both "has parent" and "is a peak" occur
	let n_leaves = (1u64 << height) + (1u64 << (height - 2)) + 3;
	let t = RefMmr::structure(n_leaves);
	let size = t.size();
	let leaves = t.leaf_positions();
	let mut leaf_rank = vec![0u64; size as usize + 1]; // number of leaf positions < i
	{
		let mut c = 0;
		for i in 0..size as usize {
			leaf_rank[i] = c;
			if t.nodes[i].height == 0 {
				c += 1;
			}
		}
		leaf_rank[size as usize] = c;
	}
	for node in &t.nodes {
		let pos = node.pos;
		ev.eval();
		let hgt = pmmr::bintree_postorder_height(pos);
		ensure!(hgt == node.height as u64, "height", "height({})={} ref {}", pos, hgt, node.height);
		ensure!(pmmr::is_leaf(pos) == (node.height == 0), "is_leaf", "is_leaf({})", pos);
		ensure!(refmmr::ref_height(pos) == node.height, "oracle-height", "closed-form reference disagrees with explicit tree at {}", pos);
		ensure!(
			pmmr::n_leaves(pos) == leaf_rank[pos as usize],
			"n_leaves",
			"n_leaves({})={} ref {}",
			pos,
			pmmr::n_leaves(pos),
			leaf_rank[pos as usize]
		);
		ensure!(refmmr::ref_leaves_below(pos) == leaf_rank[pos as usize], "oracle-leaves", "closed-form leaves_below({})", pos);
		// leaf index mapping
		let li = pmmr::pmmr_leaf_to_insertion_index(pos);
		ensure!(li == node.leaf_idx, "leaf_to_insertion", "pmmr_leaf_to_insertion_index({})={:?} ref {:?}", pos, li, node.leaf_idx);
		if let Some(i) = node.leaf_idx {
			ensure!(pmmr::insertion_to_pmmr_index(i) == pos, "insertion_to_pmmr", "insertion_to_pmmr_index({})={} ref {}", i, pmmr::insertion_to_pmmr_index(i), pos);
		}
		// round up to leaf: first leaf position >= pos
		let ru = pmmr::round_up_to_leaf_pos(pos);
		let want = leaves[leaf_rank[pos as usize] as usize..].first().copied();
		if let Some(w) = want {
			ensure!(ru == w, "round_up", "round_up_to_leaf_pos({})={} ref {}", pos, ru, w);
		}
		// subtree ranges
		ensure!(pmmr::bintree_leftmost(pos) == node.leftmost, "leftmost", "bintree_leftmost({})={} ref {}", pos, pmmr::bintree_leftmost(pos), node.leftmost);
		ensure!(pmmr::bintree_rightmost(pos) == node.rightmost, "rightmost", "bintree_rightmost({})={} ref {}", pos, pmmr::bintree_rightmost(pos), node.rightmost);
		let rng = pmmr::bintree_range(pos);
		ensure!(rng == (node.leftmost..pos + 1), "range", "bintree_range({})={:?}", pos, rng);
		if node.height <= 6 {
			let it: Vec<u64> = pmmr::bintree_pos_iter(pos).collect();
			ensure!(it == (node.leftmost..=pos).collect::<Vec<_>>(), "pos_iter", "bintree_pos_iter({})", pos);
			let lit: Vec<u64> = pmmr::bintree_leaf_pos_iter(pos).collect();
			let want: Vec<u64> = (node.leftmost..=pos).filter(|&q| t.nodes[q as usize].height == 0).collect();
			ensure!(lit == want, "leaf_pos_iter", "bintree_leaf_pos_iter({})", pos);
		}
		// family
		if let Some(par) = node.parent {
			let pn = &t.nodes[par];
			let is_left = pn.left == Some(pos as usize);
			let sib = if is_left { pn.right.unwrap() } else { pn.left.unwrap() } as u64;
			let (gp, gs) = pmmr::family(pos);
			ensure!((gp, gs) == (par as u64, sib), "family", "family({})=({},{}) ref ({},{})", pos, gp, gs, par, sib);
			ensure!(pmmr::is_left_sibling(pos) == is_left, "is_left_sibling", "is_left_sibling({})", pos);
			let (rp, rs) = refmmr::ref_family(pos);
			ensure!((rp, rs) == (par as u128, sib as u128), "oracle-family", "closed-form family disagrees at {}", pos);
		}
	}
	// family_branch(pos,size) and peaks(size) for many sizes of this structure
	let max_l = (1u64 << (height.min(9))) + 37;
	for nl in 0..=max_l {
		let tt = RefMmr::structure(nl);
		let sz = tt.size();
		ev.eval();
		ensure!(pmmr::peaks(sz) == tt.peak_positions(), "peaks", "peaks({})={:?} ref {:?}", sz, pmmr::peaks(sz), tt.peak_positions());
		let (pm, hh) = pmmr::peak_map_height(sz);
		ensure!(pm == nl && hh == 0, "peak_map_height", "peak_map_height({})=({},{}) ref ({},0)", sz, pm, hh, nl);
		ensure!(sz as u128 == refmmr::ref_mmr_size(nl), "oracle-size", "closed-form size");
		// invalid sizes in (prev valid size, sz): peaks must be empty
		if nl > 0 {
			let prev = RefMmr::structure(nl - 1).size();
			for s in prev + 1..sz {
				ensure!(pmmr::peaks(s).is_empty(), "peaks-invalid-size", "peaks({}) not empty for invalid size", s);
				ensure!(pmmr::n_leaves(s) == nl, "n_leaves-invalid", "n_leaves({})={} ref {}", s, pmmr::n_leaves(s), nl);
			}
		}
		if nl <= 130 || nl % 17 == 0 {
			for node in &tt.nodes {
				let mut want = vec![];
				let mut cur = node.pos as usize;
				while let Some(p) = tt.nodes[cur].parent {
					let pn = &tt.nodes[p];
					let sib = if pn.left == Some(cur) { pn.right.unwrap() } else { pn.left.unwrap() };
					want.push((p as u64, sib as u64));
					cur = p;
				}
				let got = pmmr::family_branch(node.pos, sz);
				ensure!(got == want, "family_branch", "family_branch({},{})={:?} ref {:?}", node.pos, sz, got, want);
				if want.len() >= 2 {
					ev.nontrivial(&("branch", want.len(), tt.peaks.len()));
				}
			}
		}
	}
	Ok(())
}

/// Part D: large positions against the closed-form u128 reference and
/// relational laws.
fn big_pos_case(ctx: &Ctx, pos: u64, counting: bool) -> PResult {
	let ev = &ctx.ev;
	if counting {
		ev.eval();
	}
	let hgt = refmmr::ref_height(pos);
	ensure!(pmmr::bintree_postorder_height(pos) == hgt as u64, "big-height", "height({})={} ref {}", pos, pmmr::bintree_postorder_height(pos), hgt);
	ensure!(pmmr::is_leaf(pos) == (hgt == 0), "big-is_leaf", "is_leaf({})", pos);
	let below = refmmr::ref_leaves_below(pos);
	ensure!(pmmr::n_leaves(pos) == below, "big-n_leaves", "n_leaves({})={} ref {}", pos, pmmr::n_leaves(pos), below);
	let li = pmmr::pmmr_leaf_to_insertion_index(pos);
	if hgt == 0 {
		ensure!(li == Some(below), "big-leaf_to_insertion", "pmmr_leaf_to_insertion_index({})={:?} ref {}", pos, li, below);
		ensure!(pmmr::insertion_to_pmmr_index(below) == pos, "big-insertion_to_pmmr", "insertion_to_pmmr_index({})", below);
	} else {
		ensure!(li.is_none(), "big-leaf_to_insertion", "non-leaf {} mapped to insertion index {:?}", pos, li);
	}
	let rl = refmmr::ref_leaf_pos(below);
	if rl <= u64::MAX as u128 {
		// first leaf position >= pos is leaf number `below`
		ensure!(pmmr::round_up_to_leaf_pos(pos) as u128 == rl, "big-round_up", "round_up_to_leaf_pos({})={} ref {}", pos, pmmr::round_up_to_leaf_pos(pos), rl);
	}
	let span: u128 = (1u128 << (hgt + 1)) - 1;
	ensure!(pmmr::bintree_rightmost(pos) as u128 == pos as u128 - hgt as u128, "big-rightmost", "bintree_rightmost({})", pos);
	ensure!(pmmr::bintree_leftmost(pos) as u128 == pos as u128 + 1 - span, "big-leftmost", "bintree_leftmost({})", pos);
	let r = pmmr::bintree_range(pos);
	ensure!(r.start as u128 == pos as u128 + 1 - span && r.end == pos + 1, "big-range", "bintree_range({})", pos);
	let (rp, rs) = refmmr::ref_family(pos);
	if rp <= u64::MAX as u128 && rs <= u64::MAX as u128 {
		let (gp, gs) = pmmr::family(pos);
		ensure!((gp as u128, gs as u128) == (rp, rs), "big-family", "family({})=({},{}) ref ({},{})", pos, gp, gs, rp, rs);
		ensure!(pmmr::is_left_sibling(pos) == (rs > pos as u128), "big-is_left", "is_left_sibling({})", pos);
		// relational: the sibling's family is the mirror image
		let (gp2, gs2) = pmmr::family(gs);
		ensure!(gp2 == gp && gs2 == pos, "big-family-mirror", "family(sibling) not mirrored at {}", pos);
		ensure!(pmmr::bintree_postorder_height(gp) == hgt as u64 + 1, "big-parent-height", "parent height at {}", pos);
		if counting {
			ev.nontrivial(&("big", 63 - pos.leading_zeros().min(63), hgt, pmmr::is_left_sibling(pos)));
		}
	}
	Ok(())
}

/// sizes up to the u64 limit: an MMR of `n` leaves (n <= 2^63) has size 2n - popcount(n) (<= u64::MAX)
/// and one peak per set bit of n, left to right by descending height
fn big_size_case(ctx: &Ctx, n: u64, counting: bool) -> PResult {
	let ev = &ctx.ev;
	if counting {
		ev.eval();
	}
	if n == 0 || n > (1u64 << 63) {
		return Ok(());
	}
	let size128: u128 = 2 * n as u128 - n.count_ones() as u128;
	let size = size128 as u64;
	let mut want: Vec<u64> = vec![];
	let mut at: u128 = 0;
	for b in (0..64u32).rev() {
		if n >> b & 1 == 1 {
			at += (1u128 << (b + 1)) - 1;
			want.push((at - 1) as u64);
		}
	}
	let got = pmmr::peaks(size);
	ensure!(got == want, "big-peaks", "peaks(size {} = {} leaves) = {:?}, by the definition {:?}", size, n, got, want);
	ensure!(pmmr::n_leaves(size) == n, "big-size-n_leaves", "n_leaves(size {}) = {} for an MMR of {} leaves", size, pmmr::n_leaves(size), n);
	if n < (1u64 << 63) {
		ensure!(pmmr::insertion_to_pmmr_index(n) == size, "big-size-insertion", "insertion_to_pmmr_index({}) = {} but the MMR of that many leaves has size {}", n, pmmr::insertion_to_pmmr_index(n), size);
	}
	// one more or one fewer node is a valid size only if it is the size of n+-something: the sizes
	// between two consecutive leaf counts are not sizes of any MMR
	let next: u128 = 2 * (n as u128 + 1) - (n as u128 + 1).count_ones() as u128;
	if size128 + 1 < next && size128 + 1 <= u64::MAX as u128 {
		let g = pmmr::peaks(size + 1);
		ensure!(g.is_empty(), "big-peaks-invalid-size", "peaks({}) = {:?} although no MMR has that size", size + 1, g);
	}
	if counting {
		ev.nontrivial(&("bigsize-arith", 64 - n.leading_zeros(), n.count_ones().min(8)));
	}
	Ok(())
}

fn big_leaf_counts() -> impl Strategy<Value = u64> {
	prop_oneof![
		2 => Just(1u64 << 63),
		2 => Just((1u64 << 63) - 1),
		3 => (0u32..63).prop_map(|k| (1u64 << 63) - (1u64 << k)),
		4 => (1u32..=63, -40i64..=40).prop_map(|(k, d)| ((1u128 << k) as i128 + d as i128).clamp(1, 1i128 << 63) as u64),
		4 => (1u64..=(1u64 << 63)),
		3 => (1u32..=63, any::<u64>()).prop_map(|(k, r)| (r & ((1u64 << k) - 1)).max(1)),
	]
}

fn big_positions() -> impl Strategy<Value = u64> {
	prop_oneof![
		// near 2^k and 2^k-1
		(1u32..63, -64i64..=64).prop_map(|(k, d)| ((1u64 << k) as i128 + d as i128).clamp(0, (1i128 << 63) - 1) as u64),
		(1u32..63, -64i64..=64).prop_map(|(k, d)| (((1u64 << k) - 1) as i128 * 2 + d as i128).clamp(0, (1i128 << 63) - 1) as u64),
		// random 62-bit
		(0u64..(1u64 << 62)),
		// random magnitude
		(1u32..63, any::<u64>()).prop_map(|(k, r)| r & ((1u64 << k) - 1)),
		// exact leaf positions of huge leaf indices
		(0u64..(1u64 << 61)).prop_map(|n| refmmr::ref_leaf_pos(n) as u64),
	]
}

/// Variable-size elements: same root definition (leaf hash over pos ‖ serialized bytes)
fn var_elems(ctx: &Ctx, seed: u64, n: u64) -> PResult {
	let mut backend: VecBackend<VarElem> = VecBackend::new();
	let mut datas = vec![];
	let mut size = 0;
	for i in 0..n {
		let x = refmmr::blake(&[&seed.to_be_bytes(), &i.to_be_bytes(), b"v"]);
		let l = 1 + (x[0] as usize % 32);
		let e = VarElem(x[..l].to_vec());
		let mut p = PMMR::<VarElem, _>::at(&mut backend, size);
		p.push(&e).map_err(|e| Fail::new("push-err", e))?;
		size = p.unpruned_size();
		datas.push(e.bytes());
	}
	let r = RefMmr::build(&datas);
	let p = PMMR::<VarElem, _>::at(&mut backend, size);
	ctx.ev.eval();
	let root = p.root().map_err(|e| Fail::new("root-err", e))?;
	ensure!(root == h(&r.root()), "var-root", "variable-size root n={}", n);
	Ok(())
}

/// Histories over the in-memory backend: pushes interleaved with rewinds to an earlier leaf boundary, on the
/// backend that keeps leaf data and on the hash-only one. After every step size, peaks and root must equal the
/// reference forest built from the leaves that are left (an MMR is a function of its leaf sequence, however the
/// sequence was arrived at); with leaf data, a proof for a random leaf must verify.
/// ops: (kind, arg) — kind 0..=5 push `1 + arg % 5` leaves, 6..=8 rewind to `arg`-scaled earlier leaf count.
fn history_case(ctx: &Ctx, hash_only: bool, seed: u64, ops: &[(u8, u16)], counting: bool) -> PResult {
	let mut backend: VecBackend<FixElem> = if hash_only { VecBackend::new_hash_only() } else { VecBackend::new() };
	let mut datas: Vec<Vec<u8>> = vec![];
	let mut size = 0u64;
	let mut fresh = 0u64; // every leaf ever pushed gets new content
	let (mut rewinds, mut push_after_rewind) = (0u32, false);
	let mut rewinds_to_parent = 0u32;
	let mut just_rewound = false;
	for (step, (kind, arg)) in ops.iter().enumerate() {
		if *kind <= 5 {
			for _ in 0..(1 + arg % 5) {
				let e = leaf_data(seed, 1_000_000 + fresh);
				fresh += 1;
				let mut p = PMMR::<FixElem, _>::at(&mut backend, size);
				p.push(&e).map_err(|e| Fail::new("push-err", e))?;
				size = p.unpruned_size();
				datas.push(e.bytes());
			}
			if just_rewound {
				push_after_rewind = true;
			}
			just_rewound = false;
		} else {
			if datas.is_empty() {
				continue;
			}
			let keep = (*arg as usize * (datas.len() + 1)) >> 16;
			let rk = RefMmr::build(&datas[..keep]);
			let mut to = rk.size();
			if *kind >= 7 && keep > 0 {
				// a position between the last kept leaf (exclusive) and the boundary (inclusive) names the same MMR
				let last_leaf = *rk.leaf_positions().last().unwrap();
				to -= (*arg as u64 ^ *kind as u64) % (to - last_leaf);
				if to != rk.size() {
					rewinds_to_parent += 1;
				}
			}
			let mut p = PMMR::<FixElem, _>::at(&mut backend, size);
			p.rewind(to, &croaring::Bitmap::new()).map_err(|e| Fail::new("rewind-err", e))?;
			size = p.unpruned_size();
			datas.truncate(keep);
			rewinds += 1;
			just_rewound = true;
		}
		let r = RefMmr::build(&datas);
		let p = PMMR::<FixElem, _>::at(&mut backend, size);
		let what = format!("{} backend, step {} ({} leaves)", if hash_only { "hash-only" } else { "data" }, step, datas.len());
		ensure!(size == r.size(), "history-size", "{}: size {} reference {}", what, size, r.size());
		let root = p.root().map_err(|e| Fail::new("root-err", e))?;
		ensure!(root == h(&r.root()), "history-root", "{}: root differs from the reference built from the remaining leaves", what);
		let peaks: Vec<Hash> = p.peaks();
		let want: Vec<Hash> = r.peak_positions().iter().map(|pp| h(&r.nodes[*pp as usize].hash)).collect();
		ensure!(peaks == want, "history-peaks", "{}: peak hashes differ from the reference", what);
		if !hash_only && !datas.is_empty() {
			let li = (refmmr::blake(&[&seed.to_be_bytes(), &(step as u64).to_be_bytes()])[0] as usize) % datas.len();
			let pos = r.leaf_positions()[li];
			let proof = p.merkle_proof(pos).map_err(|e| Fail::new("proof-err", format!("{}: {}", what, e)))?;
			let mut a = [0u8; 16];
			a.copy_from_slice(&datas[li][..16]);
			ensure!(proof.verify(root, &FixElem(a), pos).is_ok(), "history-proof", "{}: honest proof for leaf {} rejected", what, li);
		}
	}
	if counting {
		ctx.ev.eval();
		ctx.ev.class(if hash_only { "history:hash-only-backend" } else { "history:data-backend" });
		if rewinds_to_parent > 0 {
			ctx.ev.class("history:rewind-to-a-parent-position");
		}
		if push_after_rewind {
			ctx.ev.class("history:push-after-rewind");
			ctx.ev.nontrivial(&("history", hash_only, rewinds.min(6), datas.len().min(64)));
		}
	}
	Ok(())
}

pub fn run(ctx: &Ctx) -> HResult<()> {
	let ev = &ctx.ev;
	ev.rule("sizes 0..N leaves enumerated exhaustively (every push compared with an explicit reference forest: size, peaks, root, every node hash), every leaf's Merkle proof + every single corruption; non-trivial = size with >=2 peaks / proof with both sibling and peak-bagging steps / branch with >=2 levels / large position whose family fits in u64; distinct by (kind, size, position)");
	ev.assume("blake2b (blake2-rfc) is trusted; reference forest and closed-form arithmetic are the harness's own");
	ev.assume("hash collisions are treated as impossible");

	// A+B exhaustive small sizes, on several data seeds in parallel
	let max_leaves = ctx.n(300, 1024);
	let stride = if ctx.quick() { 7 } else { 3 };
	let seeds: Vec<u64> = (0..ctx.n(4, 16)).map(|k| ctx.derive_seed("data", k)).collect();
	let fails: Vec<(u64, Fail)> = std::thread::scope(|sc| {
		let hs: Vec<_> = seeds
			.iter()
			.enumerate()
			.map(|(k, &s)| {
				sc.spawn(move || {
					// thread 0 does the full range, the others a shifted shorter range with a different stride
					let ml = if k == 0 { max_leaves } else { max_leaves / 2 + (k as u64 * 13) % 50 };
					let st = if k == 0 { stride } else { stride + k as u64 };
					match catch(|| sizes_and_proofs(ctx, s, ml, st, true)) {
						Ok(Ok(())) => None,
						Ok(Err(f)) | Err(f) => Some((s, f)),
					}
				})
			})
			.collect();
		hs.into_iter().filter_map(|h| h.join().unwrap()).collect()
	});
	for (s, f) in fails {
		// shrink by hand: smallest leaf count that fails for this seed
		let mut lo = 1;
		for ml in 1..=max_leaves {
			if let Ok(Err(_)) | Err(_) = catch(|| sizes_and_proofs(ctx, s, ml, 1, false)) {
				lo = ml;
				break;
			}
		}
		ctx.report("sizes", &f.sig, json!({"data_seed": s, "max_leaves": lo, "stride": 1}), &f.msg);
	}
	ev.extra("exhaustive_leaf_counts_upto", json!(max_leaves));

	// random larger sizes
	let big: Vec<u64> = (0..ctx.n(3, 24)).map(|k| 2000 + ctx.derive_seed("bigsize", k) % ctx.n(20_000, 63_000)).collect();
	let fails: Vec<(u64, Fail)> = std::thread::scope(|sc| {
		let hs: Vec<_> = big
			.iter()
			.map(|&n| {
				sc.spawn(move || match catch(|| big_size(ctx, n, ctx.derive_seed("bigdata", n))) {
					Ok(Ok(())) => None,
					Ok(Err(f)) | Err(f) => Some((n, f)),
				})
			})
			.collect();
		hs.into_iter().filter_map(|h| h.join().unwrap()).collect()
	});
	for (n, f) in fails {
		ctx.report("bigsize", &f.sig, json!({"leaves": n, "data_seed": ctx.derive_seed("bigdata", n)}), &f.msg);
	}

	// C explicit-tree arithmetic
	if let Ok(Err(f)) | Err(f) = catch(|| positions_explicit(ctx, if ctx.quick() { 13 } else { 16 })).map(|r| r) {
		ctx.report("positions", &f.sig, json!({"height": if ctx.quick() {13} else {16}}), &f.msg);
	}

	// D big positions
	let strat = big_positions();
	if let Some(fl) = pbt(ctx.derive_seed("bigpos", 0), ctx.n(200_000, 4_000_000) as u32, &strat, &ctx.stop, |p, c| big_pos_case(ctx, *p, c)) {
		ctx.report("bigpos", &fl.fail.sig, json!({"pos": fl.value}), &fl.fail.msg);
	}
	ev.sample("bigpos", || json!({"pos": sample_one(ctx.derive_seed("bigpos", 1), &strat)}));

	// D' sizes and peaks up to the u64 limit
	let strat = big_leaf_counts();
	if let Some(fl) = pbt(ctx.derive_seed("bigsizes", 0), ctx.n(100_000, 2_000_000) as u32, &strat, &ctx.stop, |n, c| big_size_case(ctx, *n, c)) {
		ctx.report("bigsizes", &fl.fail.sig, json!({"leaves": fl.value}), &fl.fail.msg);
	}

	// histories with rewinds, on both in-memory backends
	{
		let strat = (any::<bool>(), any::<u64>(), prop::collection::vec((0u8..9, any::<u16>()), 1..40));
		if let Some(fl) = pbt(ctx.derive_seed("history", 0), ctx.n(3_000, 60_000) as u32, &strat, &ctx.stop, |(ho, s, ops), c| history_case(ctx, *ho, *s, ops, c)) {
			ctx.report("history", &fl.fail.sig, json!({"hash_only": fl.value.0, "seed": fl.value.1, "ops": fl.value.2}), &fl.fail.msg);
		}
	}

	// variable-size elements
	for k in 0..ctx.n(20, 200) {
		let n = 1 + ctx.derive_seed("var", k) % 300;
		if let Ok(Err(f)) | Err(f) = catch(|| var_elems(ctx, ctx.derive_seed("varseed", k), n)) {
			ctx.report("var", &f.sig, json!({"seed": ctx.derive_seed("varseed", k), "leaves": n}), &f.msg);
			break;
		}
	}
	Ok(())
}

fn big_size(ctx: &Ctx, n: u64, seed: u64) -> PResult {
	let mut backend: VecBackend<FixElem> = VecBackend::new();
	let mut datas = Vec::with_capacity(n as usize);
	{
		let mut p = PMMR::<FixElem, _>::new(&mut backend);
		for i in 0..n {
			let e = leaf_data(seed, i);
			p.push(&e).map_err(|e| Fail::new("push-err", e))?;
			datas.push(e.bytes());
		}
	}
	let r = RefMmr::build(&datas);
	let size = r.size();
	let p = PMMR::<FixElem, _>::at(&mut backend, size);
	ctx.ev.eval();
	ensure!(p.unpruned_size() == size, "size", "bigsize n={}", n);
	let root = p.root().map_err(|e| Fail::new("root-err", e))?;
	ensure!(root == h(&r.root()), "root", "bigsize n={} root differs", n);
	if r.peaks.len() >= 2 {
		ctx.ev.nontrivial(&("bigsize", n));
	}
	// sample of proofs
	let leaves = r.leaf_positions();
	for k in 0..64u64 {
		let li = (refmmr::blake(&[&k.to_be_bytes(), &n.to_be_bytes()])[0] as u64 * 256 + k * 7919) % n;
		let lp = leaves[li as usize];
		let proof = p.merkle_proof(lp).map_err(|e| Fail::new("proof-err", e))?;
		let rp: Vec<Hash> = r.merkle_path(lp).iter().map(h).collect();
		ensure!(proof.path == rp, "proof-path", "bigsize n={} pos={} path differs", n, lp);
		ensure!(proof.verify(root, &leaf_data(seed, li), lp).is_ok(), "honest-proof-rejected", "bigsize n={} pos={}", n, lp);
		ctx.ev.eval();
	}
	Ok(())
}

pub fn replay(ctx: &Ctx, part: &str, case: &Value) -> PResult {
	match part {
		"sizes" => sizes_and_proofs(
			ctx,
			case["data_seed"].as_u64().unwrap_or(0),
			case["max_leaves"].as_u64().unwrap_or(1),
			case["stride"].as_u64().unwrap_or(1),
			false,
		),
		"bigpos" => big_pos_case(ctx, case["pos"].as_u64().unwrap_or(0), false),
		"bigsizes" => big_size_case(ctx, case["leaves"].as_u64().unwrap_or(0), false),
		"positions" => positions_explicit(ctx, case["height"].as_u64().unwrap_or(10) as u32),
		"var" => var_elems(ctx, case["seed"].as_u64().unwrap_or(0), case["leaves"].as_u64().unwrap_or(1)),
		"bigsize" => big_size(ctx, case["leaves"].as_u64().unwrap_or(1), case["data_seed"].as_u64().unwrap_or(0)),
		"history" => {
			let ops: Vec<(u8, u16)> = serde_json::from_value(case["ops"].clone()).map_err(|e| Fail::new("harness:replay-parse", e.to_string()))?;
			history_case(ctx, case["hash_only"].as_bool().unwrap_or(false), case["seed"].as_u64().unwrap_or(0), &ops, false)
		}
		_ => Ok(()),
	}
}
