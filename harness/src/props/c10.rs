//! C10 — Encoding round-trips and object hashes are version-independent and canonical.
//!
//! Parts (= type families): `tx`, `chain`, `segment`, `p2p`. A case is
//! `{type, enc_version, mainnet, hex}`: the hex of `ser_vec(x, enc_version)` at
//! a lossless version; replay decodes it and re-runs the same typed check.

use crate::engine::*;
use crate::refmmr::blake;
use crate::world::{init_global, init_thread, scalar_from, OutRef, LIB};
use crate::{ensure, fail};
use chrono::{DateTime, Utc};
use grin_chain::txhashset::{BitmapChunk, BitmapSegment};
use grin_chain::types::{CommitPos, Tip};
use grin_core::core::hash::{Hash, Hashed};
use grin_core::core::id::ShortIdentifiable;
use grin_core::core::merkle_proof::MerkleProof;
use grin_core::core::pmmr::{ReadablePMMR, ReadonlyPMMR, VecBackend, PMMR};
use grin_core::core::{
	Block, BlockHeader, BlockSums, CommitWrapper, CompactBlock, FeeFields, HeaderEntry, HeaderVersion, Input, Inputs,
	KernelFeatures, NRDRelativeHeight, Output, OutputFeatures, OutputIdentifier, Segment, SegmentIdentifier, SegmentProof,
	ShortId, Transaction, TransactionBody, TxKernel,
};
use grin_core::global::{self, ChainTypes};
use grin_core::pow::{Difficulty, Proof, ProofOfWork};
use grin_core::ser::{self, DeserializationMode, PMMRable, ProtocolVersion, Readable, Reader, Writeable, Writer};
use grin_keychain::BlindingFactor;
use grin_p2p::msg::{
	BanReason, GetPeerAddrs, Hand, Headers, Locator, MsgHeader, MsgHeaderWrapper, OutputBitmapSegmentResponse,
	OutputSegmentResponse, PeerAddrs, PeerError, Ping, Pong, SegmentRequest, SegmentResponse, Shake, TxHashSetArchive,
	TxHashSetRequest, Type,
};
use grin_p2p::{Capabilities, PeerAddr, ReasonForBan};
use grin_util::secp::pedersen::{Commitment, RangeProof};
use grin_util::secp::Signature;
use grin_util::{static_secp_instance, ToHex};
use lazy_static::lazy_static;
use proptest::prelude::*;
use serde_json::{json, Value};
use std::net::{Ipv4Addr, Ipv6Addr, SocketAddr, SocketAddrV4, SocketAddrV6};
use std::ops::Range;

const WEEK_HEIGHT: u64 = grin_core::consensus::WEEK_HEIGHT;
const PROOF_LEN: usize = 675;

// ------------------------------------------------------------------ basics

fn versions() -> Vec<u32> {
	let mut v = vec![1, 2, 3, 1000, ProtocolVersion::local().0, ProtocolVersion::local_db().0];
	v.sort();
	v.dedup();
	v
}

fn enc<T: Writeable>(x: &T, v: u32) -> Result<Vec<u8>, ser::Error> {
	ser::ser_vec(x, ProtocolVersion(v))
}

/// decode from a byte slice; returns the result and the number of bytes consumed
fn dec<T: Readable>(b: &[u8], v: u32) -> (Result<T, ser::Error>, usize) {
	let mut s: &[u8] = b;
	let r = ser::deserialize::<T, _>(&mut s, ProtocolVersion(v), DeserializationMode::default());
	(r, b.len() - s.len())
}

fn hex(b: &[u8]) -> String {
	b.to_vec().to_hex()
}

fn hex_short(b: &[u8]) -> String {
	truncate(&hex(b), 400)
}

/// deterministic pseudo-random bytes from a seed
fn expand(seed: u64, tag: u8, n: usize) -> Vec<u8> {
	let mut out = Vec::with_capacity(n + 32);
	let mut ctr = 0u32;
	while out.len() < n {
		out.extend_from_slice(&blake(&[b"c10", &seed.to_be_bytes(), &[tag], &ctr.to_be_bytes()]));
		ctr += 1;
	}
	out.truncate(n);
	out
}

fn hash_from(seed: u64, tag: u8) -> Hash {
	Hash::from_vec(&expand(seed, tag, 32))
}

fn u64_from(seed: u64, tag: u8) -> u64 {
	let b = expand(seed, tag, 8);
	u64::from_be_bytes([b[0], b[1], b[2], b[3], b[4], b[5], b[6], b[7]])
}

fn set_chain(mainnet: bool) {
	global::set_local_chain_type(if mainnet { ChainTypes::Mainnet } else { ChainTypes::AutomatedTesting });
}

fn be64(b: &[u8], at: usize) -> u64 {
	let mut a = [0u8; 8];
	a.copy_from_slice(&b[at..at + 8]);
	u64::from_be_bytes(a)
}

fn put64(b: &mut [u8], at: usize, x: u64) {
	b[at..at + 8].copy_from_slice(&x.to_be_bytes());
}

lazy_static! {
	/// pool of valid commitments: 0..128 are used by inputs and kernel excesses,
	/// 128..256 by synthetic outputs (so a transaction never spends its own output)
	static ref COMMITS: Vec<Commitment> = {
		let keys: Vec<_> = (0..256).map(|i| scalar_from(format!("c10-commit-{}", i).as_bytes())).collect();
		let secp = static_secp_instance();
		let secp = secp.lock();
		keys.into_iter()
			.enumerate()
			.map(|(i, k)| {
				let v = match i % 4 {
					0 => 0,
					1 => i as u64,
					2 => u64::MAX - i as u64,
					_ => (i as u64) << 32,
				};
				secp.commit(v, k).expect("commit")
			})
			.collect()
	};
}

/// outputs with real bulletproofs (all present in the shared on-disk cache)
fn universe() -> Vec<OutRef> {
	let mut v = vec![];
	for k in [0u32, 1, 2, 3, 4, 7, 8, 9, 10, 11, 14, 15, 16, 17, 18, 21] {
		v.push(OutRef { amount: 1, key: k, cb: false });
	}
	for k in [4u32, 5, 6, 8, 9, 10, 12, 13] {
		v.push(OutRef { amount: grin_core::consensus::REWARD, key: k, cb: true });
	}
	v
}

// ------------------------------------------------------------------ the object trait

/// One derived non-canonical encoding. `strict`: decoding must fail. Otherwise
/// (count fields promising more than the content holds) decoding may succeed
/// only if the bytes happen to be the exact canonical encoding of what was read.
pub struct Mutation {
	rule: &'static str,
	bytes: Vec<u8>,
	strict: bool,
	/// failure signature when the root cause is a named decoder (independent of the containing type)
	sig: Option<&'static str>,
}

fn mutate(out: &mut Vec<Mutation>, rule: &'static str, strict: bool, b: &[u8], f: impl FnOnce(&mut Vec<u8>)) {
	let mut m = b.to_vec();
	f(&mut m);
	out.push(Mutation { rule, bytes: m, strict, sig: None });
}

/// strict rule with a fixed signature
fn mutate_sig(out: &mut Vec<Mutation>, rule: &'static str, sig: &'static str, b: &[u8], f: impl FnOnce(&mut Vec<u8>)) {
	let mut m = b.to_vec();
	f(&mut m);
	out.push(Mutation { rule, bytes: m, strict: true, sig: Some(sig) });
}

/// evidence of one value, flushed under a single lock
#[derive(Default)]
struct Tally {
	evals: u64,
	classes: std::collections::BTreeMap<String, u64>,
	shapes: Vec<u64>,
}

impl Tally {
	fn class(&mut self, c: String) {
		*self.classes.entry(c).or_insert(0) += 1;
	}
	fn flush(self, ev: &Ev) {
		let mut g = ev.0.lock().unwrap();
		g.evaluations += self.evals;
		for (k, n) in self.classes {
			*g.classes.entry(k).or_insert(0) += n;
		}
		for h in self.shapes {
			g.shapes.insert(h);
		}
	}
}

pub trait Obj: Writeable + Readable + Sized {
	fn tag() -> String;
	/// equality in the sense of the property at version v
	fn same(&self, y: &Self, v: u32) -> Result<(), String>;
	/// (non-trivial by the rule, shape class)
	fn shape(&self) -> (bool, String);
	/// a version whose encoding loses nothing (used for replay files)
	fn lossless(&self) -> u32 {
		1
	}
	/// the writer documents UnsupportedProtocolVersion for this value at v
	fn unsupported(&self, _v: u32) -> bool {
		false
	}
	/// identity hash, for the types that have one
	fn id_hash(&self) -> Option<Hash> {
		None
	}
	/// bytes whose blake2b-256 is the identity hash by definition (independent oracle)
	fn id_preimage(&self) -> Option<Vec<u8>> {
		None
	}
	/// one-rule violations of the canonical form derived from the valid encoding b at version v
	fn mutations(&self, _v: u32, _b: &[u8], _out: &mut Vec<Mutation>) {}
	/// extra evidence classes (variant coverage)
	fn classes(&self) -> Vec<String> {
		vec![]
	}
}

fn case_json<T: Obj>(x: &T, mainnet: bool) -> Value {
	let v = x.lossless();
	match enc(x, v) {
		Ok(b) => json!({"type": T::tag(), "enc_version": v, "mainnet": mainnet, "hex": hex(&b)}),
		Err(e) => json!({"type": T::tag(), "enc_version": v, "mainnet": mainnet, "hex": "", "encode_error": format!("{:?}", e)}),
	}
}

fn check_mutation<T: Obj>(t: &mut Tally, v: u32, b1: &[u8], m: &Mutation) -> PResult {
	let tag = T::tag();
	if m.rule == "layout-mismatch" {
		// the encoding is not laid out as the documented format says (or the harness's layout model is wrong)
		fail!(format!("layout-mismatch:{}", tag), "{} v{}: {}; bytes={}", tag, v, String::from_utf8_lossy(&m.bytes), hex_short(b1));
	}
	ensure!(m.bytes != b1, "harness:mutation-noop", "{} v{} rule {}: mutation did not change the encoding", tag, v, m.rule);
	t.evals += 1;
	t.class(format!("reject:{}", m.rule));
	t.shapes.push(hash_of(&(&tag, v, "reject", m.rule)));
	let (r, used) = dec::<T>(&m.bytes, v);
	match r {
		Err(_) => Ok(()),
		Ok(y) => {
			if m.strict {
				fail!(
					m.sig.map(|s| s.to_string()).unwrap_or_else(|| format!("noncanonical-accepted:{}:{}", m.rule, tag)),
					"{} v{}: encoding violating rule '{}' was decoded (consumed {} of {} bytes); valid={} mutated={}",
					tag,
					v,
					m.rule,
					used,
					m.bytes.len(),
					hex_short(b1),
					hex_short(&m.bytes)
				);
			}
			let re = enc(&y, v);
			if re.as_ref().map(|r| r[..] == m.bytes[..]).unwrap_or(false) {
				t.class("mutation_coincidentally_canonical".into());
				Ok(())
			} else {
				fail!(
					format!("noncanonical-normalised:{}:{}", m.rule, tag),
					"{} v{}: encoding violating rule '{}' was decoded and re-encodes differently (consumed {} of {}); mutated={}",
					tag,
					v,
					m.rule,
					used,
					m.bytes.len(),
					hex_short(&m.bytes)
				);
			}
		}
	}
}

/// Byte sweep over a valid encoding (a sample of positions chosen from the bytes themselves, five replacement
/// values each): if the perturbed bytes decode, re-encoding the decoded value must give back exactly the bytes
/// the decoder consumed — otherwise the decoder normalised something instead of refusing it.
fn sweep<T: Obj>(t: &mut Tally, v: u32, b1: &[u8]) -> PResult {
	let tag = T::tag();
	let n = b1.len();
	if n == 0 {
		return Ok(());
	}
	let picks: Vec<usize> = if n <= 40 {
		(0..n).collect()
	} else {
		let h = hash_of(&(b1, v));
		let mut p: Vec<usize> = (0..24u64).map(|i| (hash_of(&(h, i)) % n as u64) as usize).collect();
		// the head of an encoding holds tags, versions and counts
		p.extend(0..12usize);
		p
	};
	let dump = std::env::var("GV_C10_SWEEP_DUMP").ok();
	for at in picks {
		let o = b1[at];
		for nb in [o ^ 1, o ^ 0x80, 0u8, 0xff, o.wrapping_add(1)] {
			if nb == o {
				continue;
			}
			let mut m = b1.to_vec();
			m[at] = nb;
			t.evals += 1;
			let (r, used) = dec::<T>(&m, v);
			let y = match r {
				Err(_) => {
					t.class("sweep:refused".into());
					continue;
				}
				Ok(y) => y,
			};
			let re = enc(&y, v);
			let same = re.as_ref().map(|r| used <= m.len() && r[..] == m[..used]).unwrap_or(false);
			if same {
				t.class("sweep:decoded-canonical".into());
				continue;
			}
			// Normalisations the unchanged tree is known to perform (measured by the probes, see DESIGN C10):
			// undefined capability bits are dropped (forward compatibility), HeaderEntry's flag byte is read as
			// "non-zero", a bitmap block may arrive in any of its three modes, and a range proof's declared
			// length is clamped (the open known finding) — in a container of range proofs a lowered count
			// re-frames the following bytes and can run into that same clamp, which shows as an input that
			// is not consumed to its end.
			let rp_prefix = (0..8usize).any(|k| at >= k && at - k + 8 <= n && b1[at - k..at - k + 8] == [0, 0, 0, 0, 0, 0, 2, 0xa3]);
			let holds_rp = ["RangeProof", "Output", "Transaction", "Block", "CompactBlock"].iter().any(|w| tag.contains(w));
			let tolerated = if (tag == "Hand" || tag == "Shake") && (4..8).contains(&at) {
				Some("capability-bits")
			} else if tag == "GetPeerAddrs" && at < 4 {
				Some("capability-bits")
			} else if tag == "HeaderEntry" && at == n - 1 {
				Some("flag-byte")
			} else if tag.contains("Bitmap") {
				Some("bitmap-block-mode")
			} else if rp_prefix {
				Some("rangeproof-length")
			} else if holds_rp && used != m.len() {
				Some("rangeproof-length-after-reframing")
			} else {
				None
			};
			match tolerated {
				Some(w) => t.class(format!("sweep:normalised({}):{}", w, tag)),
				None => fail!(
					format!("sweep-normalised:{}", tag),
					"{} v{}: byte {} of a valid encoding changed from {:#04x} to {:#04x}: the result decodes (consumed {} of {}) but the decoded value re-encodes differently ({}); valid={} perturbed={}",
					tag,
					v,
					at,
					o,
					nb,
					used,
					m.len(),
					match &re {
						Ok(r) => format!("{} bytes, first difference at {:?}", r.len(), r.iter().zip(m.iter()).position(|(a, b)| a != b)),
						Err(e) => format!("writer error {:?}", e),
					},
					hex_short(b1),
					hex_short(&m)
				),
			}
			if let Some(d) = &dump {
				use std::io::Write;
				let first_diff = re.as_ref().ok().map(|r| r.iter().zip(m.iter()).position(|(a, b)| a != b).unwrap_or(r.len().min(used)));
				if let Ok(mut f) = std::fs::OpenOptions::new().create(true).append(true).open(d) {
					let _ = f.write_all(
						format!(
						"{}\n",
						json!({"tag": tag, "v": v, "at": at, "len": n, "old": o, "new": nb, "used": used, "re_len": re.as_ref().map(|r| r.len()).ok(), "re_err": re.as_ref().err().map(|e| format!("{:?}", e)), "first_diff": first_diff, "ctx": hex(&b1[at.saturating_sub(12)..(at + 4).min(n)])})
					).as_bytes());
				}
			}
		}
	}
	Ok(())
}

/// The whole C10 check for one value.
fn check_obj<T: Obj>(ctx: &Ctx, x: &T, counting: bool) -> PResult {
	let ev = &ctx.ev;
	let tag = T::tag();
	let h0 = x.id_hash();
	if let (Some(h), Some(pre)) = (h0, x.id_preimage()) {
		ensure!(
			h.as_bytes() == &blake(&[&pre])[..],
			format!("hash-definition:{}", tag),
			"{}: identity hash {:?} is not blake2b of the version-1 identity encoding {}",
			tag,
			h,
			hex_short(&pre)
		);
	}
	let (nontriv, shape) = x.shape();
	let mut t = Tally::default();
	for v in versions() {
		t.evals += 1;
		let b1 = match enc(x, v) {
			Ok(b) => {
				ensure!(
					!x.unsupported(v),
					format!("unsupported-version-written:{}", tag),
					"{} v{}: writer accepted a value this version cannot carry",
					tag,
					v
				);
				b
			}
			Err(e) => {
				if x.unsupported(v) {
					ensure!(
						e == ser::Error::UnsupportedProtocolVersion,
						format!("unsupported-version-error:{}", tag),
						"{} v{}: expected UnsupportedProtocolVersion, got {:?}",
						tag,
						v,
						e
					);
					t.class(format!("unsupported_version_refused:{}", tag));
					t.shapes.push(hash_of(&(&tag, v, "unsupported")));
					continue;
				}
				fail!(format!("encode-failed:{}", tag), "{} v{}: ser_vec failed: {:?} ({})", tag, v, e, shape);
			}
		};
		let (r, used) = dec::<T>(&b1, v);
		let y = match r {
			Ok(y) => y,
			Err(e) => fail!(format!("decode-failed:{}", tag), "{} v{}: own encoding refused: {:?}; bytes={}", tag, v, e, hex_short(&b1)),
		};
		ensure!(
			used == b1.len(),
			format!("decode-consumed:{}", tag),
			"{} v{}: decoder consumed {} of {} bytes of its own encoding",
			tag,
			v,
			used,
			b1.len()
		);
		if let Err(m) = x.same(&y, v) {
			fail!(format!("roundtrip-mismatch:{}", tag), "{} v{}: decoded value differs: {}; bytes={}", tag, v, m, hex_short(&b1));
		}
		let b2 = match enc(&y, v) {
			Ok(b) => b,
			Err(e) => fail!(format!("reencode-failed:{}", tag), "{} v{}: {:?}", tag, v, e),
		};
		ensure!(
			b2 == b1,
			format!("reencode-differs:{}", tag),
			"{} v{}: re-encoding differs: first={} second={}",
			tag,
			v,
			hex_short(&b1),
			hex_short(&b2)
		);
		if let Some(h) = h0 {
			let hy = y.id_hash();
			ensure!(
				hy == Some(h),
				format!("hash-version-dependent:{}", tag),
				"{}: identity hash {:?} became {:?} after a round trip at version {}",
				tag,
				h,
				hy,
				v
			);
		}
		// the streaming reader (used by the store and p2p read_item) must agree with the slice reader
		{
			let mut cur = std::io::Cursor::new(&b1[..]);
			let mut sr = ser::StreamingReader::new(&mut cur, ProtocolVersion(v));
			match T::read(&mut sr) {
				Ok(y2) => {
					if let Err(m) = x.same(&y2, v) {
						fail!(format!("roundtrip-mismatch-streaming:{}", tag), "{} v{}: StreamingReader decoded a different value: {}", tag, v, m);
					}
					if sr.total_bytes_read() != b1.len() as u64 {
						// measured only: the property does not speak about byte counters
						t.class(format!("streaming_reader_byte_count_off_by_{}:{}", sr.total_bytes_read() as i64 - b1.len() as i64, tag));
					}
				}
				Err(e) => fail!(format!("decode-failed-streaming:{}", tag), "{} v{}: StreamingReader refused own encoding: {:?}", tag, v, e),
			}
		}
		// canonical-form rejection
		let mut muts = vec![];
		x.mutations(v, &b1, &mut muts);
		for m in &muts {
			check_mutation::<T>(&mut t, v, &b1, m)?;
		}
		// generic byte sweep: any perturbed encoding that still decodes must be the canonical encoding of what it decodes to
		if !counting || !ctx.quick() || hash_of(&(&b1, v)) % 8 == 0 {
			sweep::<T>(&mut t, v, &b1)?;
		}
		// trailing byte: measured, never asserted
		if counting && v == ProtocolVersion::local().0 {
			let mut tb = b1.clone();
			tb.push(0);
			let (r, _) = dec::<T>(&tb, v);
			t.class(format!("trailing_byte_{}:{}", if r.is_ok() { "tolerated" } else { "refused" }, tag));
		}
		t.class(format!("roundtrip:{}", tag));
		if nontriv {
			t.shapes.push(hash_of(&(&tag, v, &shape)));
		}
	}
	if counting {
		for c in x.classes() {
			t.class(c);
		}
		t.flush(ev);
		ev.sample(&tag, || json!({"type": tag, "shape": shape, "hex_v_lossless": truncate(&enc(x, x.lossless()).map(|b| hex(&b)).unwrap_or_default(), 300)}));
	}
	Ok(())
}

fn check_hex<T: Obj>(ctx: &Ctx, bytes: &[u8], enc_v: u32) -> PResult {
	let (r, _) = dec::<T>(bytes, enc_v);
	let x = r.map_err(|e| Fail::new("harness:replay-decode", format!("{} v{}: {:?}", T::tag(), enc_v, e)))?;
	check_obj(ctx, &x, false)
}

// ------------------------------------------------------------------ equality helpers

fn eq<T: PartialEq + std::fmt::Debug>(what: &str, a: &T, b: &T) -> Result<(), String> {
	if a == b {
		Ok(())
	} else {
		Err(format!("{}: {:?} != {:?}", what, a, b))
	}
}

fn same_kernel(a: &TxKernel, b: &TxKernel) -> Result<(), String> {
	eq("kernel.features", &a.features, &b.features)?;
	eq("kernel.excess", &a.excess, &b.excess)?;
	eq("kernel.excess_sig", &a.excess_sig, &b.excess_sig)
}

fn same_proof(a: &RangeProof, b: &RangeProof) -> Result<(), String> {
	if a.plen != b.plen {
		return Err(format!("rangeproof plen {} != {}", a.plen, b.plen));
	}
	if a.proof[..] != b.proof[..] {
		return Err("rangeproof bytes differ".into());
	}
	Ok(())
}

fn same_outid(a: &OutputIdentifier, b: &OutputIdentifier) -> Result<(), String> {
	eq("features", &a.features, &b.features)?;
	eq("commit", &a.commit, &b.commit)
}

fn same_output(a: &Output, b: &Output) -> Result<(), String> {
	same_outid(&a.identifier, &b.identifier)?;
	same_proof(&a.proof, &b.proof)
}

fn same_list<T>(what: &str, a: &[T], b: &[T], f: impl Fn(&T, &T) -> Result<(), String>) -> Result<(), String> {
	if a.len() != b.len() {
		return Err(format!("{}: {} entries != {}", what, a.len(), b.len()));
	}
	for (i, (x, y)) in a.iter().zip(b).enumerate() {
		f(x, y).map_err(|e| format!("{}[{}]: {}", what, i, e))?;
	}
	Ok(())
}

fn input_commits(x: &Inputs) -> Vec<Vec<u8>> {
	let mut v: Vec<Vec<u8>> = match x {
		Inputs::CommitOnly(c) => c.iter().map(|c| c.commitment().0.to_vec()).collect(),
		Inputs::FeaturesAndCommit(i) => i.iter().map(|i| i.commit.0.to_vec()).collect(),
	};
	v.sort();
	v
}

/// Inputs: with features where the version carries them (v <= 2), by
/// commitment (as a multiset) where it does not.
fn same_inputs(x: &Inputs, y: &Inputs, v: u32) -> Result<(), String> {
	if input_commits(x) != input_commits(y) {
		return Err(format!("input commitments differ: {:?} vs {:?}", x, y));
	}
	if v <= 2 {
		match (x, y) {
			(Inputs::FeaturesAndCommit(a), Inputs::FeaturesAndCommit(b)) => same_list("inputs", a, b, |p, q| {
				eq("features", &p.features, &q.features)?;
				eq("commit", &p.commit, &q.commit)
			}),
			(Inputs::CommitOnly(a), _) if a.is_empty() => Ok(()),
			_ => Err(format!("input features lost at version {}: {:?} vs {:?}", v, x, y)),
		}
	} else {
		Ok(())
	}
}

fn same_body(x: &TransactionBody, y: &TransactionBody, v: u32) -> Result<(), String> {
	same_inputs(&x.inputs, &y.inputs, v)?;
	same_list("outputs", &x.outputs, &y.outputs, same_output)?;
	same_list("kernels", &x.kernels, &y.kernels, same_kernel)
}

fn kshape(k: &KernelFeatures) -> String {
	match k {
		KernelFeatures::Plain { fee } => format!("plain{}", if fee.is_zero() { "0" } else if fee.fee_shift() > 0 { "s" } else { "" }),
		KernelFeatures::Coinbase => "coinbase".into(),
		KernelFeatures::HeightLocked { fee, .. } => format!("hl{}", if fee.fee_shift() > 0 { "s" } else { "" }),
		KernelFeatures::NoRecentDuplicate { fee, .. } => format!("nrd{}", if fee.fee_shift() > 0 { "s" } else { "" }),
	}
}

fn body_shape(b: &TransactionBody) -> (bool, String) {
	let mut kinds = 0u8;
	for k in &b.kernels {
		kinds |= 1 << k.features.as_u8();
	}
	let cb = b.outputs.iter().any(|o| o.is_coinbase());
	let nt = b.inputs.len() >= 2 || b.outputs.len() >= 2 || b.kernels.len() >= 2;
	(
		nt,
		format!(
			"{}i{}o{}{}k{}m{:x}",
			b.inputs.version_str(),
			b.inputs.len().min(3),
			b.outputs.len().min(3),
			if cb { "c" } else { "" },
			b.kernels.len().min(3),
			kinds
		),
	)
}

fn body_lossless(b: &TransactionBody) -> u32 {
	match &b.inputs {
		Inputs::CommitOnly(c) if !c.is_empty() => 3,
		_ => 2,
	}
}

fn body_unsupported(b: &TransactionBody, v: u32) -> bool {
	// Inputs::write: CommitOnly, non-empty, version 0..=2 => UnsupportedProtocolVersion
	matches!(&b.inputs, Inputs::CommitOnly(c) if !c.is_empty()) && v <= 2
}

// ------------------------------------------------------------------ mutation helpers

/// kernel features (or a kernel) starting at `at`
fn kernel_mutations(k: &KernelFeatures, v: u32, b: &[u8], at: usize, out: &mut Vec<Mutation>) {
	for t in [4u8, 0x80, 0xff] {
		mutate(out, "kernel-feature-tag-unknown", true, b, |m| m[at] = t);
	}
	if v <= 1 {
		let reserved: Range<usize> = match k {
			KernelFeatures::Plain { .. } => 9..17,
			KernelFeatures::Coinbase => 1..17,
			KernelFeatures::HeightLocked { .. } => 0..0,
			KernelFeatures::NoRecentDuplicate { .. } => 9..15,
		};
		if !reserved.is_empty() {
			for j in [reserved.start, (reserved.start + reserved.end) / 2, reserved.end - 1] {
				mutate(out, "kernel-reserved-bytes-nonzero", true, b, |m| m[at + j] = 1);
			}
		}
	}
	if let KernelFeatures::NoRecentDuplicate { .. } = k {
		let p = at + if v <= 1 { 15 } else { 9 };
		for h in [0u16, WEEK_HEIGHT as u16 + 1, 0xffff] {
			mutate(out, "nrd-relative-height-out-of-range", true, b, |m| m[p..p + 2].copy_from_slice(&h.to_be_bytes()));
		}
	}
}

fn output_tag_mutations(b: &[u8], at: usize, out: &mut Vec<Mutation>) {
	for t in [2u8, 0x81, 0xff] {
		mutate(out, "output-feature-tag-unknown", true, b, |m| m[at] = t);
	}
}

struct ListLayout {
	count_at: usize,
	items: Vec<Range<usize>>,
}

/// swap / duplicate / count-more mutations for one counted list of a body-like encoding
fn list_mutations(l: &ListLayout, names: (&'static str, &'static str, &'static str), b: &[u8], out: &mut Vec<Mutation>) {
	let n = l.items.len();
	for i in 0..n.saturating_sub(1) {
		let (p, q) = (l.items[i].clone(), l.items[i + 1].clone());
		if b[p.clone()] == b[q.clone()] {
			continue;
		}
		mutate(out, names.0, true, b, |m| {
			let mut s = b[q.clone()].to_vec();
			s.extend_from_slice(&b[p.clone()]);
			m[p.start..q.end].copy_from_slice(&s);
		});
	}
	if n >= 1 {
		for i in [0, n - 1] {
			let r = l.items[i].clone();
			mutate(out, names.1, true, b, |m| {
				let item = b[r.clone()].to_vec();
				let tail = m.split_off(r.end);
				m.extend_from_slice(&item);
				m.extend_from_slice(&tail);
				put64(m, l.count_at, n as u64 + 1);
			});
			if n == 1 {
				break;
			}
		}
	}
	mutate(out, names.2, false, b, |m| put64(m, l.count_at, n as u64 + 1));
}

/// Layout of an encoded TransactionBody starting at `start` and running to the end of b.
fn body_layout(body: &TransactionBody, v: u32, start: usize, b: &[u8]) -> Result<[ListLayout; 3], String> {
	let n_in = body.inputs.len();
	let w_in = if v <= 2 { 34 } else { 33 };
	let mut at = start + 24;
	let mut lists = vec![];
	let mut ins = vec![];
	for _ in 0..n_in {
		ins.push(at..at + w_in);
		at += w_in;
	}
	lists.push(ListLayout { count_at: start, items: ins });
	let mut outs = vec![];
	for o in &body.outputs {
		let w = enc(o, v).map_err(|e| format!("{:?}", e))?.len();
		outs.push(at..at + w);
		at += w;
	}
	lists.push(ListLayout { count_at: start + 8, items: outs });
	let mut ks = vec![];
	for k in &body.kernels {
		let w = enc(k, v).map_err(|e| format!("{:?}", e))?.len();
		ks.push(at..at + w);
		at += w;
	}
	lists.push(ListLayout { count_at: start + 16, items: ks });
	if at != b.len() {
		return Err(format!("computed body end {} != encoding length {}", at, b.len()));
	}
	for (i, l) in lists.iter().enumerate() {
		if be64(b, l.count_at) != l.items.len() as u64 {
			return Err(format!("count field {} holds {} expected {}", i, be64(b, l.count_at), l.items.len()));
		}
	}
	let mut it = lists.into_iter();
	Ok([it.next().unwrap(), it.next().unwrap(), it.next().unwrap()])
}

fn body_mutations(body: &TransactionBody, v: u32, start: usize, b: &[u8], out: &mut Vec<Mutation>) {
	let l = match body_layout(body, v, start, b) {
		Ok(l) => l,
		Err(e) => {
			// reported through a mutation that cannot fail to be flagged
			out.push(Mutation { rule: "layout-mismatch", bytes: format!("layout: {}", e).into_bytes(), strict: false, sig: None });
			return;
		}
	};
	list_mutations(&l[0], ("inputs-unsorted", "inputs-duplicate", "count-more-inputs"), b, out);
	list_mutations(&l[1], ("outputs-unsorted", "outputs-duplicate", "count-more-outputs"), b, out);
	list_mutations(&l[2], ("kernels-unsorted", "kernels-duplicate", "count-more-kernels"), b, out);
	if v <= 2 {
		if let Some(r) = l[0].items.first() {
			output_tag_mutations(b, r.start, out);
		}
	}
	if let Some(r) = l[1].items.last() {
		output_tag_mutations(b, r.start, out);
	}
	if let (Some(r), Some(k)) = (l[2].items.first(), body.kernels.first()) {
		kernel_mutations(&k.features, v, b, r.start, out);
	}
}

// ------------------------------------------------------------------ Obj: transaction family

impl Obj for KernelFeatures {
	fn tag() -> String {
		"KernelFeatures".into()
	}
	fn same(&self, y: &Self, _v: u32) -> Result<(), String> {
		eq("features", self, y)
	}
	fn shape(&self) -> (bool, String) {
		(!matches!(self, KernelFeatures::Plain { .. }), kshape(self))
	}
	fn mutations(&self, v: u32, b: &[u8], out: &mut Vec<Mutation>) {
		kernel_mutations(self, v, b, 0, out);
	}
}

impl Obj for TxKernel {
	fn tag() -> String {
		"TxKernel".into()
	}
	fn same(&self, y: &Self, _v: u32) -> Result<(), String> {
		same_kernel(self, y)
	}
	fn shape(&self) -> (bool, String) {
		(!self.is_plain(), kshape(&self.features))
	}
	fn id_hash(&self) -> Option<Hash> {
		Some(self.hash())
	}
	fn id_preimage(&self) -> Option<Vec<u8>> {
		// kernels are hashed in their version-1 form
		enc(self, 1).ok()
	}
	fn mutations(&self, v: u32, b: &[u8], out: &mut Vec<Mutation>) {
		kernel_mutations(&self.features, v, b, 0, out);
	}
	fn classes(&self) -> Vec<String> {
		vec![format!("kernel_variant:{}", self.features.as_string())]
	}
}

impl Obj for Input {
	fn tag() -> String {
		"Input".into()
	}
	fn same(&self, y: &Self, _v: u32) -> Result<(), String> {
		eq("features", &self.features, &y.features)?;
		eq("commit", &self.commit, &y.commit)
	}
	fn shape(&self) -> (bool, String) {
		(self.is_coinbase(), format!("{:?}", self.features))
	}
	fn id_hash(&self) -> Option<Hash> {
		Some(self.hash())
	}
	fn id_preimage(&self) -> Option<Vec<u8>> {
		enc(self, 1).ok()
	}
	fn mutations(&self, _v: u32, b: &[u8], out: &mut Vec<Mutation>) {
		output_tag_mutations(b, 0, out);
	}
}

impl Obj for CommitWrapper {
	fn tag() -> String {
		"CommitWrapper".into()
	}
	fn same(&self, y: &Self, _v: u32) -> Result<(), String> {
		eq("commit", &self.commitment(), &y.commitment())
	}
	fn shape(&self) -> (bool, String) {
		(false, "commit".into())
	}
	fn id_hash(&self) -> Option<Hash> {
		Some(self.hash())
	}
	fn id_preimage(&self) -> Option<Vec<u8>> {
		enc(self, 1).ok()
	}
}

impl Obj for OutputIdentifier {
	fn tag() -> String {
		"OutputIdentifier".into()
	}
	fn same(&self, y: &Self, _v: u32) -> Result<(), String> {
		same_outid(self, y)
	}
	fn shape(&self) -> (bool, String) {
		(self.is_coinbase(), format!("{:?}", self.features))
	}
	fn id_hash(&self) -> Option<Hash> {
		Some(self.hash())
	}
	fn id_preimage(&self) -> Option<Vec<u8>> {
		enc(self, 1).ok()
	}
	fn mutations(&self, _v: u32, b: &[u8], out: &mut Vec<Mutation>) {
		output_tag_mutations(b, 0, out);
	}
}

impl Obj for Output {
	fn tag() -> String {
		"Output".into()
	}
	fn same(&self, y: &Self, _v: u32) -> Result<(), String> {
		same_output(self, y)
	}
	fn shape(&self) -> (bool, String) {
		(self.is_coinbase(), format!("{:?}", self.features()))
	}
	fn id_hash(&self) -> Option<Hash> {
		Some(self.identifier().hash())
	}
	fn id_preimage(&self) -> Option<Vec<u8>> {
		enc(&self.identifier(), 1).ok()
	}
	fn mutations(&self, _v: u32, b: &[u8], out: &mut Vec<Mutation>) {
		output_tag_mutations(b, 0, out);
	}
}

impl Obj for RangeProof {
	fn tag() -> String {
		"RangeProof".into()
	}
	fn same(&self, y: &Self, _v: u32) -> Result<(), String> {
		same_proof(self, y)
	}
	fn shape(&self) -> (bool, String) {
		(false, "proof675".into())
	}
}

/// `Inputs` has a writer only; the reader side is `Readable for Vec<Input>` /
/// `Vec<CommitWrapper>` chosen by version exactly as `TransactionBody::read` does.
#[derive(Debug, Clone)]
pub struct InputsW(Inputs);

impl Writeable for InputsW {
	fn write<W: Writer>(&self, w: &mut W) -> Result<(), ser::Error> {
		self.0.write(w)
	}
}

impl Readable for InputsW {
	fn read<R: Reader>(r: &mut R) -> Result<Self, ser::Error> {
		if r.protocol_version().value() <= 2 {
			let v: Vec<Input> = Readable::read(r)?;
			Ok(InputsW(Inputs::FeaturesAndCommit(v)))
		} else {
			let v: Vec<CommitWrapper> = Readable::read(r)?;
			Ok(InputsW(Inputs::CommitOnly(v)))
		}
	}
}

impl Obj for InputsW {
	fn tag() -> String {
		"Inputs".into()
	}
	fn same(&self, y: &Self, v: u32) -> Result<(), String> {
		same_inputs(&self.0, &y.0, v)
	}
	fn shape(&self) -> (bool, String) {
		(self.0.len() >= 2, format!("{}n{}", self.0.version_str(), self.0.len().min(3)))
	}
	fn lossless(&self) -> u32 {
		match &self.0 {
			Inputs::CommitOnly(c) if !c.is_empty() => 3,
			_ => 2,
		}
	}
	fn unsupported(&self, v: u32) -> bool {
		matches!(&self.0, Inputs::CommitOnly(c) if !c.is_empty()) && v <= 2
	}
}

impl Obj for TransactionBody {
	fn tag() -> String {
		"TransactionBody".into()
	}
	fn same(&self, y: &Self, v: u32) -> Result<(), String> {
		same_body(self, y, v)
	}
	fn shape(&self) -> (bool, String) {
		body_shape(self)
	}
	fn lossless(&self) -> u32 {
		body_lossless(self)
	}
	fn unsupported(&self, v: u32) -> bool {
		body_unsupported(self, v)
	}
	fn mutations(&self, v: u32, b: &[u8], out: &mut Vec<Mutation>) {
		body_mutations(self, v, 0, b, out);
	}
}

impl Obj for Transaction {
	fn tag() -> String {
		"Transaction".into()
	}
	fn same(&self, y: &Self, v: u32) -> Result<(), String> {
		eq("offset", &self.offset, &y.offset)?;
		same_body(&self.body, &y.body, v)
	}
	fn shape(&self) -> (bool, String) {
		body_shape(&self.body)
	}
	fn lossless(&self) -> u32 {
		body_lossless(&self.body)
	}
	fn unsupported(&self, v: u32) -> bool {
		body_unsupported(&self.body, v)
	}
	fn mutations(&self, v: u32, b: &[u8], out: &mut Vec<Mutation>) {
		body_mutations(&self.body, v, 32, b, out);
	}
	fn classes(&self) -> Vec<String> {
		let b = &self.body;
		let mut c = vec![format!("tx_inputs_encoding:{}", b.inputs.version_str())];
		if b.inputs.len() >= 2 && b.outputs.len() >= 2 && b.kernels.len() >= 2 {
			c.push("tx_with_2plus_of_each".into());
		}
		if b.inputs.is_empty() && b.outputs.is_empty() && b.kernels.is_empty() {
			c.push("tx_empty".into());
		}
		c
	}
}

// ------------------------------------------------------------------ Obj: headers, proofs, blocks

/// padding-bit and edge-bits violations for a proof whose encoding ends at `end`
fn proof_mutations(p: &Proof, b: &[u8], end: usize, out: &mut Vec<Mutation>) {
	let bits = p.edge_bits as usize * global::proofsize();
	let len = (bits + 7) / 8;
	let eb_at = end - len - 1;
	for e in [0u8, 64, 0xff] {
		mutate(out, "proof-edge-bits-out-of-range", true, b, |m| m[eb_at] = e);
	}
	if bits % 8 != 0 {
		// packed little-endian: the unused bits are the high bits of the last byte
		for bit in [7usize, bits % 8] {
			mutate(out, "proof-padding-bit-set", true, b, |m| m[end - 1] |= 1 << bit);
		}
	}
}

fn proof_shape(p: &Proof) -> String {
	let n = global::proofsize();
	let sorted = p.nonces.windows(2).all(|w| w[0] <= w[1]);
	format!("n{}e{}{}{}", n, p.edge_bits, if (p.edge_bits as usize * n) % 8 != 0 { "pad" } else { "" }, if sorted { "" } else { "u" })
}

impl Obj for Proof {
	fn tag() -> String {
		"Proof".into()
	}
	fn same(&self, y: &Self, _v: u32) -> Result<(), String> {
		eq("proof", self, y)
	}
	fn shape(&self) -> (bool, String) {
		(true, proof_shape(self))
	}
	fn id_hash(&self) -> Option<Hash> {
		Some(self.hash())
	}
	fn id_preimage(&self) -> Option<Vec<u8>> {
		// the hash covers the packed nonces without the edge_bits byte
		enc(self, 1).ok().map(|b| b[1..].to_vec())
	}
	fn mutations(&self, _v: u32, b: &[u8], out: &mut Vec<Mutation>) {
		proof_mutations(self, b, b.len(), out);
	}
	fn classes(&self) -> Vec<String> {
		vec![format!("proof_size_{}_edge_bits:{}", global::proofsize(), self.edge_bits)]
	}
}

impl Obj for ProofOfWork {
	fn tag() -> String {
		"ProofOfWork".into()
	}
	fn same(&self, y: &Self, _v: u32) -> Result<(), String> {
		eq("pow", self, y)
	}
	fn shape(&self) -> (bool, String) {
		(true, proof_shape(&self.proof))
	}
	fn mutations(&self, _v: u32, b: &[u8], out: &mut Vec<Mutation>) {
		proof_mutations(&self.proof, b, b.len(), out);
	}
}

fn header_shape(h: &BlockHeader) -> String {
	format!("v{}{}{}", h.version.0.min(6), if h.timestamp.timestamp() < 0 { "neg" } else { "" }, proof_shape(&h.pow.proof))
}

impl Obj for BlockHeader {
	fn tag() -> String {
		"BlockHeader".into()
	}
	fn same(&self, y: &Self, _v: u32) -> Result<(), String> {
		eq("header", self, y)
	}
	fn shape(&self) -> (bool, String) {
		(true, header_shape(self))
	}
	fn id_hash(&self) -> Option<Hash> {
		Some(self.hash())
	}
	fn id_preimage(&self) -> Option<Vec<u8>> {
		enc(&self.pow.proof, 1).ok().map(|b| b[1..].to_vec())
	}
	fn mutations(&self, _v: u32, b: &[u8], out: &mut Vec<Mutation>) {
		proof_mutations(&self.pow.proof, b, b.len(), out);
	}
}

impl Obj for Block {
	fn tag() -> String {
		"Block".into()
	}
	fn same(&self, y: &Self, v: u32) -> Result<(), String> {
		eq("header", &self.header, &y.header)?;
		same_body(&self.body, &y.body, v)
	}
	fn shape(&self) -> (bool, String) {
		let (nt, s) = body_shape(&self.body);
		(nt, format!("{}|{}", header_shape(&self.header), s))
	}
	fn lossless(&self) -> u32 {
		body_lossless(&self.body)
	}
	fn unsupported(&self, v: u32) -> bool {
		body_unsupported(&self.body, v)
	}
	fn id_hash(&self) -> Option<Hash> {
		Some(self.hash())
	}
	fn id_preimage(&self) -> Option<Vec<u8>> {
		enc(&self.header.pow.proof, 1).ok().map(|b| b[1..].to_vec())
	}
	fn mutations(&self, v: u32, b: &[u8], out: &mut Vec<Mutation>) {
		if let Ok(h) = enc(&self.header, v) {
			proof_mutations(&self.header.pow.proof, b, h.len(), out);
			body_mutations(&self.body, v, h.len(), b, out);
		}
	}
}

impl Obj for CompactBlock {
	fn tag() -> String {
		"CompactBlock".into()
	}
	fn same(&self, y: &Self, _v: u32) -> Result<(), String> {
		eq("header", &self.header, &y.header)?;
		eq("nonce", &self.nonce, &y.nonce)?;
		same_list("out_full", self.out_full(), y.out_full(), same_output)?;
		same_list("kern_full", self.kern_full(), y.kern_full(), same_kernel)?;
		same_list("kern_ids", self.kern_ids(), y.kern_ids(), |a, b| {
			if a.as_ref() == b.as_ref() {
				Ok(())
			} else {
				Err(format!("{:?} != {:?}", a, b))
			}
		})
	}
	fn shape(&self) -> (bool, String) {
		let nt = self.out_full().len() >= 2 || self.kern_full().len() >= 2 || self.kern_ids().len() >= 2;
		(nt, format!("o{}k{}i{}", self.out_full().len().min(3), self.kern_full().len().min(3), self.kern_ids().len().min(3)))
	}
	fn id_hash(&self) -> Option<Hash> {
		Some(self.hash())
	}
	fn id_preimage(&self) -> Option<Vec<u8>> {
		enc(&self.header.pow.proof, 1).ok().map(|b| b[1..].to_vec())
	}
	fn mutations(&self, v: u32, b: &[u8], out: &mut Vec<Mutation>) {
		let Ok(h) = enc(&self.header, v) else { return };
		let start = h.len() + 8;
		let mut at = start + 24;
		let mut lists = vec![];
		let mut items = vec![];
		for o in self.out_full() {
			let w = enc(o, v).map(|b| b.len()).unwrap_or(0);
			items.push(at..at + w);
			at += w;
		}
		lists.push(ListLayout { count_at: start, items });
		let mut items = vec![];
		for k in self.kern_full() {
			let w = enc(k, v).map(|b| b.len()).unwrap_or(0);
			items.push(at..at + w);
			at += w;
		}
		lists.push(ListLayout { count_at: start + 8, items });
		let mut items = vec![];
		for _ in self.kern_ids() {
			items.push(at..at + 6);
			at += 6;
		}
		lists.push(ListLayout { count_at: start + 16, items });
		if at != b.len() {
			out.push(Mutation { rule: "layout-mismatch", bytes: format!("compact block end {} != {}", at, b.len()).into_bytes(), strict: false, sig: None });
			return;
		}
		list_mutations(&lists[0], ("cb-outputs-unsorted", "cb-outputs-duplicate", "count-more-cb-outputs"), b, out);
		list_mutations(&lists[1], ("cb-kernels-unsorted", "cb-kernels-duplicate", "count-more-cb-kernels"), b, out);
		list_mutations(&lists[2], ("cb-shortids-unsorted", "cb-shortids-duplicate", "count-more-cb-shortids"), b, out);
	}
}

impl Obj for HeaderEntry {
	fn tag() -> String {
		"HeaderEntry".into()
	}
	fn same(&self, y: &Self, _v: u32) -> Result<(), String> {
		// fields are private: the derived Debug output lists all of them
		eq("entry", &format!("{:?}", self), &format!("{:?}", y))
	}
	fn shape(&self) -> (bool, String) {
		let s = format!("{:?}", self);
		(s.contains("is_secondary: true"), if s.contains("is_secondary: true") { "secondary".into() } else { "primary".into() })
	}
}

impl Obj for Tip {
	fn tag() -> String {
		"Tip".into()
	}
	fn same(&self, y: &Self, _v: u32) -> Result<(), String> {
		eq("tip", self, y)
	}
	fn shape(&self) -> (bool, String) {
		(false, "tip".into())
	}
}

impl Obj for CommitPos {
	fn tag() -> String {
		"CommitPos".into()
	}
	fn same(&self, y: &Self, _v: u32) -> Result<(), String> {
		eq("commitpos", self, y)
	}
	fn shape(&self) -> (bool, String) {
		(false, "pos".into())
	}
}

impl Obj for BlockSums {
	fn tag() -> String {
		"BlockSums".into()
	}
	fn same(&self, y: &Self, _v: u32) -> Result<(), String> {
		eq("utxo_sum", &self.utxo_sum, &y.utxo_sum)?;
		eq("kernel_sum", &self.kernel_sum, &y.kernel_sum)
	}
	fn shape(&self) -> (bool, String) {
		(false, "sums".into())
	}
}

impl Obj for MerkleProof {
	fn tag() -> String {
		"MerkleProof".into()
	}
	fn same(&self, y: &Self, _v: u32) -> Result<(), String> {
		eq("merkle proof", self, y)
	}
	fn shape(&self) -> (bool, String) {
		(self.path.len() >= 2, format!("p{}", self.path.len().min(4)))
	}
	fn mutations(&self, _v: u32, b: &[u8], out: &mut Vec<Mutation>) {
		let n = self.path.len() as u64;
		mutate(out, "count-more-merkle-path", true, b, |m| put64(m, 8, n + 1));
	}
}

/// `Headers` has a writer only (the node reads it through the streaming
/// codec as untrusted headers); read here as count + plain `BlockHeader`s.
pub struct HeadersW(Headers);

impl Writeable for HeadersW {
	fn write<W: Writer>(&self, w: &mut W) -> Result<(), ser::Error> {
		self.0.write(w)
	}
}

impl Readable for HeadersW {
	fn read<R: Reader>(r: &mut R) -> Result<Self, ser::Error> {
		let n = r.read_u16()?;
		let mut headers = vec![];
		for _ in 0..n {
			headers.push(BlockHeader::read(r)?);
		}
		Ok(HeadersW(Headers { headers }))
	}
}

impl Obj for HeadersW {
	fn tag() -> String {
		"Headers".into()
	}
	fn same(&self, y: &Self, _v: u32) -> Result<(), String> {
		same_list("headers", &self.0.headers, &y.0.headers, |a, b| eq("header", a, b))
	}
	fn shape(&self) -> (bool, String) {
		(self.0.headers.len() >= 2, format!("h{}n{}", self.0.headers.len().min(4), global::proofsize()))
	}
	fn mutations(&self, _v: u32, b: &[u8], out: &mut Vec<Mutation>) {
		let n = self.0.headers.len() as u16;
		mutate(out, "count-more-headers", true, b, |m| m[0..2].copy_from_slice(&(n + 1).to_be_bytes()));
		if let Some(h) = self.0.headers.last() {
			proof_mutations(&h.pow.proof, b, b.len(), out);
		}
	}
}

// ------------------------------------------------------------------ Obj: segments

/// segment height byte at `at` set to heights the position arithmetic cannot represent
fn segment_height_mutations(b: &[u8], at: usize, out: &mut Vec<Mutation>) {
	for h in [64u8, 65, 128, 255] {
		mutate_sig(out, "segment-height-out-of-range", "noncanonical-accepted:SegmentIdentifier:height", b, |m| m[at] = h);
	}
}

impl Obj for SegmentIdentifier {
	fn tag() -> String {
		"SegmentIdentifier".into()
	}
	fn same(&self, y: &Self, _v: u32) -> Result<(), String> {
		eq("segment id", self, y)
	}
	fn shape(&self) -> (bool, String) {
		(self.height > 0, format!("h{}", if (9..=13).contains(&self.height) { "node" } else if self.height == 63 { "max" } else if self.height == 0 { "0" } else { "x" }))
	}
	fn mutations(&self, _v: u32, b: &[u8], out: &mut Vec<Mutation>) {
		segment_height_mutations(b, 0, out);
	}
}

impl Obj for SegmentProof {
	fn tag() -> String {
		"SegmentProof".into()
	}
	fn same(&self, y: &Self, _v: u32) -> Result<(), String> {
		eq("segment proof", self, y)
	}
	fn shape(&self) -> (bool, String) {
		(self.size() >= 2, format!("p{}", self.size().min(4)))
	}
	fn mutations(&self, _v: u32, b: &[u8], out: &mut Vec<Mutation>) {
		let n = self.size() as u64;
		mutate(out, "count-more-segment-proof", true, b, |m| put64(m, 0, n + 1));
	}
}

fn position_mutations(b: &[u8], at: usize, n: usize, names: (&'static str, &'static str, &'static str), out: &mut Vec<Mutation>) {
	for i in 0..n.saturating_sub(1) {
		let (p, q) = (at + 8 * i, at + 8 * (i + 1));
		mutate(out, names.0, true, b, |m| {
			let a = be64(b, p);
			let c = be64(b, q);
			put64(m, p, c);
			put64(m, q, a);
		});
		mutate(out, names.1, true, b, |m| put64(m, q, be64(b, p)));
	}
	if n >= 1 {
		mutate(out, names.2, true, b, |m| put64(m, at, 0));
	}
}

impl<T: Obj + Clone + std::fmt::Debug> Obj for Segment<T> {
	fn tag() -> String {
		format!("Segment<{}>", T::tag())
	}
	fn same(&self, y: &Self, v: u32) -> Result<(), String> {
		let (i1, hp1, h1, lp1, l1, p1) = self.clone().parts();
		let (i2, hp2, h2, lp2, l2, p2) = y.clone().parts();
		eq("identifier", &i1, &i2)?;
		eq("hash_pos", &hp1, &hp2)?;
		eq("hashes", &h1, &h2)?;
		eq("leaf_pos", &lp1, &lp2)?;
		same_list("leaf_data", &l1, &l2, |a, b| a.same(b, v))?;
		eq("proof", &p1, &p2)
	}
	fn shape(&self) -> (bool, String) {
		let nh = self.hash_iter().count();
		let nl = self.leaf_iter().count();
		(nh >= 2 || nl >= 2, format!("h{}l{}p{}", nh.min(3), nl.min(3), self.proof().size().min(3)))
	}
	fn mutations(&self, _v: u32, b: &[u8], out: &mut Vec<Mutation>) {
		let nh = self.hash_iter().count();
		let nl = self.leaf_iter().count();
		let np = self.proof().size();
		let nl_at = 17 + 40 * nh;
		let proof_at = b.len() - 8 - 32 * np;
		if be64(b, 9) != nh as u64 || be64(b, nl_at) != nl as u64 || be64(b, proof_at) != np as u64 {
			out.push(Mutation { rule: "layout-mismatch", bytes: b"segment count fields not where expected".to_vec(), strict: false, sig: None });
			return;
		}
		segment_height_mutations(b, 0, out);
		position_mutations(b, 17, nh, ("segment-hash-pos-unsorted", "segment-hash-pos-repeated", "segment-hash-pos-zero"), out);
		position_mutations(b, nl_at + 8, nl, ("segment-leaf-pos-unsorted", "segment-leaf-pos-repeated", "segment-leaf-pos-zero"), out);
		mutate(out, "count-more-segment-hashes", false, b, |m| put64(m, 9, nh as u64 + 1));
		mutate(out, "count-more-segment-leaves", false, b, |m| put64(m, nl_at, nl as u64 + 1));
		mutate(out, "count-more-segment-proof", true, b, |m| put64(m, proof_at, np as u64 + 1));
	}
}

/// (offset of block, n_chunks, mode, index count) for each block of an encoded BitmapSegment
fn bitmap_blocks(b: &[u8]) -> Option<Vec<(usize, usize, u8, usize)>> {
	let n = u16::from_be_bytes([*b.get(9)?, *b.get(10)?]) as usize;
	let mut at = 11;
	let mut v = vec![];
	for _ in 0..n {
		let nc = *b.get(at)? as usize;
		let mode = *b.get(at + 1)?;
		let (cnt, len) = match mode {
			0 => (0, nc * 128),
			1 | 2 => {
				let c = u16::from_be_bytes([*b.get(at + 2)?, *b.get(at + 3)?]) as usize;
				(c, 2 + 2 * c)
			}
			_ => return None,
		};
		v.push((at, nc, mode, cnt));
		at += 2 + len;
	}
	if at > b.len() {
		return None;
	}
	Some(v)
}

impl Obj for BitmapSegment {
	fn tag() -> String {
		"BitmapSegment".into()
	}
	fn same(&self, y: &Self, _v: u32) -> Result<(), String> {
		if self == y {
			Ok(())
		} else {
			Err("bitmap segments differ".into())
		}
	}
	fn shape(&self) -> (bool, String) {
		let b = enc(self, 1).unwrap_or_default();
		let blocks = bitmap_blocks(&b).unwrap_or_default();
		let modes: String = blocks.iter().take(3).map(|x| char::from(b'0' + x.2)).collect();
		let thr = blocks.iter().any(|x| (4090..4096).contains(&x.3));
		(blocks.len() >= 2 || modes != "1", format!("b{}m{}{}", blocks.len().min(3), modes, if thr { "t" } else { "" }))
	}
	fn mutations(&self, _v: u32, b: &[u8], out: &mut Vec<Mutation>) {
		let Some(blocks) = bitmap_blocks(b) else {
			out.push(Mutation { rule: "layout-mismatch", bytes: b"bitmap segment blocks not parseable".to_vec(), strict: false, sig: None });
			return;
		};
		let n = blocks.len() as u16;
		segment_height_mutations(b, 0, out);
		for &(at, nc, mode, cnt) in [blocks.first(), blocks.last()].into_iter().flatten() {
			for t in [3u8, 0x80, 0xff] {
				mutate(out, "bitmap-block-mode-unknown", true, b, |m| m[at + 1] = t);
			}
			if mode != 0 && cnt >= 1 && nc < 64 {
				mutate(out, "bitmap-index-out-of-range", true, b, |m| m[at + 4..at + 6].copy_from_slice(&0xffffu16.to_be_bytes()));
			}
			if mode != 0 {
				let idx_at = |i: usize| at + 4 + 2 * i;
				let (r_unsorted, r_repeated) = if mode == 1 {
					("bitmap-positive-indices-unsorted", "bitmap-positive-index-repeated")
				} else {
					("bitmap-negative-indices-unsorted", "bitmap-negative-index-repeated")
				};
				// adjacent pairs at the start, middle and end of the index list
				let mut pairs = vec![];
				if cnt >= 2 {
					pairs = vec![0, (cnt - 2) / 2, cnt - 2];
					pairs.dedup();
				}
				for i in pairs {
					let (p, q) = (idx_at(i), idx_at(i + 1));
					mutate_sig(out, r_unsorted, "noncanonical-accepted:BitmapBlock:unsorted-indices", b, |m| {
						m[p..p + 2].copy_from_slice(&b[q..q + 2]);
						m[q..q + 2].copy_from_slice(&b[p..p + 2]);
					});
					// same count, second of the pair overwritten by the first
					mutate_sig(out, r_repeated, "noncanonical-accepted:BitmapBlock:repeated-index", b, |m| m[q..q + 2].copy_from_slice(&b[p..p + 2]));
				}
				if cnt >= 1 && cnt < 0xffff {
					// one index written twice, count adjusted
					for i in if cnt == 1 { vec![0] } else { vec![0, cnt - 1] } {
						let p = idx_at(i);
						mutate_sig(out, r_repeated, "noncanonical-accepted:BitmapBlock:repeated-index", b, |m| {
							let dup = b[p..p + 2].to_vec();
							let tail = m.split_off(p + 2);
							m.extend_from_slice(&dup);
							m.extend_from_slice(&tail);
							m[at + 2..at + 4].copy_from_slice(&(cnt as u16 + 1).to_be_bytes());
						});
					}
				}
			}
		}
		mutate(out, "bitmap-zero-blocks", true, b, |m| m[9..11].copy_from_slice(&0u16.to_be_bytes()));
		mutate(out, "count-more-bitmap-blocks", false, b, |m| m[9..11].copy_from_slice(&(n + 1).to_be_bytes()));
	}
	fn classes(&self) -> Vec<String> {
		let b = enc(self, 1).unwrap_or_default();
		let mut c = vec![];
		for (_, nc, mode, cnt) in bitmap_blocks(&b).unwrap_or_default() {
			c.push(format!("bitmap_block_mode:{}", ["raw", "positive", "negative"][mode as usize % 3]));
			if mode != 0 && cnt == 4095 {
				c.push(format!("bitmap_block_at_threshold:{}:4095", ["raw", "positive", "negative"][mode as usize % 3]));
			}
			if mode == 0 && nc < 64 {
				c.push("bitmap_block_raw_partial".into());
			}
		}
		c
	}
}

fn same_hash(what: &str, a: &Hash, b: &Hash) -> Result<(), String> {
	eq(what, a, b)
}

impl Obj for SegmentRequest {
	fn tag() -> String {
		"SegmentRequest".into()
	}
	fn same(&self, y: &Self, _v: u32) -> Result<(), String> {
		same_hash("block_hash", &self.block_hash, &y.block_hash)?;
		eq("identifier", &self.identifier, &y.identifier)
	}
	fn shape(&self) -> (bool, String) {
		(false, "req".into())
	}
	fn mutations(&self, _v: u32, b: &[u8], out: &mut Vec<Mutation>) {
		segment_height_mutations(b, 32, out);
	}
}

impl<T: Obj + Clone + std::fmt::Debug> Obj for SegmentResponse<T> {
	fn tag() -> String {
		format!("SegmentResponse<{}>", T::tag())
	}
	fn same(&self, y: &Self, v: u32) -> Result<(), String> {
		same_hash("block_hash", &self.block_hash, &y.block_hash)?;
		self.segment.same(&y.segment, v)
	}
	fn shape(&self) -> (bool, String) {
		self.segment.shape()
	}
	fn mutations(&self, _v: u32, b: &[u8], out: &mut Vec<Mutation>) {
		segment_height_mutations(b, 32, out);
	}
}

impl Obj for OutputSegmentResponse {
	fn tag() -> String {
		"OutputSegmentResponse".into()
	}
	fn same(&self, y: &Self, v: u32) -> Result<(), String> {
		self.response.same(&y.response, v)?;
		same_hash("output_bitmap_root", &self.output_bitmap_root, &y.output_bitmap_root)
	}
	fn shape(&self) -> (bool, String) {
		self.response.shape()
	}
	fn mutations(&self, _v: u32, b: &[u8], out: &mut Vec<Mutation>) {
		segment_height_mutations(b, 32, out);
	}
}

impl Obj for OutputBitmapSegmentResponse {
	fn tag() -> String {
		"OutputBitmapSegmentResponse".into()
	}
	fn same(&self, y: &Self, v: u32) -> Result<(), String> {
		same_hash("block_hash", &self.block_hash, &y.block_hash)?;
		self.segment.same(&y.segment, v)?;
		same_hash("output_root", &self.output_root, &y.output_root)
	}
	fn shape(&self) -> (bool, String) {
		self.segment.shape()
	}
	fn mutations(&self, _v: u32, b: &[u8], out: &mut Vec<Mutation>) {
		segment_height_mutations(b, 32, out);
	}
}

// ------------------------------------------------------------------ Obj: handshake and sync messages

fn same_addr(what: &str, a: &PeerAddr, b: &PeerAddr) -> Result<(), String> {
	// PeerAddr's own == ignores the port of non-loopback addresses
	eq(what, &a.0, &b.0)
}

const SIG_FAMILY_TAG: &str = "noncanonical-accepted:PeerAddr:family-tag";

/// address family byte at `at` replaced by values the writer never emits
fn family_tag_mutations(b: &[u8], at: usize, tags: impl Iterator<Item = u8>, out: &mut Vec<Mutation>) {
	for t in tags {
		mutate_sig(out, "peeraddr-family-tag-unknown", SIG_FAMILY_TAG, b, |m| m[at] = t);
	}
}

fn addr_len(a: &PeerAddr) -> usize {
	if a.0.is_ipv6() {
		19
	} else {
		7
	}
}

fn addr_shape(a: &PeerAddr) -> &'static str {
	match a.0 {
		SocketAddr::V4(_) => "v4",
		SocketAddr::V6(s) => {
			if s.ip().segments()[..6] == [0, 0, 0, 0, 0, 0] {
				"v6compat"
			} else {
				"v6"
			}
		}
	}
}

impl Obj for PeerAddr {
	fn tag() -> String {
		"PeerAddr".into()
	}
	fn same(&self, y: &Self, _v: u32) -> Result<(), String> {
		same_addr("addr", self, y)
	}
	fn shape(&self) -> (bool, String) {
		(self.0.is_ipv6(), addr_shape(self).into())
	}
	fn mutations(&self, v: u32, b: &[u8], out: &mut Vec<Mutation>) {
		if v == ProtocolVersion::local().0 {
			// the whole range of family bytes the writer never emits
			family_tag_mutations(b, 0, 2..=255u8, out);
		} else {
			family_tag_mutations(b, 0, [2u8, 3, 0x7f, 0x80, 0xff].into_iter(), out);
		}
	}
	fn classes(&self) -> Vec<String> {
		vec![format!("peeraddr:{}", addr_shape(self))]
	}
}

impl Obj for PeerAddrs {
	fn tag() -> String {
		"PeerAddrs".into()
	}
	fn same(&self, y: &Self, _v: u32) -> Result<(), String> {
		same_list("peers", &self.peers, &y.peers, |a, b| same_addr("addr", a, b))
	}
	fn shape(&self) -> (bool, String) {
		let v6 = self.peers.iter().any(|p| p.0.is_ipv6());
		(self.peers.len() >= 2, format!("n{}{}", self.peers.len().min(4), if v6 { "v6" } else { "" }))
	}
	fn mutations(&self, _v: u32, b: &[u8], out: &mut Vec<Mutation>) {
		let n = self.peers.len() as u32;
		mutate(out, "count-more-peer-addrs", true, b, |m| m[0..4].copy_from_slice(&(n + 1).to_be_bytes()));
		let mut at = 4;
		for (i, p) in self.peers.iter().enumerate() {
			if i == 0 || i + 1 == self.peers.len() {
				let sweep = [2u8, 3, 0x7f, 0x80, 0xff, (at as u8).wrapping_mul(37) | 2];
				family_tag_mutations(b, at, sweep.into_iter(), out);
			}
			at += addr_len(p);
		}
	}
}

impl Obj for Hand {
	fn tag() -> String {
		"Hand".into()
	}
	fn same(&self, y: &Self, _v: u32) -> Result<(), String> {
		eq("version", &self.version, &y.version)?;
		eq("capabilities", &self.capabilities, &y.capabilities)?;
		eq("nonce", &self.nonce, &y.nonce)?;
		eq("genesis", &self.genesis, &y.genesis)?;
		eq("total_difficulty", &self.total_difficulty, &y.total_difficulty)?;
		same_addr("sender_addr", &self.sender_addr, &y.sender_addr)?;
		same_addr("receiver_addr", &self.receiver_addr, &y.receiver_addr)?;
		eq("user_agent", &self.user_agent, &y.user_agent)
	}
	fn shape(&self) -> (bool, String) {
		let v6 = self.sender_addr.0.is_ipv6() || self.receiver_addr.0.is_ipv6();
		(v6 || !self.user_agent.is_ascii(), format!("{}{}", if v6 { "v6" } else { "v4" }, if self.user_agent.is_ascii() { "" } else { "u" }))
	}
	fn mutations(&self, _v: u32, b: &[u8], out: &mut Vec<Mutation>) {
		let n = self.user_agent.len() as u64;
		let at = b.len() - 32 - self.user_agent.len() - 8;
		if be64(b, at) == n {
			mutate(out, "count-more-string-bytes", true, b, |m| put64(m, at, n + 1));
		}
		// version(4) capabilities(4) nonce(8) total_difficulty(8) sender receiver
		let s_at = 24;
		let r_at = s_at + addr_len(&self.sender_addr);
		let sweep = [2u8, 3, 0x7f, 0x80, 0xff, (self.nonce as u8) | 2];
		family_tag_mutations(b, s_at, sweep.into_iter(), out);
		family_tag_mutations(b, r_at, sweep.into_iter(), out);
	}
}

impl Obj for Shake {
	fn tag() -> String {
		"Shake".into()
	}
	fn same(&self, y: &Self, _v: u32) -> Result<(), String> {
		eq("version", &self.version, &y.version)?;
		eq("capabilities", &self.capabilities, &y.capabilities)?;
		eq("genesis", &self.genesis, &y.genesis)?;
		eq("total_difficulty", &self.total_difficulty, &y.total_difficulty)?;
		eq("user_agent", &self.user_agent, &y.user_agent)
	}
	fn shape(&self) -> (bool, String) {
		(!self.user_agent.is_ascii(), if self.user_agent.is_ascii() { "a".into() } else { "u".into() })
	}
	fn mutations(&self, _v: u32, b: &[u8], out: &mut Vec<Mutation>) {
		let n = self.user_agent.len() as u64;
		mutate(out, "count-more-string-bytes", true, b, |m| put64(m, 16, n + 1));
	}
}

macro_rules! simple_obj {
	($t:ty, $tag:expr, |$a:ident, $b:ident| $same:block) => {
		impl Obj for $t {
			fn tag() -> String {
				$tag.into()
			}
			fn same(&self, y: &Self, _v: u32) -> Result<(), String> {
				let ($a, $b) = (self, y);
				$same
			}
			fn shape(&self) -> (bool, String) {
				(false, "msg".into())
			}
		}
	};
}

simple_obj!(Ping, "Ping", |a, b| {
	eq("total_difficulty", &a.total_difficulty, &b.total_difficulty)?;
	eq("height", &a.height, &b.height)
});
simple_obj!(Pong, "Pong", |a, b| {
	eq("total_difficulty", &a.total_difficulty, &b.total_difficulty)?;
	eq("height", &a.height, &b.height)
});
simple_obj!(GetPeerAddrs, "GetPeerAddrs", |a, b| { eq("capabilities", &a.capabilities, &b.capabilities) });
simple_obj!(TxHashSetRequest, "TxHashSetRequest", |a, b| {
	eq("hash", &a.hash, &b.hash)?;
	eq("height", &a.height, &b.height)
});
simple_obj!(TxHashSetArchive, "TxHashSetArchive", |a, b| {
	eq("hash", &a.hash, &b.hash)?;
	eq("height", &a.height, &b.height)?;
	eq("bytes", &a.bytes, &b.bytes)
});

impl Obj for PeerError {
	fn tag() -> String {
		"PeerError".into()
	}
	fn same(&self, y: &Self, _v: u32) -> Result<(), String> {
		eq("code", &self.code, &y.code)?;
		eq("message", &self.message, &y.message)
	}
	fn shape(&self) -> (bool, String) {
		(!self.message.is_ascii(), if self.message.is_ascii() { "a".into() } else { "u".into() })
	}
	fn mutations(&self, _v: u32, b: &[u8], out: &mut Vec<Mutation>) {
		let n = self.message.len() as u64;
		mutate(out, "count-more-string-bytes", true, b, |m| put64(m, 4, n + 1));
	}
}

impl Obj for BanReason {
	fn tag() -> String {
		"BanReason".into()
	}
	fn same(&self, y: &Self, _v: u32) -> Result<(), String> {
		eq("ban_reason", &self.ban_reason, &y.ban_reason)
	}
	fn shape(&self) -> (bool, String) {
		(self.ban_reason != ReasonForBan::None, format!("{:?}", self.ban_reason))
	}
	fn mutations(&self, _v: u32, b: &[u8], out: &mut Vec<Mutation>) {
		for code in [8i32, -1, i32::MAX] {
			mutate(out, "ban-reason-code-unknown", true, b, |m| m[0..4].copy_from_slice(&code.to_be_bytes()));
		}
	}
}

impl Obj for Locator {
	fn tag() -> String {
		"Locator".into()
	}
	fn same(&self, y: &Self, _v: u32) -> Result<(), String> {
		eq("hashes", &self.hashes, &y.hashes)
	}
	fn shape(&self) -> (bool, String) {
		(self.hashes.len() >= 2, format!("n{}", self.hashes.len().min(4)))
	}
	fn mutations(&self, _v: u32, b: &[u8], out: &mut Vec<Mutation>) {
		let n = self.hashes.len() as u8;
		mutate(out, "count-more-locator-hashes", true, b, |m| m[0] = n + 1);
	}
}

/// `MsgHeader` is read through `MsgHeaderWrapper`; a header of an unknown
/// type is not a `MsgHeader` value.
pub struct MsgHeaderW(MsgHeader);

impl Writeable for MsgHeaderW {
	fn write<W: Writer>(&self, w: &mut W) -> Result<(), ser::Error> {
		self.0.write(w)
	}
}

impl Readable for MsgHeaderW {
	fn read<R: Reader>(r: &mut R) -> Result<Self, ser::Error> {
		match MsgHeaderWrapper::read(r)? {
			MsgHeaderWrapper::Known(h) => Ok(MsgHeaderW(h)),
			MsgHeaderWrapper::Unknown(_, _) => Err(ser::Error::CorruptedData),
		}
	}
}

impl Obj for MsgHeaderW {
	fn tag() -> String {
		"MsgHeader".into()
	}
	fn same(&self, y: &Self, _v: u32) -> Result<(), String> {
		eq("msg_type", &self.0.msg_type, &y.0.msg_type)?;
		eq("msg_len", &self.0.msg_len, &y.0.msg_len)
	}
	fn shape(&self) -> (bool, String) {
		(self.0.msg_type != Type::Error, format!("{:?}", self.0.msg_type))
	}
	fn mutations(&self, _v: u32, b: &[u8], out: &mut Vec<Mutation>) {
		mutate(out, "msg-magic-wrong", true, b, |m| m[0] ^= 0x20);
		mutate(out, "msg-magic-wrong", true, b, |m| m[1] ^= 0x01);
	}
}

// ------------------------------------------------------------------ specs (what proptest generates) and builders

#[derive(Clone, Debug)]
pub struct KSpec {
	kind: u8,
	/// 0 = FeeFields::zero() (as in TxKernel::empty())
	fee: u64,
	shift: u8,
	lock: u64,
	rel: u16,
	/// index into COMMITS; 255 = the all-zero excess of TxKernel::with_features
	excess: u8,
	sig: u64,
}

impl KSpec {
	fn features(&self) -> KernelFeatures {
		let fee = if self.fee == 0 { FeeFields::zero() } else { FeeFields::new(self.shift as u64, self.fee).expect("fee fields") };
		match self.kind {
			0 => KernelFeatures::Plain { fee },
			1 => KernelFeatures::Coinbase,
			2 => KernelFeatures::HeightLocked { fee, lock_height: self.lock },
			_ => KernelFeatures::NoRecentDuplicate { fee, relative_height: NRDRelativeHeight::new(self.rel as u64).expect("nrd height") },
		}
	}
	fn excess(&self) -> Commitment {
		if self.excess == 255 {
			Commitment::from_vec(vec![0; 33])
		} else {
			COMMITS[self.excess as usize]
		}
	}
	fn kernel(&self) -> TxKernel {
		let s = expand(self.sig, 1, 64);
		let mut a = [0u8; 64];
		a.copy_from_slice(&s);
		TxKernel { features: self.features(), excess: self.excess(), excess_sig: Signature::from_raw_data(&a).expect("sig") }
	}
	fn from_seed(seed: u64, i: u64) -> KSpec {
		let x = u64_from(seed, (i % 200) as u8);
		KSpec {
			kind: (x % 4) as u8,
			fee: 1 + (x >> 8) % ((1u64 << 40) - 1),
			shift: ((x >> 3) % 16) as u8,
			lock: x.rotate_left(17),
			rel: 1 + ((x >> 20) % WEEK_HEIGHT) as u16,
			excess: ((x >> 50) % 255) as u8,
			sig: x,
		}
	}
}

fn kspec() -> impl Strategy<Value = KSpec> {
	(
		0u8..4,
		prop_oneof![6 => 1u64..(1u64 << 40), 1 => Just(1u64), 1 => Just((1u64 << 40) - 1), 1 => Just(0u64)],
		prop_oneof![2 => Just(0u8), 1 => 0u8..16, 1 => Just(15u8)],
		prop_oneof![3 => any::<u64>(), 1 => Just(0u64), 1 => Just(u64::MAX), 1 => 0u64..1000],
		prop_oneof![4 => 1u16..=(WEEK_HEIGHT as u16), 1 => Just(1u16), 1 => Just(WEEK_HEIGHT as u16)],
		any::<u8>(),
		any::<u64>(),
	)
		.prop_map(|(kind, fee, shift, lock, rel, excess, sig)| KSpec { kind, fee, shift, lock, rel, excess, sig })
}

#[derive(Clone, Debug)]
pub struct OSpec {
	/// real bulletproof from the asset library, or synthetic proof bytes of the real length
	real: bool,
	idx: u8,
	cb: bool,
	pseed: u64,
}

impl OSpec {
	fn key(&self) -> (bool, u8) {
		(self.real, if self.real { self.idx % 24 } else { self.idx % 128 })
	}
	fn is_cb(&self) -> bool {
		if self.real {
			universe()[(self.idx % 24) as usize].cb
		} else {
			self.cb
		}
	}
	fn proof(seed: u64) -> RangeProof {
		let b = expand(seed, 2, PROOF_LEN);
		let mut proof = [0u8; PROOF_LEN];
		proof.copy_from_slice(&b);
		RangeProof { proof, plen: PROOF_LEN }
	}
	fn output(&self) -> Output {
		if self.real {
			LIB.output(&universe()[(self.idx % 24) as usize])
		} else {
			let f = if self.cb { OutputFeatures::Coinbase } else { OutputFeatures::Plain };
			Output::new(f, COMMITS[128 + (self.idx % 128) as usize], OSpec::proof(self.pseed))
		}
	}
}

fn ospec() -> impl Strategy<Value = OSpec> {
	(prop::bool::weighted(0.4), any::<u8>(), any::<bool>(), any::<u64>()).prop_map(|(real, idx, cb, pseed)| OSpec { real, idx, cb, pseed })
}

#[derive(Clone, Debug)]
pub struct BodySpec {
	inputs: Vec<(u8, bool)>,
	commit_only: bool,
	outs: Vec<OSpec>,
	kernels: Vec<KSpec>,
	offset: u64,
}

fn bodyspec() -> impl Strategy<Value = BodySpec> {
	(
		prop::collection::vec((0u8..128, any::<bool>()), 0..=6),
		any::<bool>(),
		prop::collection::vec(ospec(), 0..=4),
		prop::collection::vec(kspec(), 0..=4),
		any::<u64>(),
	)
		.prop_map(|(inputs, commit_only, outs, kernels, offset)| BodySpec { inputs, commit_only, outs, kernels, offset })
}

impl BodySpec {
	/// distinct entries; `tx_rules`: no coinbase outputs / kernels (Transaction::read refuses them)
	fn parts(&self, tx_rules: bool) -> (Inputs, Vec<Output>, Vec<TxKernel>) {
		let mut seen = std::collections::BTreeSet::new();
		let mut ins = vec![];
		for (i, cb) in &self.inputs {
			if seen.insert(*i) {
				ins.push(Input::new(if *cb { OutputFeatures::Coinbase } else { OutputFeatures::Plain }, COMMITS[*i as usize]));
			}
		}
		let inputs = if self.commit_only {
			let w: Vec<CommitWrapper> = ins.iter().map(CommitWrapper::from).collect();
			Inputs::from(&w[..])
		} else {
			Inputs::from(&ins[..])
		};
		let mut seen = std::collections::BTreeSet::new();
		let mut outs = vec![];
		for o in &self.outs {
			if tx_rules && o.is_cb() {
				continue;
			}
			if seen.insert(o.key()) {
				outs.push(o.output());
			}
		}
		let mut seen = std::collections::BTreeSet::new();
		let mut ks = vec![];
		for k in &self.kernels {
			let mut k = k.clone();
			if tx_rules && k.kind == 1 {
				k.kind = 0;
			}
			if seen.insert(k.excess) {
				ks.push(k.kernel());
			}
		}
		(inputs, outs, ks)
	}
	fn tx(&self) -> Transaction {
		let (i, o, k) = self.parts(true);
		Transaction::new(i, &o, &k).with_offset(BlindingFactor::from_slice(&expand(self.offset, 3, 32)))
	}
	fn body(&self) -> TransactionBody {
		let (i, o, k) = self.parts(false);
		TransactionBody::init(i, &o, &k, false).expect("init body")
	}
	fn inputs(&self) -> InputsW {
		InputsW(self.body().inputs)
	}
}

/// bounds `read_block_header` documents for the timestamp
fn ts_bounds() -> (i64, i64) {
	(
		chrono::NaiveDate::MIN.and_hms_opt(0, 0, 0).unwrap().and_utc().timestamp(),
		chrono::NaiveDate::MAX.and_hms_opt(0, 0, 0).unwrap().and_utc().timestamp(),
	)
}

#[derive(Clone, Debug)]
pub struct PrSpec {
	mainnet: bool,
	edge_bits: u8,
	nseed: u64,
	sorted: bool,
}

impl PrSpec {
	/// chain type must already be set (proof size 8 or 42)
	fn proof(&self) -> Proof {
		let n = global::proofsize();
		// smallest edge_bits whose packed proof is at least 8 bytes (Proof::read refuses shorter ones)
		let min_eb: u8 = if n == 8 { 8 } else { 2 };
		let eb = min_eb + self.edge_bits % (64 - min_eb);
		let mask = (1u64 << eb) - 1;
		let raw = expand(self.nseed, 4, 8 * n);
		let mut nonces: Vec<u64> = (0..n).map(|i| be64(&raw, 8 * i) & mask).collect();
		if self.nseed % 7 == 0 {
			nonces[n - 1] = mask;
		}
		if self.sorted {
			nonces.sort();
		}
		Proof { edge_bits: eb, nonces }
	}
}

fn prspec() -> impl Strategy<Value = PrSpec> {
	(any::<bool>(), prop_oneof![3 => any::<u8>(), 1 => Just(0u8), 1 => Just(255u8)], any::<u64>(), any::<bool>())
		.prop_map(|(mainnet, edge_bits, nseed, sorted)| PrSpec { mainnet, edge_bits, nseed, sorted })
}

#[derive(Clone, Debug)]
pub struct HSpec {
	version: u16,
	height: u64,
	ts: i64,
	seed: u64,
	out_size: u64,
	kern_size: u64,
	td: u64,
	scaling: u32,
	nonce: u64,
	proof: PrSpec,
}

fn u64_edges() -> impl Strategy<Value = u64> {
	prop_oneof![4 => any::<u64>(), 1 => Just(0u64), 1 => Just(u64::MAX), 2 => 0u64..100_000]
}

fn hspec() -> impl Strategy<Value = HSpec> {
	let (lo, hi) = ts_bounds();
	(
		prop_oneof![3 => 1u16..6, 1 => any::<u16>()],
		u64_edges(),
		prop_oneof![3 => lo..=hi, 1 => Just(lo), 1 => Just(hi), 1 => Just(0i64), 3 => 1_500_000_000i64..2_000_000_000, 1 => -100_000i64..100_000],
		any::<u64>(),
		u64_edges(),
		u64_edges(),
		u64_edges(),
		prop_oneof![3 => any::<u32>(), 1 => Just(0u32), 1 => Just(u32::MAX)],
		any::<u64>(),
		prspec(),
	)
		.prop_map(|(version, height, ts, seed, out_size, kern_size, td, scaling, nonce, proof)| HSpec {
			version,
			height,
			ts,
			seed,
			out_size,
			kern_size,
			td,
			scaling,
			nonce,
			proof,
		})
}

fn difficulty(n: u64) -> Difficulty {
	if n == 0 {
		Difficulty::zero()
	} else {
		Difficulty::from_num(n)
	}
}

impl HSpec {
	fn pow(&self) -> ProofOfWork {
		ProofOfWork { total_difficulty: difficulty(self.td), secondary_scaling: self.scaling, nonce: self.nonce, proof: self.proof.proof() }
	}
	fn header(&self) -> BlockHeader {
		BlockHeader {
			version: HeaderVersion(self.version),
			height: self.height,
			prev_hash: hash_from(self.seed, 10),
			prev_root: hash_from(self.seed, 11),
			timestamp: DateTime::<Utc>::from_timestamp(self.ts, 0).expect("timestamp in chrono range"),
			output_root: hash_from(self.seed, 12),
			range_proof_root: hash_from(self.seed, 13),
			kernel_root: hash_from(self.seed, 14),
			total_kernel_offset: BlindingFactor::from_slice(&expand(self.seed, 15, 32)),
			output_mmr_size: self.out_size,
			kernel_mmr_size: self.kern_size,
			pow: self.pow(),
		}
	}
}

#[derive(Clone, Debug)]
pub struct CbSpec {
	header: HSpec,
	nonce: u64,
	outs: Vec<OSpec>,
	kerns: Vec<KSpec>,
	ids: Vec<u64>,
	/// build with `CompactBlock::from(Block)` (random nonce chosen by grin) instead of from the layout
	from_block: Option<BodySpec>,
}

impl CbSpec {
	fn build(&self) -> Result<CompactBlock, String> {
		let header = self.header.header();
		if let Some(b) = &self.from_block {
			return Ok(CompactBlock::from(Block { header, body: b.body() }));
		}
		// CompactBlock has no public constructor: write the documented layout
		// (header, nonce, three counts, sorted lists) and decode it.
		let mut seen = std::collections::BTreeSet::new();
		let mut outs: Vec<Output> = self.outs.iter().filter(|o| seen.insert(o.key())).map(|o| o.output()).collect();
		let mut seen = std::collections::BTreeSet::new();
		let mut kerns: Vec<TxKernel> = self.kerns.iter().filter(|k| seen.insert(k.excess)).map(|k| k.kernel()).collect();
		let hh = header.hash();
		let mut ids: Vec<ShortId> = self.ids.iter().map(|s| hash_from(*s, 20).short_id(&hh, self.nonce)).collect();
		outs.sort();
		kerns.sort();
		ids.sort();
		ids.dedup();
		let mut b = enc(&header, 1).map_err(|e| format!("{:?}", e))?;
		b.extend_from_slice(&self.nonce.to_be_bytes());
		b.extend_from_slice(&(outs.len() as u64).to_be_bytes());
		b.extend_from_slice(&(kerns.len() as u64).to_be_bytes());
		b.extend_from_slice(&(ids.len() as u64).to_be_bytes());
		for o in &outs {
			b.extend_from_slice(&enc(o, 1).map_err(|e| format!("{:?}", e))?);
		}
		for k in &kerns {
			b.extend_from_slice(&enc(k, 1).map_err(|e| format!("{:?}", e))?);
		}
		for i in &ids {
			b.extend_from_slice(i.as_ref());
		}
		let (r, used) = dec::<CompactBlock>(&b, 1);
		let cb = r.map_err(|e| format!("layout-built compact block refused: {:?}", e))?;
		if used != b.len() {
			return Err(format!("layout-built compact block: consumed {} of {}", used, b.len()));
		}
		// the decoded value must hold exactly what was laid out
		if cb.header != header || cb.nonce != self.nonce {
			return Err("layout-built compact block: header/nonce differ".into());
		}
		same_list("out_full", cb.out_full(), &outs, same_output)?;
		same_list("kern_full", cb.kern_full(), &kerns, same_kernel)?;
		if cb.kern_ids().len() != ids.len() || cb.kern_ids().iter().zip(&ids).any(|(a, b)| a.as_ref() != b.as_ref()) {
			return Err("layout-built compact block: kern_ids differ".into());
		}
		Ok(cb)
	}
}

fn cbspec() -> impl Strategy<Value = CbSpec> {
	(
		hspec(),
		any::<u64>(),
		prop::collection::vec(ospec(), 0..=3),
		prop::collection::vec(kspec(), 0..=3),
		prop::collection::vec(any::<u64>(), 0..=5),
		prop::option::weighted(0.3, bodyspec()),
	)
		.prop_map(|(header, nonce, outs, kerns, ids, from_block)| CbSpec { header, nonce, outs, kerns, ids, from_block })
}

#[derive(Clone, Debug)]
pub enum ChainSpec {
	Proof(PrSpec),
	Pow(HSpec),
	Header(HSpec),
	Headers(Vec<HSpec>),
	Block(HSpec, BodySpec),
	Compact(CbSpec),
	Entry(HSpec),
	Tip(HSpec),
	CommitPos(u64, u64),
	Sums(u8, u8),
	Merkle(u64, u8, u64),
}

fn chainspec() -> impl Strategy<Value = ChainSpec> {
	prop_oneof![
		3 => prspec().prop_map(ChainSpec::Proof),
		2 => hspec().prop_map(ChainSpec::Pow),
		4 => hspec().prop_map(ChainSpec::Header),
		1 => (any::<bool>(), prop::collection::vec(hspec(), 0..=4)).prop_map(|(m, mut v)| {
			for h in v.iter_mut() {
				h.proof.mainnet = m;
			}
			ChainSpec::Headers(v)
		}),
		3 => (hspec(), bodyspec()).prop_map(|(h, b)| ChainSpec::Block(h, b)),
		3 => cbspec().prop_map(ChainSpec::Compact),
		1 => hspec().prop_map(ChainSpec::Entry),
		1 => hspec().prop_map(ChainSpec::Tip),
		1 => (u64_edges(), u64_edges()).prop_map(|(a, b)| ChainSpec::CommitPos(a, b)),
		1 => (any::<u8>(), any::<u8>()).prop_map(|(a, b)| ChainSpec::Sums(a, b)),
		1 => (u64_edges(), 0u8..14, any::<u64>()).prop_map(|(a, b, c)| ChainSpec::Merkle(a, b, c)),
	]
}

#[derive(Clone, Debug)]
pub enum TxSpecKind {
	Features(KSpec),
	Kernel(KSpec),
	Input(u8, bool),
	Commit(u8),
	OutId(u8, bool),
	Output(OSpec),
	RangeProof(OSpec),
	Inputs(BodySpec),
	Body(BodySpec),
	Tx(BodySpec),
}

fn txspec() -> impl Strategy<Value = TxSpecKind> {
	prop_oneof![
		3 => kspec().prop_map(TxSpecKind::Features),
		3 => kspec().prop_map(TxSpecKind::Kernel),
		1 => (any::<u8>(), any::<bool>()).prop_map(|(a, b)| TxSpecKind::Input(a, b)),
		1 => any::<u8>().prop_map(TxSpecKind::Commit),
		1 => (any::<u8>(), any::<bool>()).prop_map(|(a, b)| TxSpecKind::OutId(a, b)),
		2 => ospec().prop_map(TxSpecKind::Output),
		1 => ospec().prop_map(TxSpecKind::RangeProof),
		2 => bodyspec().prop_map(TxSpecKind::Inputs),
		4 => bodyspec().prop_map(TxSpecKind::Body),
		5 => bodyspec().prop_map(TxSpecKind::Tx),
	]
}

// ------------------------------------------------------------------ segment specs

/// SegmentProof has no public constructor: decode the documented layout (count, hashes)
fn segproof(seed: u64, n: u8) -> SegmentProof {
	let mut b = (n as u64).to_be_bytes().to_vec();
	for i in 0..n {
		b.extend_from_slice(&expand(seed, 100 + i, 32));
	}
	let (r, _) = dec::<SegmentProof>(&b, 1);
	r.expect("segment proof layout")
}

#[derive(Clone, Debug)]
pub struct SegSpec {
	height: u8,
	idx: u64,
	hpos: Vec<u64>,
	lpos: Vec<u64>,
	seed: u64,
	proof_n: u8,
}

fn pos_list(max: usize) -> impl Strategy<Value = Vec<u64>> {
	prop::collection::btree_set(prop_oneof![4 => 0u64..200, 2 => 0u64..(1u64 << 40), 1 => (u64::MAX - 1000)..(u64::MAX - 1)], 0..=max)
		.prop_map(|s| s.into_iter().collect())
}

/// heights the segment arithmetic supports (SegmentIdentifier::read refuses 64 and above); nodes use 9..=13
fn seg_height() -> impl Strategy<Value = u8> {
	prop_oneof![3 => 0u8..=63, 2 => 9u8..=13, 1 => Just(0u8), 1 => Just(63u8)]
}

fn segspec() -> impl Strategy<Value = SegSpec> {
	(seg_height(), u64_edges(), pos_list(5), pos_list(5), any::<u64>(), 0u8..8)
		.prop_map(|(height, idx, hpos, lpos, seed, proof_n)| SegSpec { height, idx, hpos, lpos, seed, proof_n })
}

impl SegSpec {
	fn id(&self) -> SegmentIdentifier {
		SegmentIdentifier { height: self.height, idx: self.idx }
	}
	fn build<T>(&self, leaf: impl Fn(u64, u64) -> T) -> Segment<T> {
		let hashes: Vec<Hash> = (0..self.hpos.len()).map(|i| hash_from(self.seed, 30 + i as u8)).collect();
		let data: Vec<T> = (0..self.lpos.len() as u64).map(|i| leaf(self.seed, i)).collect();
		Segment::from_parts(self.id(), self.hpos.clone(), hashes, self.lpos.clone(), data, segproof(self.seed, self.proof_n))
	}
	fn outids(&self) -> Segment<OutputIdentifier> {
		self.build(|s, i| {
			let x = u64_from(s, 60 + i as u8);
			OutputIdentifier::new(if x & 1 == 1 { OutputFeatures::Coinbase } else { OutputFeatures::Plain }, &COMMITS[((x >> 8) % 256) as usize])
		})
	}
	fn proofs(&self) -> Segment<RangeProof> {
		self.build(|s, i| {
			let x = u64_from(s, 70 + i as u8);
			if x % 3 == 0 {
				LIB.output(&universe()[(x >> 8) as usize % 24]).proof
			} else {
				OSpec::proof(x)
			}
		})
	}
	fn kernels(&self) -> Segment<TxKernel> {
		self.build(|s, i| KSpec::from_seed(s, i).kernel())
	}
}

/// a segment cut from a real (in-memory) kernel MMR by the repository's own producer
#[derive(Clone, Debug)]
pub struct PmmrSegSpec {
	leaves: u8,
	seg_h: u8,
	seg_idx: u8,
	seed: u64,
}

impl PmmrSegSpec {
	fn build(&self) -> Result<Segment<TxKernel>, String> {
		let mut backend: VecBackend<TxKernel> = VecBackend::new();
		let n = 1 + self.leaves as u64 % 40;
		let size = {
			let mut p = PMMR::<TxKernel, _>::new(&mut backend);
			for i in 0..n {
				p.push(&KSpec::from_seed(self.seed, i).kernel()).map_err(|e| format!("push: {}", e))?;
			}
			p.unpruned_size()
		};
		let h = self.seg_h % 4;
		let count = SegmentIdentifier::count_segments_required(size, h).max(1) as u64;
		let id = SegmentIdentifier { height: h, idx: self.seg_idx as u64 % count };
		let ro = ReadonlyPMMR::<TxKernel, _>::at(&backend, size);
		Segment::from_pmmr(id, &ro, false).map_err(|e| format!("from_pmmr: {:?}", e))
	}
}

#[derive(Clone, Debug)]
pub struct BmSpec {
	height: u8,
	idx: u64,
	chunks: u16,
	/// per block: (0: k ones, 1: k zeros, 2: about half), k
	fills: Vec<(u8, u16)>,
	seed: u64,
	proof_n: u8,
}

fn bmspec() -> impl Strategy<Value = BmSpec> {
	let k = prop_oneof![
		3 => 0u16..64,
		2 => any::<u16>(),
		3 => prop_oneof![Just(4094u16), Just(4095u16), Just(4096u16), Just(4097u16)],
		1 => Just(0u16),
		1 => Just(1024u16),
	];
	(
		0u8..=13,
		0u64..(1u64 << 40),
		prop_oneof![4 => 1u16..=8, 3 => 1u16..=64, 2 => 64u16..=130, 1 => Just(64u16), 1 => Just(128u16)],
		prop::collection::vec((0u8..3, k), 3),
		any::<u64>(),
		0u8..5,
	)
		.prop_map(|(height, idx, chunks, fills, seed, proof_n)| BmSpec { height, idx, chunks, fills, seed, proof_n })
}

impl BmSpec {
	fn build(&self) -> BitmapSegment {
		// BitmapSegment::read accepts at most 2^height chunks
		let n_chunks = (self.chunks as usize).clamp(1, 1usize << self.height);
		let mut chunks: Vec<BitmapChunk> = (0..n_chunks).map(|_| BitmapChunk::new()).collect();
		let n_blocks = (n_chunks + 63) / 64;
		for blk in 0..n_blocks {
			let first = blk * 64;
			let nc = (n_chunks - first).min(64);
			let n_bits = nc * 1024;
			let (kind, k) = self.fills[blk % self.fills.len()];
			let k = (k as usize).min(n_bits);
			let start = (u64_from(self.seed, blk as u8) as usize) % n_bits;
			// i -> (start + i * 7919) mod n_bits is a bijection (7919 is prime, n_bits = 1024 * nc, nc <= 64)
			let at = |i: usize| (start + i * 7919) % n_bits;
			match kind {
				0 => {
					for i in 0..k {
						let p = at(i);
						chunks[first + p / 1024].set((p % 1024) as u64, true);
					}
				}
				1 => {
					for i in k..n_bits {
						let p = at(i);
						chunks[first + p / 1024].set((p % 1024) as u64, true);
					}
				}
				_ => {
					let raw = expand(self.seed, 40 + blk as u8, n_bits / 8);
					for p in 0..n_bits {
						if raw[p / 8] >> (p % 8) & 1 == 1 {
							chunks[first + p / 1024].set((p % 1024) as u64, true);
						}
					}
				}
			}
		}
		let leaf_pos: Vec<u64> = (0..n_chunks as u64).map(|i| grin_core::core::pmmr::insertion_to_pmmr_index(i)).collect();
		let id = SegmentIdentifier { height: self.height, idx: self.idx };
		let seg = Segment::from_parts(id, vec![], vec![], leaf_pos, chunks, segproof(self.seed, self.proof_n));
		BitmapSegment::from(seg)
	}
}

#[derive(Clone, Debug)]
pub enum SegKind {
	Id(u8, u64),
	Proof(u64, u8),
	OutIds(SegSpec),
	Proofs(SegSpec),
	Kernels(SegSpec),
	FromPmmr(PmmrSegSpec),
	Bitmap(BmSpec),
	Request(u64, u8, u64),
	RespProofs(u64, SegSpec),
	RespKernels(u64, SegSpec),
	RespOutputs(u64, SegSpec),
	RespBitmap(u64, BmSpec),
}

fn segkind() -> impl Strategy<Value = SegKind> {
	prop_oneof![
		1 => (seg_height(), u64_edges()).prop_map(|(a, b)| SegKind::Id(a, b)),
		1 => (any::<u64>(), 0u8..12).prop_map(|(a, b)| SegKind::Proof(a, b)),
		3 => segspec().prop_map(SegKind::OutIds),
		3 => segspec().prop_map(SegKind::Proofs),
		3 => segspec().prop_map(SegKind::Kernels),
		2 => (any::<u8>(), any::<u8>(), any::<u8>(), any::<u64>()).prop_map(|(leaves, seg_h, seg_idx, seed)| SegKind::FromPmmr(PmmrSegSpec { leaves, seg_h, seg_idx, seed })),
		3 => bmspec().prop_map(SegKind::Bitmap),
		1 => (any::<u64>(), seg_height(), u64_edges()).prop_map(|(a, b, c)| SegKind::Request(a, b, c)),
		1 => (any::<u64>(), segspec()).prop_map(|(a, b)| SegKind::RespProofs(a, b)),
		1 => (any::<u64>(), segspec()).prop_map(|(a, b)| SegKind::RespKernels(a, b)),
		1 => (any::<u64>(), segspec()).prop_map(|(a, b)| SegKind::RespOutputs(a, b)),
		1 => (any::<u64>(), bmspec()).prop_map(|(a, b)| SegKind::RespBitmap(a, b)),
	]
}

// ------------------------------------------------------------------ p2p specs

#[derive(Clone, Debug)]
pub struct AddrSpec {
	v6: bool,
	ip: [u16; 8],
	port: u16,
}

impl AddrSpec {
	fn addr(&self) -> PeerAddr {
		if self.v6 {
			let mut s = self.ip;
			let a = Ipv6Addr::new(s[0], s[1], s[2], s[3], s[4], s[5], s[6], s[7]);
			// PeerAddr::read deliberately turns the IPv4-mapped form ::ffff:a.b.c.d into
			// the IPv4 address: that form alone is not generated. Everything else
			// (including the IPv4-compatible form ::a.b.c.d, e.g. ::1) must round-trip.
			if a.to_ipv4_mapped().is_some() {
				s[0] = 0x2001;
			}
			let a = Ipv6Addr::new(s[0], s[1], s[2], s[3], s[4], s[5], s[6], s[7]);
			// flowinfo / scope_id are not part of the wire format
			PeerAddr(SocketAddr::V6(SocketAddrV6::new(a, self.port, 0, 0)))
		} else {
			let b = [self.ip[0].to_be_bytes(), self.ip[1].to_be_bytes()];
			PeerAddr(SocketAddr::V4(SocketAddrV4::new(Ipv4Addr::new(b[0][0], b[0][1], b[1][0], b[1][1]), self.port)))
		}
	}
}

fn addrspec() -> impl Strategy<Value = AddrSpec> {
	(
		any::<bool>(),
		prop_oneof![
			4 => prop::array::uniform8(any::<u16>()),
			1 => Just([0x7f00, 1, 0, 0, 0, 0, 0, 0]),
			// IPv4-compatible form ::a.b.c.d (v6 loopback, unspecified, ::0.0.0.2, ::1.2.3.4, random)
			2 => Just([0, 0, 0, 0, 0, 0, 0, 1]),
			1 => Just([0, 0, 0, 0, 0, 0, 0, 0]),
			1 => Just([0, 0, 0, 0, 0, 0, 0, 2]),
			1 => Just([0, 0, 0, 0, 0, 0, 0x0102, 0x0304]),
			2 => (any::<u16>(), any::<u16>()).prop_map(|(a, b)| [0, 0, 0, 0, 0, 0, a, b]),
			// IPv4-mapped form: replaced by a 2001:: address when used as IPv6 (see AddrSpec::addr)
			1 => Just([0, 0, 0, 0, 0, 0xffff, 0x0102, 0x0304]),
			1 => Just([0xfe80, 0, 0, 0, 0, 0, 0, 1]),
		],
		prop_oneof![2 => any::<u16>(), 1 => Just(0u16), 1 => Just(3414u16)],
	)
		.prop_map(|(v6, ip, port)| AddrSpec { v6, ip, port })
}

fn text() -> impl Strategy<Value = String> {
	prop_oneof![
		3 => prop::collection::vec(0x20u8..0x7f, 0..40).prop_map(|v| String::from_utf8(v).unwrap()),
		2 => prop::collection::vec(any::<char>(), 0..24).prop_map(|v| v.into_iter().collect()),
		1 => Just(String::new()),
		1 => Just(grin_p2p::msg::user_agent()),
	]
}

const TYPES: [Type; 29] = [
	Type::Error,
	Type::Hand,
	Type::Shake,
	Type::Ping,
	Type::Pong,
	Type::GetPeerAddrs,
	Type::PeerAddrs,
	Type::GetHeaders,
	Type::Header,
	Type::Headers,
	Type::GetBlock,
	Type::Block,
	Type::GetCompactBlock,
	Type::CompactBlock,
	Type::StemTransaction,
	Type::Transaction,
	Type::TxHashSetRequest,
	Type::TxHashSetArchive,
	Type::BanReason,
	Type::GetTransaction,
	Type::TransactionKernel,
	Type::GetOutputBitmapSegment,
	Type::OutputBitmapSegment,
	Type::GetOutputSegment,
	Type::OutputSegment,
	Type::GetRangeProofSegment,
	Type::RangeProofSegment,
	Type::GetKernelSegment,
	Type::KernelSegment,
];

#[derive(Clone, Debug)]
pub enum P2pSpec {
	Addr(AddrSpec),
	Addrs(Vec<AddrSpec>),
	Hand { version: u32, caps: u8, nonce: u64, seed: u64, td: u64, sender: AddrSpec, receiver: AddrSpec, ua: String },
	Shake { version: u32, caps: u8, seed: u64, td: u64, ua: String },
	Ping(u64, u64),
	Pong(u64, u64),
	GetPeerAddrs(u8),
	PeerError(u32, String),
	Ban(u8),
	Locator(u64, u8),
	TxHashSetRequest(u64, u64),
	TxHashSetArchive(u64, u64, u64),
	MsgHeader(u8, u64),
}

fn ver() -> impl Strategy<Value = u32> {
	prop_oneof![2 => 0u32..5, 1 => Just(1000u32), 1 => any::<u32>()]
}

fn p2pspec() -> impl Strategy<Value = P2pSpec> {
	prop_oneof![
		3 => addrspec().prop_map(P2pSpec::Addr),
		3 => prop::collection::vec(addrspec(), 0..=6).prop_map(P2pSpec::Addrs),
		3 => (ver(), 0u8..128, any::<u64>(), any::<u64>(), u64_edges(), addrspec(), addrspec(), text())
			.prop_map(|(version, caps, nonce, seed, td, sender, receiver, ua)| P2pSpec::Hand { version, caps, nonce, seed, td, sender, receiver, ua }),
		3 => (ver(), 0u8..128, any::<u64>(), u64_edges(), text()).prop_map(|(version, caps, seed, td, ua)| P2pSpec::Shake { version, caps, seed, td, ua }),
		1 => (u64_edges(), u64_edges()).prop_map(|(a, b)| P2pSpec::Ping(a, b)),
		1 => (u64_edges(), u64_edges()).prop_map(|(a, b)| P2pSpec::Pong(a, b)),
		1 => (0u8..128).prop_map(P2pSpec::GetPeerAddrs),
		2 => (any::<u32>(), text()).prop_map(|(a, b)| P2pSpec::PeerError(a, b)),
		1 => (0u8..8).prop_map(P2pSpec::Ban),
		2 => (any::<u64>(), 0u8..=20).prop_map(|(a, b)| P2pSpec::Locator(a, b)),
		1 => (any::<u64>(), u64_edges()).prop_map(|(a, b)| P2pSpec::TxHashSetRequest(a, b)),
		1 => (any::<u64>(), u64_edges(), u64_edges()).prop_map(|(a, b, c)| P2pSpec::TxHashSetArchive(a, b, c)),
		2 => (0u8..29, prop_oneof![2 => 0u64..=16, 1 => 0u64..30_000]).prop_map(|(a, b)| P2pSpec::MsgHeader(a, b)),
	]
}

fn caps(bits: u8) -> Capabilities {
	// only defined capability bits (the reader drops undefined ones: from_bits_truncate)
	Capabilities::from_bits_truncate(bits as u32 & 0x7f)
}

const BAN_REASONS: [ReasonForBan; 8] = [
	ReasonForBan::None,
	ReasonForBan::BadBlock,
	ReasonForBan::BadCompactBlock,
	ReasonForBan::BadBlockHeader,
	ReasonForBan::BadTxHashSet,
	ReasonForBan::ManualBan,
	ReasonForBan::FraudHeight,
	ReasonForBan::BadHandshake,
];

// ------------------------------------------------------------------ spec -> typed value -> generic action

trait Visit {
	type R;
	fn go<T: Obj>(self, x: &T, mainnet: bool) -> Self::R;
	fn build_failed(self, msg: String) -> Self::R;
}

#[derive(Clone, Debug)]
pub enum Spec {
	Tx(TxSpecKind),
	Chain(ChainSpec),
	Seg(SegKind),
	P2p(P2pSpec),
}

fn visit<V: Visit>(spec: &Spec, v: V) -> V::R {
	let mainnet = match spec {
		Spec::Chain(ChainSpec::Proof(p)) => p.mainnet,
		Spec::Chain(ChainSpec::Pow(h)) | Spec::Chain(ChainSpec::Header(h)) => h.proof.mainnet,
		Spec::Chain(ChainSpec::Headers(hs)) => hs.first().map(|h| h.proof.mainnet).unwrap_or(false),
		_ => false,
	};
	set_chain(mainnet);
	let r = visit_inner(spec, v, mainnet);
	set_chain(false);
	r
}

fn visit_inner<V: Visit>(spec: &Spec, v: V, mainnet: bool) -> V::R {
	match spec {
		Spec::Tx(t) => match t {
			TxSpecKind::Features(k) => v.go(&k.features(), false),
			TxSpecKind::Kernel(k) => v.go(&k.kernel(), false),
			TxSpecKind::Input(i, cb) => v.go(&Input::new(if *cb { OutputFeatures::Coinbase } else { OutputFeatures::Plain }, COMMITS[*i as usize]), false),
			TxSpecKind::Commit(i) => v.go(&CommitWrapper::from(COMMITS[*i as usize]), false),
			TxSpecKind::OutId(i, cb) => v.go(&OutputIdentifier::new(if *cb { OutputFeatures::Coinbase } else { OutputFeatures::Plain }, &COMMITS[*i as usize]), false),
			TxSpecKind::Output(o) => v.go(&o.output(), false),
			TxSpecKind::RangeProof(o) => v.go(&o.output().proof, false),
			TxSpecKind::Inputs(b) => v.go(&b.inputs(), false),
			TxSpecKind::Body(b) => v.go(&b.body(), false),
			TxSpecKind::Tx(b) => v.go(&b.tx(), false),
		},
		Spec::Chain(c) => match c {
			ChainSpec::Proof(p) => v.go(&p.proof(), mainnet),
			ChainSpec::Pow(h) => v.go(&h.pow(), mainnet),
			ChainSpec::Header(h) => v.go(&h.header(), mainnet),
			ChainSpec::Headers(hs) => v.go(&HeadersW(Headers { headers: hs.iter().map(|h| h.header()).collect() }), mainnet),
			ChainSpec::Block(h, b) => v.go(&Block { header: h.header(), body: b.body() }, false),
			ChainSpec::Compact(c) => match c.build() {
				Ok(cb) => v.go(&cb, false),
				Err(e) => v.build_failed(e),
			},
			ChainSpec::Entry(h) => v.go(&h.header().as_elmt(), false),
			ChainSpec::Tip(h) => v.go(&Tip::from_header(&h.header()), false),
			ChainSpec::CommitPos(a, b) => v.go(&CommitPos { pos: *a, height: *b }, false),
			ChainSpec::Sums(a, b) => v.go(&BlockSums { utxo_sum: COMMITS[*a as usize], kernel_sum: COMMITS[*b as usize] }, false),
			ChainSpec::Merkle(size, n, seed) => v.go(&MerkleProof { mmr_size: *size, path: (0..*n).map(|i| hash_from(*seed, i)).collect() }, false),
		},
		Spec::Seg(s) => match s {
			SegKind::Id(h, i) => v.go(&SegmentIdentifier { height: *h, idx: *i }, false),
			SegKind::Proof(seed, n) => v.go(&segproof(*seed, *n), false),
			SegKind::OutIds(s) => v.go(&s.outids(), false),
			SegKind::Proofs(s) => v.go(&s.proofs(), false),
			SegKind::Kernels(s) => v.go(&s.kernels(), false),
			SegKind::FromPmmr(p) => match p.build() {
				Ok(s) => v.go(&s, false),
				Err(e) => v.build_failed(e),
			},
			SegKind::Bitmap(b) => v.go(&b.build(), false),
			SegKind::Request(seed, h, i) => v.go(&SegmentRequest { block_hash: hash_from(*seed, 1), identifier: SegmentIdentifier { height: *h, idx: *i } }, false),
			SegKind::RespProofs(seed, s) => v.go(&SegmentResponse { block_hash: hash_from(*seed, 1), segment: s.proofs() }, false),
			SegKind::RespKernels(seed, s) => v.go(&SegmentResponse { block_hash: hash_from(*seed, 1), segment: s.kernels() }, false),
			SegKind::RespOutputs(seed, s) => v.go(
				&OutputSegmentResponse { response: SegmentResponse { block_hash: hash_from(*seed, 1), segment: s.outids() }, output_bitmap_root: hash_from(*seed, 2) },
				false,
			),
			SegKind::RespBitmap(seed, b) => v.go(&OutputBitmapSegmentResponse { block_hash: hash_from(*seed, 1), segment: b.build(), output_root: hash_from(*seed, 2) }, false),
		},
		Spec::P2p(p) => match p {
			P2pSpec::Addr(a) => v.go(&a.addr(), false),
			P2pSpec::Addrs(a) => v.go(&PeerAddrs { peers: a.iter().map(|a| a.addr()).collect() }, false),
			P2pSpec::Hand { version, caps: c, nonce, seed, td, sender, receiver, ua } => v.go(
				&Hand {
					version: ProtocolVersion(*version),
					capabilities: caps(*c),
					nonce: *nonce,
					genesis: hash_from(*seed, 1),
					total_difficulty: difficulty(*td),
					sender_addr: sender.addr(),
					receiver_addr: receiver.addr(),
					user_agent: ua.clone(),
				},
				false,
			),
			P2pSpec::Shake { version, caps: c, seed, td, ua } => v.go(
				&Shake { version: ProtocolVersion(*version), capabilities: caps(*c), genesis: hash_from(*seed, 1), total_difficulty: difficulty(*td), user_agent: ua.clone() },
				false,
			),
			P2pSpec::Ping(td, h) => v.go(&Ping { total_difficulty: difficulty(*td), height: *h }, false),
			P2pSpec::Pong(td, h) => v.go(&Pong { total_difficulty: difficulty(*td), height: *h }, false),
			P2pSpec::GetPeerAddrs(c) => v.go(&GetPeerAddrs { capabilities: caps(*c) }, false),
			P2pSpec::PeerError(code, m) => v.go(&PeerError { code: *code, message: m.clone() }, false),
			P2pSpec::Ban(r) => v.go(&BanReason { ban_reason: BAN_REASONS[*r as usize % 8] }, false),
			P2pSpec::Locator(seed, n) => v.go(&Locator { hashes: (0..*n).map(|i| hash_from(*seed, i)).collect() }, false),
			P2pSpec::TxHashSetRequest(seed, h) => v.go(&TxHashSetRequest { hash: hash_from(*seed, 1), height: *h }, false),
			P2pSpec::TxHashSetArchive(seed, h, b) => v.go(&TxHashSetArchive { hash: hash_from(*seed, 1), height: *h, bytes: *b }, false),
			P2pSpec::MsgHeader(t, len) => {
				let t = TYPES[*t as usize % 29];
				// MsgHeaderWrapper::read refuses lengths above 4 x the per-type maximum
				let max = match t {
					Type::Error => 0,
					Type::Block | Type::StemTransaction | Type::Transaction => 30_000,
					Type::OutputBitmapSegment | Type::OutputSegment | Type::RangeProofSegment | Type::KernelSegment => 60_000,
					_ => 16,
				};
				v.go(&MsgHeaderW(MsgHeader::new(t, *len % (max + 1))), false)
			}
		},
	}
}

struct Check<'a> {
	ctx: &'a Ctx,
	counting: bool,
}

impl<'a> Visit for Check<'a> {
	type R = PResult;
	fn go<T: Obj>(self, x: &T, _mainnet: bool) -> PResult {
		check_obj(self.ctx, x, self.counting)
	}
	fn build_failed(self, msg: String) -> PResult {
		Err(Fail::new("value-construction-failed", msg))
	}
}

struct ToCase;

impl Visit for ToCase {
	type R = Value;
	fn go<T: Obj>(self, x: &T, mainnet: bool) -> Value {
		case_json(x, mainnet)
	}
	fn build_failed(self, msg: String) -> Value {
		json!({"type": "construction", "error": msg})
	}
}

macro_rules! all_types {
	($m:ident) => {
		$m!(
			KernelFeatures,
			TxKernel,
			Input,
			CommitWrapper,
			OutputIdentifier,
			Output,
			RangeProof,
			InputsW,
			TransactionBody,
			Transaction,
			Proof,
			ProofOfWork,
			BlockHeader,
			HeadersW,
			Block,
			CompactBlock,
			HeaderEntry,
			Tip,
			CommitPos,
			BlockSums,
			MerkleProof,
			SegmentIdentifier,
			SegmentProof,
			Segment<OutputIdentifier>,
			Segment<RangeProof>,
			Segment<TxKernel>,
			BitmapSegment,
			SegmentRequest,
			SegmentResponse<RangeProof>,
			SegmentResponse<TxKernel>,
			OutputSegmentResponse,
			OutputBitmapSegmentResponse,
			PeerAddr,
			PeerAddrs,
			Hand,
			Shake,
			Ping,
			Pong,
			GetPeerAddrs,
			PeerError,
			BanReason,
			Locator,
			TxHashSetRequest,
			TxHashSetArchive,
			MsgHeaderW
		)
	};
}

fn check_case(ctx: &Ctx, case: &Value) -> PResult {
	let tag = case["type"].as_str().unwrap_or("").to_string();
	let enc_v = case["enc_version"].as_u64().unwrap_or(1) as u32;
	let mainnet = case["mainnet"].as_bool().unwrap_or(false);
	let bytes = grin_util::from_hex(case["hex"].as_str().unwrap_or("")).map_err(|e| Fail::new("harness:replay-hex", format!("{:?}", e)))?;
	set_chain(mainnet);
	macro_rules! go {
		($($t:ty),*) => {
			$( if tag == <$t as Obj>::tag() {
				let r = check_hex::<$t>(ctx, &bytes, enc_v);
				set_chain(false);
				return r;
			} )*
		};
	}
	all_types!(go);
	set_chain(false);
	Err(Fail::new("harness:unknown-type", tag))
}

fn covered_types() -> Vec<String> {
	let mut v = vec![];
	macro_rules! go {
		($($t:ty),*) => { $( v.push(<$t as Obj>::tag()); )* };
	}
	all_types!(go);
	v
}

// ------------------------------------------------------------------ probes: measured, never asserted

/// Decode `b` as T and classify: refused / accepted as-is (re-encodes to the
/// consumed bytes) / normalised (re-encodes to something else).
fn probe<T: Writeable + Readable>(ctx: &Ctx, list: &mut Vec<Value>, name: &str, ty: &str, b: &[u8], v: u32, note: &str) {
	let (r, used) = dec::<T>(b, v);
	let (outcome, re) = match r {
		Err(e) => (format!("refused ({:?})", e), None),
		Ok(y) => match enc(&y, v) {
			Ok(re) if re[..] == b[..used] => ("accepted-as-is".to_string(), None),
			Ok(re) => ("normalised".to_string(), Some(hex_short(&re))),
			Err(e) => (format!("accepted, re-encode fails ({:?})", e), None),
		},
	};
	let short = outcome.split(' ').next().unwrap_or("").trim_end_matches(',').to_string();
	ctx.ev.class(&format!("probe:{}:{}", name, short));
	list.push(json!({
		"probe": name, "type": ty, "version": v, "input_hex": hex_short(b), "consumed": used, "input_len": b.len(),
		"outcome": outcome, "reencoded_hex": re, "note": note,
	}));
}

fn probes(ctx: &Ctx) {
	init_thread();
	set_chain(false);
	let mut l: Vec<Value> = vec![];
	let lv = ProtocolVersion::local().0;
	// PeerAddr
	let v6 = |a: Ipv6Addr, port: u16| PeerAddr(SocketAddr::V6(SocketAddrV6::new(a, port, 0, 0)));
	let b = enc(&v6(Ipv6Addr::new(0, 0, 0, 0, 0, 0xffff, 0x0102, 0x0304), 3414), lv).unwrap();
	probe::<PeerAddr>(ctx, &mut l, "peeraddr-v4-mapped", "PeerAddr", &b, lv, "what the writer emits for [::ffff:1.2.3.4]:3414 (documented v4-in-v6 mapping)");
	// HeaderEntry bool byte
	let h = HSpec { version: 1, height: 1, ts: 0, seed: 1, out_size: 1, kern_size: 1, td: 1, scaling: 1, nonce: 1, proof: PrSpec { mainnet: false, edge_bits: 3, nseed: 1, sorted: true } };
	let mut b = enc(&h.header().as_elmt(), lv).unwrap();
	let n = b.len();
	b[n - 1] = 2;
	probe::<HeaderEntry>(ctx, &mut l, "headerentry-bool-2", "HeaderEntry", &b, lv, "is_secondary byte 2");
	// capabilities
	let mut b = enc(&Shake { version: ProtocolVersion(1), capabilities: caps(0x7f), genesis: hash_from(1, 1), total_difficulty: difficulty(1), user_agent: "x".into() }, lv).unwrap();
	b[4] = 0xff;
	probe::<Shake>(ctx, &mut l, "shake-undefined-capability-bits", "Shake", &b, lv, "capability bits outside the defined set (from_bits_truncate)");
	// BanReason
	probe::<BanReason>(ctx, &mut l, "banreason-empty-body", "BanReason", &[], lv, "read error mapped to code 0");
	// bitmap blocks
	let bm = |block: &[u8]| {
		let mut b = vec![0u8; 9];
		b.extend_from_slice(&1u16.to_be_bytes());
		b.extend_from_slice(block);
		b.extend_from_slice(&0u64.to_be_bytes());
		b
	};
	let mut raw = vec![1u8, 0];
	raw.extend_from_slice(&[0u8; 128]);
	raw[2] = 0x80;
	probe::<BitmapSegment>(ctx, &mut l, "bitmap-raw-for-sparse", "BitmapSegment", &bm(&raw), lv, "raw mode for a block with one bit set");
	probe::<BitmapSegment>(ctx, &mut l, "bitmap-negative-for-small", "BitmapSegment", &bm(&[1, 2, 0, 1, 0, 9]), lv, "negative mode for a 1-chunk block (1023 ones < threshold)");
	// fee future-use bits
	for v in [1u32, 2] {
		let mut b = enc(&KernelFeatures::Plain { fee: FeeFields::new(0, 1).unwrap() }, v).unwrap();
		b[1] = 0xff;
		probe::<KernelFeatures>(ctx, &mut l, "kernel-fee-future-use-bits", "KernelFeatures", &b, v, "top 20 bits of the fee field (future use) non-zero");
	}
	// proof with unsorted nonces is not a codec rule
	let mut pr = PrSpec { mainnet: false, edge_bits: 20, nseed: 5, sorted: false }.proof();
	pr.nonces.reverse();
	probe::<Proof>(ctx, &mut l, "proof-unsorted-nonces", "Proof", &enc(&pr, lv).unwrap(), lv, "nonce order is checked by PoW verification, not by the codec");
	// message header of an unknown type
	let mut b = enc(&MsgHeader::new(Type::Ping, 16), lv).unwrap();
	b[2] = 200;
	let (r, _) = dec::<MsgHeaderWrapper>(&b, lv);
	let o = match r {
		Ok(MsgHeaderWrapper::Unknown(len, t)) => format!("accepted as Unknown({}, {})", len, t),
		Ok(MsgHeaderWrapper::Known(_)) => "accepted as Known".to_string(),
		Err(e) => format!("refused ({:?})", e),
	};
	ctx.ev.class(&format!("probe:msgheader-unknown-type:{}", o.split(' ').next().unwrap_or("")));
	l.push(json!({"probe": "msgheader-unknown-type", "type": "MsgHeaderWrapper", "version": lv, "input_hex": hex(&b), "outcome": o,
		"note": "by design: the body is discarded and read_message answers BadMessage"}));
	// Segment<BitmapChunk>: BitmapChunk::read consumes nothing and returns an empty chunk
	let mut c = BitmapChunk::new();
	c.set(3, true);
	let seg = Segment::from_parts(SegmentIdentifier { height: 0, idx: 0 }, vec![], vec![], vec![0], vec![c], segproof(1, 0));
	let b = enc(&seg, lv).unwrap();
	probe::<Segment<BitmapChunk>>(ctx, &mut l, "segment-of-bitmapchunk", "Segment<BitmapChunk>", &b, lv, "documented: reading BitmapChunk is not supported (BitmapSegment is the wire form)");
	// sanity: things that must be (and are) refused
	let mut b = enc(&h.header(), lv).unwrap();
	put64(&mut b, 10, i64::MAX as u64);
	probe::<BlockHeader>(ctx, &mut l, "header-timestamp-out-of-range", "BlockHeader", &b, lv, "timestamp beyond chrono's range");
	let mut b = enc(&PeerError { code: 1, message: "ab".into() }, lv).unwrap();
	let n = b.len();
	b[n - 1] = 0xff;
	probe::<PeerError>(ctx, &mut l, "string-invalid-utf8", "PeerError", &b, lv, "invalid UTF-8 in a string field");
	ctx.ev.extra("normalisation_probes", json!(l));
}

// ------------------------------------------------------------------ run / replay

fn run_family<S: Strategy<Value = Spec>>(ctx: &Ctx, part: &str, cases: u64, make: impl Fn() -> S + Sync) {
	let t0 = std::time::Instant::now();
	let fl = pbt_par(ctx, part, cases, 16, make, init_thread, |s, counting| visit(s, Check { ctx, counting }));
	if let Some(fl) = fl {
		init_thread();
		let case = visit(&fl.value, ToCase);
		ctx.report(part, &fl.fail.sig, case, &fl.fail.msg);
	}
	ctx.ev.extra(&format!("wall_s_{}", part), json!(t0.elapsed().as_secs_f64()));
}

// ------------------------------------------------------------------ RangeProof declared length (known open finding)

const SIG_RP_LEN: &str = "rangeproof-length-normalised";

/// A range proof whose length prefix is L != 675, standalone or as the proof
/// of an output, followed by L content bytes. Canonical form has exactly one
/// length (675: every writer in the repository emits it), so such an encoding
/// must be refused. `RangeProof::read` instead zero-pads L < 675 to 675 and,
/// for L > 675, reads 675 bytes and leaves the rest in the stream: exactly
/// that behaviour gets the signature `rangeproof-length-normalised`; anything
/// else unexpected gets another one. This class is generated nowhere else.
fn rp_len_bytes(in_output: bool, len: u64, seed: u64) -> Vec<u8> {
	let mut b = vec![];
	if in_output {
		b.push((seed & 1) as u8);
		b.extend_from_slice(&COMMITS[128 + (seed >> 8) as usize % 128].0);
	}
	b.extend_from_slice(&len.to_be_bytes());
	let mut content = expand(seed, 9, len as usize);
	// non-zero content so that zero padding / truncation is visible
	for x in content.iter_mut() {
		*x |= 1;
	}
	b.extend_from_slice(&content);
	b
}

fn check_rp_len_typed<T: Readable + Writeable>(ty: &str, b: &[u8], len: u64, v: u32) -> PResult {
	let head = b.len() - len as usize - 8;
	let (r, used) = dec::<T>(b, v);
	let y = match r {
		// refused: canonical behaviour
		Err(_) => return Ok(()),
		Ok(y) => y,
	};
	let re = enc(&y, v).map_err(|e| Fail::new("rangeproof-length-unexpected", format!("{} v{}: re-encode failed {:?}", ty, v, e)))?;
	let re_len = be64(&re, head);
	if len < PROOF_LEN as u64 {
		// short: all bytes consumed, re-encoded with length 675 = content + zero padding
		let padded = used == b.len()
			&& re_len == PROOF_LEN as u64
			&& re.len() == head + 8 + PROOF_LEN
			&& re[head + 8..head + 8 + len as usize] == b[head + 8..]
			&& re[head + 8 + len as usize..].iter().all(|x| *x == 0);
		if padded {
			fail!(SIG_RP_LEN, "{} v{}: declared proof length {} accepted and zero-padded: re-encodes with length 675; input={}", ty, v, len, hex_short(b));
		}
	} else {
		// long: only 675 content bytes consumed, the rest left in the stream
		let truncated = used == head + 8 + PROOF_LEN && re_len == PROOF_LEN as u64 && re[head + 8..] == b[head + 8..head + 8 + PROOF_LEN];
		if truncated {
			fail!(
				SIG_RP_LEN,
				"{} v{}: declared proof length {} accepted: 675 bytes read, {} bytes left in the stream, re-encodes with length 675; input={}",
				ty,
				v,
				len,
				b.len() - used,
				hex_short(b)
			);
		}
	}
	fail!(
		"rangeproof-length-unexpected",
		"{} v{}: declared proof length {} accepted in an unforeseen way (consumed {} of {}, re-encoded length field {}); input={}",
		ty,
		v,
		len,
		used,
		b.len(),
		re_len,
		hex_short(b)
	);
}

fn check_rp_len(ctx: &Ctx, case: &Value, counting: bool) -> PResult {
	let in_output = case["type"] == "Output";
	let len = case["declared_len"].as_u64().unwrap_or(0);
	let v = case["version"].as_u64().unwrap_or(1) as u32;
	let b = grin_util::from_hex(case["hex"].as_str().unwrap_or("")).map_err(|e| Fail::new("harness:replay-hex", format!("{:?}", e)))?;
	ensure!(len != PROOF_LEN as u64 && b.len() >= len as usize + 8, "harness:rp-len-case", "malformed case");
	if counting {
		ctx.ev.eval();
		ctx.ev.class(&format!("rangeproof_declared_length:{}:{}", if in_output { "Output" } else { "RangeProof" }, if len < PROOF_LEN as u64 { "short" } else { "long" }));
		ctx.ev.nontrivial(&("rp-len", in_output, len < PROOF_LEN as u64, len == 0, v));
	}
	if in_output {
		check_rp_len_typed::<Output>("Output", &b, len, v)
	} else {
		check_rp_len_typed::<RangeProof>("RangeProof", &b, len, v)
	}
}

/// a handful per run; every accepted case is reported (known open finding) and the run goes on
fn rp_len_part(ctx: &Ctx) {
	init_thread();
	set_chain(false);
	let mut lens: Vec<u64> = vec![0, 1, 674, 676];
	for k in 0..2 {
		lens.push(2 + ctx.derive_seed("rp-len-short", k) % 672);
		lens.push(677 + ctx.derive_seed("rp-len-long", k) % 1400);
	}
	let vs = versions();
	for (i, len) in lens.iter().enumerate() {
		for in_output in [false, true] {
			let seed = ctx.derive_seed("rp-len-content", (i * 2 + in_output as usize) as u64);
			let v = vs[i % vs.len()];
			let case = json!({
				"type": if in_output { "Output" } else { "RangeProof" },
				"declared_len": len,
				"version": v,
				"hex": hex(&rp_len_bytes(in_output, *len, seed)),
			});
			let r = match catch(|| check_rp_len(ctx, &case, true)) {
				Ok(r) => r,
				Err(f) => Err(f),
			};
			if let Err(f) = r {
				ctx.report("rangeproof-length", &f.sig, case, &f.msg);
			}
		}
	}
}

pub fn run(ctx: &Ctx) -> HResult<()> {
	init_global();
	let ev = &ctx.ev;
	ev.rule("typed values of every reachable consensus / wire type are generated by proptest from small specs (kernels of all four variants over the full field ranges, inputs in both encodings, outputs with real and synthetic 675-byte proofs, sorted unique bodies of 0..6 entries, headers with every field random at every edge_bits the proof codec is defined for with proof size 8 and 42, segments, bitmap segments in all three block encodings around the 4096 thresholds, handshake and sync messages); each value is crossed with protocol versions 1,2,3,1000 (local, db): encode, decode (exact consumption), equality (inputs by commitment where the version drops features), identical re-encoding, identity hash unchanged and equal to blake2b of the version-1 identity encoding; from every valid encoding one-rule violations of the canonical form are derived and must be refused; evaluations = (value, version) round trips + rejection cases; non-trivial = value with >= 2 entries in some list or a non-default variant, and every rejection case (its unmodified encoding decoded); distinct by (type, version, shape class | rule)");
	ev.assume("blake2b (blake2-rfc) is trusted for the identity-hash oracle; hash collisions are treated as impossible");
	ev.assume("an encoding whose count field promises more items than present may decode only if it is, by coincidence, the exact canonical encoding of the decoded value (never observed); all other derived violations must fail outright");
	ev.assume("PeerAddr: IPv6 addresses of the IPv4-mapped form ::ffff:a.b.c.d are not generated (PeerAddr::read deliberately turns exactly that form into the IPv4 address); every other address, including the IPv4-compatible form ::a.b.c.d (::1, ::, ::0.0.0.2), must round-trip as written; flowinfo/scope_id are not on the wire and are generated as 0");
	ev.assume("segment identifiers are generated with heights 0..=63 (SegmentIdentifier::read refuses 64 and above; nodes use 9..=13); bitmap segments with height 0..=13, idx < 2^40 and at most 130 chunks, so the leaf offset stays far below the 2^62 bound BitmapSegment::read enforces");
	ev.assume("range proofs are generated with the one length every writer emits (675); encodings declaring another length are exercised only by the part rangeproof-length, whose acceptance is reported under the single signature rangeproof-length-normalised");
	ev.assume("trailing bytes after a complete value are measured (classes trailing_byte_*), not asserted: the ser API has no end-of-value notion");
	LIB.prefetch(&universe());
	lazy_static::initialize(&COMMITS);
	ev.extra("types_covered", json!(covered_types()));
	ev.extra("versions", json!(versions()));
	let n = ctx.n(60_000, 1_500_000);
	run_family(ctx, "tx", n, || txspec().prop_map(Spec::Tx));
	run_family(ctx, "chain", n, || chainspec().prop_map(Spec::Chain));
	run_family(ctx, "segment", n, || segkind().prop_map(Spec::Seg));
	run_family(ctx, "p2p", n, || p2pspec().prop_map(Spec::P2p));
	rp_len_part(ctx);
	if let Err(f) = catch(|| probes(ctx)) {
		ctx.report("probes", &f.sig, json!({"type": "probes"}), &f.msg);
	}
	set_chain(false);
	Ok(())
}

pub fn replay(ctx: &Ctx, part: &str, case: &Value) -> PResult {
	init_global();
	lazy_static::initialize(&COMMITS);
	match part {
		"tx" | "chain" | "segment" | "p2p" => {
			if case["type"] == "construction" {
				return Err(Fail::new("value-construction-failed", case["error"].as_str().unwrap_or("").to_string()));
			}
			check_case(ctx, case)
		}
		"rangeproof-length" => check_rp_len(ctx, case, false),
		"probes" => catch(|| probes(ctx)),
		_ => Ok(()),
	}
}
