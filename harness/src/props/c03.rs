//! C03 — head is the most-work validated chain, whatever the arrival order.

use crate::engine::*;
use crate::props::c02::scan;
use crate::world::gen::*;
use crate::world::*;
use crate::{ensure, fail};
use grin_chain::Error as ChainError;
use grin_core::core::hash::{Hash, Hashed};
use grin_core::core::Block;
use proptest::prelude::*;
use serde_derive::{Deserialize, Serialize};
use serde_json::{json, Value};
use std::collections::{BTreeMap, BTreeSet};

#[derive(Clone, Debug, Serialize, Deserialize)]
pub struct Perm {
	/// sort keys: body i is delivered in increasing key order
	pub keys: Vec<u16>,
	/// extra deliveries (duplicates): (position pick, block pick)
	pub dups: Vec<(u16, u16)>,
	/// 0: headers one by one, 1: headers in path chunks through sync_block_headers, 2: mixed
	pub header_mode: u8,
}

#[derive(Clone, Debug, Serialize, Deserialize)]
pub struct Case {
	/// real PoW (work differs through length / timestamps) or SKIP_POW with free difficulties
	pub real: bool,
	pub blocks: Vec<RawBlock>,
	pub perms: Vec<Perm>,
	/// 0, or 51..=56: that many plain blocks (difficulty 20 each) come first, and the generated blocks that name an
	/// ancestor of the head 1..5 back name the one 50 further back instead: branches that leave the best chain more
	/// than 50 blocks below its tip (free difficulty, so that they can still carry more work)
	#[serde(default)]
	pub deep: u8,
}

fn perm_strategy() -> impl Strategy<Value = Perm> {
	(
		prop::collection::vec(any::<u16>(), 24),
		prop::collection::vec((any::<u16>(), any::<u16>()), 0..4),
		0u8..3,
	)
		.prop_map(|(keys, dups, header_mode)| Perm { keys, dups, header_mode })
}

pub fn case_strategy(max_blocks: usize) -> impl Strategy<Value = Case> {
	// fork-heavy parent choice: branch off recent nodes and ancestors of the head
	// (a third of the blocks with transactions spend the output that matured most recently — a coinbase exactly
	// at its threshold: whether such a block is valid depends on the fork it is judged on)
	let blk = (raw_block(0), prop_oneof![6 => Just(0u8), 5 => Just(1u8), 4 => 2u8..6, 4 => 101u8..106], prop::bool::weighted(0.33)).prop_map(|(mut b, p, at_threshold)| {
		b.parent = p;
		if at_threshold {
			if let Some(t) = b.txs.first_mut() {
				t.ins = vec![0];
				t.chain_prev = false;
			}
		}
		b
	});
	(
		prop::bool::weighted(0.25),
		prop::collection::vec(blk, 6..=max_blocks),
		prop::collection::vec(perm_strategy(), 3..=4),
		prop_oneof![8 => Just(0u8), 1 => 51u8..=56],
	)
		.prop_map(|(real, blocks, perms, deep)| Case { real: real && deep == 0, blocks, perms, deep })
}

struct Tree {
	world: World,
	/// node index → block (1..)
	builder: ChainBox,
	mode: PowMode,
}

fn build_tree(ctx: &Ctx, case: &Case) -> Result<Tree, Fail> {
	let dir = ctx.scratch_dir("c03b");
	let cb = ChainBox::open(&dir).map_err(|e| Fail::new("init-fresh", e))?;
	let mut w = World::new(&cb.genesis, case.real);
	let mode = if case.real { PowMode::Real } else { PowMode::Skip(1) };
	let mut head = 0usize;
	let prefix = (0..case.deep).map(|k| RawBlock { parent: 0, cb_key: k % 3, txs: vec![], dt: 60, diff: 20, neg: Neg::None, neg_pick: 0, hdr: 0, inp: 0 });
	let shifted = case.blocks.iter().map(|b| {
		let mut b = b.clone();
		if case.deep > 0 && b.parent > 100 {
			b.parent += 50;
		}
		b
	});
	let all: Vec<RawBlock> = prefix.chain(shifted).collect();
	for (i, raw) in all.iter().enumerate() {
		let built = w.build(cb.c(), raw, head).map_err(|e| Fail::new("builder", format!("block {}: {}", i, e)))?;
		let model = match &built.verdict {
			Ok(m) => m.clone(),
			Err(e) => fail!("harness:model-invalid", "generated block {} invalid in model: {:?}", i, e),
		};
		match cb.c().process_block(built.block.clone(), opts(mode)) {
			Ok(tip) => {
				let n = w.push(&built, model);
				if tip.is_some() {
					head = n;
				}
			}
			Err(e) => fail!("valid-block-rejected", "builder chain rejected valid block {} (h={}): {}", i, built.block.header.height, err_name(&e)),
		}
	}
	Ok(Tree { world: w, builder: cb, mode })
}

fn td(b: &Block) -> u64 {
	b.header.total_difficulty().to_num()
}

/// deliver headers first (parents before children), then bodies in the
/// permuted order with duplicates; check the head oracle after every delivery
fn deliver(ctx: &Ctx, t: &Tree, perm: &Perm, st: &mut Stats) -> Result<(Hash, String, ChainBox), Fail> {
	let w = &t.world;
	let n = w.nodes.len() - 1; // blocks 1..=n
	let dir = ctx.scratch_dir("c03t");
	let cb = ChainBox::open(&dir).map_err(|e| Fail::new("init-fresh", e))?;
	let chain = cb.c();
	let o = opts(t.mode);
	// ---- headers
	let mut i = 1;
	while i <= n {
		let use_chunk = match perm.header_mode {
			0 => false,
			1 => true,
			_ => i % 2 == 0,
		};
		if use_chunk {
			// maximal run of consecutive creation-order headers forming a path
			let mut j = i;
			while j + 1 <= n && w.nodes[j + 1].parent == j && j + 1 - i < 7 {
				j += 1;
			}
			let hs: Vec<_> = (i..=j).map(|k| w.nodes[k].block.header.clone()).collect();
			let sync_head = chain.header_head().map_err(|e| Fail::new("header_head-err", format!("{:?}", e)))?;
			if std::env::var("GV_DEBUG").is_ok() {
				eprintln!("sync chunk {}..={} sync_head h={} {:?}", i, j, sync_head.height, sync_head.last_block_h);
				for h in &hs {
					eprintln!("  hdr h={} hash={:?} prev={:?} td={}", h.height, h.hash(), h.prev_hash, h.total_difficulty().to_num());
				}
				for k in 0..=n {
					eprintln!("  node {} parent {} h={} hash {:?}", k, w.nodes[k].parent, w.nodes[k].height(), w.nodes[k].hash());
				}
			}
			chain
				.sync_block_headers(&hs, sync_head, o)
				.map_err(|e| Fail::new("valid-headers-rejected", format!("sync_block_headers {}..={}: {}", i, j, err_name(&e))))?;
			i = j + 1;
		} else {
			chain
				.process_block_header(&w.nodes[i].block.header, o)
				.map_err(|e| Fail::new("valid-header-rejected", format!("process_block_header node {}: {}", i, err_name(&e))))?;
			i += 1;
		}
	}
	// header_head must be a most-work header
	let hh = chain.header_head().map_err(|e| Fail::new("header_head-err", format!("{:?}", e)))?;
	let max_td = (1..=n).map(|k| td(&w.nodes[k].block)).max().unwrap_or(0);
	ensure!(hh.total_difficulty.to_num() == max_td, "header-head-not-max", "header_head td {} but max over delivered headers {}", hh.total_difficulty.to_num(), max_td);
	ensure!(chain.head().map(|h| h.height).unwrap_or(9) == 0, "head-moved-by-headers", "body head moved by header delivery");

	// ---- bodies
	let mut order: Vec<usize> = (1..=n).collect();
	order.sort_by_key(|&k| (perm.keys[(k - 1) % perm.keys.len()], k));
	let mut seq: Vec<usize> = order.clone();
	for (pp, bp) in &perm.dups {
		let pos = ((*pp as usize) * (seq.len() + 1)) >> 16;
		let b = order[((*bp as usize) * order.len()) >> 16];
		seq.insert(pos, b);
	}
	let mut delivered: BTreeSet<usize> = BTreeSet::new();
	let mut accepted: BTreeSet<usize> = BTreeSet::new();
	accepted.insert(0);
	let mut cur_head_td = td(&w.nodes[0].block);
	let mut cur_head = w.nodes[0].hash();
	let mut log_pos = 0usize;
	let mut lost_first = false;
	for (step, &k) in seq.iter().enumerate() {
		let was_delivered = delivered.contains(&k);
		let parent_ok = accepted.contains(&w.nodes[k].parent);
		let res = chain.process_block(w.nodes[k].block.clone(), o);
		delivered.insert(k);
		// model: newly accepted = closure of delivered under "parent accepted"
		let before = accepted.len();
		loop {
			let mut grew = false;
			for &d in &delivered {
				if !accepted.contains(&d) && accepted.contains(&w.nodes[d].parent) {
					accepted.insert(d);
					grew = true;
				}
			}
			if !grew {
				break;
			}
		}
		let newly = accepted.len() - before;
		// result of this very call
		match &res {
			Ok(_) => {
				ensure!(!was_delivered || !parent_ok || newly > 0, "duplicate-accepted", "step {}: duplicate body of node {} returned Ok", step, k);
				ensure!(parent_ok, "orphan-accepted", "step {}: body of node {} accepted before its parent's body", step, k);
			}
			Err(ChainError::Orphan) => {
				ensure!(!parent_ok, "spurious-orphan", "step {}: node {} reported orphan although parent body was accepted", step, k);
				st.orphans += 1;
			}
			Err(ChainError::Unfit(_)) => {
				ensure!(was_delivered, "valid-block-unfit", "step {}: first delivery of node {} refused as unfit: {:?}", step, k, res);
				st.dups += 1;
			}
			Err(e) => {
				fail!("valid-block-rejected", "step {}: body of node {} (parent accepted: {}) rejected: {}", step, k, parent_ok, err_name(e));
			}
		}
		if newly > 1 {
			st.orphan_resolved += 1;
		}
		// every accepted block is stored, nothing else is
		for d in 1..=n {
			let stored = chain.get_block(&w.nodes[d].hash()).is_ok();
			ensure!(
				stored == accepted.contains(&d),
				if stored { "block-stored-but-not-connected" } else { "accepted-block-missing" },
				"step {}: node {} stored={} but model accepted={}",
				step,
				d,
				stored,
				accepted.contains(&d)
			);
		}
		// acceptance events: head moves only to strictly more work, and always when more work
		let log = cb.adapter.log.lock().unwrap().clone();
		for ev in &log[log_pos..] {
			let Some(nd) = w.node_of(&ev.hash) else {
				fail!("accepted-unknown", "adapter reported unknown block");
			};
			let btd = td(&w.nodes[nd].block);
			if ev.status == "fork" {
				ensure!(btd <= cur_head_td, "more-work-block-not-head", "step {}: node {} td {} > head td {} reported as fork", step, nd, btd, cur_head_td);
				if btd < max_td {
					lost_first = true;
				}
			} else {
				ensure!(btd > cur_head_td, "head-moved-without-more-work", "step {}: node {} td {} became head over td {} ({})", step, nd, btd, cur_head_td, ev.status);
				cur_head_td = btd;
				cur_head = ev.hash;
			}
		}
		ensure!(log.len() - log_pos == newly, "accept-count", "step {}: adapter saw {} acceptances, model {}", step, log.len() - log_pos, newly);
		log_pos = log.len();
		let head = chain.head().map_err(|e| Fail::new("head-err", format!("{:?}", e)))?;
		ensure!(head.last_block_h == cur_head, "head-vs-events", "step {}: head() differs from the last head-setting acceptance", step);
		let best = accepted.iter().map(|&a| td(&w.nodes[a].block)).max().unwrap();
		ensure!(
			head.total_difficulty.to_num() == best,
			"head-not-most-work",
			"step {}: head td {} but most-work accepted block has {}",
			step,
			head.total_difficulty.to_num(),
			best
		);
		let Some(hn) = w.node_of(&head.last_block_h) else {
			fail!("head-unknown", "head is not a block of the world");
		};
		ensure!(accepted.contains(&hn), "head-not-connected", "step {}: head node {} has undelivered ancestors", step, hn);
	}
	if lost_first {
		st.loser_first = true;
	}
	let head = chain.head().map_err(|e| Fail::new("head-err", format!("{:?}", e)))?;
	let roots = {
		let tx = chain.txhashset();
		let r = tx.read().roots().map_err(|e| Fail::new("roots-err", format!("{:?}", e)))?;
		format!("{:?}/{:?}/{:?}/{:?}", r.output_roots.pmmr_root, r.output_roots.bitmap_root, r.rproof_root, r.kernel_root)
	};
	Ok((head.last_block_h, roots, cb))
}

#[derive(Default)]
struct Stats {
	orphans: u32,
	orphan_resolved: u32,
	dups: u32,
	loser_first: bool,
}

pub fn run_case(ctx: &Ctx, case: &Case, counting: bool) -> PResult {
	init_thread();
	let ev = &ctx.ev;
	let t = build_tree(ctx, case)?;
	let w = &t.world;
	let n = w.nodes.len() - 1;
	let max_td = (0..=n).map(|k| td(&w.nodes[k].block)).max().unwrap();
	let winners: Vec<usize> = (0..=n).filter(|&k| td(&w.nodes[k].block) == max_td).collect();
	let unique = winners.len() == 1;
	let mut st = Stats::default();
	let mut finals: Vec<(Hash, String)> = vec![];
	for (pi, perm) in case.perms.iter().enumerate() {
		let (h, r, cb) = deliver(ctx, &t, perm, &mut st).map_err(|f| Fail::new(f.sig, format!("perm {}: {}", pi, f.msg)))?;
		if unique {
			ensure!(h == w.nodes[winners[0]].hash(), "final-head-not-winner", "perm {}: final head is not the unique most-work block", pi);
			// state equals the model of the winner
			scan(&cb, w, &format!("perm {} final", pi))?;
		}
		cb.c().validate(false).map_err(|e| Fail::new("validate-failed", format!("perm {}: {:?}", pi, e)))?;
		finals.push((h, r));
	}
	if unique {
		for (i, f) in finals.iter().enumerate() {
			ensure!(f == &finals[0], "order-dependent-state", "perm {} ends on roots/head different from perm 0: {:?} vs {:?}", i, f, finals[0]);
		}
		// fresh chain fed only the winning branch, in order
		let mut path = vec![];
		let mut a = winners[0];
		while a != 0 {
			path.push(a);
			a = w.nodes[a].parent;
		}
		path.reverse();
		let dir = ctx.scratch_dir("c03w");
		let cb = ChainBox::open(&dir).map_err(|e| Fail::new("init-fresh", e))?;
		for &k in &path {
			cb.c()
				.process_block(w.nodes[k].block.clone(), opts(t.mode))
				.map_err(|e| Fail::new("valid-block-rejected", format!("winning branch alone: node {} rejected: {}", k, err_name(&e))))?;
		}
		let r = {
			let tx = cb.c().txhashset();
			let r = tx.read().roots().map_err(|e| Fail::new("roots-err", format!("{:?}", e)))?;
			format!("{:?}/{:?}/{:?}/{:?}", r.output_roots.pmmr_root, r.output_roots.bitmap_root, r.rproof_root, r.kernel_root)
		};
		ensure!(
			finals.is_empty() || (cb.c().head().map(|h| h.last_block_h).ok() == Some(finals[0].0) && r == finals[0].1),
			"differs-from-winner-alone",
			"state after permuted delivery differs from applying the winning chain alone"
		);
	}
	if counting {
		ev.eval();
		ev.class_n("deliveries_permutations", case.perms.len() as u64);
		if unique {
			ev.class("worlds_with_unique_maximum");
		} else {
			ev.class("worlds_with_tied_maximum");
		}
		if case.real {
			ev.class("worlds_real_pow");
		}
		if st.orphan_resolved > 0 {
			ev.class("worlds_with_orphan_resolved_later");
		}
		if st.loser_first {
			ev.class("worlds_with_losing_fork_before_winner");
		}
		if st.dups > 0 {
			ev.class("worlds_with_duplicate_delivery");
		}
		let tips = (1..=n).filter(|&k| !(1..=n).any(|c| w.nodes[c].parent == k)).count();
		if tips >= 2 {
			ev.class("worlds_with_2plus_branches");
		}
		if st.orphan_resolved > 0 && st.loser_first {
			let shape: Vec<usize> = (1..=n).map(|k| w.nodes[k].parent).collect();
			ev.nontrivial(&(shape, unique, case.real, st.orphans.min(6)));
		}
	}
	Ok(())
}

pub fn run(ctx: &Ctx) -> HResult<()> {
	init_global();
	let ev = &ctx.ev;
	ev.rule("fork trees of 6..20 valid blocks (2..4 branches; SKIP_POW with arbitrary per-block difficulty increments incl. ties, or real PoW) generated by proptest; all headers delivered first (singly or in path chunks), then bodies in 3..4 generated permutations with duplicates and children-before-parents; after every delivery the head is compared with the max-work block among blocks whose ancestors were all delivered, head moves checked for strict work increase via the adapter's acceptance events, and at quiescence head/roots/unspent scan compared across permutations and against the winning chain applied alone; non-trivial = an orphan resolved later AND a losing fork accepted before the winner; distinct by (tree shape, unique max, PoW mode, orphan count)");
	ev.assume("headers known first (statement precondition); orphan pool capacity (200) never exceeded by ≤20-block worlds");
	let cases = ctx.n(640, 6000);
	let mb = if ctx.quick() { 14 } else { 20 };
	let _ = mb;
	if let Some((case, f)) = pbt_proc(ctx, "world", cases, 16) {
		ctx.report("world", &f.sig, case, &f.msg);
	}
	let s = sample_one(ctx.derive_seed("sample", 0), &case_strategy(6));
	ev.sample("world", || serde_json::to_value(&s).unwrap());
	let _ = BTreeMap::<u8, u8>::new();
	Ok(())
}

pub fn part(ctx: &Ctx, part: &str, seed: u64, cases: u32) -> Option<(Value, Fail)> {
	init_global();
	match part {
		"world" => run_part(ctx, seed, cases, &case_strategy(if ctx.quick() { 14 } else { 20 }), |c, counting| run_case(ctx, c, counting)),
		_ => None,
	}
}

pub fn replay(ctx: &Ctx, part: &str, case: &Value) -> PResult {
	init_global();
	match part {
		"world" => {
			let c: Case = serde_json::from_value(case.clone()).map_err(|e| Fail::new("harness:replay-parse", e.to_string()))?;
			run_case(ctx, &c, false)
		}
		_ => Ok(()),
	}
}
