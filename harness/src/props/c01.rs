//! C01 — no value is created: accepted transactions and blocks balance.

use crate::engine::*;
use crate::world::gen::*;
use crate::world::tamper::*;
use crate::world::*;
use crate::{ensure, fail};
use grin_core::consensus;
use grin_core::core::hash::Hashed;
use grin_core::core::transaction::Weighting;
use grin_keychain::BlindingFactor;
use grin_util::secp::pedersen::Commitment;
use grin_util::static_secp_instance;
use proptest::prelude::*;
use serde_derive::{Deserialize, Serialize};
use serde_json::{json, Value};

// ------------------------------------------------------------------ part (a): transactions

#[derive(Clone, Debug, Serialize, Deserialize)]
pub struct RawSpec {
	pub n_in: u8,
	pub in_split: Vec<u16>,
	pub outs: Vec<(u8, u8)>,
	pub kernels: Vec<(u8, u64, u8, u16)>, // kind, fee, shift, lock
	pub zero_offset: bool,
	pub picks: Vec<u16>,
}

fn raw_spec() -> impl Strategy<Value = RawSpec> {
	(
		1u8..=4,
		prop::collection::vec(any::<u16>(), 4),
		prop::collection::vec((0u8..6, 0u8..6), 1..=6),
		{
			let kernel = || {
				(
					prop_oneof![5 => Just(0u8), 2 => Just(1u8), 2 => Just(2u8)],
					prop_oneof![3 => 1u64..10, 2 => 1u64..5_000_000, 1 => (1u64 << 39)..(1u64 << 40), 1 => Just((1u64 << 40) - 1)],
					0u8..16,
					1u16..1000,
				)
			};
			// mostly 1..3 kernels; now and then as many as a transaction can carry (65..67 with one output):
			// more than any batch size a signature / sum routine might work in
			prop_oneof![12 => prop::collection::vec(kernel(), 1..=3), 1 => prop::collection::vec(kernel(), 65..=67)]
		},
		any::<bool>(),
		prop::collection::vec(any::<u16>(), 4),
	)
		.prop_map(|(n_in, in_split, outs, kernels, zero_offset, picks)| RawSpec {
			n_in,
			in_split,
			outs,
			kernels,
			zero_offset,
			picks,
		})
}

fn resolve_spec(r: &RawSpec) -> TxSpec {
	// outputs from a small universe (memoised proofs); distinct commitments
	let mut outputs: Vec<OutRef> = vec![];
	for (a, k) in &r.outs {
		let mut o = OutRef {
			amount: AMT_MENU[*a as usize % 6],
			key: *k as u32,
			cb: false,
		};
		while outputs.contains(&o) {
			o.key += 6;
		}
		outputs.push(o);
	}
	if r.kernels.len() > 3 {
		// many kernels: one output so that the transaction stays within the weight limit
		outputs.truncate(1);
	}
	let kernels: Vec<KernelSpec> = r
		.kernels
		.iter()
		.map(|(kind, fee, shift, lock)| KernelSpec {
			kind: match kind {
				0 => KKind::Plain,
				1 => KKind::HeightLocked,
				_ => KKind::Nrd,
			},
			fee: *fee,
			shift: *shift,
			lock: if *kind == 0 { 0 } else { *lock as u64 },
			excess_tag: 0,
		})
		.collect();
	let total: u128 = outputs.iter().map(|o| o.amount as u128).sum::<u128>() + kernels.iter().map(|k| k.fee as u128).sum::<u128>();
	// inputs: n-1 small random amounts and the remainder
	// every input carries at least 1: no more inputs than there is value to spread
	let n_in = (r.n_in.max(1) as u128).min(total.max(1)) as usize;
	let mut inputs = vec![];
	let mut left = total;
	for i in 0..n_in {
		let amt = if i + 1 == n_in {
			left
		} else {
			let a = 1 + (r.in_split[i % r.in_split.len()] as u128 * (left.saturating_sub((n_in - i) as u128)).max(1) >> 17);
			a.min(left - (n_in - i - 1) as u128).max(1)
		};
		left -= amt;
		// outputs near u64::MAX plus fees can exceed what one input can carry: spill into further inputs
		let mut amt = amt;
		while amt > u64::MAX as u128 {
			inputs.push(OutRef {
				amount: u64::MAX,
				key: 340 + inputs.len() as u32,
				cb: false,
			});
			amt -= u64::MAX as u128;
		}
		if amt > 0 {
			inputs.push(OutRef {
				amount: amt as u64,
				key: 300 + i as u32,
				cb: false,
			});
		}
	}
	TxSpec {
		inputs,
		outputs,
		kernels,
		zero_offset: r.zero_offset,
	}
}

pub fn tx_case(ctx: &Ctx, r: &RawSpec, counting: bool) -> PResult {
	init_thread();
	let ev = &ctx.ev;
	let spec = resolve_spec(r);
	if !spec.balanced() || spec.inputs.iter().any(|i| i.amount == 0) {
		fail!("harness:unbalanced-spec", "generator produced an unbalanced spec {:?}", spec);
	}
	let (tx, _) = assemble(&spec);
	if counting && spec.kernels.len() > 64 {
		ev.class("tx_with_more_than_64_kernels");
	}
	let base = tx.validate(Weighting::AsTransaction);
	if let Err(e) = &base {
		// over the test block weight limit is a legitimate refusal; anything else is not
		if tx.weight() > grin_core::global::max_block_weight() {
			if counting {
				ev.class("tx_over_weight_limit_skipped");
			}
			return Ok(());
		}
		fail!("valid-tx-rejected", "valid transaction rejected: {} spec {:?}", err_name(e), spec);
	}
	if counting {
		ev.eval();
		ev.class("valid_tx_accepted");
	}
	for (ci, t) in tx_catalogue().into_iter().enumerate() {
		let pick = r.picks[ci % r.picks.len()] as usize;
		let t0 = std::time::Instant::now();
		let Some((bad, still_valid)) = tamper_tx(&spec, t, pick) else { continue };
		let t1 = t0.elapsed();
		let res = bad.validate(Weighting::AsTransaction);
		if std::env::var("GV_DEBUG").is_ok() {
			eprintln!("{:?}: tamper {:.1}ms validate {:.1}ms outs {}", t, t1.as_secs_f64() * 1e3, (t0.elapsed() - t1).as_secs_f64() * 1e3, bad.outputs().len());
		}
		if counting {
			ev.eval();
			ev.class(&format!("tx_corruption:{:?}", t));
			ev.nontrivial(&("tx", spec.inputs.len(), spec.outputs.len(), spec.kernels.iter().map(|k| k.kind).collect::<Vec<_>>(), t));
		}
		if still_valid {
			ensure!(res.is_ok(), format!("control-rejected:{:?}", t), "control mutation {:?} (still balanced, re-signed) rejected: {:?} spec {:?}", t, res.err().map(|e| err_name(&e)), spec);
		} else {
			ensure!(res.is_err(), format!("corrupt-tx-accepted:{:?}", t), "corrupted transaction ({:?}, pick {}) accepted; spec {:?}", t, pick, spec);
			if counting {
				// the reason each corruption is refused for (shows a corruption that is only ever refused for a side effect)
				if let Err(e) = &res {
					ev.class(&format!("tx_refusal:{:?}:{}", t, err_name(e)));
				}
			}
		}
	}
	Ok(())
}

// ------------------------------------------------------------------ part (b,c): blocks

#[derive(Clone, Debug, Serialize, Deserialize)]
pub struct BlockCase {
	/// empty blocks before the base block (coinbases to spend)
	pub prefix: u8,
	pub txs: Vec<RawTx>,
	pub picks: Vec<u16>,
	pub dt: u16,
}

fn block_case() -> impl Strategy<Value = BlockCase> {
	(5u8..=9, prop::collection::vec(raw_tx(), 0..=3), prop::collection::vec(any::<u16>(), 6), 1u16..300).prop_map(|(prefix, txs, picks, dt)| BlockCase { prefix, txs, picks, dt })
}

/// Σ commitments (None for an empty sum)
pub fn sum_commits(pos: Vec<Commitment>, neg: Vec<Commitment>) -> Result<Commitment, String> {
	let secp = static_secp_instance();
	let secp = secp.lock();
	secp.commit_sum(pos, neg).map_err(|e| format!("{:?}", e))
}

/// stored running sums of the head equal sums recomputed from the model,
/// and the full-state equation holds
pub fn check_sums(cb: &ChainBox, model: &Model, when: &str) -> PResult {
	let chain = cb.c();
	let head = chain.head().map_err(|e| Fail::new("head-err", format!("{:?}", e)))?;
	if head.height == 0 {
		return Ok(());
	}
	let sums = chain.get_block_sums(&head.last_block_h).map_err(|e| Fail::new("block-sums-missing", format!("{}: {:?}", when, e)))?;
	let secp = static_secp_instance();
	let utxo: Vec<Commitment> = model.utxo.keys().map(|k| Commitment::from_vec(k.clone())).collect();
	let utxo_sum = sum_commits(utxo, vec![]).map_err(|e| Fail::new("harness:sum", e))?;
	let kern_sum = sum_commits(model.kernel_excesses.clone(), vec![]).map_err(|e| Fail::new("harness:sum", e))?;
	ensure!(sums.kernel_sum == kern_sum, "stored-kernel-sum", "{}: stored kernel_sum differs from Σ kernel excesses of the replayed history (h={})", when, head.height);
	// full-state equation: Σ unspent − supply·H == Σ kernels + offset·G
	let supply = consensus::REWARD * head.height;
	let (lhs, rhs) = {
		let secp = secp.lock();
		let sh = secp.commit_value(supply).map_err(|e| Fail::new("harness:sum", format!("{:?}", e)))?;
		let lhs = secp.commit_sum(vec![utxo_sum], vec![sh]).map_err(|e| Fail::new("harness:sum", format!("{:?}", e)))?;
		let off = model.total_offset.clone().unwrap_or(BlindingFactor::zero());
		let rhs = if off.is_zero() {
			kern_sum
		} else {
			let og = secp.commit(0, off.secret_key(&secp).map_err(|e| Fail::new("harness:sum", format!("{:?}", e)))?).map_err(|e| Fail::new("harness:sum", format!("{:?}", e)))?;
			secp.commit_sum(vec![kern_sum, og], vec![]).map_err(|e| Fail::new("harness:sum", format!("{:?}", e)))?
		};
		(lhs, rhs)
	};
	// the stored "utxo_sum" is Σ unspent − supply·H (every block's overage is folded in)
	ensure!(sums.utxo_sum == lhs, "stored-utxo-sum", "{}: stored utxo_sum differs from Σ unspent − supply·H recomputed from the replayed state (h={})", when, head.height);
	ensure!(lhs == rhs, "full-state-equation", "{}: Σunspent − supply·H != Σkernels + offset·G at height {}", when, head.height);
	Ok(())
}

pub fn block_case_run(ctx: &Ctx, c: &BlockCase, counting: bool) -> PResult {
	init_thread();
	let ev = &ctx.ev;
	let dir = ctx.scratch_dir("c01");
	let cb = ChainBox::open(&dir).map_err(|e| Fail::new("init-fresh", e))?;
	let mut w = World::new(&cb.genesis, true);
	let mut head = 0usize;
	for _ in 0..c.prefix {
		let raw = RawBlock {
			parent: 0,
			cb_key: 0,
			txs: vec![],
			dt: 60,
			diff: 1,
			neg: Neg::None,
			neg_pick: 0,
			hdr: 0,
			inp: 0,
		};
		let built = w.build(cb.c(), &raw, head).map_err(|e| Fail::new("builder", e))?;
		let m = built.verdict.clone().map_err(|e| Fail::new("harness:model", format!("{:?}", e)))?;
		cb.c().process_block(built.block.clone(), opts(PowMode::Real)).map_err(|e| Fail::new("valid-block-rejected", format!("prefix block: {}", err_name(&e))))?;
		head = w.push(&built, m);
	}
	// resolve the base block's transactions against the model (reuses the
	// C02 interpreter, keeps the specs by rebuilding them here)
	let raw = RawBlock {
		parent: 0,
		cb_key: 1,
		txs: c.txs.clone(),
		dt: c.dt,
		diff: 1,
		neg: Neg::None,
		neg_pick: 0,
			hdr: 0,
			inp: 0,
	};
	let specs = w.resolve_specs(&raw, head);
	// leave room for a second coinbase output + kernel (SplitReward control)
	let mut specs = specs;
	while block_weight(&specs) + 2 * 24 > grin_core::global::max_block_weight() {
		specs.pop();
	}
	for s in &specs {
		for o in s.inputs.iter().chain(s.outputs.iter()) {
			w.note(o);
		}
	}
	let prev = w.nodes[head].block.header.clone();
	let cb_key = (prev.height as u32 + 1) * 4 + 1;
	let mut head_before = cb.c().head().map_err(|e| Fail::new("head-err", format!("{:?}", e)))?;
	let mut cat = block_catalogue();
	// the honest block somewhere in the middle: valid siblings that come later
	// are accepted as forks, corrupted ones must still be refused
	cat.insert(c.picks[0] as usize % cat.len(), BlockT::Untouched);
	for (ci, t) in cat.into_iter().enumerate() {
		let pick = c.picks[ci % c.picks.len()] as usize + ci;
		let tb = tampered_block(cb.c(), &prev, &specs, cb_key, c.dt as i64, t, pick).map_err(|e| Fail::new("builder", format!("{:?}: {}", t, e)))?;
		let Some(tb) = tb else { continue };
		if counting {
			ev.eval();
			ev.class(&format!("block_corruption:{:?}", t).split('(').next().unwrap().to_string());
			ev.class(&format!("expected_stage:{:?}", tb.stage));
			ev.nontrivial(&("block", specs.len(), specs.iter().map(|s| (s.inputs.len(), s.outputs.len(), s.kernels.len())).collect::<Vec<_>>(), t));
		}
		// stateless body validation
		let bv = tb.block.validate(&prev.total_kernel_offset);
		match tb.stage {
			Stage::Valid => ensure!(bv.is_ok(), format!("valid-block-body-rejected:{:?}", t), "Block::validate rejected a valid block ({:?}): {:?}", t, bv.err().map(|e| err_name(&e))),
			Stage::BodyValidation | Stage::CoinbaseRule => {
				ensure!(bv.is_err(), format!("corrupt-block-body-accepted:{:?}", t), "Block::validate accepted a corrupted block ({:?}, pick {})", t, pick);
				if counting {
					if let Err(e) = &bv {
						ev.class(&format!("block_body_refusal:{}:{}", format!("{:?}", t).split('(').next().unwrap(), err_name(e)));
					}
				}
			}
			_ => {}
		}
		let res = cb.c().process_block(tb.block.clone(), opts(PowMode::Real));
		if tb.valid {
			match res {
				Ok(tip) => {
					if counting {
						ev.class(if t == BlockT::Untouched { "honest_blocks_accepted" } else { "control_blocks_accepted" });
					}
					if tip.is_some() {
						// first valid block of the catalogue became the head
						let m = w.nodes[head].model.apply(&tb.block).map_err(|e| Fail::new("harness:model", format!("{:?}", e)))?;
						check_sums(&cb, &m, "after valid block")?;
						cb.c().validate(false).map_err(|e| Fail::new("validate-failed", format!("{:?}", e)))?;
						head_before = cb.c().head().map_err(|e| Fail::new("head-err", format!("{:?}", e)))?;
					}
				}
				Err(e) => fail!(format!("valid-block-rejected:{:?}", t), "valid block ({:?}) rejected: {}", t, err_name(&e)),
			}
		} else {
			ensure!(res.is_err(), format!("corrupt-block-accepted:{:?}", t), "corrupted block ({:?}, pick {}, expected stage {:?}) accepted; specs {:?}", t, pick, tb.stage, specs);
			if counting {
				if let Err(e) = &res {
					ev.class(&format!("block_refusal:{}:{}", format!("{:?}", t).split('(').next().unwrap(), err_name(e)));
				}
			}
			let h = cb.c().head().map_err(|e| Fail::new("head-err", format!("{:?}", e)))?;
			ensure!(h.last_block_h == head_before.last_block_h, "head-moved-by-rejected-block", "head changed by rejected block {:?}", t);
		}
	}
	Ok(())
}

fn block_weight(specs: &[TxSpec]) -> u64 {
	24 + specs
		.iter()
		.map(|s| grin_core::core::Transaction::weight_by_iok(s.inputs.len() as u64, s.outputs.len() as u64, s.kernels.len() as u64))
		.sum::<u64>()
}

// ------------------------------------------------------------------ part (d): histories

#[derive(Clone, Debug, Serialize, Deserialize)]
pub struct History {
	pub blocks: Vec<RawBlock>,
	/// false: SKIP_POW with free per-block difficulty — siblings can carry more work, a reorganisation can
	/// keep or shorten the chain
	#[serde(default = "yes")]
	pub real: bool,
}

fn yes() -> bool {
	true
}

fn history() -> impl Strategy<Value = History> {
	let blk = (raw_block(6), prop_oneof![8 => Just(0u8), 5 => Just(1u8), 3 => 2u8..6, 4 => 101u8..105]).prop_map(|(mut b, p)| {
		b.parent = p;
		b
	});
	(prop::collection::vec(blk, 4..=18), prop::bool::weighted(0.7)).prop_map(|(blocks, real)| History { blocks, real })
}

pub fn history_run(ctx: &Ctx, h: &History, counting: bool) -> PResult {
	init_thread();
	let ev = &ctx.ev;
	let dir = ctx.scratch_dir("c01h");
	let cb = ChainBox::open(&dir).map_err(|e| Fail::new("init-fresh", e))?;
	let mut w = World::new(&cb.genesis, h.real);
	let pm = if h.real { PowMode::Real } else { PowMode::Skip(1) };
	let mut head = 0usize;
	let (mut reorgs, mut spends) = (0u32, 0u32);
	for (i, raw) in h.blocks.iter().enumerate() {
		let built = w.build(cb.c(), raw, head).map_err(|e| Fail::new("builder", format!("op {}: {}", i, e)))?;
		header_first(cb.c(), &built.block, raw.hdr, built.verdict.is_ok(), pm)?;
		let res = cb.c().process_block(built.block.clone(), opts(pm));
		match (&built.verdict, res) {
			(Ok(m), Ok(tip)) => {
				let n = w.push(&built, m.clone());
				spends += built.n_spends as u32;
				if tip.is_some() {
					if built.parent != head {
						reorgs += 1;
					}
					head = n;
					check_sums(&cb, &w.nodes[head].model, &format!("after op {}", i))?;
					cb.c().validate(true).map_err(|e| Fail::new("fast-validate-failed", format!("op {}: {:?}", i, e)))?;
				}
			}
			(Ok(_), Err(e)) => fail!("valid-block-rejected", "op {}: {}", i, err_name(&e)),
			(Err(why), Ok(_)) => fail!(format!("invalid-block-accepted:{:?}", built.neg), "op {}: {:?}", i, why),
			(Err(_), Err(_)) => {}
		}
	}
	cb.c().validate(false).map_err(|e| Fail::new("validate-failed", format!("final: {:?}", e)))?;
	// every best-chain block's stored sums equal the model's
	let mut a = head;
	while a != 0 {
		let sums = cb.c().get_block_sums(&w.nodes[a].hash()).map_err(|e| Fail::new("block-sums-missing", format!("{:?}", e)))?;
		let m = &w.nodes[a].model;
		let supply_h = {
			let secp = static_secp_instance();
			let secp = secp.lock();
			secp.commit_value(consensus::REWARD * m.height).map_err(|e| Fail::new("harness:sum", format!("{:?}", e)))?
		};
		let us = sum_commits(m.utxo.keys().map(|k| Commitment::from_vec(k.clone())).collect(), vec![supply_h]).map_err(|e| Fail::new("harness:sum", e))?;
		let ks = sum_commits(m.kernel_excesses.clone(), vec![]).map_err(|e| Fail::new("harness:sum", e))?;
		ensure!(sums.utxo_sum == us && sums.kernel_sum == ks, "stored-sums-ancestor", "stored sums of best-chain block at height {} differ from recomputed", m.height);
		a = w.nodes[a].parent;
	}
	if counting {
		ev.eval();
		if reorgs > 0 {
			ev.class("histories_with_reorg");
		}
		if spends > 0 && reorgs > 0 {
			ev.nontrivial(&("hist", reorgs.min(5), spends.min(20), h.blocks.len()));
		}
	}
	Ok(())
}

pub fn run(ctx: &Ctx) -> HResult<()> {
	init_global();
	let ev = &ctx.ev;
	ev.rule("(a) valid transactions assembled from generated input/output/kernel multisets (1-4 inputs, 1-6 outputs, 1-3 kernels of all variants, fee up to 2^40-1, shift 0-15, zero or non-zero offset) and EVERY entry of the single-field corruption catalogue (incl. re-signed fee changes and controls that stay valid); (b) blocks of 0-3 transactions on a short real-PoW chain with EVERY block-level corruption (forged/compensated coinbase, flags, offset, roots, sizes, header rules, tx-level corruptions inside the block) through Block::validate and Chain::process_block; (c) fork/reorg histories with stored block sums compared after every head change with sums recomputed from the replay model through libsecp and the full-state equation; non-trivial = corruption whose untouched twin was accepted in the same case / history with a spend and a reorg; distinct by (body shape, corruption id)");
	ev.assume("verdict of each corruption derived from first principles (balance equation, signature coverage, proof/commitment binding); libsecp256k1-zkp trusted for commit sums");
	let procs = 16;
	if let Some((case, f)) = pbt_proc(ctx, "tx", ctx.n(480, 6000), procs) {
		ctx.report("tx", &f.sig, case, &f.msg);
	}
	eprintln!("part tx done at {:.1}s", ctx.start.elapsed().as_secs_f64());
	if let Some((case, f)) = pbt_proc(ctx, "block", ctx.n(96, 1200), procs) {
		ctx.report("block", &f.sig, case, &f.msg);
	}
	eprintln!("part block done at {:.1}s", ctx.start.elapsed().as_secs_f64());
	if let Some((case, f)) = pbt_proc(ctx, "history", ctx.n(96, 1200), procs) {
		ctx.report("history", &f.sig, case, &f.msg);
	}
	eprintln!("part history done at {:.1}s", ctx.start.elapsed().as_secs_f64());
	ev.sample("tx", || serde_json::to_value(resolve_spec(&sample_one(ctx.derive_seed("s", 0), &raw_spec()))).unwrap());
	ev.sample("block", || serde_json::to_value(sample_one(ctx.derive_seed("s", 1), &block_case())).unwrap());
	Ok(())
}

pub fn part(ctx: &Ctx, part: &str, seed: u64, cases: u32) -> Option<(Value, Fail)> {
	init_global();
	match part {
		"tx" => run_part(ctx, seed, cases, &raw_spec(), |c, counting| tx_case(ctx, c, counting)),
		"block" => run_part(ctx, seed, cases, &block_case(), |c, counting| block_case_run(ctx, c, counting)),
		"history" => run_part(ctx, seed, cases, &history(), |c, counting| history_run(ctx, c, counting)),
		_ => None,
	}
}

pub fn replay(ctx: &Ctx, part: &str, case: &Value) -> PResult {
	init_global();
	let bad = |e: serde_json::Error| Fail::new("harness:replay-parse", e.to_string());
	match part {
		"tx" => tx_case(ctx, &serde_json::from_value(case.clone()).map_err(bad)?, false),
		"block" => block_case_run(ctx, &serde_json::from_value(case.clone()).map_err(bad)?, false),
		"history" => history_run(ctx, &serde_json::from_value(case.clone()).map_err(bad)?, false),
		_ => Ok(()),
	}
}
