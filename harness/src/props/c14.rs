//! C14 — the transaction pool always holds a jointly valid, fee-paying, mineable set.

use crate::engine::*;
use crate::world::gen::*;
use crate::world::poolkit::*;
use crate::world::*;
use crate::{ensure, fail};
use grin_core::core::hash::Hashed;
use grin_core::core::transaction::{self, Weighting};
use grin_core::core::{Transaction};
use grin_core::global;
use grin_pool::types::TxSource;
use proptest::prelude::*;
use serde_derive::{Deserialize, Serialize};
use serde_json::{json, Value};
use std::collections::{BTreeMap, BTreeSet};

#[derive(Clone, Debug, Serialize, Deserialize)]
pub enum Submit {
	/// spend UTXO outputs (picks), n outputs
	Fresh { ins: Vec<u16>, n_out: u8, fee_class: u8, shift: u8, kern: u8 },
	/// spend an output of a pooled (tx or stem) transaction, plus optionally a UTXO output
	Child { parent_pick: u16, second_parent: Option<u16>, utxo_in: Option<u16>, fee_class: u8 },
	/// spend an input that a pooled transaction already spends
	Conflict { victim_pick: u16, fee_class: u8 },
	/// resubmit a pooled transaction unchanged
	Duplicate { pick: u16 },
	/// submit the aggregate of two pooled transactions
	AggregateOfPooled { a: u16, b: u16 },
	/// aggregate of a pooled transaction and a fresh one
	AggregateWithFresh { a: u16, ins: Vec<u16> },
	/// fee below the minimum for its weight
	LowFee { ins: Vec<u16> },
	/// aggregate of a pooled transaction and a fresh one paying below ITS minimum (the pooled one may
	/// overpay enough for the aggregate as a whole to look fee-paying): after deaggregation the
	/// remainder is the low-fee transaction and must be refused
	AggregateWithLowFee { a: u16, ins: Vec<u16> },
	/// heavier than a block can carry
	OverWeight { ins: Vec<u16> },
}

#[derive(Clone, Debug, Serialize, Deserialize)]
pub enum Op {
	Submit(Submit, bool),
	/// connect a block carrying the picked pool transactions (and optionally a conflicting spend)
	Block { picks: Vec<u16>, conflict: Option<u16>, dt: u16 },
	/// connect the block the miner would build from prepare_mineable_transactions
	Mine,
	/// a fork of `len` empty blocks from `depth` blocks below the head (wins when len > depth)
	Fork { depth: u8, len: u8 },
	/// headers of `len` blocks on top of the head arrive without their bodies (header-first announcement,
	/// header sync): the header chain runs ahead of the body chain the pool has to follow
	HeaderAhead { len: u8 },
	/// a chain of dependent transactions submitted in one go: a fresh one spending UTXO outputs, then each next
	/// one spending the previous one's output, with the given fee classes (so that fee order and dependency
	/// order disagree in every possible way)
	Chain { ins: Vec<u16>, fees: Vec<u8> },
}

#[derive(Clone, Debug, Serialize, Deserialize)]
pub struct Case {
	pub max_pool: u8,
	pub ops: Vec<Op>,
	/// false: the chain runs under SKIP_POW with free per-block difficulty, and a Fork's blocks carry a lot of
	/// work each — a fork can then win while being SHORTER than what it replaces, so the height of "the next
	/// block" goes down (with real proofs of work every reorganisation lengthens the chain)
	#[serde(default = "yes")]
	pub real: bool,
}

fn yes() -> bool {
	true
}

fn submit() -> impl Strategy<Value = Submit> {
	let picks = || prop::collection::vec(any::<u16>(), 1..=2);
	prop_oneof![
		10 => (picks(), 1u8..=3, 0u8..4, 0u8..4, prop_oneof![3 => Just(0u8), 2 => Just(1u8), 2 => Just(2u8), 2 => Just(3u8), 2 => Just(4u8)]).prop_map(|(ins, n_out, fee_class, shift, kern)| Submit::Fresh { ins, n_out, fee_class, shift, kern }),
		7 => (any::<u16>(), prop::option::weighted(0.3, any::<u16>()), prop::option::weighted(0.3, any::<u16>()), 0u8..4).prop_map(|(parent_pick, second_parent, utxo_in, fee_class)| Submit::Child { parent_pick, second_parent, utxo_in, fee_class }),
		3 => (any::<u16>(), 0u8..4).prop_map(|(victim_pick, fee_class)| Submit::Conflict { victim_pick, fee_class }),
		2 => any::<u16>().prop_map(|pick| Submit::Duplicate { pick }),
		2 => (any::<u16>(), any::<u16>()).prop_map(|(a, b)| Submit::AggregateOfPooled { a, b }),
		2 => (any::<u16>(), picks()).prop_map(|(a, ins)| Submit::AggregateWithFresh { a, ins }),
		2 => picks().prop_map(|ins| Submit::LowFee { ins }),
		2 => (any::<u16>(), picks()).prop_map(|(a, ins)| Submit::AggregateWithLowFee { a, ins }),
		1 => picks().prop_map(|ins| Submit::OverWeight { ins }),
	]
}

pub fn case_strategy(max_ops: usize) -> impl Strategy<Value = Case> {
	(
		prop_oneof![Just(3u8), Just(5u8), Just(50u8)],
		prop::collection::vec(
			prop_oneof![
				14 => (submit(), prop::bool::weighted(0.3)).prop_map(|(s, stem)| Op::Submit(s, stem)),
				3 => (prop::collection::vec(any::<u16>(), 0..3), prop::option::weighted(0.3, any::<u16>()), 1u16..300).prop_map(|(picks, conflict, dt)| Op::Block { picks, conflict, dt }),
				2 => Just(Op::Mine),
				1 => (1u8..=3, 1u8..=4).prop_map(|(depth, len)| Op::Fork { depth, len }),
				1 => (1u8..=3).prop_map(|len| Op::HeaderAhead { len }),
				2 => (prop::collection::vec(any::<u16>(), 1..=2), prop::collection::vec(0u8..4, 3..=5)).prop_map(|(ins, fees)| Op::Chain { ins, fees }),
			],
			4..=max_ops,
		),
	)
		.prop_map(|(max_pool, ops)| Case { max_pool, ops, real: true })
		.prop_flat_map(|c| prop::bool::weighted(0.7).prop_map(move |real| Case { real, ..c.clone() }))
}

const FEE_BASE: u64 = 1000;

struct Env {
	cb: ChainBox,
	w: World,
	head: usize,
	pm: PowMode,
	pool: Pool,
	/// OutRefs of outputs created by transactions we submitted (to know their keys)
	known_specs: Vec<TxSpec>,
	next_key: u32,
}

fn fee_for(spec_weight: u64, class: u8) -> u64 {
	match class {
		0 => spec_weight * FEE_BASE,           // exactly the minimum
		1 => spec_weight * FEE_BASE + 1,
		2 => spec_weight * FEE_BASE * 3,
		_ => spec_weight * FEE_BASE * 10 + 7,
	}
}

impl Env {
	fn utxo_spendable(&self) -> Vec<OutRef> {
		// mature for the next block, not already spent by a pooled tx
		let maturity = global::coinbase_maturity();
		let m = &self.w.nodes[self.head].model;
		let h = m.height + 1;
		let pooled_inputs = self.pool_inputs();
		let mut v: Vec<(u64, OutRef)> = m
			.utxo
			.iter()
			.filter(|(_, e)| !e.features.is_coinbase() || e.height + maturity <= h)
			.filter(|(c, _)| !pooled_inputs.contains(*c))
			.filter_map(|(c, e)| self.w.refs.get(c).map(|r| (e.height, *r)))
			.collect();
		v.sort_by(|a, b| b.0.cmp(&a.0).then(a.1.cmp(&b.1)));
		v.into_iter().map(|x| x.1).collect()
	}

	fn pooled(&self) -> Vec<Transaction> {
		let mut v = self.pool.txpool.all_transactions();
		v.extend(self.pool.stempool.all_transactions());
		v
	}

	fn pool_inputs(&self) -> BTreeSet<Vec<u8>> {
		let mut s = BTreeSet::new();
		for tx in self.pooled() {
			let ins: Vec<grin_core::core::CommitWrapper> = tx.inputs().into();
			for i in ins {
				s.insert(i.commitment().0.to_vec());
			}
		}
		s
	}

	/// outputs created by pooled transactions and not spent by another pooled one
	fn pool_outputs_unspent(&self) -> Vec<OutRef> {
		let ins = self.pool_inputs();
		let mut v = vec![];
		for tx in self.pooled() {
			for o in tx.outputs() {
				let c = o.commitment().0.to_vec();
				if !ins.contains(&c) {
					if let Some(r) = self.w.refs.get(&c) {
						v.push(*r);
					}
				}
			}
		}
		v.sort();
		v.dedup();
		v
	}

	fn fresh_outputs(&mut self, total: u64, n: usize) -> Vec<OutRef> {
		let mut outs = vec![];
		let mut left = total;
		for i in 0..n {
			let amt = if i + 1 == n { left } else { (AMT_MENU[i % 5]).min(left.saturating_sub((n - i - 1) as u64)).max(1) };
			left -= amt;
			self.next_key += 1;
			outs.push(OutRef {
				amount: amt,
				key: 2000 + self.next_key,
				cb: false,
			});
			if left == 0 {
				break;
			}
		}
		outs
	}

	fn spec_from(&mut self, inputs: Vec<OutRef>, n_out: usize, fee_class: u8, shift: u8, kern: u8) -> Option<TxSpec> {
		if inputs.is_empty() {
			return None;
		}
		let total: u64 = inputs.iter().map(|o| o.amount).sum();
		let nk = if kern == 1 { 2 } else if kern == 4 { 3 } else { 1 };
		let weight = Transaction::weight_by_iok(inputs.len() as u64, n_out as u64, nk as u64);
		// the minimum applies to the SHIFTED fee (fee >> fee_shift)
		let shift = if kern == 1 || kern == 4 { 0 } else { shift };
		let fee = fee_for(weight, fee_class) << shift;
		if total <= fee + n_out as u64 {
			return None;
		}
		let outputs = self.fresh_outputs(total - fee, n_out);
		let nk_real = nk;
		let weight_real = Transaction::weight_by_iok(inputs.len() as u64, outputs.len() as u64, nk_real as u64);
		// outputs may have collapsed: recompute the fee so that the class still holds
		let fee2 = fee_for(weight_real, fee_class) << shift;
		let outputs = if fee2 != fee {
			if total <= fee2 + outputs.len() as u64 {
				return None;
			}
			let n = outputs.len();
			self.fresh_outputs(total - fee2, n)
		} else {
			outputs
		};
		let fee = fee2;
		let h = self.w.nodes[self.head].model.height + 1;
		let kernels = match kern {
			1 => vec![KernelSpec::plain(fee - 1), KernelSpec::plain(1)],
			2 => vec![KernelSpec {
				kind: KKind::HeightLocked,
				fee,
				shift,
				lock: h,
				excess_tag: 0,
			}],
			// locked one block beyond the next one: not mineable on the head, so it must not be admitted
			3 => vec![KernelSpec {
				kind: KKind::HeightLocked,
				fee,
				shift,
				lock: h + 1,
				excess_tag: 0,
			}],
			// three height-locked kernels, ONE of them beyond the next block (kernels are kept in hash order, which
			// says nothing about their lock heights): not mineable on the head either
			4 if fee >= 3 => vec![
				KernelSpec { kind: KKind::HeightLocked, fee: fee - 2, shift: 0, lock: h + 1, excess_tag: 0 },
				KernelSpec { kind: KKind::HeightLocked, fee: 1, shift: 0, lock: 1, excess_tag: 0 },
				KernelSpec { kind: KKind::HeightLocked, fee: 1, shift: 0, lock: h, excess_tag: 0 },
			],
			4 => return None,
			_ => vec![KernelSpec {
				kind: KKind::Plain,
				fee,
				shift,
				lock: 0,
				excess_tag: 0,
			}],
		};
		let spec = TxSpec {
			inputs,
			outputs,
			kernels,
			zero_offset: false,
		};
		for o in spec.inputs.iter().chain(spec.outputs.iter()) {
			self.w.note(o);
		}
		Some(spec)
	}
}

/// the invariant of the statement, checked after every operation
fn invariant(env: &Env, when: &str) -> PResult {
	let chain = env.cb.c();
	let model = &env.w.nodes[env.head].model;
	let txs = env.pool.txpool.all_transactions();
	let stem = env.pool.stempool.all_transactions();
	// (5) every pooled tx individually
	for tx in txs.iter().chain(stem.iter()) {
		ensure!(tx.validate(Weighting::AsTransaction).is_ok(), "pooled-tx-invalid", "{}: a pooled transaction fails standalone validation", when);
		ensure!(
			tx.shifted_fee() >= tx.weight() * global::get_accept_fee_base(),
			"pooled-tx-below-min-fee",
			"{}: pooled transaction pays shifted fee {} < weight {} x base {}",
			when,
			tx.shifted_fee(),
			tx.weight(),
			global::get_accept_fee_base()
		);
		ensure!(tx.weight() <= global::max_tx_weight(), "pooled-tx-over-weight", "{}: pooled transaction weight {} over the limit", when, tx.weight());
		// "can be applied on top of the current head" includes the rules that depend on the height of the
		// next block: a reorganisation onto a shorter chain with more work lowers that height
		let next = model.height + 1;
		ensure!(
			tx.lock_height() <= next,
			"pooled-tx-premature:lock-height",
			"{}: a pooled transaction is locked until height {} but the next block is {} (it cannot be part of a block on the head)",
			when,
			tx.lock_height(),
			next
		);
		let ins: Vec<grin_core::core::CommitWrapper> = tx.inputs().into();
		for i in ins {
			if let Some(e) = model.utxo.get(&i.commitment().0.to_vec()) {
				ensure!(
					!e.features.is_coinbase() || e.height + global::coinbase_maturity() <= next,
					"pooled-tx-premature:coinbase-maturity",
					"{}: a pooled transaction spends the coinbase of height {} which matures at {} but the next block is {}",
					when,
					e.height,
					e.height + global::coinbase_maturity(),
					next
				);
			}
		}
	}
	for (name, set) in [("txpool", txs.clone()), ("txpool+stempool", { let mut v = txs.clone(); v.extend(stem.clone()); v })] {
		if set.is_empty() {
			continue;
		}
		// (2) no input shared
		let mut seen: BTreeSet<Vec<u8>> = BTreeSet::new();
		let mut produced: BTreeSet<Vec<u8>> = BTreeSet::new();
		for tx in &set {
			for o in tx.outputs() {
				produced.insert(o.commitment().0.to_vec());
			}
		}
		for tx in &set {
			let ins: Vec<grin_core::core::CommitWrapper> = tx.inputs().into();
			for i in ins {
				let c = i.commitment().0.to_vec();
				ensure!(seen.insert(c.clone()), "pool-double-spend", "{}: two {} transactions spend the same output {}", when, name, commit_hex(&i.commitment()));
				// (3) exists in UTXO or produced by another pooled tx
				ensure!(
					model.utxo.contains_key(&c) || produced.contains(&c),
					"pool-input-missing",
					"{}: a {} transaction spends {} which is neither unspent at the head (h={}) nor created in the pool",
					when,
					name,
					commit_hex(&i.commitment()),
					model.height
				);
			}
		}
		// (1),(4) jointly valid on top of the head
		let agg = transaction::aggregate(&set).map_err(|e| Fail::new("pool-aggregate-fails", format!("{}: aggregate of {} failed: {:?}", when, name, e)))?;
		ensure!(agg.validate(Weighting::NoLimit).is_ok(), "pool-aggregate-invalid", "{}: aggregate of {} does not validate", when, name);
		let r = chain.validate_tx(&agg);
		ensure!(r.is_ok(), "pool-not-applicable-to-head", "{}: aggregate of {} cannot be applied on the chain head: {:?}", when, name, r.err().map(|e| err_name(&e)));
	}
	Ok(())
}

fn connect(env: &mut Env, block: grin_core::core::Block, parent: usize, model: Model, spent_hint: Vec<OutRef>) -> Result<bool, Fail> {
	let prev_head = env.head;
	let res = env.cb.c().process_block(block.clone(), opts(env.pm));
	match res {
		Ok(tip) => {
			let built = Built {
				block: block.clone(),
				parent,
				verdict: Ok(model.clone()),
				neg: Neg::None,
				spent_now: spent_hint,
				n_spends: block.inputs().len(),
				recreated: false,
				cut_through: false,
				tags: vec![],
			};
			let n = env.w.push(&built, model);
			if tip.is_some() {
				let reorg = parent != prev_head;
				env.head = n;
				on_block_accepted(&mut env.pool, &block, reorg).map_err(|e| Fail::new("reconcile-error", format!("{:?}", e)))?;
				return Ok(true);
			}
			Ok(false)
		}
		Err(e) => Err(Fail::new("valid-block-rejected", format!("block h={} rejected: {}", block.header.height, err_name(&e)))),
	}
}

pub fn run_case(ctx: &Ctx, case: &Case, counting: bool) -> PResult {
	init_thread();
	global::set_local_accept_fee_base(FEE_BASE);
	let ev = &ctx.ev;
	let cb = ChainBox::open(&ctx.scratch_dir("c14")).map_err(|e| Fail::new("init-fresh", e))?;
	let w = World::new(&cb.genesis, case.real);
	let pm = if case.real { PowMode::Real } else { PowMode::Skip(1) };
	let pool = new_pool(cb.arc(), FEE_BASE, case.max_pool as usize, case.max_pool as usize, global::max_block_weight());
	let mut env = Env {
		cb,
		w,
		head: 0,
		pm,
		pool,
		known_specs: vec![],
		next_key: 0,
	};
	// 8 blocks so that several coinbases are mature
	for _ in 0..8 {
		let raw = RawBlock {
			parent: 0,
			cb_key: 0,
			txs: vec![],
			dt: 60,
			diff: 1,
			neg: Neg::None,
			neg_pick: 0,
			hdr: 0,
			inp: 0,
		};
		let built = env.w.build(env.cb.c(), &raw, env.head).map_err(|e| Fail::new("builder", e))?;
		let m = built.verdict.clone().map_err(|e| Fail::new("harness:model", format!("{:?}", e)))?;
		connect(&mut env, built.block.clone(), built.parent, m, vec![])?;
	}
	let (mut dependent, mut confirmed_part, mut evicted, mut reorged, mut mined) = (false, false, false, false, 0u32);
	for (i, op) in case.ops.iter().enumerate() {
		let header = env.cb.c().head_header().map_err(|e| Fail::new("head-err", format!("{:?}", e)))?;
		match op {
			Op::Submit(s, stem) => {
				let before = env.pool.total_size();
				let utxo = env.utxo_spendable();
				let pool_outs = env.pool_outputs_unspent();
				let pooled = env.pooled();
				let take = |v: &Vec<OutRef>, picks: &[u16]| -> Vec<OutRef> {
					let mut out = vec![];
					for p in picks {
						if let Some(o) = pick(v, *p) {
							if !out.contains(o) {
								out.push(*o);
							}
						}
					}
					out
				};
				// (tx, must_be_refused, label)
				let built: Option<(Transaction, Option<bool>, &str)> = match s {
					Submit::Fresh { ins, n_out, fee_class, shift, kern } => env
						.spec_from(take(&utxo, ins), *n_out as usize, *fee_class, *shift, *kern)
						.map(|sp| if *kern == 3 || *kern == 4 { (assemble(&sp).0, Some(true), if *kern == 3 { "locked-beyond-next-block" } else { "one-of-three-kernels-locked-beyond-next-block" }) } else { (assemble(&sp).0, Some(false), "fresh") }),
					Submit::Child { parent_pick, second_parent, utxo_in, fee_class } => {
						let mut ins = take(&pool_outs, &[*parent_pick]);
						if let Some(p2) = second_parent {
							for o in take(&pool_outs, &[*p2]) {
								if !ins.contains(&o) {
									ins.push(o);
								}
							}
						}
						if let Some(u) = utxo_in {
							ins.extend(take(&utxo, &[*u]));
						}
						if ins.is_empty() || pool_outs.is_empty() {
							None
						} else {
							dependent = true;
							env.spec_from(ins, 1, *fee_class, 0, 0).map(|sp| (assemble(&sp).0, Option::None, "child"))
						}
					}
					Submit::Conflict { victim_pick, fee_class } => {
						// an input (from the UTXO) that a pooled tx spends
						let model = &env.w.nodes[env.head].model;
						let mut victims: Vec<OutRef> = vec![];
						// inputs spent by PUBLIC pool transactions (a conflict with a stem-only
						// transaction is legitimately resolved in favour of the public pool)
						let _ = &pooled;
						for tx in &env.pool.txpool.all_transactions() {
							let ins: Vec<grin_core::core::CommitWrapper> = tx.inputs().into();
							for c in ins {
								let cbts = c.commitment().0.to_vec();
								if model.utxo.contains_key(&cbts) {
									if let Some(r) = env.w.refs.get(&cbts) {
										victims.push(*r);
									}
								}
							}
						}
						victims.sort();
						victims.dedup();
						match pick(&victims, *victim_pick).copied() {
							Some(v) => env.spec_from(vec![v], 1, *fee_class, 0, 0).map(|sp| (assemble(&sp).0, Some(true), "conflict")),
							None => None,
						}
					}
					Submit::Duplicate { pick: p } => {
						let t = env.pool.txpool.all_transactions();
						pick(&t, *p).cloned().map(|tx| (tx, Some(true), "duplicate"))
					}
					Submit::AggregateOfPooled { a, b } => {
						let t = env.pool.txpool.all_transactions();
						match (pick(&t, *a), pick(&t, *b)) {
							(Some(x), Some(y)) if x.hash() != y.hash() => transaction::aggregate(&[x.clone(), y.clone()]).ok().map(|tx| (tx, Option::None, "aggregate-of-pooled")),
							_ => None,
						}
					}
					Submit::AggregateWithFresh { a, ins } => {
						let t = env.pool.txpool.all_transactions();
						let fresh = env.spec_from(take(&utxo, ins), 1, 2, 0, 0).map(|sp| assemble(&sp).0);
						match (pick(&t, *a), fresh) {
							(Some(x), Some(f)) => transaction::aggregate(&[x.clone(), f]).ok().map(|tx| (tx, Option::None, "aggregate-with-fresh")),
							_ => None,
						}
					}
					Submit::LowFee { ins } => {
						let inputs = take(&utxo, ins);
						if inputs.is_empty() {
							None
						} else {
							let total: u64 = inputs.iter().map(|o| o.amount).sum();
							let weight = Transaction::weight_by_iok(inputs.len() as u64, 1, 1);
							let fee = (weight * FEE_BASE - 1).max(1);
							let outs = env.fresh_outputs(total - fee, 1);
							let spec = TxSpec {
								inputs,
								outputs: outs,
								kernels: vec![KernelSpec::plain(fee)],
								zero_offset: false,
							};
							for o in spec.inputs.iter().chain(spec.outputs.iter()) {
								env.w.note(o);
							}
							Some((assemble(&spec).0, Some(true), "low-fee"))
						}
					}
					Submit::AggregateWithLowFee { a, ins } => {
						let t = env.pool.txpool.all_transactions();
						let inputs = take(&utxo, ins);
						// the pooled partner that overpays most (so that the aggregate as a whole pays enough)
						let partner = {
							let mut c: Vec<&Transaction> = t.iter().collect();
							c.sort_by_key(|x| std::cmp::Reverse(x.shifted_fee().saturating_sub(x.accept_fee())));
							let n = c.len().min(2);
							if n == 0 { None } else { Some(c[*a as usize % n].clone()) }
						};
						match (partner, inputs.is_empty()) {
							(Some(x), false) => {
								let total: u64 = inputs.iter().map(|o| o.amount).sum();
								let weight = Transaction::weight_by_iok(inputs.len() as u64, 1, 1);
								let fee = (weight * FEE_BASE - 1).max(1);
								let outs = env.fresh_outputs(total - fee, 1);
								let spec = TxSpec {
									inputs,
									outputs: outs,
									kernels: vec![KernelSpec::plain(fee)],
									zero_offset: false,
								};
								for o in spec.inputs.iter().chain(spec.outputs.iter()) {
									env.w.note(o);
								}
								let low = assemble(&spec).0;
								let overpaid = x.shifted_fee() > x.accept_fee();
								if counting {
									ev.class(if overpaid { "aggregate_with_low_fee:partner_overpays" } else { "aggregate_with_low_fee:partner_pays_minimum" });
								}
								// fluff: the pool deaggregates to the low-fee remainder (must be refused); stem: the
								// aggregate is judged as one transaction (either outcome; the invariant decides)
								transaction::aggregate(&[x, low]).ok().map(|tx| (tx, if *stem { Option::None } else { Some(true) }, "aggregate-with-low-fee"))
							}
							_ => None,
						}
					}
					Submit::OverWeight { ins } => {
						// 12 outputs: weight > max_tx_weight (250 - 24)
						let inputs = take(&utxo, ins);
						if inputs.is_empty() {
							None
						} else {
							env.spec_from(inputs, 12, 2, 0, 0).map(|sp| (assemble(&sp).0, Some(true), "over-weight"))
						}
					}
				};
				let Some((tx, must_refuse, label)) = built else { continue };
				let res = env.pool.add_to_pool(TxSource::Broadcast, tx.clone(), *stem, &header);
				if counting {
					ev.class(&format!("submit:{}:{}", label, if res.is_ok() { "admitted" } else { "refused" }));
					// the reason a must-be-refused submission is refused for (a submission only ever refused for a
					// side effect — capacity, say — would not test the rule it was built for)
					if let (Some(true), Err(e)) = (must_refuse, &res) {
						let s = format!("{:?}", e);
						ev.class(&format!("refusal:{}:{}", label, s.split(|c: char| c == '(' || c == ' ' || c == '{').next().unwrap_or("")));
					}
				}
				match must_refuse {
					Some(true) => ensure!(res.is_err(), format!("pool-admitted:{}", label), "op {}: pool admitted a {} transaction", i, label),
					Some(false) => {
						// a fresh valid, fee-paying tx on unspent outputs: only capacity may refuse it
						if let Err(e) = &res {
							let s = format!("{:?}", e);
							ensure!(s.contains("OverCapacity"), "pool-refused-valid", "op {}: pool refused a valid fresh transaction: {}", i, s);
						}
					}
					None => {}
				}
				if env.pool.total_size() < before || (res.is_ok() && env.pool.total_size() == before && !*stem && before as u8 >= case.max_pool) {
					evicted = true;
				}
			}
			Op::Block { picks, conflict, dt } => {
				let t = env.pool.txpool.all_transactions();
				let mut chosen: Vec<Transaction> = vec![];
				for p in picks {
					if let Some(tx) = pick(&t, *p) {
						if !chosen.iter().any(|c| c.hash() == tx.hash()) {
							chosen.push(tx.clone());
						}
					}
				}
				// a block must be valid on its own: keep only a subset whose inputs are all in the UTXO or created within the subset
				let model = env.w.nodes[env.head].model.clone();
				loop {
					let produced: BTreeSet<Vec<u8>> = chosen.iter().flat_map(|tx| tx.outputs().iter().map(|o| o.commitment().0.to_vec()).collect::<Vec<_>>()).collect();
					let before = chosen.len();
					chosen.retain(|tx| {
						let ins: Vec<grin_core::core::CommitWrapper> = tx.inputs().into();
						ins.iter().all(|c| {
							let b = c.commitment().0.to_vec();
							model.utxo.contains_key(&b) || produced.contains(&b)
						})
					});
					if chosen.len() == before {
						break;
					}
				}
				if let Some(cp) = conflict {
					// a transaction (not from the pool) spending an input some pooled tx spends
					let mut victims: Vec<OutRef> = vec![];
					for tx in &t {
						if chosen.iter().any(|c| c.hash() == tx.hash()) {
							continue;
						}
						let ins: Vec<grin_core::core::CommitWrapper> = tx.inputs().into();
						for c in ins {
							let b = c.commitment().0.to_vec();
							if model.utxo.contains_key(&b) {
								if let Some(r) = env.w.refs.get(&b) {
									victims.push(*r);
								}
							}
						}
					}
					victims.sort();
					victims.dedup();
					if let Some(v) = pick(&victims, *cp).copied() {
						if let Some(sp) = env.spec_from(vec![v], 1, 2, 0, 0) {
							chosen.push(assemble(&sp).0);
						}
					}
				}
				let total_w: u64 = chosen.iter().map(|t| t.weight()).sum();
				while !chosen.is_empty() && chosen.iter().map(|t| t.weight()).sum::<u64>() + 24 > global::max_block_weight() {
					chosen.pop();
				}
				let _ = total_w;
				let prev = env.w.nodes[env.head].block.header.clone();
				let cbkey = (prev.height as u32 + 1) * 4;
				let fees: u64 = chosen.iter().map(|t| t.fee()).sum();
				let (cbref, _, _) = LIB.coinbase(fees, cbkey);
				env.w.note(&cbref);
				let b = make_block(env.cb.c(), &prev, &chosen, cbkey, *dt as i64, env.pm).map_err(|e| Fail::new("builder", format!("op {}: {}", i, e)))?;
				let m = model.apply(&b).map_err(|e| Fail::new("harness:model", format!("op {}: block of pool txs invalid in model: {:?}", i, e)))?;
				if !chosen.is_empty() && env.pool.total_size() > chosen.len() {
					confirmed_part = true;
				}
				let parent = env.head;
				connect(&mut env, b, parent, m, vec![])?;
			}
			Op::Mine => {
				let txs = env.pool.prepare_mineable_transactions().map_err(|e| Fail::new("prepare-mineable-error", format!("op {}: {:?}", i, e)))?;
				let prev = env.w.nodes[env.head].block.header.clone();
				let cbkey = (prev.height as u32 + 1) * 4 + 1;
				let fees: u64 = txs.iter().map(|t| t.fee()).sum();
				let (cbref, _, _) = LIB.coinbase(fees, cbkey);
				env.w.note(&cbref);
				let b = make_block(env.cb.c(), &prev, &txs, cbkey, 60, env.pm).map_err(|e| Fail::new("mineable-set-not-assemblable", format!("op {}: the mineable set does not assemble into a block: {}", i, e)))?;
				let wgt = b.body.weight();
				ensure!(wgt <= global::max_block_weight(), "mineable-set-over-weight", "op {}: block from the mineable set weighs {} > {}", i, wgt, global::max_block_weight());
				let model = env.w.nodes[env.head].model.clone();
				let m = match model.apply(&b) {
					Ok(m) => m,
					Err(e) => fail!("mineable-set-invalid-in-model", "op {}: block from the mineable set is invalid on the head: {:?}", i, e),
				};
				let parent = env.head;
				match connect(&mut env, b, parent, m, vec![]) {
					Ok(_) => {}
					Err(f) => fail!("mineable-set-rejected", "op {}: the chain rejected the block built from prepare_mineable_transactions(): {}", i, f.msg),
				}
				mined += 1;
				if counting {
					ev.class_n("mined_txs", txs.len() as u64);
				}
			}
			Op::Chain { ins, fees } => {
				let utxo = env.utxo_spendable();
				let mut first: Vec<OutRef> = vec![];
				for p in ins {
					if let Some(o) = pick(&utxo, *p) {
						if !first.contains(o) {
							first.push(*o);
						}
					}
				}
				let mut prev_out: Option<OutRef> = None;
				for (k, fc) in fees.iter().enumerate() {
					// the previous link may have been evicted to make room (small pools): the chain ends there
					if let Some(o) = prev_out {
						if !env.pool_outputs_unspent().contains(&o) {
							break;
						}
					}
					let inputs = match prev_out {
						None => first.clone(),
						Some(o) => vec![o],
					};
					let Some(sp) = env.spec_from(inputs, 1, *fc, 0, 0) else { break };
					let out0 = sp.outputs[0];
					let tx = assemble(&sp).0;
					match env.pool.add_to_pool(TxSource::Broadcast, tx, false, &header) {
						Ok(()) => {
							prev_out = Some(out0);
							if k > 0 {
								dependent = true;
							}
							if counting {
								ev.class(&format!("chain_link_admitted:depth{}", (k + 1).min(5)));
							}
						}
						Err(e) => {
							let s = format!("{:?}", e);
							ensure!(s.contains("OverCapacity"), "pool-refused-valid", "op {}: pool refused link {} of a chain of valid dependent transactions: {}", i, k + 1, s);
							break;
						}
					}
				}
			}
			Op::HeaderAhead { len } => {
				// built on the head like any block, but only the headers are delivered; the bodies never arrive
				let mut parent_hdr = env.w.nodes[env.head].block.header.clone();
				for k in 0..*len {
					let cbkey = (parent_hdr.height as u32 + 1) * 4 + 3;
					let (cbref, _, _) = LIB.coinbase(0, cbkey);
					env.w.note(&cbref);
					let b = match make_block(env.cb.c(), &parent_hdr, &[], cbkey, 45 + k as i64, env.pm) {
						Ok(b) => b,
						// the builder can only root a block on a parent whose body the chain has
						Err(_) => break,
					};
					env.cb
						.c()
						.process_block_header(&b.header, opts(env.pm))
						.map_err(|e| Fail::new("valid-header-rejected", format!("op {}: header {} above the head refused: {}", i, k + 1, err_name(&e))))?;
					if counting {
						ev.class("headers_delivered_ahead_of_bodies");
					}
					parent_hdr = b.header.clone();
					break; // a second header would need the first block's body to be rooted
				}
			}
			Op::Fork { depth, len } => {
				// empty blocks from an ancestor; the last one may win and trigger reorg handling
				let mut first = true;
				for _ in 0..*len {
					let raw = RawBlock {
						parent: if first { 100 + *depth } else { 1 },
						cb_key: 2,
						txs: vec![],
						dt: 30,
						diff: 900,
						neg: Neg::None,
						neg_pick: 0,
			hdr: 0,
			inp: 0,
					};
					first = false;
					let h = env.head;
					let built = env.w.build(env.cb.c(), &raw, h).map_err(|e| Fail::new("builder", e))?;
					let Ok(m) = built.verdict.clone() else { break };
					if env.w.node_of(&built.block.hash()).is_some() {
						break; // the same fork block was already delivered by an earlier Fork op
					}
					let was = env.head;
					let was_h = env.w.nodes[was].height();
					if connect(&mut env, built.block.clone(), built.parent, m, vec![])? && built.parent != was {
						reorged = true;
						if counting && env.w.nodes[env.head].height() < was_h {
							ev.class("reorgs_onto_a_shorter_chain_with_more_work");
						}
					}
				}
			}
		}
		if std::env::var("GV_DEBUG").is_ok() {
			eprintln!("op {} {:?}: head h={} txpool={} stempool={}", i, op, env.w.nodes[env.head].height(), env.pool.txpool.size(), env.pool.stempool.size());
		}
		invariant(&env, &format!("after op {} ({})", i, match op {
			Op::Submit(..) => "submit",
			Op::Block { .. } => "block",
			Op::Mine => "mine",
			Op::Fork { .. } => "fork",
			Op::HeaderAhead { .. } => "header-ahead",
			Op::Chain { .. } => "chain",
		}))?;
	}
	if counting {
		ev.eval();
		if dependent {
			ev.class("histories_with_dependent_chain");
		}
		if evicted {
			ev.class("histories_with_eviction");
		}
		if reorged {
			ev.class("histories_with_reorg");
		}
		if confirmed_part {
			ev.class("histories_with_partial_confirmation");
		}
		if mined > 0 {
			ev.class("histories_with_mining");
		}
		if dependent && (confirmed_part || evicted || reorged) {
			ev.nontrivial(&(case.max_pool, confirmed_part, evicted, reorged, mined.min(3), case.ops.len()));
		}
	}
	drop(env.pool);
	let _ = BTreeMap::<u8, u8>::new();
	Ok(())
}

pub fn run(ctx: &Ctx) -> HResult<()> {
	init_global();
	let ev = &ctx.ev;
	ev.rule("histories over a real chain + TransactionPool wired like the node (reconcile_block on head changes, reconcile_reorg_cache on reorgs): submissions (fresh, children and grandchildren of pooled transactions incl. two pooled parents, conflicting, duplicate, aggregates of pooled transactions, below minimum fee, over weight, with fee shift, stem or fluff), blocks carrying arbitrary subsets of pool transactions or conflicting spends, mining from prepare_mineable_transactions, winning and losing forks, small capacities to force eviction; after every operation: no two pooled transactions share an input, every input is unspent at the head or created in the pool, the aggregate of the public pool (and of public+stem) validates and passes Chain::validate_tx, every pooled transaction pays the minimum fee, respects the weight limit and validates alone; the mined block is within the weight limit and accepted by the chain; non-trivial = history with a dependent chain in the pool and (partial confirmation or eviction or reorg); distinct by (capacity, those flags, mined count, length)");
	ev.assume("accept_fee_base set to 1000 for these cases (thread-local); block weight limit 250 (AutomatedTesting)");
	if let Some((case, f)) = pbt_proc(ctx, "history", ctx.n(640, 6000), 16) {
		ctx.report("history", &f.sig, case, &f.msg);
	}
	let s = sample_one(ctx.derive_seed("sample", 0), &case_strategy(6));
	ev.sample("history", || serde_json::to_value(&s).unwrap());
	let _ = json!(0);
	Ok(())
}

pub fn part(ctx: &Ctx, part: &str, seed: u64, cases: u32) -> Option<(Value, Fail)> {
	init_global();
	match part {
		"history" => run_part(ctx, seed, cases, &case_strategy(if ctx.quick() { 22 } else { 30 }), |c, counting| run_case(ctx, c, counting)),
		_ => None,
	}
}

pub fn replay(ctx: &Ctx, part: &str, case: &Value) -> PResult {
	init_global();
	match part {
		"history" => {
			let c: Case = serde_json::from_value(case.clone()).map_err(|e| Fail::new("harness:replay-parse", e.to_string()))?;
			run_case(ctx, &c, false)
		}
		_ => Ok(()),
	}
}
