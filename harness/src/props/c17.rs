//! C17 — concurrent chain use neither deadlocks nor exposes uncommitted state.
//!
//! A world (fork tree of real-PoW blocks) is built sequentially on a builder
//! chain. A fresh target chain is then used by several threads at once:
//! "peers" delivering the blocks of competing forks (overlapping, each in
//! its own order), header-first threads, readers and (on the 90-block base
//! chain) a compaction thread. A seeded perturbation plan installed through
//! the cfg(grin_verif) sched_point hook yields / sleeps at lock acquisitions
//! so that race windows differ from run to run. Interleavings are SAMPLED.

use crate::engine::*;
use crate::props::c02::{base, clone_world, scan};
use crate::world::gen::*;
use crate::world::*;
use crate::{ensure, fail};
use grin_chain::types::Options;
use grin_core::core::hash::{Hash, Hashed};
use grin_core::core::{Block, Inputs};
use proptest::prelude::*;
use serde_derive::{Deserialize, Serialize};
use serde_json::{json, Value};
use std::collections::HashMap;
use std::sync::atomic::{AtomicBool, AtomicU64, Ordering};
use std::sync::{Arc, Mutex};
use std::time::{Duration, Instant};

#[derive(Clone, Debug, Serialize, Deserialize)]
pub struct Case {
	pub on_base: bool,
	pub blocks: Vec<RawBlock>,
	pub peers: u8,
	pub header_threads: u8,
	pub readers: u8,
	pub compact: bool,
	/// perturbation: probability (per mille) of a sleep / a yield at a sched point, max sleep in µs
	pub p_sleep: u16,
	pub p_yield: u16,
	pub max_sleep_us: u16,
	pub plan_seed: u64,
	/// the target chain's database starts a few pages short of the point where the store enlarges its map,
	/// so the enlargement (which waits for open transactions and holds back new ones) falls into the run
	#[serde(default)]
	pub near_full: bool,
	/// (base chain, with the compaction thread) the first new block spends the two oldest sibling outputs —
	/// leaves a compaction may physically remove once they are spent below the horizon — and the next two blocks
	/// are a heavier fork from its parent: the compaction runs while that block is being committed and the
	/// reorganisation then has to rewind it
	#[serde(default)]
	pub old_pair: bool,
}

pub fn case_strategy() -> impl Strategy<Value = Case> {
	let blk = (raw_block(0), prop_oneof![7 => Just(0u8), 5 => Just(1u8), 4 => 2u8..5, 5 => 101u8..105]).prop_map(|(mut b, p)| {
		b.parent = p;
		b
	});
	(
		prop::bool::weighted(0.3),
		prop::collection::vec(blk, 6..16),
		2u8..=4,
		0u8..=2,
		1u8..=3,
		any::<bool>(),
		(0u16..300, 0u16..500, 50u16..2000),
		any::<u64>(),
		prop::bool::weighted(0.35),
		prop::bool::weighted(0.2),
	)
		.prop_map(|(on_base, mut blocks, peers, header_threads, readers, compact, (p_sleep, p_yield, max_sleep_us), plan_seed, near_full, old_pair)| {
			if old_pair {
				blocks[0].parent = 0;
				blocks[0].neg = Neg::None;
				blocks[0].inp = 0;
				blocks[0].txs = vec![RawTx { ins: vec![65535, 65534], outs: vec![RawOut { kind: 0, amt: 1, key: 1 }], fee: 1, kern: 0, zero_offset: false, chain_prev: false }];
				blocks[1].parent = 101;
				blocks[2].parent = 1;
			}
			Case {
			on_base: on_base || old_pair,
			blocks,
			peers,
			header_threads,
			readers,
			compact: compact || old_pair,
			p_sleep,
			p_yield,
			max_sleep_us,
			plan_seed,
			near_full,
			old_pair,
		}})
}

thread_local! {
	static TNAME: std::cell::RefCell<(usize, u64)> = std::cell::RefCell::new((usize::MAX, 0));
}

struct Progress {
	/// per worker: (last sched label, when, finished)
	table: Mutex<Vec<(String, Instant, bool)>>,
	in_process_block: AtomicU64,
	overlap_seen: AtomicBool,
}

fn roots_of(chain: &grin_chain::Chain) -> Result<String, String> {
	let tx = chain.txhashset();
	let r = tx.read().roots().map_err(|e| format!("{:?}", e))?;
	Ok(format!("{:?}/{:?}/{:?}/{:?}", r.output_roots.pmmr_root, r.output_roots.bitmap_root, r.rproof_root, r.kernel_root))
}

pub fn run_case(ctx: &Ctx, case: &Case, counting: bool) -> PResult {
	init_global(); // worker threads inherit the global chain type
	init_thread();
	let ev = &ctx.ev;
	// ---- build the world sequentially on a builder chain
	let (builder, mut w, mut head, first_new) = if case.on_base {
		let b = base(ctx).map_err(|e| Fail::new("harness:base", e))?;
		let dir = ctx.scratch_dir("c17b");
		copy_dir(&b.dir, &dir).map_err(|e| Fail::new("harness:copy", e.to_string()))?;
		let cb = ChainBox::open(&dir).map_err(|e| Fail::new("init-base-copy", e))?;
		let w = clone_world(&b.world);
		let h = w.nodes.len() - 1;
		(cb, w, h, h + 1)
	} else {
		let cb = ChainBox::open(&ctx.scratch_dir("c17b")).map_err(|e| Fail::new("init-fresh", e))?;
		let w = World::new(&cb.genesis, true);
		(cb, w, 0usize, 1usize)
	};
	for (i, raw) in case.blocks.iter().enumerate() {
		let built = w.build(builder.c(), raw, head).map_err(|e| Fail::new("builder", format!("block {}: {}", i, e)))?;
		let Ok(m) = built.verdict.clone() else { continue };
		match builder.c().process_block(built.block.clone(), Options::NONE) {
			Ok(tip) => {
				let n = w.push(&built, m);
				if tip.is_some() {
					head = n;
				}
			}
			Err(e) => fail!("valid-block-rejected", "builder rejected block {}: {}", i, err_name(&e)),
		}
	}
	let final_roots = roots_of(builder.c()).map_err(|e| Fail::new("roots-err", e))?;
	let best = head;
	let n_nodes = w.nodes.len();
	if n_nodes <= first_new {
		return Ok(());
	}
	let max_td = (0..n_nodes).map(|k| w.nodes[k].block.header.total_difficulty().to_num()).max().unwrap();
	let unique_max = (0..n_nodes).filter(|&k| w.nodes[k].block.header.total_difficulty().to_num() == max_td).count() == 1;
	// ---- the target chain
	let target = if case.on_base {
		let b = base(ctx).map_err(|e| Fail::new("harness:base", e))?;
		let dir = ctx.scratch_dir("c17t");
		copy_dir(&b.dir, &dir).map_err(|e| Fail::new("harness:copy", e.to_string()))?;
		ChainBox::open(&dir).map_err(|e| Fail::new("init-base-copy", e))?
	} else {
		ChainBox::open(&ctx.scratch_dir("c17t")).map_err(|e| Fail::new("init-fresh", e))?
	};
	let map_before = if case.near_full {
		let slack = 4096 * (2 + (case.plan_seed % 5));
		Some(fill_db_near_resize(&target.dir, slack).map_err(|e| Fail::new("harness:fill", e))?.1)
	} else {
		None
	};
	let chain = target.arc();
	let w = Arc::new(w);
	// hash → node
	let by_hash: Arc<HashMap<Hash, usize>> = Arc::new((0..n_nodes).map(|k| (w.nodes[k].hash(), k)).collect());
	let n_workers = case.peers as usize + case.header_threads as usize + case.readers as usize + if case.compact && case.on_base { 1 } else { 0 };
	let progress = Arc::new(Progress {
		table: Mutex::new(vec![("start".to_string(), Instant::now(), false); n_workers]),
		in_process_block: AtomicU64::new(0),
		overlap_seen: AtomicBool::new(false),
	});
	// ---- perturbation plan
	{
		let (ps, py, ms, seed) = (case.p_sleep as u64, case.p_yield as u64, case.max_sleep_us as u64, case.plan_seed);
		let prog = progress.clone();
		grin_util::verif::set_sched_plan(Some(Arc::new(move |label: &str| {
			let (idx, n) = TNAME.with(|t| {
				let mut t = t.borrow_mut();
				t.1 += 1;
				*t
			});
			if idx == usize::MAX {
				return;
			}
			if let Ok(mut tb) = prog.table.lock() {
				tb[idx].0 = label.to_string();
				tb[idx].1 = Instant::now();
			}
			if label == "got:process_block" {
				// (released when the worker returns from process_block)
			}
			let r = hash_of(&(seed, idx, n, label));
			let x = r % 1000;
			// between a call's two lock acquisitions ("mid:") a pause is what opens the window for a
			// lock-order inversion: pause there more often
			let ps = if label.starts_with("mid:") { (ps * 2).max(150) } else { ps };
			if x < ps {
				std::thread::sleep(Duration::from_micros(1 + (r >> 20) % ms));
			} else if x < ps + py {
				std::thread::yield_now();
			}
		})));
		grin_util::verif::sched_enable(true);
	}
	let failures: Arc<Mutex<Vec<Fail>>> = Arc::new(Mutex::new(vec![]));
	let stop_readers = Arc::new(AtomicBool::new(false));
	let observed_heads = Arc::new(AtomicU64::new(0));
	let mut handles = vec![];
	let mut widx = 0usize;
	let order_for = |k: u64, all: &Vec<usize>| -> Vec<usize> {
		// each peer: a subset in a perturbed order (mostly parents first, sometimes not)
		let mut v: Vec<(u64, usize)> = all.iter().map(|&n| (hash_of(&(case.plan_seed, k, n)) % 100, n)).collect();
		v.retain(|(r, _)| *r < 80); // skips some blocks; other peers deliver them
		let mut v: Vec<usize> = v.into_iter().map(|x| x.1).collect();
		// local swaps
		for i in 0..v.len().saturating_sub(1) {
			if hash_of(&(case.plan_seed, k, i, "swap")) % 4 == 0 {
				v.swap(i, i + 1);
			}
		}
		v
	};
	let new_nodes: Vec<usize> = (first_new..n_nodes).collect();
	let fail_push = |failures: &Arc<Mutex<Vec<Fail>>>, f: Fail| failures.lock().unwrap().push(f);
	// peers
	for p in 0..case.peers as u64 {
		let mut order = order_for(p, &new_nodes);
		if p == 0 {
			order = new_nodes.clone(); // one peer has everything, in order
		}
		let (chain, w, prog, failures) = (chain.clone(), w.clone(), progress.clone(), failures.clone());
		let my = widx;
		widx += 1;
		handles.push(std::thread::Builder::new().name(format!("peer{}", p)).spawn(move || {
			init_thread();
			TNAME.with(|t| *t.borrow_mut() = (my, 0));
			let r = catch(|| {
				for round in 0..2 {
					for &n in &order {
						let b: Block = w.nodes[n].block.clone();
						let c = prog.in_process_block.fetch_add(1, Ordering::SeqCst);
						if c >= 1 {
							prog.overlap_seen.store(true, Ordering::SeqCst);
						}
						let res = chain.process_block(b, Options::NONE);
						prog.in_process_block.fetch_sub(1, Ordering::SeqCst);
						match res {
							Ok(_) => {}
							Err(grin_chain::Error::Orphan) | Err(grin_chain::Error::Unfit(_)) => {}
							// parent HEADER not known to this chain yet (a child delivered before
							// its parent without headers-first): refused, not kept as an orphan
							Err(grin_chain::Error::StoreErr(_, ref m)) if m.contains("BLOCK HEADER") => {}
							Err(e) => {
								// a block that is valid in the world must never be refused for another reason
								return Err(Fail::new("valid-block-rejected-concurrently", format!("peer {} round {}: node {} (h={}) rejected: {}", p, round, n, w.nodes[n].height(), err_name(&e))));
							}
						}
					}
				}
				Ok(())
			});
			match r {
				Ok(Ok(())) => {}
				Ok(Err(f)) | Err(f) => fail_push(&failures, f),
			}
			prog.table.lock().unwrap()[my].2 = true;
		}).unwrap());
	}
	// header-first threads
	for hti in 0..case.header_threads as u64 {
		let (chain, w, prog, failures) = (chain.clone(), w.clone(), progress.clone(), failures.clone());
		let nodes = new_nodes.clone();
		let my = widx;
		widx += 1;
		handles.push(std::thread::Builder::new().name(format!("hdr{}", hti)).spawn(move || {
			init_thread();
			TNAME.with(|t| *t.borrow_mut() = (my, 0));
			let r = catch(|| {
				for &n in &nodes {
					match chain.process_block_header(&w.nodes[n].block.header, Options::NONE) {
						Ok(()) => {}
						Err(e) => {
							let s = format!("{:?}", e);
							// parent header not yet known to this chain: legitimate
							if !(s.contains("NotFound") || s.contains("Orphan")) {
								return Err(Fail::new("valid-header-rejected-concurrently", format!("header of node {} rejected: {}", n, s)));
							}
						}
					}
				}
				Ok(())
			});
			match r {
				Ok(Ok(())) => {}
				Ok(Err(f)) | Err(f) => fail_push(&failures, f),
			}
			prog.table.lock().unwrap()[my].2 = true;
		}).unwrap());
	}
	// readers
	for ri in 0..case.readers as u64 {
		let (chain, w, prog, failures, stop, by_hash, heads) = (chain.clone(), w.clone(), progress.clone(), failures.clone(), stop_readers.clone(), by_hash.clone(), observed_heads.clone());
		let my = widx;
		widx += 1;
		handles.push(std::thread::Builder::new().name(format!("reader{}", ri)).spawn(move || {
			init_thread();
			TNAME.with(|t| *t.borrow_mut() = (my, 0));
			let r = catch(|| {
				let mut last_td = 0u64;
				let mut seen: Vec<Hash> = vec![];
				let mut it = 0u64;
				while !stop.load(Ordering::SeqCst) {
					it += 1;
					let h1 = chain.head().map_err(|e| Fail::new("head-err", format!("{:?}", e)))?;
					if !seen.contains(&h1.last_block_h) {
						seen.push(h1.last_block_h);
					}
					// a reported head names a stored block with matching height and work
					let hdr = chain.get_block_header(&h1.last_block_h).map_err(|e| Fail::new("head-names-missing-header", format!("head {:?}@{}: {:?}", h1.last_block_h, h1.height, e)))?;
					let blk = chain.get_block(&h1.last_block_h).map_err(|e| Fail::new("head-names-missing-block", format!("head {:?}@{}: {:?}", h1.last_block_h, h1.height, e)))?;
					ensure!(hdr.height == h1.height && blk.header.height == h1.height, "head-height-mismatch", "head height {} header {} block {}", h1.height, hdr.height, blk.header.height);
					ensure!(hdr.total_difficulty() == h1.total_difficulty, "head-difficulty-mismatch", "head td differs from its header");
					let td = h1.total_difficulty.to_num();
					ensure!(td >= last_td, "head-work-decreased", "reader saw head work go from {} to {}", last_td, td);
					last_td = td;
					let Some(&hn) = by_hash.get(&h1.last_block_h) else {
						return Err(Fail::new("head-unknown", "head is not a block of the world"));
					};
					// bracketed reads: consistent with the model of h1 if the head did not move meanwhile
					let model = &w.nodes[hn].model;
					let probe: Vec<(Vec<u8>, bool)> = w
						.commits
						.iter()
						.enumerate()
						.filter(|(i, _)| (*i as u64 + it) % 5 == ri % 5)
						.take(24)
						.map(|(_, c)| (c.0.to_vec(), model.utxo.contains_key(&c.0.to_vec())))
						.collect();
					let mut got = vec![];
					for (c, _) in &probe {
						let cm = grin_util::secp::pedersen::Commitment::from_vec(c.clone());
						let r = match it % 6 {
							0 => chain.get_unspent(cm).map(|o| o.is_some()).map_err(|e| format!("{:?}", e)),
							1 => {
								let r = w.refs[c];
								let inputs: Inputs = vec![grin_core::core::Input::new(r.features(), cm)].as_slice().into();
								Ok(chain.validate_inputs(&inputs).is_ok())
							}
							3 => {
								// the pool's admission path: Chain::validate_tx of a transaction spending just this output
								let r = w.refs[c];
								let input = grin_core::core::Input::new(r.features(), cm);
								let tx = grin_core::core::Transaction::new(vec![input].as_slice().into(), &[], &[]);
								Ok(chain.validate_tx(&tx).is_ok())
							}
							4 => {
								// the API's path: position from the index, then the output at that position
								match chain.get_unspent(cm) {
									Ok(Some((_, pos))) => Ok(chain.get_unspent_output_at(pos.pos - 1).is_ok()),
									Ok(None) => Ok(false),
									Err(e) => Err(format!("{:?}", e)),
								}
							}
							5 => {
								let r = w.refs[c];
								let inputs: Inputs = vec![grin_core::core::Input::new(r.features(), cm)].as_slice().into();
								let _ = chain.verify_coinbase_maturity(&inputs);
								Ok(chain.get_unspent(cm).map(|o| o.is_some()).unwrap_or(false))
							}
							_ => Ok(chain.get_unspent(cm).map(|o| o.is_some()).unwrap_or(false)),
						};
						got.push(r);
					}
					let _ = chain.get_header_by_height(h1.height);
					let h2 = chain.head().map_err(|e| Fail::new("head-err", format!("{:?}", e)))?;
					if h1.last_block_h == h2.last_block_h {
						for ((c, want), g) in probe.iter().zip(got.iter()) {
							match g {
								Ok(g) => ensure!(
									g == want,
									"inconsistent-read-under-one-view",
									"head stayed {:?}@{} around the read, but output {} reported unspent={} while the state of that head says {}",
									h1.last_block_h,
									h1.height,
									grin_util::ToHex::to_hex(c),
									g,
									want
								),
								Err(e) => fail!("read-error", "get_unspent failed: {}", e),
							}
						}
					}
					// set_txhashset_roots on a child of some known node must reproduce the builder's roots
					if it % 4 == 0 {
						let k = first_new + ((it as usize * 7 + ri as usize) % (n_nodes - first_new));
						let child = &w.nodes[k];
						let mut b = child.block.clone();
						let orig = b.header.clone();
						b.header.output_root = Hash::default();
						b.header.kernel_root = Hash::default();
						b.header.range_proof_root = Hash::default();
						b.header.output_mmr_size = 0;
						b.header.kernel_mmr_size = 0;
						if chain.set_txhashset_roots(&mut b).is_ok() {
							ensure!(
								b.header.output_root == orig.output_root && b.header.kernel_root == orig.kernel_root && b.header.range_proof_root == orig.range_proof_root && b.header.output_mmr_size == orig.output_mmr_size && b.header.kernel_mmr_size == orig.kernel_mmr_size,
								"roots-of-candidate-differ",
								"set_txhashset_roots on the child of node {} gave roots/sizes different from the sequential builder",
								child.parent
							);
						}
					}
					if it % 16 == 5 {
						if let Ok(s) = chain.segmenter() {
							let _ = s.kernel_segment(grin_core::core::SegmentIdentifier { height: 3, idx: 0 });
						}
					}
				}
				heads.fetch_max(seen.len() as u64, Ordering::SeqCst);
				Ok(())
			});
			match r {
				Ok(Ok(())) => {}
				Ok(Err(f)) | Err(f) => fail_push(&failures, f),
			}
			prog.table.lock().unwrap()[my].2 = true;
		}).unwrap());
	}
	// compaction thread
	let reader_first = case.peers as usize + case.header_threads as usize;
	if case.compact && case.on_base {
		let (chain, prog, failures) = (chain.clone(), progress.clone(), failures.clone());
		let my = widx;
		handles.push(std::thread::Builder::new().name("compact".into()).spawn(move || {
			init_thread();
			TNAME.with(|t| *t.borrow_mut() = (my, 0));
			let r = catch(|| {
				std::thread::sleep(Duration::from_millis(3));
				chain.compact().map_err(|e| Fail::new("compact-err", format!("{:?}", e)))
			});
			match r {
				Ok(Ok(())) => {}
				Ok(Err(f)) | Err(f) => fail_push(&failures, f),
			}
			prog.table.lock().unwrap()[my].2 = true;
		}).unwrap());
	}
	// ---- wait for the writers with a watchdog
	let writers_done = |tb: &Vec<(String, Instant, bool)>| tb.iter().enumerate().all(|(i, x)| x.2 || (i >= reader_first && i < reader_first + case.readers as usize));
	let t0 = Instant::now();
	let mut stalled = false;
	loop {
		std::thread::sleep(Duration::from_millis(5));
		let tb = progress.table.lock().unwrap().clone();
		if writers_done(&tb) {
			break;
		}
		let newest = tb.iter().map(|x| x.1).max().unwrap();
		if newest.elapsed() > Duration::from_secs(45) || t0.elapsed() > Duration::from_secs(300) {
			stalled = true;
			break;
		}
	}
	stop_readers.store(true, Ordering::SeqCst);
	if !stalled {
		let t1 = Instant::now();
		loop {
			let tb = progress.table.lock().unwrap().clone();
			if tb.iter().all(|x| x.2) {
				break;
			}
			if t1.elapsed() > Duration::from_secs(60) {
				stalled = true;
				break;
			}
			std::thread::sleep(Duration::from_millis(2));
		}
	}
	grin_util::verif::sched_enable(false);
	grin_util::verif::set_sched_plan(None);
	if stalled {
		let tb = progress.table.lock().unwrap().clone();
		let stuck: Vec<String> = tb.iter().enumerate().filter(|(_, x)| !x.2).map(|(i, x)| format!("worker{}@{} ({:.0}s ago)", i, x.0, x.1.elapsed().as_secs_f64())).collect();
		let mut all_waiting = tb.iter().filter(|x| !x.2).all(|x| x.0.starts_with("want:") || x.0.starts_with("mid:"));
		if !all_waiting {
			// a worker that is past its first lock acquisition ("got:") may be computing, or may be blocked
			// on a further lock inside the call (e.g. a second read of a lock it already holds, behind a
			// queued writer). Tell the two apart by CPU time: if the whole process (this monitor sleeps,
			// the readers were told to stop) burns no CPU for 3 s, every unfinished worker is blocked
			let cpu = || -> Option<u64> {
				let st = std::fs::read_to_string("/proc/self/stat").ok()?;
				let rest = &st[st.rfind(')')? + 2..];
				let f: Vec<&str> = rest.split(' ').collect();
				Some(f.get(11)?.parse::<u64>().ok()? + f.get(12)?.parse::<u64>().ok()?)
			};
			// ... and by scheduler state: in six samples over 3 s no other thread of the process is
			// runnable ('R') or in uninterruptible I/O ('D') — a thread that merely did not get a CPU
			// on a loaded machine would show as runnable
			let me = std::fs::read_link("/proc/thread-self").ok().and_then(|p| p.file_name().map(|n| n.to_string_lossy().to_string()));
			let busy_threads = || -> usize {
				let mut n = 0;
				if let Ok(rd) = std::fs::read_dir("/proc/self/task") {
					for e in rd.flatten() {
						let tid = e.file_name().to_string_lossy().to_string();
						if Some(&tid) == me.as_ref() {
							continue;
						}
						if let Ok(st) = std::fs::read_to_string(e.path().join("stat")) {
							if let Some(i) = st.rfind(')') {
								let state = st[i + 1..].trim_start().chars().next().unwrap_or('?');
								if state == 'R' || state == 'D' {
									n += 1;
								}
							}
						}
					}
				}
				n
			};
			if let Some(c0) = cpu() {
				let mut busy = 0;
				for _ in 0..6 {
					std::thread::sleep(Duration::from_millis(500));
					busy += busy_threads();
				}
				if let Some(c1) = cpu() {
					// clock ticks (10 ms each): allow the monitor's own wake-ups
					if c1.saturating_sub(c0) <= 3 && busy == 0 {
						all_waiting = true;
					}
				}
			}
		}
		// leak the threads: they hold locks of this case's chain only
		std::mem::forget(handles);
		std::mem::forget(target);
		if all_waiting {
			return Err(Fail::new("deadlock", format!("no progress for 45 s and every unfinished worker is blocked (waiting for a lock, or inside a call without consuming CPU): {:?}", stuck)));
		}
		return Err(Fail::new("harness:stall-inconclusive", format!("no progress, but not all workers are at a lock acquisition: {:?}", stuck)));
	}
	for h in handles {
		let _ = h.join();
	}
	if let Some(f) = failures.lock().unwrap().first().cloned() {
		return Err(f);
	}
	// ---- final state: some sequential order's result
	let fh = chain.head().map_err(|e| Fail::new("head-err", format!("{:?}", e)))?;
	ensure!(fh.total_difficulty.to_num() == max_td, "final-head-not-most-work", "final head td {} but the most-work block has {}", fh.total_difficulty.to_num(), max_td);
	drop(chain);
	if unique_max {
		ensure!(fh.last_block_h == w.nodes[best].hash(), "final-head-not-winner", "final head differs from the unique most-work block");
		let fr = roots_of(target.c()).map_err(|e| Fail::new("roots-err", e))?;
		ensure!(fr == final_roots, "final-roots-differ-from-sequential", "roots after the concurrent run differ from the sequential builder: {} vs {}", fr, final_roots);
	}
	let wref: &World = &w;
	scan(&target, wref, "after the concurrent run")?;
	target.c().validate(false).map_err(|e| Fail::new("validate-failed", format!("{:?}", e)))?;
	if counting {
		ev.eval();
		let heads = observed_heads.load(Ordering::SeqCst);
		if progress.overlap_seen.load(Ordering::SeqCst) {
			ev.class("runs_with_overlapping_process_block_calls");
		}
		if heads >= 2 {
			ev.class("runs_where_a_reader_saw_2plus_heads");
		}
		if case.compact && case.on_base {
			ev.class("runs_with_concurrent_compaction");
		}
		if case.old_pair {
			ev.class("runs_compacting_while_an_old_sibling_pair_is_spent_and_then_reorganised");
		}
		if let Some(m0) = map_before {
			ev.class("runs_on_a_database_close_to_its_resize_threshold");
			if let Ok((_, m1)) = db_usage(&target.dir) {
				if m1 > m0 {
					ev.class("runs_in_which_the_database_map_was_enlarged");
				}
			}
		}
		if progress.overlap_seen.load(Ordering::SeqCst) && heads >= 2 {
			ev.nontrivial(&(case.peers, case.header_threads, case.readers, case.on_base, case.compact, n_nodes - first_new, heads.min(6)));
		}
	}
	drop(builder);
	Ok(())
}

pub fn run(ctx: &Ctx) -> HResult<()> {
	init_global();
	let ev = &ctx.ev;
	ev.rule("a fork tree of real-PoW blocks is built sequentially; a fresh chain is then used concurrently by 2-4 peer threads delivering overlapping subsets of the blocks in perturbed orders (twice), 0-2 header-first threads, 1-3 reader threads (head / get_block / get_block_header / get_unspent / validate_inputs / validate_tx / get_unspent_output_at / verify_coinbase_maturity / get_header_by_height / set_txhashset_roots on candidate children / segmenter) and a compaction thread on the 90-block base chain, with a seeded perturbation plan (sleep / yield before, BETWEEN and after the lock acquisitions of each call through the cfg(grin_verif) hook); oracles: every observed head names a stored block of matching height and work, head work never decreases per reader, reads bracketed by two equal heads equal the replay model of that head, set_txhashset_roots reproduces the sequential roots, no panic, no stall (45 s without progress; a deadlock is only claimed if every unfinished worker waits for a lock), final head = most work, final roots = sequential builder's, full scan vs. model and validate(false); non-trivial = run with overlapping process_block calls where a reader saw >= 2 heads; distinct by thread mix / world size / heads seen");
	ev.assume("interleavings are sampled, not enumerated: a seed fixes the operation multiset and the perturbation plan, not the exact schedule");
	if let Some((case, f)) = pbt_proc(ctx, "run", ctx.n(256, 4000), 8) {
		if f.sig.starts_with("harness:") {
			return Err(HarnessError(format!("{}: {}", f.sig, f.msg)));
		}
		ctx.report("run", &f.sig, case, &f.msg);
	}
	let s = sample_one(ctx.derive_seed("sample", 0), &case_strategy());
	ev.sample("run", || serde_json::to_value(&s).unwrap());
	let _ = json!(0);
	Ok(())
}

pub fn part(ctx: &Ctx, part: &str, seed: u64, cases: u32) -> Option<(Value, Fail)> {
	init_global();
	match part {
		"run" => {
			// warm up the bulletproof generators single-threaded (their lazy
			// initialisation in the secp library is not synchronised)
			let _ = LIB.output(&OutRef { amount: 1, key: 1, cb: false });
			if base(ctx).is_err() {
				return Some((json!({}), Fail::new("harness:base", "base chain")));
			}
			run_part(ctx, seed, cases, &case_strategy(), |c, counting| run_case(ctx, c, counting))
		}
		_ => None,
	}
}

pub fn replay(ctx: &Ctx, part: &str, case: &Value) -> PResult {
	init_global();
	match part {
		"run" => {
			let c: Case = serde_json::from_value(case.clone()).map_err(|e| Fail::new("harness:replay-parse", e.to_string()))?;
			// the schedule is not reproducible: repeat the plan several times
			for _ in 0..5 {
				run_case(ctx, &c, false)?;
			}
			Ok(())
		}
		_ => Ok(()),
	}
}
