//! C06 — rejected or losing-fork input leaves best-chain state untouched.
//! Twin execution: chain A receives the full history, chain B the history
//! with the bad inputs removed; after every step both must agree.

use crate::engine::*;
use crate::props::c02::scan;
use crate::world::gen::*;
use crate::world::tamper::*;
use crate::world::*;
use crate::{ensure, fail};
use grin_chain::types::Options;
use grin_core::core::hash::{Hash, Hashed};
use grin_core::core::BlockHeader;
use grin_core::pow::Difficulty;
use proptest::prelude::*;
use serde_derive::{Deserialize, Serialize};
use serde_json::{json, Value};
use std::collections::BTreeSet;

#[derive(Clone, Debug, Serialize, Deserialize)]
pub enum Bad {
	/// catalogue corruption (index into block_catalogue) of a block on the head
	Tamper(u8, RawBlock),
	/// UTXO-level negative block (double spend, spent, foreign, never, dup, immature)
	Neg(RawBlock),
	/// sync_block_headers batch [valid header, child with wrong total difficulty]
	HeaderBatchSecondBad(RawBlock),
	/// sync_block_headers with a header whose prev_root is wrong (fails inside the header extension)
	HeaderBatchBadRoot(RawBlock),
	/// process_block_header of a header with a wrong prev_root
	HeaderBadRoot(RawBlock),
	/// validate_tx of a transaction with two NRD kernels sharing an excess
	TxNrdDuplicate(u16),
	/// validate_tx of a transaction spending a never-created output
	TxBadInput(u16),
	/// a valid block on an ancestor of the head that does not win (A only)
	LosingFork(u8, RawBlock),
	/// the header of a valid next block over the body of ANOTHER valid next block (A only; same block hash, since a
	/// block's hash is its header's) — and then the genuine block to both twins: a refused block may leave nothing
	/// behind that is keyed by its hash
	GraftedBody(RawBlock),
}

#[derive(Clone, Debug, Serialize, Deserialize)]
pub enum Op {
	Good(RawBlock),
	Bad(Bad, u16),
	Reopen,
}

#[derive(Clone, Debug, Serialize, Deserialize)]
pub struct Case {
	pub ops: Vec<Op>,
	/// false: both twins run under SKIP_POW with free per-block difficulty, so a rejected block on an ancestor of
	/// the head can carry a valid header with MORE work than the header head at a height not above it (with real
	/// proofs of work a block below the head never has more work)
	#[serde(default = "yes")]
	pub real: bool,
}

fn yes() -> bool {
	true
}

fn bad() -> impl Strategy<Value = Bad> {
	let ncat = block_catalogue().len() as u8;
	prop_oneof![
		10 => (0..ncat, raw_block(0), prop_oneof![2 => Just(0u8), 1 => 101u8..=104]).prop_map(|(i, mut b, p)| {
			b.parent = p;
			Bad::Tamper(i, b)
		}),
		// on the head, or on an ancestor of the head (a sibling of the head or deeper: the best chain is
		// rewound, the block is refused before anything is re-applied)
		4 => (raw_block(1000), prop_oneof![1 => Just(0u8), 1 => 101u8..=104]).prop_map(|(mut b, p)| {
			b.parent = p;
			Bad::Neg(b)
		}),
		1 => raw_block(0).prop_map(Bad::HeaderBatchSecondBad),
		1 => raw_block(0).prop_map(Bad::HeaderBatchBadRoot),
		1 => raw_block(0).prop_map(Bad::HeaderBadRoot),
		1 => any::<u16>().prop_map(Bad::TxNrdDuplicate),
		1 => any::<u16>().prop_map(Bad::TxBadInput),
		4 => (1u8..5, raw_block(0)).prop_map(|(d, b)| Bad::LosingFork(d, b)),
		3 => raw_block(0).prop_map(Bad::GraftedBody),
	]
}

pub fn case_strategy(max_ops: usize) -> impl Strategy<Value = Case> {
	let good = (raw_block(0), prop_oneof![9 => Just(0u8), 3 => Just(1u8), 3 => 101u8..105]).prop_map(|(mut b, p)| {
		b.parent = p;
		vec![Op::Good(b)]
	});
	// fork run: branch off an ancestor at depth d and extend it until it wins
	let fork_run = (1u8..=4, 1u8..=2, prop::collection::vec(raw_block(0), 6)).prop_map(|(d, extra, mut bs)| {
		bs.truncate(d as usize + extra as usize);
		for (i, b) in bs.iter_mut().enumerate() {
			b.parent = if i == 0 { 100 + d } else { 1 };
		}
		bs.into_iter().map(Op::Good).collect::<Vec<_>>()
	});
	let seg = prop_oneof![
		8 => good,
		3 => fork_run,
		8 => (bad(), any::<u16>()).prop_map(|(b, p)| vec![Op::Bad(b, p)]),
		1 => Just(vec![Op::Reopen]),
	];
	(prop::collection::vec(seg, 4..=max_ops), prop::bool::weighted(0.7)).prop_map(move |(segs, real)| {
		let mut ops: Vec<Op> = segs.into_iter().flatten().collect();
		ops.truncate(max_ops + 4);
		Case { ops, real }
	})
}

fn roots_of(cb: &ChainBox) -> Result<String, Fail> {
	let tx = cb.c().txhashset();
	let r = tx.read().roots().map_err(|e| Fail::new("roots-err", format!("{:?}", e)))?;
	Ok(format!("{:?}/{:?}/{:?}/{:?}", r.output_roots.pmmr_root, r.output_roots.bitmap_root, r.rproof_root, r.kernel_root))
}

/// A and B agree on everything the statement lists
fn compare(a: &ChainBox, b: &ChainBox, w: &World, when: &str) -> PResult {
	let (ha, hb) = (a.c().head().map_err(|e| Fail::new("head-err", format!("{:?}", e)))?, b.c().head().map_err(|e| Fail::new("head-err", format!("{:?}", e)))?);
	ensure!(ha == hb, "twin-head-differs", "{}: head differs: A {:?}@{} B {:?}@{}", when, ha.last_block_h, ha.height, hb.last_block_h, hb.height);
	let (ra, rb) = (roots_of(a)?, roots_of(b)?);
	ensure!(ra == rb, "twin-roots-differ", "{}: state roots differ: A {} B {}", when, ra, rb);
	let ua = chain_unspent(a.c(), &w.commits).map_err(|e| Fail::new("get_unspent-err", e))?;
	let ub = chain_unspent(b.c(), &w.commits).map_err(|e| Fail::new("get_unspent-err", e))?;
	ensure!(ua == ub, "twin-unspent-differs", "{}: unspent sets differ ({} vs {} entries)", when, ua.len(), ub.len());
	// stored sums and spend records of best-chain blocks
	let mut h = ha.last_block_h;
	let mut n = 0;
	while n < 12 {
		let (Ok(hdr_a), Ok(hdr_b)) = (a.c().get_block_header(&h), b.c().get_block_header(&h)) else {
			fail!("twin-best-chain-header-missing", "{}: best-chain header {:?} missing on one side", when, h);
		};
		let _ = hdr_b;
		let (sa, sb) = (a.c().get_block_sums(&h), b.c().get_block_sums(&h));
		match (sa, sb) {
			(Ok(x), Ok(y)) => ensure!(x.utxo_sum == y.utxo_sum && x.kernel_sum == y.kernel_sum, "twin-block-sums-differ", "{}: stored sums of best-chain block at height {} differ", when, hdr_a.height),
			(Err(_), Err(_)) => {}
			_ => fail!("twin-block-sums-presence", "{}: stored sums of best-chain block at height {} present on one side only", when, hdr_a.height),
		}
		// the kernels of the best-chain block are still readable from the kernel MMR (TxHashSet::find_kernel;
		// not Chain::get_kernel_height, whose height search walks the HEADER chain and does not terminate
		// when the header head sits on another fork — see DESIGN §9.3, outside this property)
		if hdr_a.height > 0 {
			if let Ok(blk) = a.c().get_block(&h) {
				for k in blk.kernels() {
					for (name, cb) in [("A", a), ("B", b)] {
						let ts = cb.c().txhashset();
						let found = ts.read().find_kernel(&k.excess, None, None);
						match found {
							Some((fk, _)) => ensure!(fk.excess == k.excess, "twin-kernel-data-wrong", "{}: node {}: find_kernel returned another kernel", when, name),
							None => fail!("twin-kernel-data-missing", "{}: node {}: kernel {:?} of the best-chain block at height {} is not found in the kernel MMR", when, name, k.excess, hdr_a.height),
						}
					}
				}
			}
		}
		let (ia, ib) = (
			a.c().store().batch().and_then(|bt| bt.get_spent_index(&h)).map_err(|e| format!("{:?}", e)),
			b.c().store().batch().and_then(|bt| bt.get_spent_index(&h)).map_err(|e| format!("{:?}", e)),
		);
		match (ia, ib) {
			(Ok(x), Ok(y)) => {
				let fx: Vec<(u64, u64)> = x.iter().map(|p| (p.pos, p.height)).collect();
				let fy: Vec<(u64, u64)> = y.iter().map(|p| (p.pos, p.height)).collect();
				ensure!(fx == fy, "twin-spent-index-differs", "{}: spend record of best-chain block at height {} differs: {:?} vs {:?}", when, hdr_a.height, fx, fy);
			}
			(Err(_), Err(_)) => {}
			_ => fail!("twin-spent-index-presence", "{}: spend record of best-chain block at height {} present on one side only", when, hdr_a.height),
		}
		if hdr_a.height == 0 {
			break;
		}
		h = hdr_a.prev_hash;
		n += 1;
	}
	Ok(())
}

fn res_kind<T, E: std::fmt::Debug>(r: &Result<T, E>) -> String {
	match r {
		Ok(_) => "ok".into(),
		Err(e) => {
			let s = format!("{:?}", e);
			s.split(|c: char| !c.is_alphanumeric()).next().unwrap_or("err").to_string()
		}
	}
}

/// a header that is fully valid on `prev` (an empty block's header), mined
fn valid_header(a: &ChainBox, w: &mut World, raw: &RawBlock, head: usize) -> Result<BlockHeader, Fail> {
	let mut r = raw.clone();
	r.parent = 0;
	r.txs.clear();
	r.neg = Neg::None;
	let built = w.build(a.c(), &r, head).map_err(|e| Fail::new("builder", e))?;
	Ok(built.block.header)
}

pub fn run_case(ctx: &Ctx, case: &Case, counting: bool) -> PResult {
	init_thread();
	let ev = &ctx.ev;
	let mut a = ChainBox::open(&ctx.scratch_dir("c06a")).map_err(|e| Fail::new("init-fresh", e))?;
	let mut b = ChainBox::open(&ctx.scratch_dir("c06b")).map_err(|e| Fail::new("init-fresh", e))?;
	let mut w = World::new(&a.genesis, case.real);
	let mut head = 0usize;
	let o = if case.real { Options::NONE } else { Options::SKIP_POW };
	let cat = block_catalogue();
	let mut stages: BTreeSet<String> = BTreeSet::new();
	let (mut good_after_bad, mut reorg_after_bad, mut seen_bad) = (0u32, 0u32, false);
	// a few empty blocks first so that coinbases mature and bad inputs have something to spend
	let mut ops: Vec<Op> = (0..4)
		.map(|_| {
			Op::Good(RawBlock {
				parent: 0,
				cb_key: 0,
				txs: vec![],
				dt: 60,
				diff: 1,
				neg: Neg::None,
				neg_pick: 0,
			hdr: 0,
			inp: 0,
			})
		})
		.collect();
	ops.extend(case.ops.iter().cloned());
	for (i, op) in ops.iter().enumerate() {
		match op {
			Op::Good(raw) => {
				let mut r = raw.clone();
				r.neg = Neg::None;
				let built = w.build(a.c(), &r, head).map_err(|e| Fail::new("builder", format!("op {}: {}", i, e)))?;
				let model = match &built.verdict {
					Ok(m) => m.clone(),
					Err(e) => fail!("harness:model-invalid", "op {}: generated good block invalid in model: {:?}", i, e),
				};
				let ra = a.c().process_block(built.block.clone(), o);
				let rb = b.c().process_block(built.block.clone(), o);
				ensure!(
					res_kind(&ra) == res_kind(&rb) && ra.as_ref().ok().map(|t| t.is_some()) == rb.as_ref().ok().map(|t| t.is_some()),
					"twin-result-differs",
					"op {}: good block h={} processed differently: A {:?} B {:?}",
					i,
					built.block.header.height,
					ra.as_ref().map(|t| t.is_some()).map_err(|e| err_name(e)),
					rb.as_ref().map(|t| t.is_some()).map_err(|e| err_name(e))
				);
				match ra {
					Ok(tip) => {
						let n = w.push(&built, model);
						if tip.is_some() {
							if seen_bad {
								good_after_bad += 1;
								if built.parent != head {
									reorg_after_bad += 1;
								}
							}
							head = n;
						}
					}
					Err(e) => fail!("valid-block-rejected", "op {}: good block rejected by both twins: {}", i, err_name(&e)),
				}
			}
			Op::Reopen => {
				let nrd = !w.nodes[head].model.nrd.is_empty();
				for x in [&mut a, &mut b] {
					if let Err(f) = x.reopen_classified(nrd) {
						if ctx.known_hit(&f.sig) {
							return Ok(());
						}
						return Err(f);
					}
				}
			}
			Op::Bad(bad, pick) => {
				let pick = *pick as usize;
				let prev = w.nodes[head].block.header.clone();
				match bad {
					Bad::Tamper(ci, raw) => {
						let t = cat[*ci as usize % cat.len()];
						let mut r = raw.clone();
						if r.parent < 100 {
							r.parent = 0;
						}
						r.neg = Neg::None;
						// the corrupted block's parent: the head, or an ancestor of it (the block is a fork block)
						let mut pn = head;
						if r.parent >= 100 {
							for _ in 0..(r.parent - 100) {
								if pn != 0 {
									pn = w.nodes[pn].parent;
								}
							}
							if w.nodes[pn].height() < w.min_parent_height {
								pn = head;
								r.parent = 0;
							}
						}
						let prev = w.nodes[pn].block.header.clone();
						let specs = w.resolve_specs(&r, head);
						for s in &specs {
							for x in s.inputs.iter().chain(s.outputs.iter()) {
								w.note(x);
							}
						}
						let cb_key = (prev.height as u32 + 1) * 4 + if pn == head { 2 } else { 3 };
						let tb = tampered_block(a.c(), &prev, &specs, cb_key, r.dt as i64, t, pick).map_err(|e| Fail::new("builder", format!("op {} {:?}: {}", i, t, e)))?;
						let Some(tb) = tb else { continue };
						if tb.valid {
							continue;
						}
						// under SKIP_POW neither the proof of work nor the difficulty claim is looked at
						if !case.real && matches!(t, BlockT::TotalDifficultyPlus | BlockT::BadPowNonce) {
							continue;
						}
						let res = a.c().process_block(tb.block.clone(), o);
						ensure!(res.is_err(), format!("bad-input-accepted:{:?}", t), "op {}: corrupted block {:?} accepted", i, t);
						stages.insert(format!("{:?}", tb.stage));
						if counting {
							ev.class(&format!("bad_stage:{:?}", tb.stage));
							if pn != head {
								ev.class("corrupted_block_on_an_ancestor_of_the_head");
							}
						}
						seen_bad = true;
					}
					Bad::Neg(raw) => {
						let mut r = raw.clone();
						if r.parent < 100 {
							r.parent = 0;
						}
						let built = w.build(a.c(), &r, head).map_err(|e| Fail::new("builder", format!("op {}: {}", i, e)))?;
						if built.verdict.is_ok() {
							continue; // the defect could not be constructed here
						}
						let res = a.c().process_block(built.block.clone(), o);
						ensure!(res.is_err(), format!("bad-input-accepted:{:?}", built.neg), "op {}: negative block {:?} accepted", i, built.neg);
						stages.insert(format!("Utxo:{:?}", built.neg));
						if counting {
							ev.class(&format!("bad_stage:Utxo:{:?}", built.neg));
							if built.parent != head {
								ev.class("bad_utxo_level_block_on_an_ancestor_of_the_head");
							}
						}
						seen_bad = true;
					}
					Bad::HeaderBatchSecondBad(_) if !case.real => continue, // (a wrong difficulty claim is not refused under SKIP_POW)
					Bad::HeaderBatchSecondBad(raw) => {
						let h1 = valid_header(&a, &mut w, raw, head)?;
						// child of h1 claiming a wrong cumulative difficulty, mined for it
						let mut h2 = h1.clone();
						h2.height = h1.height + 1;
						h2.version = grin_core::consensus::header_version(h2.height);
						h2.prev_hash = h1.hash();
						h2.timestamp = h1.timestamp + chrono::Duration::seconds(60);
						h2.output_mmr_size = grin_core::core::pmmr::insertion_to_pmmr_index(h1.output_mmr_count() + 1);
						h2.kernel_mmr_size = grin_core::core::pmmr::insertion_to_pmmr_index(h1.kernel_mmr_count() + 1);
						h2.pow.total_difficulty = h1.pow.total_difficulty + Difficulty::from_num(1_000_000);
						h2.pow.nonce = pick as u64;
						let sync_head = a.c().header_head().map_err(|e| Fail::new("header_head-err", format!("{:?}", e)))?;
						let res = a.c().sync_block_headers(&[h1.clone(), h2], sync_head, o);
						ensure!(res.is_err(), "bad-input-accepted:header-batch", "op {}: header batch with an invalid second header accepted", i);
						// the whole batch is dropped: not even the valid first header may have moved header_head
						stages.insert("HeaderBatch".into());
						if counting {
							ev.class("bad_stage:HeaderBatchSecondBad");
						}
						seen_bad = true;
					}
					Bad::HeaderBatchBadRoot(raw) | Bad::HeaderBadRoot(raw) => {
						let mut h1 = valid_header(&a, &mut w, raw, head)?;
						let mut v = h1.prev_root.to_vec();
						v[pick % 32] ^= 0x40;
						h1.prev_root = Hash::from_vec(&v);
						// re-mine: prev_root is part of the PoW pre-image
						let diff = h1.total_difficulty() - prev.total_difficulty();
						h1.pow.nonce = 0;
						grin_core::pow::pow_size(&mut h1, diff, grin_core::global::proofsize(), grin_core::global::min_edge_bits()).map_err(|e| Fail::new("builder", format!("{:?}", e)))?;
						let res = if matches!(bad, Bad::HeaderBatchBadRoot(_)) {
							let sync_head = a.c().header_head().map_err(|e| Fail::new("header_head-err", format!("{:?}", e)))?;
							a.c().sync_block_headers(&[h1], sync_head, o).map(|_| ())
						} else {
							a.c().process_block_header(&h1, o)
						};
						ensure!(res.is_err(), "bad-input-accepted:header-bad-root", "op {}: header with a wrong prev_root accepted", i);
						stages.insert("HeaderExtension".into());
						if counting {
							ev.class("bad_stage:HeaderExtensionRoot");
						}
						seen_bad = true;
					}
					Bad::TxNrdDuplicate(p) => {
						// two NRD kernels with the same excess inside one transaction
						let out = OutRef {
							amount: AMT_MENU[*p as usize % 5],
							key: 60 + (*p % 4) as u32,
							cb: false,
						};
						let k = KernelSpec {
							kind: KKind::Nrd,
							fee: 1,
							shift: 0,
							lock: 1 + (*p % 3) as u64,
							excess_tag: 4242,
						};
						let spec = TxSpec {
							inputs: vec![OutRef {
								amount: out.amount + 2,
								key: 333,
								cb: false,
							}],
							outputs: vec![out],
							kernels: vec![k, k],
							zero_offset: false,
						};
						let (tx, _) = assemble(&spec);
						let res = a.c().validate_tx(&tx);
						ensure!(res.is_err(), "bad-input-accepted:tx", "op {}: invalid transaction validated", i);
						stages.insert("TxReadonlyExtension".into());
						if counting {
							ev.class("bad_stage:TxNrdDuplicate");
						}
						seen_bad = true;
					}
					Bad::TxBadInput(p) => {
						let out = OutRef {
							amount: AMT_MENU[*p as usize % 5],
							key: 64 + (*p % 4) as u32,
							cb: false,
						};
						let spec = TxSpec {
							inputs: vec![OutRef {
								amount: out.amount + 1,
								key: 7000 + *p as u32,
								cb: false,
							}],
							outputs: vec![out],
							kernels: vec![KernelSpec {
								kind: KKind::Nrd,
								fee: 1,
								shift: 0,
								lock: 2,
								excess_tag: 0,
							}],
							zero_offset: false,
						};
						let (tx, _) = assemble(&spec);
						let res = a.c().validate_tx(&tx);
						ensure!(res.is_err(), "bad-input-accepted:tx", "op {}: transaction spending a never-created output validated", i);
						if counting {
							ev.class("bad_stage:TxBadInput");
						}
						seen_bad = true;
					}
					Bad::LosingFork(d, raw) => {
						// valid block on an ancestor of the head, with no more work than the head
						let mut r = raw.clone();
						r.neg = Neg::None;
						r.parent = 100 + *d;
						r.cb_key = 3;
						let built = w.build(a.c(), &r, head).map_err(|e| Fail::new("builder", format!("op {}: {}", i, e)))?;
						if built.verdict.is_err() || built.parent == head || built.block.header.total_difficulty() > w.nodes[head].block.header.total_difficulty() {
							continue;
						}
						let res = a.c().process_block(built.block.clone(), o);
						match res {
							Ok(None) => {}
							Ok(Some(_)) => fail!("losing-fork-became-head", "op {}: fork block with no more work became head", i),
							Err(e) => fail!("valid-block-rejected", "op {}: valid fork block rejected: {}", i, err_name(&e)),
						}
						stages.insert("LosingFork".into());
						if counting {
							ev.class("bad_stage:LosingFork");
						}
						seen_bad = true;
					}
					Bad::GraftedBody(raw) => {
						let mut r = raw.clone();
						r.neg = Neg::None;
						r.parent = 0;
						r.hdr = 0;
						let built = w.build(a.c(), &r, head).map_err(|e| Fail::new("builder", format!("op {}: {}", i, e)))?;
						let Ok(model) = built.verdict.clone() else { continue };
						let mut r2 = r.clone();
						r2.txs.clear();
						r2.cb_key = r.cb_key.wrapping_add(1) % 3;
						r2.dt = r.dt.wrapping_add(1).max(1);
						let other = w.build(a.c(), &r2, head).map_err(|e| Fail::new("builder", format!("op {}: {}", i, e)))?;
						if other.verdict.is_err() || other.block.hash() == built.block.hash() {
							continue;
						}
						let grafted = grin_core::core::Block { header: built.block.header.clone(), body: other.block.body.clone() };
						let res = a.c().process_block(grafted, o);
						ensure!(res.is_err(), "bad-input-accepted:GraftedBody", "op {}: a block carrying another block's body under its header was accepted (h={})", i, built.block.header.height);
						stages.insert("GraftedBody".into());
						if counting {
							ev.class(&format!("bad_stage:GraftedBody:{}", res.as_ref().err().map(|e| err_name(e)).unwrap_or_default().split(|c| c == '(' || c == ' ' || c == '{').next().unwrap_or("")));
						}
						seen_bad = true;
						compare(&a, &b, &w, &format!("after the grafted block of op {}", i))?;
						// the genuine block with that very hash, to both
						let ra = a.c().process_block(built.block.clone(), o);
						let rb = b.c().process_block(built.block.clone(), o);
						ensure!(
							res_kind(&ra) == res_kind(&rb) && ra.as_ref().ok().map(|t| t.is_some()) == rb.as_ref().ok().map(|t| t.is_some()),
							"twin-result-differs",
							"op {}: the genuine block h={} is processed differently after a block with its header and another body was refused: A {:?} B {:?}",
							i,
							built.block.header.height,
							ra.as_ref().map(|t| t.is_some()).map_err(|e| err_name(e)),
							rb.as_ref().map(|t| t.is_some()).map_err(|e| err_name(e))
						);
						match ra {
							Ok(tip) => {
								let n = w.push(&built, model);
								if tip.is_some() {
									good_after_bad += 1;
									head = n;
								}
							}
							Err(e) => fail!("valid-block-rejected", "op {}: good block rejected by both twins: {}", i, err_name(&e)),
						}
					}
				}
			}
		}
		compare(&a, &b, &w, &format!("after op {}", i))?;
		if i % 5 == 4 {
			scan(&a, &w, &format!("A vs model after op {}", i))?;
		}
	}
	a.c().validate(false).map_err(|e| Fail::new("validate-failed", format!("A: {:?}", e)))?;
	b.c().validate(false).map_err(|e| Fail::new("validate-failed", format!("B: {:?}", e)))?;
	let nrd = !w.nodes[head].model.nrd.is_empty();
	for x in [&mut a, &mut b] {
		if let Err(f) = x.reopen_classified(nrd) {
			if ctx.known_hit(&f.sig) {
				return Ok(());
			}
			return Err(f);
		}
	}
	compare(&a, &b, &w, "after final reopen")?;
	scan(&a, &w, "A vs model after final reopen")?;
	if counting {
		ev.eval();
		let late = stages.iter().any(|s| s.starts_with("Utxo") || s == "Sums" || s == "RootsAfterApply" || s == "CoinbaseRule" || s == "LosingFork" || s == "HeaderExtension");
		if late && good_after_bad > 0 {
			ev.class("histories_continued_after_late_rejection");
		}
		if late && good_after_bad > 0 && reorg_after_bad > 0 {
			ev.nontrivial(&(stages.iter().cloned().collect::<Vec<_>>(), good_after_bad.min(6), reorg_after_bad.min(3)));
		}
	}
	Ok(())
}

pub fn run(ctx: &Ctx) -> HResult<()> {
	init_global();
	let ev = &ctx.ev;
	ev.rule("histories of good blocks (incl. forks/reorgs, reopen) interleaved with bad inputs failing at every validation stage (PoW, header rule, body validation, coinbase rule, UTXO checks, sums, root/size mismatch after the block was applied, bad header batches, failing validate_tx through the read-only extension) and valid losing-fork blocks; twin chain B never sees the bad inputs; after every step head, roots, full unspent scan, stored sums, spend records and kernel-MMR lookups of the last 12 best-chain blocks and the result of every later delivery are compared, finally validate(false) and reopen on both; non-trivial = a rejection at or after the UTXO stage (or a losing fork) followed by accepted blocks including a reorg; distinct by (set of stages, continuation length)");
	ev.assume("both twins run the same code: the oracle is divergence between them plus the replay model scan of C02; header_head and stored fork headers are excluded as the statement allows");
	if let Some((case, f)) = pbt_proc(ctx, "history", ctx.n(800, 8000), 16) {
		ctx.report("history", &f.sig, case, &f.msg);
	}
	let s = sample_one(ctx.derive_seed("sample", 0), &case_strategy(5));
	ev.sample("history", || serde_json::to_value(&s).unwrap());
	let _ = json!(0);
	Ok(())
}

pub fn part(ctx: &Ctx, part: &str, seed: u64, cases: u32) -> Option<(Value, Fail)> {
	init_global();
	match part {
		"history" => run_part(ctx, seed, cases, &case_strategy(if ctx.quick() { 16 } else { 24 }), |c, counting| run_case(ctx, c, counting)),
		_ => None,
	}
}

pub fn replay(ctx: &Ctx, part: &str, case: &Value) -> PResult {
	init_global();
	match part {
		"history" => {
			let c: Case = serde_json::from_value(case.clone()).map_err(|e| Fail::new("harness:replay-parse", e.to_string()))?;
			run_case(ctx, &c, false)
		}
		_ => Ok(()),
	}
}
