//! C12 — Aggregation, cut-through and compact-block hydration are faithful.
//!
//! part "multiset": a generated multiset of 1–6 valid transactions (independent
//! or chained, multi-kernel, Plain/HeightLocked/NRD kernels, zero and non-zero
//! offsets) is aggregated and the result compared with a model the harness
//! computes on commitment sets; order/grouping independence, de-aggregation
//! (non-chained sets only) and compact-block hydration (random and injected
//! nonces, every grouping) are checked on the same multiset.
//!
//! The exploration runs in 16 single-threaded child processes (`part`, through
//! `pbt_proc`): grin's secp context is one global mutex, threads do not scale.
//! Nothing is special-cased: a de-aggregation or offset-sum failure (both seen
//! and since fixed in grin) is a plain failure that stops and shrinks.
//!
//! part "cancel": hand-built multisets of 2–4 valid transactions whose non-zero
//! offsets sum to zero (an operand may choose its own offset freely, so
//! `-offset(A)` is a legal offset for B). part "block_cancel": one valid
//! transaction whose offset is minus the previous header's total offset.
//!
//! Representation note (transaction.rs `aggregate`): a single operand is
//! returned as is (features-and-commit inputs), two or more give commit-only
//! inputs; `==` is therefore asserted only between equal representations, and
//! every comparison is also made on input commitments and on v3 wire bytes,
//! which do not depend on the representation.

use crate::engine::*;
use crate::world::*;
use crate::{ensure, fail};
use grin_core::core::hash::Hashed;
use grin_core::core::id::ShortIdentifiable;
use grin_core::core::transaction::{aggregate, deaggregate};
use grin_core::core::{Block, BlockHeader, CommitWrapper, CompactBlock, Inputs, Output, ShortId, Transaction, TxKernel, Weighting};
use grin_core::global;
use grin_core::pow::Difficulty;
use grin_core::ser::{self, DeserializationMode, ProtocolVersion, Writeable, Writer};
use grin_keychain::BlindingFactor;
use grin_util::secp::key::SecretKey;
use grin_util::static_secp_instance;
use proptest::prelude::*;
use serde_derive::{Deserialize, Serialize};
use serde_json::{json, Value};
use std::collections::{BTreeMap, BTreeSet};

// ---------------------------------------------------------------- case

#[derive(Clone, Debug, Serialize, Deserialize)]
pub struct Case {
	/// the multiset, in its canonical ("identity") order
	pub txs: Vec<TxSpec>,
	/// seeds the random permutations / set partitions (all of them derive from it)
	pub pick: u64,
	/// the compact-block nonce that is injected
	pub nonce: u64,
	/// key index of the coinbase output
	pub cb_key: u32,
}

/// output universe: 8 amounts × 8 keys = 64 bulletproofs, memoised in LIB
const AMOUNTS: [u64; 8] = [3, 7, 20, 55, 130, 400, 1_000, 60_000];
const N_KEYS: usize = 8;
const UNIVERSE: usize = AMOUNTS.len() * N_KEYS;
const MAX_FEE: u64 = 4;
const MAX_TXS: usize = 6;
const MAX_KERNELS: usize = 3;
const QUICK_CASES: u64 = 4000;
const THOROUGH_CASES: u64 = 40_000;

fn universe(i: usize) -> OutRef {
	OutRef {
		amount: AMOUNTS[i / N_KEYS],
		key: (i % N_KEYS) as u32,
		cb: false,
	}
}

#[derive(Clone, Debug)]
struct RawKern {
	kind: u8,
	fee: u8,
	shift: u8,
	lock: u16,
	/// 1 | 2: the private excess comes from this tag alone — kernels with the same tag (in one transaction or in
	/// different ones) share their excess commitment while differing in fee, variant or lock (what a wallet
	/// re-signing with the same excess, or an NRD duplicate, produces); 0: an excess of its own
	tag: u8,
}

#[derive(Clone, Debug)]
struct RawTx {
	outs: Vec<(u8, u8)>,
	chain: Vec<u16>,
	extra_in: u8,
	kernels: Vec<RawKern>,
	zero_offset: bool,
}

#[derive(Clone, Debug)]
struct Raw {
	chained: bool,
	txs: Vec<RawTx>,
	pick: u64,
	nonce: u64,
}

fn raw_kern() -> impl Strategy<Value = RawKern> {
	(
		prop_oneof![5 => Just(0u8), 2 => Just(1u8), 2 => Just(2u8)],
		// 0..3: fees 1..4; 4..7: fees at the top of the kernel's 40-bit fee field (2^39, 2^39-1, 2^40-1 twice), so that
		// the fees of an aggregate add up to more than one field holds
		prop_oneof![8 => 0u8..MAX_FEE as u8, 1 => MAX_FEE as u8..MAX_FEE as u8 + 4],
		prop_oneof![3 => Just(0u8), 1 => 0u8..=15],
		any::<u16>(),
		prop_oneof![8 => Just(0u8), 1 => Just(1u8), 1 => Just(2u8)],
	)
		.prop_map(|(kind, fee, shift, lock, tag)| RawKern { kind, fee, shift, lock, tag })
}

fn raw_tx() -> impl Strategy<Value = RawTx> {
	(
		prop::collection::vec((0u8..AMOUNTS.len() as u8, 0u8..N_KEYS as u8), 1..=3),
		prop::collection::vec(any::<u16>(), 0..=2),
		1u8..=3,
		prop_oneof![
			3 => prop::collection::vec(raw_kern(), 1..=1),
			2 => prop::collection::vec(raw_kern(), 2..=MAX_KERNELS),
		],
		prop::bool::weighted(0.4),
	)
		.prop_map(|(outs, chain, extra_in, kernels, zero_offset)| RawTx {
			outs,
			chain,
			extra_in,
			kernels,
			zero_offset,
		})
}

fn nonce_strategy() -> impl Strategy<Value = u64> {
	prop_oneof![
		1 => Just(0u64),
		1 => Just(u64::MAX),
		1 => 0u64..256,
		1 => (0u32..64).prop_map(|k| 1u64 << k),
		4 => any::<u64>(),
	]
}

fn raw_case() -> impl Strategy<Value = Raw> {
	(
		prop::bool::weighted(0.6),
		prop::collection::vec(raw_tx(), 1..=MAX_TXS),
		any::<u64>(),
		nonce_strategy(),
	)
		.prop_map(|(chained, txs, pick, nonce)| Raw { chained, txs, pick, nonce })
}

/// Resolve the abstract choices into balanced specs by construction: outputs
/// are drawn without replacement from the universe, chained inputs are
/// outputs of earlier transactions of the multiset that nobody has spent yet,
/// fresh inputs (bare commitments under keys no output uses) make up the
/// balance. Hence no two transactions share a commitment unless chained.
fn resolve(raw: &Raw) -> Case {
	let mut used = [false; UNIVERSE];
	let mut unspent: Vec<OutRef> = vec![];
	let mut txs = vec![];
	for (ti, rt) in raw.txs.iter().enumerate() {
		let mut outputs = vec![];
		for &(a, k) in &rt.outs {
			let mut idx = (a as usize % AMOUNTS.len()) * N_KEYS + (k as usize % N_KEYS);
			while used[idx] {
				idx = (idx + 1) % UNIVERSE;
			}
			used[idx] = true;
			outputs.push(universe(idx));
		}
		let kernels: Vec<KernelSpec> = rt
			.kernels
			.iter()
			.map(|k| {
				let kind = match k.kind {
					0 => KKind::Plain,
					1 => KKind::HeightLocked,
					_ => KKind::Nrd,
				};
				KernelSpec {
					kind,
					fee: match k.fee as u64 {
						f if f < MAX_FEE => 1 + f,
						f if f == MAX_FEE => 1 << 39,
						f if f == MAX_FEE + 1 => (1 << 39) - 1,
						_ => (1 << 40) - 1,
					},
					shift: k.shift & 15,
					lock: match kind {
						KKind::Plain => 0,
						KKind::HeightLocked => k.lock as u64,
						KKind::Nrd => 1 + (k.lock as u64 % grin_core::consensus::WEEK_HEIGHT),
					},
					// (an aggregate with two NRD kernels of one excess is refused by the NRD rule itself: at most one
					// NRD kernel per shared excess, see below; it may share it with kernels of the other variants)
					excess_tag: k.tag as u32,
				}
			})
			.collect();
		// two kernels that agree in everything including the tag would be the same kernel twice (an aggregate
		// holding it is refused for the duplicate, which is not what this domain is about): the later one gets
		// an excess of its own
		let mut kernels = kernels;
		for i in 0..kernels.len() {
			if kernels[i].excess_tag == 0 {
				continue;
			}
			let same = |a: &KernelSpec, b: &KernelSpec| a.kind == b.kind && a.fee == b.fee && a.shift == b.shift && a.lock == b.lock && a.excess_tag == b.excess_tag;
			let dup_here = (0..i).any(|j| same(&kernels[j], &kernels[i]));
			let dup_before = txs.iter().any(|t: &TxSpec| t.kernels.iter().any(|o| same(o, &kernels[i])));
			let nrd_twice = kernels[i].kind == KKind::Nrd
				&& ((0..i).any(|j| kernels[j].kind == KKind::Nrd && kernels[j].excess_tag == kernels[i].excess_tag)
					|| txs.iter().any(|t: &TxSpec| t.kernels.iter().any(|o| o.kind == KKind::Nrd && o.excess_tag == kernels[i].excess_tag)));
			if dup_here || dup_before || nrd_twice {
				kernels[i].excess_tag = 0;
			}
		}
		let need: u64 = outputs.iter().map(|o| o.amount).sum::<u64>() + kernels.iter().map(|k| k.fee).sum::<u64>();
		let mut inputs = vec![];
		let mut csum = 0u64;
		if raw.chained {
			for &p in &rt.chain {
				if unspent.is_empty() {
					break;
				}
				let j = (p as usize * unspent.len()) >> 16;
				if csum + unspent[j].amount <= need {
					let o = unspent.remove(j);
					csum += o.amount;
					inputs.push(o);
				}
			}
		}
		let rem = need - csum;
		let k = (rt.extra_in as u64).min(rem);
		for j in 0..k {
			let amount = if j + 1 == k { rem - (rem / k) * (k - 1) } else { rem / k };
			inputs.push(OutRef {
				amount,
				key: 1000 + (ti * 8) as u32 + j as u32,
				cb: false,
			});
		}
		unspent.extend(outputs.iter().cloned());
		txs.push(TxSpec {
			inputs,
			outputs,
			kernels,
			zero_offset: rt.zero_offset,
		});
	}
	Case {
		txs,
		pick: raw.pick,
		nonce: raw.nonce,
		cb_key: 0,
	}
}

pub fn case_strategy() -> impl Strategy<Value = Case> {
	raw_case().prop_map(|r| resolve(&r))
}

// ---------------------------------------------------------------- assembling operands

/// `world::assemble` derives every blinding factor through the keychain
/// (BIP32, ≈9 ms per derivation — measured), which would dominate a multiset
/// with a dozen inputs. Same construction here with the derived (pre-switch)
/// key memoised per key index; the first use of every key index is checked
/// against `LIB.commit`, so the commitments are the library's.
fn raw_key(o: &OutRef) -> Result<SecretKey, Fail> {
	use grin_keychain::{Keychain, SwitchCommitmentType};
	use std::collections::HashMap;
	use std::sync::{Mutex, OnceLock};
	static MEMO: OnceLock<Mutex<HashMap<(u32, bool), SecretKey>>> = OnceLock::new();
	let memo = MEMO.get_or_init(|| Mutex::new(HashMap::new()));
	if let Some(k) = memo.lock().unwrap().get(&(o.key, o.cb)) {
		return Ok(k.clone());
	}
	let raw = LIB
		.kc
		.derive_key(0, &o.key_id(), SwitchCommitmentType::None)
		.map_err(|e| Fail::new("harness:derive", format!("{:?}", e)))?;
	let (_, c) = blind_commit_with(o, &raw)?;
	ensure!(c == LIB.commit(o), "harness:derive", "memoised derivation disagrees with LIB.commit for {:?}", o);
	memo.lock().unwrap().insert((o.key, o.cb), raw.clone());
	Ok(raw)
}

fn blind_commit_with(o: &OutRef, raw: &SecretKey) -> Result<(SecretKey, grin_util::secp::pedersen::Commitment), Fail> {
	let secp = static_secp_instance();
	let secp = secp.lock();
	let b = secp.blind_switch(o.amount, raw.clone()).map_err(|e| Fail::new("harness:derive", format!("{:?}", e)))?;
	let c = secp.commit(o.amount, b.clone()).map_err(|e| Fail::new("harness:derive", format!("{:?}", e)))?;
	Ok((b, c))
}

fn blind_commit(o: &OutRef) -> Result<(SecretKey, grin_util::secp::pedersen::Commitment), Fail> {
	let raw = raw_key(o)?;
	blind_commit_with(o, &raw)
}

/// The precondition "operand is a valid transaction": everything
/// `Transaction::validate(AsTransaction)` checks, with the range proof of each
/// distinct library output verified once per process instead of once per use
/// (all secp work is serialised behind grin's global context mutex, and a
/// proof verification is the most expensive item).
fn operand_valid(tx: &Transaction) -> Result<(), String> {
	use grin_core::core::Committed;
	use std::collections::HashSet;
	use std::sync::{Mutex, OnceLock};
	static PROVEN: OnceLock<Mutex<HashSet<Vec<u8>>>> = OnceLock::new();
	let proven = PROVEN.get_or_init(|| Mutex::new(HashSet::new()));
	tx.body.verify_features().map_err(|e| format!("features: {:?}", e))?;
	tx.body.validate_read(Weighting::AsTransaction).map_err(|e| format!("validate_read: {:?}", e))?;
	for o in tx.outputs() {
		let key = ser::ser_vec(o, pv()).map_err(|e| format!("{:?}", e))?;
		if proven.lock().unwrap().contains(&key) {
			continue;
		}
		o.verify_proof().map_err(|e| format!("range proof: {:?}", e))?;
		proven.lock().unwrap().insert(key);
	}
	TxKernel::batch_sig_verify(tx.kernels()).map_err(|e| format!("kernel signature: {:?}", e))?;
	tx.verify_kernel_sums(tx.overage(), tx.offset.clone()).map_err(|e| format!("kernel sums: {:?}", e))?;
	Ok(())
}

/// A valid transaction for a balanced spec (same rules as `world::assemble`:
/// zero_offset ⇒ the last kernel's key absorbs the remainder, otherwise the
/// offset does).
fn fast_assemble(spec: &TxSpec) -> Result<Transaction, Fail> {
	let mut in_blinds = vec![];
	let mut inputs = vec![];
	for o in &spec.inputs {
		let (b, c) = blind_commit(o)?;
		in_blinds.push(b);
		inputs.push(grin_core::core::Input::new(o.features(), c));
	}
	let mut out_blinds = vec![];
	let mut outputs = vec![];
	for o in &spec.outputs {
		let (b, c) = blind_commit(o)?;
		let out = LIB.output(o);
		ensure!(out.commitment() == c, "harness:derive", "library output for {:?} has another commitment", o);
		out_blinds.push(b);
		outputs.push(out);
	}
	let r = sum_scalars(out_blinds, in_blinds).ok_or_else(|| Fail::new("harness:assemble", "blinding sum is zero"))?;
	let tag = format!("{:?}", spec);
	let mut keys: Vec<SecretKey> = (0..spec.kernels.len())
		.map(|i| if spec.kernels[i].excess_tag != 0 { scalar_from(format!("tag{}", spec.kernels[i].excess_tag).as_bytes()) } else { scalar_from(format!("{}#{}", tag, i).as_bytes()) })
		.collect();
	ensure!(!keys.is_empty(), "harness:assemble", "spec without kernels");
	let mut offset = BlindingFactor::zero();
	// with a zero offset one kernel key is determined by the rest: it must be one whose excess is its own
	let free = spec.kernels.iter().rposition(|k| k.excess_tag == 0);
	if let (true, Some(f)) = (spec.zero_offset, free) {
		let others: Vec<SecretKey> = keys.iter().enumerate().filter(|(i, _)| *i != f).map(|(_, k)| k.clone()).collect();
		keys[f] = sum_scalars(vec![r], others).ok_or_else(|| Fail::new("harness:assemble", "kernel key is zero"))?;
	} else {
		let o = sum_scalars(vec![r], keys.clone()).ok_or_else(|| Fail::new("harness:assemble", "offset is zero"))?;
		offset = BlindingFactor::from_secret_key(o);
	}
	let kernels: Vec<TxKernel> = spec.kernels.iter().zip(keys.iter()).map(|(k, key)| sign_kernel(k.features(), key)).collect();
	Ok(Transaction::new(inputs.as_slice().into(), &outputs, &kernels).with_offset(offset))
}

// ---------------------------------------------------------------- helpers

fn pv() -> ProtocolVersion {
	ProtocolVersion::local()
}

fn bytes_of<W: Writeable>(w: &W) -> Result<Vec<u8>, Fail> {
	ser::ser_vec(w, pv()).map_err(|e| Fail::new("ser-err", format!("{:?}", e)))
}

fn hx(b: &[u8]) -> String {
	let h = grin_util::ToHex::to_hex(&b.to_vec());
	truncate(&h, 24)
}

fn input_commits(inputs: Inputs) -> Vec<Vec<u8>> {
	let v: Vec<CommitWrapper> = inputs.into();
	v.iter().map(|c| c.commitment().0.to_vec()).collect()
}

/// What a body is, independent of the `Inputs` representation: input
/// commitments, full outputs (with proofs) and full kernels, in the body's order.
#[derive(Clone, PartialEq, Eq, Debug)]
struct BodyView {
	inputs: Vec<Vec<u8>>,
	outputs: Vec<Vec<u8>>,
	kernels: Vec<Vec<u8>>,
}

fn body_view(inputs: Inputs, outputs: &[Output], kernels: &[TxKernel]) -> Result<BodyView, Fail> {
	Ok(BodyView {
		inputs: input_commits(inputs),
		outputs: outputs.iter().map(bytes_of).collect::<Result<_, _>>()?,
		kernels: kernels.iter().map(bytes_of).collect::<Result<_, _>>()?,
	})
}

fn tx_view(tx: &Transaction) -> Result<BodyView, Fail> {
	body_view(tx.inputs(), tx.outputs(), tx.kernels())
}

fn same_variant(a: &Inputs, b: &Inputs) -> bool {
	matches!((a, b), (Inputs::CommitOnly(_), Inputs::CommitOnly(_)) | (Inputs::FeaturesAndCommit(_), Inputs::FeaturesAndCommit(_)))
}

/// `got` is the same transaction as `want`: same offset, same body in the same
/// order, equal under `==` (when both carry the same `Inputs` representation;
/// a single operand keeps features-and-commit inputs, every real aggregate is
/// commit-only) and byte-identical when serialised.
fn same_tx(sig: &str, what: &str, got: &Transaction, want: &Transaction) -> PResult {
	let (g, w) = (tx_view(got)?, tx_view(want)?);
	ensure!(got.offset == want.offset, format!("{}:offset", sig), "{}: offsets differ", what);
	ensure!(g.kernels == w.kernels, format!("{}:kernels", sig), "{}: kernels differ ({} vs {})", what, g.kernels.len(), w.kernels.len());
	ensure!(g.inputs == w.inputs, format!("{}:inputs", sig), "{}: inputs differ ({} vs {})", what, g.inputs.len(), w.inputs.len());
	ensure!(g.outputs == w.outputs, format!("{}:outputs", sig), "{}: outputs differ ({} vs {})", what, g.outputs.len(), w.outputs.len());
	if same_variant(&got.body.inputs, &want.body.inputs) {
		ensure!(got == want, format!("{}:eq", sig), "{}: equal field by field but `==` says different", what);
	}
	ensure!(bytes_of(got)? == bytes_of(want)?, format!("{}:bytes", sig), "{}: serialisations differ", what);
	Ok(())
}

/// Σ offsets, through libsecp directly; zero offsets are skipped, a sum that
/// is zero mod n is the zero blinding factor.
fn sum_offsets(offs: &[BlindingFactor]) -> BlindingFactor {
	// the harness's own libsecp context: scalar addition needs no capabilities, and
	// grin's shared context sits behind one global mutex that the code under test queues on
	thread_local! {
		static SECP: grin_util::secp::Secp256k1 = grin_util::secp::Secp256k1::with_caps(grin_util::secp::ContextFlag::None);
	}
	SECP.with(|secp| sum_offsets_with(secp, offs))
}

fn sum_offsets_with(secp: &grin_util::secp::Secp256k1, offs: &[BlindingFactor]) -> BlindingFactor {
	let keys: Vec<SecretKey> = offs
		.iter()
		.filter(|o| **o != BlindingFactor::zero())
		.map(|o| o.secret_key(&secp).expect("offset is a scalar"))
		.collect();
	if keys.is_empty() {
		return BlindingFactor::zero();
	}
	match secp.blind_sum(keys, vec![]) {
		Ok(k) => BlindingFactor::from_secret_key(k),
		Err(_) => BlindingFactor::zero(),
	}
}

/// The model: what aggregating `ops` must give, computed on commitment sets.
struct Expect {
	/// input commitments that survive (sorted bytes)
	inputs: BTreeSet<Vec<u8>>,
	/// surviving outputs: commitment → full serialisation
	outputs: BTreeMap<Vec<u8>, Vec<u8>>,
	/// kernels as a sorted multiset of serialisations
	kernels: Vec<Vec<u8>>,
	offset: BlindingFactor,
	/// commitments that are both created and spent inside the multiset
	matched: BTreeSet<Vec<u8>>,
}

fn expect_of(ops: &[&Transaction]) -> Result<Expect, Fail> {
	let mut ins: Vec<Vec<u8>> = vec![];
	let mut outs: Vec<(Vec<u8>, Vec<u8>)> = vec![];
	let mut kernels = vec![];
	let mut offs = vec![];
	for tx in ops {
		ins.extend(input_commits(tx.inputs()));
		for o in tx.outputs() {
			outs.push((o.commitment().0.to_vec(), bytes_of(o)?));
		}
		for k in tx.kernels() {
			kernels.push(bytes_of(k)?);
		}
		offs.push(tx.offset.clone());
	}
	kernels.sort();
	let in_set: BTreeSet<Vec<u8>> = ins.iter().cloned().collect();
	let out_set: BTreeSet<Vec<u8>> = outs.iter().map(|(c, _)| c.clone()).collect();
	// the generator's promise (harness self-check): a commitment is spent at
	// most once and created at most once in the multiset
	ensure!(in_set.len() == ins.len(), "harness:duplicate-input", "two operands spend the same commitment");
	ensure!(out_set.len() == outs.len(), "harness:duplicate-output", "two operands create the same commitment");
	let matched: BTreeSet<Vec<u8>> = in_set.intersection(&out_set).cloned().collect();
	Ok(Expect {
		inputs: in_set.difference(&matched).cloned().collect(),
		outputs: outs.into_iter().filter(|(c, _)| !matched.contains(c)).collect(),
		kernels,
		offset: sum_offsets(&offs),
		matched,
	})
}

/// Compare a transaction with the model, both inclusion directions.
fn check_model(sig: &str, what: &str, tx: &Transaction, ex: &Expect) -> PResult {
	let v = tx_view(tx)?;
	// kernels: multiset union
	let mut ks = v.kernels.clone();
	ks.sort();
	ensure!(
		ks == ex.kernels,
		format!("{}:kernels-not-union", sig),
		"{}: {} kernels, the union of the operands' kernels has {}{}",
		what,
		ks.len(),
		ex.kernels.len(),
		if ks.len() == ex.kernels.len() { " (same count, different kernels)" } else { "" }
	);
	// offset
	ensure!(tx.offset == ex.offset, format!("{}:offset-not-sum", sig), "{}: offset is not the sum of the operands' offsets", what);
	// inputs
	let got_in: BTreeSet<Vec<u8>> = v.inputs.iter().cloned().collect();
	ensure!(got_in.len() == v.inputs.len(), format!("{}:input-duplicated", sig), "{}: an input appears twice", what);
	if let Some(c) = ex.inputs.difference(&got_in).next() {
		fail!(format!("{}:input-missing", sig), "{}: input {} (not matched by any output of the multiset) is missing", what, hx(c));
	}
	if let Some(c) = got_in.difference(&ex.inputs).next() {
		let why = if ex.matched.contains(c) { "a matched spend pair that was not cut through" } else { "not an input of any operand" };
		fail!(format!("{}:input-extra", sig), "{}: unexpected input {} ({})", what, hx(c), why);
	}
	// outputs (commitment sets, then full bytes so that proofs are the operands' proofs)
	let got_out: BTreeMap<Vec<u8>, Vec<u8>> = tx.outputs().iter().map(|o| (o.commitment().0.to_vec(), bytes_of(o).unwrap_or_default())).collect();
	ensure!(got_out.len() == tx.outputs().len(), format!("{}:output-duplicated", sig), "{}: an output appears twice", what);
	if let Some(c) = ex.outputs.keys().find(|c| !got_out.contains_key(*c)) {
		fail!(format!("{}:output-missing", sig), "{}: output {} (not spent inside the multiset) is missing", what, hx(c));
	}
	if let Some(c) = got_out.keys().find(|c| !ex.outputs.contains_key(*c)) {
		let why = if ex.matched.contains(c) { "a matched spend pair that was not cut through" } else { "not an output of any operand" };
		fail!(format!("{}:output-extra", sig), "{}: unexpected output {} ({})", what, hx(c), why);
	}
	ensure!(got_out == ex.outputs, format!("{}:output-bytes", sig), "{}: an output's features/proof differ from the operand's", what);
	// sorted (strictly ascending in the consensus order = by hash)
	let ins: Vec<CommitWrapper> = tx.inputs().into();
	let sorted = match &tx.body.inputs {
		Inputs::CommitOnly(v) => v.windows(2).all(|w| w[0] < w[1]),
		Inputs::FeaturesAndCommit(v) => v.windows(2).all(|w| w[0] < w[1]),
	};
	ensure!(
		sorted && ins.windows(2).all(|w| w[0] < w[1]) && tx.outputs().windows(2).all(|w| w[0] < w[1]) && tx.kernels().windows(2).all(|w| w[0] < w[1]),
		format!("{}:unsorted", sig),
		"{}: body is not sorted",
		what
	);
	Ok(())
}

fn splitmix(s: &mut u64) -> u64 {
	*s = s.wrapping_add(0x9E37_79B9_7F4A_7C15);
	let mut z = *s;
	z = (z ^ (z >> 30)).wrapping_mul(0xBF58_476D_1CE4_E5B9);
	z = (z ^ (z >> 27)).wrapping_mul(0x94D0_49BB_1331_11EB);
	z ^ (z >> 31)
}

fn rand_perm(n: usize, s: &mut u64) -> Vec<usize> {
	let mut p: Vec<usize> = (0..n).collect();
	for i in (1..n).rev() {
		let j = (splitmix(s) % (i as u64 + 1)) as usize;
		p.swap(i, j);
	}
	p
}

fn all_perms(n: usize) -> Vec<Vec<usize>> {
	fn rec(cur: &mut Vec<usize>, used: &mut Vec<bool>, n: usize, out: &mut Vec<Vec<usize>>) {
		if cur.len() == n {
			out.push(cur.clone());
			return;
		}
		for i in 0..n {
			if !used[i] {
				used[i] = true;
				cur.push(i);
				rec(cur, used, n, out);
				cur.pop();
				used[i] = false;
			}
		}
	}
	let mut out = vec![];
	rec(&mut vec![], &mut vec![false; n], n, &mut out);
	out
}

/// every way of bracketing `order` into consecutive groups
fn compositions(order: &[usize]) -> Vec<Vec<Vec<usize>>> {
	let n = order.len();
	let mut out = vec![];
	for mask in 0u32..(1u32 << (n - 1)) {
		let mut groups = vec![vec![order[0]]];
		for i in 1..n {
			if mask & (1 << (i - 1)) != 0 {
				groups.push(vec![]);
			}
			groups.last_mut().unwrap().push(order[i]);
		}
		out.push(groups);
	}
	out
}

fn rand_partition(n: usize, s: &mut u64) -> Vec<Vec<usize>> {
	let k = 1 + (splitmix(s) % n as u64) as usize;
	let mut groups: Vec<Vec<usize>> = vec![vec![]; k];
	for i in rand_perm(n, s) {
		let g = (splitmix(s) % k as u64) as usize;
		groups[g].push(i);
	}
	groups.retain(|g| !g.is_empty());
	groups
}

fn agg(sig: &str, what: &str, txs: &[Transaction]) -> Result<Transaction, Fail> {
	aggregate(txs).map_err(|e| Fail::new(format!("{}:aggregate-err", sig), format!("{}: aggregate of {} transactions failed: {:?}", what, txs.len(), e)))
}

struct RawCompact<'a> {
	header: &'a BlockHeader,
	nonce: u64,
	outs: &'a [Output],
	kerns: &'a [TxKernel],
	ids: &'a [ShortId],
}

impl<'a> Writeable for RawCompact<'a> {
	fn write<W: Writer>(&self, w: &mut W) -> Result<(), ser::Error> {
		self.header.write(w)?;
		w.write_u64(self.nonce)?;
		w.write_u64(self.outs.len() as u64)?;
		w.write_u64(self.kerns.len() as u64)?;
		w.write_u64(self.ids.len() as u64)?;
		for o in self.outs {
			o.write(w)?;
		}
		for k in self.kerns {
			k.write(w)?;
		}
		for i in self.ids {
			i.write(w)?;
		}
		Ok(())
	}
}

fn id_bytes(ids: &[ShortId]) -> BTreeSet<Vec<u8>> {
	ids.iter().map(|i| i.as_ref().to_vec()).collect()
}

/// the compact form of `b` under a chosen nonce: `header ‖ nonce ‖ body`
/// encoded by the harness (short ids through the public
/// `ShortIdentifiable::short_id`) and decoded as a `CompactBlock`. None when two
/// kernels collide on their 48-bit short id under this nonce (no valid
/// encoding exists then: the reader demands unique ids).
fn compact_with_nonce(b: &Block, nonce: u64) -> Result<Option<CompactBlock>, Fail> {
	let h = b.hash();
	let mut outs: Vec<Output> = b.outputs().iter().filter(|o| o.is_coinbase()).cloned().collect();
	let mut kerns: Vec<TxKernel> = b.kernels().iter().filter(|k| k.is_coinbase()).cloned().collect();
	let mut ids: Vec<ShortId> = b.kernels().iter().filter(|k| !k.is_coinbase()).map(|k| k.short_id(&h, nonce)).collect();
	outs.sort_unstable();
	kerns.sort_unstable();
	ids.sort_unstable();
	if id_bytes(&ids).len() != ids.len() {
		return Ok(None);
	}
	let raw = RawCompact {
		header: &b.header,
		nonce,
		outs: &outs,
		kerns: &kerns,
		ids: &ids,
	};
	let bytes = bytes_of(&raw)?;
	let cb: CompactBlock = ser::deserialize(&mut &bytes[..], pv(), DeserializationMode::default())
		.map_err(|e| Fail::new("compact-decode", format!("compact block encoded with nonce {} does not decode: {:?}", nonce, e)))?;
	ensure!(cb.nonce == nonce, "compact-decode", "decoded nonce {} != encoded {}", cb.nonce, nonce);
	ensure!(bytes_of(&cb)? == bytes, "compact-decode", "compact block with nonce {} does not re-encode to the same bytes", nonce);
	Ok(Some(cb))
}

/// the compact block carries the header, the coinbase output/kernel in full
/// and one short id (under its nonce) per other kernel
fn check_compact(what: &str, cb: &CompactBlock, b: &Block) -> PResult {
	ensure!(cb.header.hash() == b.hash(), "compact-header", "{}: compact block header hash differs from the block's", what);
	ensure!(bytes_of(&cb.header)? == bytes_of(&b.header)?, "compact-header", "{}: compact block header differs from the block's", what);
	let outs: BTreeSet<Vec<u8>> = b.outputs().iter().filter(|o| o.is_coinbase()).map(|o| bytes_of(o).unwrap_or_default()).collect();
	let got: BTreeSet<Vec<u8>> = cb.out_full().iter().map(|o| bytes_of(o).unwrap_or_default()).collect();
	ensure!(outs == got && cb.out_full().len() == outs.len(), "compact-out-full", "{}: out_full is not the block's coinbase outputs", what);
	let ks: BTreeSet<Vec<u8>> = b.kernels().iter().filter(|k| k.is_coinbase()).map(|k| bytes_of(k).unwrap_or_default()).collect();
	let got: BTreeSet<Vec<u8>> = cb.kern_full().iter().map(|k| bytes_of(k).unwrap_or_default()).collect();
	ensure!(ks == got && cb.kern_full().len() == ks.len(), "compact-kern-full", "{}: kern_full is not the block's coinbase kernels", what);
	let h = b.hash();
	let want: Vec<ShortId> = b.kernels().iter().filter(|k| !k.is_coinbase()).map(|k| k.short_id(&h, cb.nonce)).collect();
	ensure!(
		cb.kern_ids().len() == want.len() && id_bytes(cb.kern_ids()) == id_bytes(&want),
		"compact-kern-ids",
		"{}: kern_ids are not the short ids of the block's {} non-coinbase kernels under nonce {}",
		what,
		want.len(),
		cb.nonce
	);
	Ok(())
}

fn same_block(what: &str, got: &Block, want: &Block) -> PResult {
	ensure!(got.hash() == want.hash(), "hydrate:header-hash", "{}: header hash differs", what);
	ensure!(bytes_of(&got.header)? == bytes_of(&want.header)?, "hydrate:header", "{}: header differs", what);
	let g = body_view(got.inputs(), got.outputs(), got.kernels())?;
	let w = body_view(want.inputs(), want.outputs(), want.kernels())?;
	ensure!(g.kernels == w.kernels, "hydrate:kernels", "{}: kernels differ ({} vs {})", what, g.kernels.len(), w.kernels.len());
	ensure!(g.inputs == w.inputs, "hydrate:inputs", "{}: inputs differ ({} vs {})", what, g.inputs.len(), w.inputs.len());
	ensure!(g.outputs == w.outputs, "hydrate:outputs", "{}: outputs differ ({} vs {})", what, g.outputs.len(), w.outputs.len());
	ensure!(bytes_of(got)? == bytes_of(want)?, "hydrate:bytes", "{}: block serialisations differ", what);
	Ok(())
}

// ---------------------------------------------------------------- the check

pub fn check_multiset(ctx: &Ctx, case: &Case, counting: bool) -> PResult {
	init_thread();
	let ev = &ctx.ev;
	let n = case.txs.len();
	ensure!(n >= 1 && n <= 8, "harness:case", "multiset of {} transactions", n);
	for s in &case.txs {
		ensure!(s.balanced(), "harness:unbalanced", "spec does not balance: {:?}", s);
	}
	let txs: Vec<Transaction> = case.txs.iter().map(fast_assemble).collect::<Result<_, _>>()?;
	for (i, tx) in txs.iter().enumerate() {
		operand_valid(tx).map_err(|e| Fail::new("valid-operand-refused", format!("operand {} is not a valid transaction: {}", i, e)))?;
	}
	let refs: Vec<&Transaction> = txs.iter().collect();
	let ex = expect_of(&refs)?;
	let n_matched = ex.matched.len();
	let mut seed = case.pick;

	// ---- 1. the aggregate against the model
	let whole = agg("agg", "whole multiset", &txs)?;
	check_model("agg", "aggregate of the whole multiset", &whole, &ex)?;
	if let Err(e) = whole.validate(Weighting::NoLimit) {
		fail!("agg:invalid", "aggregate of {} valid transactions ({} cut-through pairs) does not validate: {:?}", n, n_matched, e);
	}
	if whole.weight() <= global::max_tx_weight() {
		// small enough for the reader's weight limit: the wire form reads back (the reader insists on sorted, cut-through bodies)
		let bytes = bytes_of(&whole)?;
		let back: Transaction = ser::deserialize(&mut &bytes[..], pv(), DeserializationMode::default())
			.map_err(|e| Fail::new("agg:unreadable", format!("serialised aggregate does not read back: {:?}", e)))?;
		ensure!(tx_view(&back)? == tx_view(&whole)? && back.offset == whole.offset, "agg:unreadable", "serialised aggregate reads back differently");
	}

	// ---- 2. operand order
	let perms: Vec<Vec<usize>> = if n <= 4 { all_perms(n) } else { (0..6).map(|_| rand_perm(n, &mut seed)).collect() };
	for p in &perms {
		let ptx: Vec<Transaction> = p.iter().map(|&i| txs[i].clone()).collect();
		let a = agg("perm", &format!("permutation {:?}", p), &ptx)?;
		same_tx("perm", &format!("aggregate of permutation {:?} vs identity order", p), &a, &whole)?;
	}

	// ---- 3. grouping: every bracketing of the identity order and of one random order, plus random set partitions
	let order2 = rand_perm(n, &mut seed);
	let mut groupings: Vec<Vec<Vec<usize>>> = compositions(&(0..n).collect::<Vec<_>>());
	if n >= 3 {
		groupings.extend(compositions(&order2));
	}
	let first_random = groupings.len();
	for _ in 0..3 {
		groupings.push(rand_partition(n, &mut seed));
	}
	let mut grouped: Vec<Vec<Transaction>> = vec![];
	for (gi, g) in groupings.iter().enumerate() {
		let mut parts = vec![];
		for grp in g {
			let sub: Vec<Transaction> = grp.iter().map(|&i| txs[i].clone()).collect();
			let a = agg("group", &format!("group {:?} of grouping {:?}", grp, g), &sub)?;
			if gi == first_random {
				// every group is itself a multiset of the domain
				let sub_refs: Vec<&Transaction> = sub.iter().collect();
				check_model("group", &format!("aggregate of group {:?}", grp), &a, &expect_of(&sub_refs)?)?;
				// full validation (range proofs dominate) for the first group only
				if parts.is_empty() {
					if let Err(e) = a.validate(Weighting::NoLimit) {
						fail!("group:invalid", "aggregate of group {:?} does not validate: {:?}", grp, e);
					}
				}
			}
			parts.push(a);
		}
		let a = agg("group", &format!("outer aggregate of grouping {:?}", g), &parts)?;
		same_tx("group", &format!("aggregate of the aggregates of {:?} vs flat aggregate", g), &a, &whole)?;
		grouped.push(parts);
	}

	// ---- 4. de-aggregation (only when no transaction spends another's output)
	let mut n_deagg = 0u64;
	if n_matched == 0 && n >= 2 {
		for mask in 1u32..((1u32 << n) - 1) {
			let known: Vec<Transaction> = (0..n).filter(|i| mask & (1 << i) != 0).map(|i| txs[i].clone()).collect();
			let rest: Vec<Transaction> = (0..n).filter(|i| mask & (1 << i) == 0).map(|i| txs[i].clone()).collect();
			let rest_refs: Vec<&Transaction> = rest.iter().collect();
			let ex_rest = expect_of(&rest_refs)?;
			let what = format!("deaggregate(whole, subset mask {:#b} of {})", mask, n);
			let d = match deaggregate(whole.clone(), &known) {
				Ok(d) => d,
				Err(e) => {
					// a plain failure; the signature names the one input class that is
					// known to have failed before (fixed in grin by fa092684c)
					let zero_rest = ex_rest.offset == BlindingFactor::zero();
					let zero_known = sum_offsets(&known.iter().map(|t| t.offset.clone()).collect::<Vec<_>>()) == BlindingFactor::zero();
					fail!(
						if zero_rest && !zero_known { "deagg:err:remainder-offset-zero" } else { "deagg:err" },
						"{} failed: {:?} (offset of the remainder is {}, offset of the known subset is {})",
						what,
						e,
						if zero_rest { "zero" } else { "non-zero" },
						if zero_known { "zero" } else { "non-zero" }
					);
				}
			};
			check_model("deagg", &what, &d, &ex_rest)?;
			let want = agg("deagg", "remainder", &rest)?;
			same_tx("deagg", &format!("{} vs aggregate of the remainder", what), &d, &want)?;
			n_deagg += 1;
		}
	}

	// ---- 5. block → compact block → hydrate
	let prev = grin_core::genesis::genesis_dev().header;
	let fees: u64 = case.txs.iter().map(|s| s.fee()).sum();
	let (_, reward_out, reward_kern) = LIB.coinbase(fees, case.cb_key);
	let mut b = Block::from_reward(&prev, &txs, reward_out, reward_kern, Difficulty::from_num(1 + case.pick % 1000))
		.map_err(|e| Fail::new("block:from_reward-err", format!("from_reward over {} valid transactions failed: {:?}", n, e)))?;
	// from_reward stamps the wall clock; pin it so that a case is reproducible
	b.header.timestamp = prev.timestamp + chrono::Duration::seconds(60);
	{
		// the block is the aggregate plus the reward
		let bv = body_view(b.inputs(), b.outputs(), b.kernels())?;
		let wv = tx_view(&whole)?;
		let mut want_out = wv.outputs.clone();
		want_out.push(bytes_of(&reward_out)?);
		let mut want_k = wv.kernels.clone();
		want_k.push(bytes_of(&reward_kern)?);
		let (mut go, mut gk) = (bv.outputs.clone(), bv.kernels.clone());
		go.sort();
		gk.sort();
		want_out.sort();
		want_k.sort();
		ensure!(bv.inputs == wv.inputs, "block:inputs", "block inputs are not the aggregate's inputs");
		ensure!(go == want_out, "block:outputs", "block outputs are not the aggregate's outputs plus the reward output");
		ensure!(gk == want_k, "block:kernels", "block kernels are not the aggregate's kernels plus the reward kernel");
		ensure!(
			b.outputs().windows(2).all(|w| w[0] < w[1]) && b.kernels().windows(2).all(|w| w[0] < w[1]),
			"block:unsorted",
			"block body is not sorted"
		);
		ensure!(
			b.header.total_kernel_offset == sum_offsets(&[ex.offset.clone(), prev.total_kernel_offset.clone()]),
			"block:offset",
			"block total_kernel_offset is not previous total + Σ offsets"
		);
	}
	let mut compacts: Vec<(String, CompactBlock)> = vec![];
	let cb_rand: CompactBlock = b.clone().into();
	check_compact("From<Block>", &cb_rand, &b)?;
	compacts.push((format!("From<Block> nonce {}", cb_rand.nonce), cb_rand));
	let mut injected = false;
	if let Some(cb) = compact_with_nonce(&b, case.nonce)? {
		check_compact("injected nonce", &cb, &b)?;
		compacts.push((format!("injected nonce {}", case.nonce), cb));
		injected = true;
	}
	let mut n_hydr = 0u64;
	let mut supplies: Vec<(String, Vec<Transaction>)> = vec![];
	supplies.push(("each transaction separately".into(), txs.clone()));
	supplies.push(("each transaction separately, reversed".into(), txs.iter().rev().cloned().collect()));
	supplies.push((format!("each transaction separately, order {:?}", order2), order2.iter().map(|&i| txs[i].clone()).collect()));
	supplies.push(("the single aggregate".into(), vec![whole.clone()]));
	for (g, parts) in groupings.iter().zip(grouped.iter()) {
		supplies.push((format!("pre-aggregated groups {:?}", g), parts.clone()));
	}
	for (cname, cb) in &compacts {
		for (sname, sup) in &supplies {
			let what = format!("hydrate_from({}, {})", cname, sname);
			let hb = Block::hydrate_from(cb.clone(), sup).map_err(|e| Fail::new("hydrate:err", format!("{} failed: {:?}", what, e)))?;
			same_block(&what, &hb, &b)?;
			n_hydr += 1;
		}
	}

	// ---- evidence
	if counting {
		ev.eval();
		if case.txs.len() >= 2 && case.txs.iter().map(|t| t.fee()).sum::<u64>() >= 1 << 40 {
			ev.class("multisets_whose_fees_add_up_to_2^40_or_more");
		}
		let kinds: Vec<KKind> = case.txs.iter().flat_map(|t| t.kernels.iter().map(|k| k.kind)).collect();
		let mut kind_counts = [0u8; 3];
		for k in &kinds {
			kind_counts[match k {
				KKind::Plain => 0,
				KKind::HeightLocked => 1,
				KKind::Nrd => 2,
			}] += 1;
		}
		let zero_pat: Vec<bool> = txs.iter().map(|t| t.offset == BlindingFactor::zero()).collect();
		if n_matched > 0 {
			ev.class("with_cut_through");
			ev.class_n("cut_through_pairs", n_matched as u64);
		} else {
			ev.class("independent");
		}
		if case.txs.iter().any(|t| t.kernels.len() >= 2) {
			ev.class("multi_kernel");
		}
		if kind_counts[2] > 0 {
			ev.class("nrd");
		}
		if kind_counts[1] > 0 {
			ev.class("height_locked");
		}
		if kind_counts.iter().filter(|c| **c > 0).count() >= 2 {
			ev.class("mixed_kernel_variants");
		}
		if zero_pat.iter().any(|z| *z) {
			ev.class("zero_offset");
		}
		if zero_pat.iter().any(|z| *z) && zero_pat.iter().any(|z| !*z) {
			ev.class("zero_and_nonzero_offsets_mixed");
		}
		if zero_pat.iter().all(|z| *z) {
			ev.class("all_offsets_zero");
		}
		if txs.iter().any(|t| t.inputs().len() > 0 && input_commits(t.inputs()).iter().all(|c| ex.matched.contains(c))) {
			ev.class("tx_with_all_inputs_cut_through");
		}
		if n_deagg > 0 {
			ev.class("deaggregate_checked");
			ev.class_n("deaggregate_subsets", n_deagg);
		}
		ev.class_n("hydrate_groupings", n_hydr);
		ev.class_n("permutations_checked", perms.len() as u64);
		ev.class_n("groupings_checked", groupings.len() as u64);
		if injected {
			ev.class("injected_nonce");
		}
		ev.class(&format!("txs_{}", n));
		if n_matched >= 1 || n >= 3 {
			let mut gshape: Vec<usize> = groupings[first_random].iter().map(|g| g.len()).collect();
			gshape.sort();
			ev.nontrivial(&(n, n_matched, kind_counts, zero_pat.clone(), gshape));
		}
		if n_matched >= 1 && n >= 3 {
			ev.sample("multiset", || serde_json::to_value(case).unwrap());
		}
	}
	Ok(())
}

// ---------------------------------------------------------------- part "cancel"

/// root-cause class shared by `aggregate` and `Block::from_reward`: both sum
/// offsets through `committed::sum_kernel_offsets`
const ZERO_SUM_SIG: &str = "offsets-sum-to-zero:sum_kernel_offsets-err";

/// A valid one-kernel transaction with a *chosen* offset: the kernel key is
/// whatever makes the sums balance (Σout − Σin = key + offset).
fn tx_with_offset(inputs: &[OutRef], outputs: &[OutRef], fee: u64, offset: &BlindingFactor) -> Result<Transaction, Fail> {
	let r = sum_scalars(outputs.iter().map(|o| LIB.blind(o)).collect(), inputs.iter().map(|o| LIB.blind(o)).collect()).ok_or_else(|| Fail::new("harness:cancel", "blinding sum is zero"))?;
	let key = {
		let secp = static_secp_instance();
		let secp = secp.lock();
		let neg = if *offset == BlindingFactor::zero() { vec![] } else { vec![offset.secret_key(&secp).map_err(|e| Fail::new("harness:cancel", format!("{:?}", e)))?] };
		secp.blind_sum(vec![r], neg).map_err(|e| Fail::new("harness:cancel", format!("{:?}", e)))?
	};
	let kern = sign_kernel(KernelSpec::plain(fee).features(), &key);
	let ins: Vec<grin_core::core::Input> = inputs.iter().map(|o| grin_core::core::Input::new(o.features(), LIB.commit(o))).collect();
	let outs: Vec<Output> = outputs.iter().map(|o| LIB.output(o)).collect();
	let tx = Transaction::new(ins.as_slice().into(), &outs, &[kern]).with_offset(offset.clone());
	if let Err(e) = tx.validate(Weighting::AsTransaction) {
		fail!("valid-operand-refused", "hand-built operand is not valid: {:?}", e);
	}
	Ok(tx)
}

fn negate(offs: &[BlindingFactor]) -> Result<BlindingFactor, Fail> {
	let secp = static_secp_instance();
	let secp = secp.lock();
	let keys: Vec<SecretKey> = offs.iter().map(|o| o.secret_key(&secp).expect("scalar")).collect();
	secp.blind_sum(vec![], keys).map(BlindingFactor::from_secret_key).map_err(|e| Fail::new("harness:cancel", format!("{:?}", e)))
}

/// `k` transactions whose non-zero offsets sum to zero mod n (the last one's
/// offset is minus the sum of the others'), variant picks the universe slice.
pub fn check_cancel(ctx: &Ctx, k: usize, variant: u32, counting: bool) -> PResult {
	init_thread();
	ensure!(k >= 2 && k <= 4, "harness:case", "cancel with {} transactions", k);
	let mk_io = |i: usize| {
		let out = universe((variant as usize * 5 + i * 9) % UNIVERSE);
		let inp = OutRef {
			amount: out.amount + 2,
			key: 2000 + variant * 8 + i as u32,
			cb: false,
		};
		(inp, out)
	};
	let mut txs: Vec<Transaction> = vec![];
	for i in 0..k - 1 {
		let (inp, out) = mk_io(i);
		txs.push(
			assemble(&TxSpec {
				inputs: vec![inp],
				outputs: vec![out],
				kernels: vec![KernelSpec::plain(2)],
				zero_offset: false,
			})
			.0,
		);
		if let Err(e) = txs[i].validate(Weighting::AsTransaction) {
			fail!("valid-operand-refused", "operand {} is not valid: {:?}", i, e);
		}
	}
	let neg = negate(&txs.iter().map(|t| t.offset.clone()).collect::<Vec<_>>())?;
	let (inp, out) = mk_io(k - 1);
	txs.push(tx_with_offset(&[inp], &[out], 2, &neg)?);
	let refs: Vec<&Transaction> = txs.iter().collect();
	let ex = expect_of(&refs)?;
	ensure!(ex.offset == BlindingFactor::zero(), "harness:cancel", "offsets do not cancel");
	if counting {
		ctx.ev.eval();
		ctx.ev.class("offsets_sum_to_zero");
	}
	let whole = aggregate(&txs).map_err(|e| {
		Fail::new(
			ZERO_SUM_SIG,
			format!("aggregate of {} valid transactions whose (non-zero) offsets sum to zero failed: {:?}", k, e),
		)
	})?;
	check_model("agg", "aggregate (offsets summing to zero)", &whole, &ex)?;
	if let Err(e) = whole.validate(Weighting::NoLimit) {
		fail!("agg:invalid", "aggregate (offsets summing to zero) does not validate: {:?}", e);
	}
	Ok(())
}

/// part "block_cancel": one valid transaction whose offset is minus the
/// previous header's total kernel offset (any header may carry any total).
/// The block must build, with a zero total offset, and hydrate back.
pub fn check_block_cancel(ctx: &Ctx, variant: u32, counting: bool) -> PResult {
	init_thread();
	let mut prev = grin_core::genesis::genesis_dev().header;
	let t = BlindingFactor::from_secret_key(scalar_from(format!("c12-prev-offset-{}", variant).as_bytes()));
	prev.total_kernel_offset = t.clone();
	let out = universe((variant as usize * 7 + 3) % UNIVERSE);
	let inp = OutRef {
		amount: out.amount + 2,
		key: 3000 + variant,
		cb: false,
	};
	let tx = tx_with_offset(&[inp], &[out], 2, &negate(&[t])?)?;
	if counting {
		ctx.ev.eval();
		ctx.ev.class("block_offsets_sum_to_zero");
	}
	let (_, reward_out, reward_kern) = LIB.coinbase(2, 0);
	let mut b = Block::from_reward(&prev, &[tx.clone()], reward_out, reward_kern, Difficulty::from_num(1)).map_err(|e| {
		Fail::new(
			ZERO_SUM_SIG,
			format!("from_reward over one valid transaction whose offset cancels the previous total kernel offset failed: {:?}", e),
		)
	})?;
	b.header.timestamp = prev.timestamp + chrono::Duration::seconds(60);
	ensure!(b.header.total_kernel_offset == BlindingFactor::zero(), "block:offset", "total_kernel_offset is not previous total + Σ offsets (= zero)");
	let cb: CompactBlock = b.clone().into();
	check_compact("From<Block>", &cb, &b)?;
	let hb = Block::hydrate_from(cb, &[tx]).map_err(|e| Fail::new("hydrate:err", format!("{:?}", e)))?;
	same_block("hydrate_from(From<Block>, the transaction)", &hb, &b)
}

/// part "recreate": a commitment that is created, spent and created AGAIN inside one multiset
/// (tx1: X -> Y ; tx2: Y -> Z ; tx3: Z, W -> Y): the union holds Y twice as an output and once as an
/// input. Cut-through matches one pair per occurrence, so the aggregate of all three, in every order
/// and bracketing whose intermediate results are themselves valid, is the transaction X, W -> Y; a
/// block over the three and its hydration from the individual transactions agree.
pub fn check_recreate(ctx: &Ctx, variant: u32, counting: bool) -> PResult {
	init_thread();
	let y = universe((variant as usize * 11 + 1) % UNIVERSE);
	let z = universe((variant as usize * 11 + 20) % UNIVERSE);
	let fee = 1 + (variant as u64 % 3);
	let x = OutRef { amount: y.amount + fee, key: 4000 + variant * 4, cb: false };
	// tx2 needs y.amount = z.amount + fee2: top up with a fresh input or leave change
	let mut tx2_in = vec![y];
	let mut tx2_out = vec![z];
	if y.amount < z.amount + fee {
		tx2_in.push(OutRef { amount: z.amount + fee - y.amount, key: 4001 + variant * 4, cb: false });
	} else if y.amount > z.amount + fee {
		tx2_out.push(OutRef { amount: y.amount - z.amount - fee, key: 4002 + variant * 4, cb: false });
	}
	// tx3: Z + W -> Y
	let w_amt = (y.amount + fee).saturating_sub(z.amount).max(1);
	let mut tx3_out = vec![y];
	if z.amount + w_amt > y.amount + fee {
		tx3_out.push(OutRef { amount: z.amount + w_amt - y.amount - fee, key: 4003 + variant * 4, cb: false });
	}
	let w = OutRef { amount: w_amt, key: 4004 + variant * 4 + 100, cb: false };
	let mk = |inputs: Vec<OutRef>, outputs: Vec<OutRef>, zero: bool| -> Result<Transaction, Fail> {
		let spec = TxSpec { inputs, outputs, kernels: vec![KernelSpec::plain(fee)], zero_offset: zero };
		ensure!(spec.balanced(), "harness:recreate", "unbalanced operand {:?}", spec);
		let tx = assemble(&spec).0;
		if let Err(e) = tx.validate(Weighting::AsTransaction) {
			fail!("valid-operand-refused", "operand is not valid: {:?}", e);
		}
		Ok(tx)
	};
	let tx1 = mk(vec![x], vec![y], variant % 2 == 0)?;
	let tx2 = mk(tx2_in, tx2_out, false)?;
	let tx3 = mk(vec![z, w], tx3_out, variant % 3 == 0)?;
	if counting {
		ctx.ev.eval();
		ctx.ev.class("commitment_recreated_inside_the_multiset");
		ctx.ev.nontrivial(&("recreate", variant));
	}
	// the reference result: tx1 + tx2 first (Y matched once), then + tx3 (Z matched) — each step a
	// multiset in which every commitment is created and spent at most once
	let t12 = aggregate(&[tx1.clone(), tx2.clone()]).map_err(|e| Fail::new("recreate:agg-err", format!("aggregate(tx1, tx2): {:?}", e)))?;
	let refs: Vec<&Transaction> = vec![&tx1, &tx2];
	check_model("recreate", "aggregate(tx1, tx2)", &t12, &expect_of(&refs)?)?;
	let want = aggregate(&[t12.clone(), tx3.clone()]).map_err(|e| Fail::new("recreate:agg-err", format!("aggregate(aggregate(tx1, tx2), tx3): {:?}", e)))?;
	let refs: Vec<&Transaction> = vec![&t12, &tx3];
	check_model("recreate", "aggregate(aggregate(tx1, tx2), tx3)", &want, &expect_of(&refs)?)?;
	if let Err(e) = want.validate(Weighting::NoLimit) {
		fail!("recreate:invalid", "the aggregate of the three does not validate: {:?}", e);
	}
	// flat, in every order
	let all = [tx1.clone(), tx2.clone(), tx3.clone()];
	for perm in all_perms(3) {
		let ops: Vec<Transaction> = perm.iter().map(|i| all[*i].clone()).collect();
		let got = aggregate(&ops).map_err(|e| Fail::new("recreate:flat-agg-err", format!("aggregate of [tx{}, tx{}, tx{}] (tx1: X->Y, tx2: Y->Z, tx3: Z,W->Y — Y is created, spent and created again) failed: {:?}; the same three aggregate pairwise", perm[0] + 1, perm[1] + 1, perm[2] + 1, e)))?;
		same_tx("recreate:flat-differs", &format!("flat aggregate in order {:?}", perm), &got, &want)?;
	}
	// the other bracketing with valid intermediates
	let t23 = aggregate(&[tx2.clone(), tx3.clone()]).map_err(|e| Fail::new("recreate:agg-err", format!("aggregate(tx2, tx3): {:?}", e)))?;
	let got = aggregate(&[tx1.clone(), t23]).map_err(|e| Fail::new("recreate:agg-err", format!("aggregate(tx1, aggregate(tx2, tx3)): {:?}", e)))?;
	same_tx("recreate:bracket-differs", "aggregate(tx1, aggregate(tx2, tx3))", &got, &want)?;
	// block over the three, and its hydration from the individual transactions
	let prev = grin_core::genesis::genesis_dev().header;
	let (_, reward_out, reward_kern) = LIB.coinbase(3 * fee, 0);
	let mut b = Block::from_reward(&prev, &all, reward_out.clone(), reward_kern.clone(), Difficulty::from_num(1)).map_err(|e| Fail::new("recreate:block-err", format!("from_reward over the three individual transactions: {:?}", e)))?;
	b.header.timestamp = prev.timestamp + chrono::Duration::seconds(60);
	let mut b1 = Block::from_reward(&prev, &[want.clone()], reward_out, reward_kern, Difficulty::from_num(1)).map_err(|e| Fail::new("recreate:block-err", format!("from_reward over the aggregate: {:?}", e)))?;
	b1.header.timestamp = b.header.timestamp;
	same_block("block over the three transactions vs block over their aggregate", &b, &b1)?;
	let cb: CompactBlock = b.clone().into();
	let hb = Block::hydrate_from(cb, &all).map_err(|e| Fail::new("hydrate:err", format!("hydrate_from the three individual transactions: {:?}", e)))?;
	same_block("hydrate_from(From<Block>, the three transactions)", &hb, &b)
}

// ---------------------------------------------------------------- run / replay

/// two independent one-kernel transactions, the first with a non-zero offset,
/// the second with a zero offset
fn minimal_zero_remainder_case() -> Case {
	let mk = |i: usize, zero_offset: bool| {
		let out = universe(i);
		TxSpec {
			inputs: vec![OutRef {
				amount: out.amount + 1,
				key: 1000 + i as u32,
				cb: false,
			}],
			outputs: vec![out],
			kernels: vec![KernelSpec::plain(1)],
			zero_offset,
		}
	};
	Case {
		txs: vec![mk(0, false), mk(1, true)],
		pick: 0,
		nonce: 0,
		cb_key: 0,
	}
}

pub fn run(ctx: &Ctx) -> HResult<()> {
	init_global();
	let ev = &ctx.ev;
	ev.rule("multisets of 1-6 valid transactions generated by proptest and resolved by construction (outputs drawn without replacement from 64 memoised bulletproof outputs, chained inputs = not-yet-spent outputs of earlier transactions, fresh bare-commitment inputs balance the value; 1-3 kernels per tx of Plain/HeightLocked/NRD with fee shifts and fees 1..4 or, one kernel in nine, at the top of the 40-bit fee field (2^39, 2^39-1, 2^40-1), zero or non-zero offset per tx); per multiset: aggregate vs a commitment-set model (kernel multiset, offset sum via libsecp, inputs/outputs = union minus matched pairs both directions, sorted, validates), all permutations (n<=4) or 6 random, every bracketing of the identity and of one random order plus 3 random set partitions, deaggregate of every non-empty proper subset (non-chained multisets only), Block::from_reward -> CompactBlock (From<Block> random nonce + injected chosen nonce) -> hydrate_from for every supply (separate/reordered/single aggregate/every grouping) compared with the block by header hash and bytes | non-trivial = >=1 cut-through pair or >=3 transactions; distinct by (n txs, n cut-through pairs, kernel-variant counts, zero-offset pattern, group sizes of the first random partition)");
	ev.assume("operands are built like world::assemble (same kernel keys and world::sign_kernel with its deterministic nonce, derived keys memoised per key index and checked against LIB.commit) and must pass every check of Transaction::validate(AsTransaction) before use (range proof of each distinct library output verified once per child process); libsecp blind_sum is the offset oracle; consensus sort order (by hash) and Hashed are trusted");
	ev.assume("hydration means Block::hydrate_from over all the block's transactions (what the statement says), not the pool's short-id lookup");

	// bulletproofs of the universe and of the possible coinbases, on all cores
	let t0 = std::time::Instant::now();
	let mut pre: Vec<OutRef> = (0..UNIVERSE).map(universe).collect();
	for fees in 1..=(MAX_TXS * MAX_KERNELS) as u64 * MAX_FEE {
		pre.push(OutRef {
			amount: grin_core::consensus::reward(fees),
			key: 0,
			cb: true,
		});
	}
	LIB.prefetch(&pre);
	ev.extra("prefetch_s", json!(t0.elapsed().as_secs_f64()));

	// offsets that sum to zero (one report per root cause)
	'cancel: for k in 2..=4usize {
		for variant in 0..ctx.n(2, 6) as u32 {
			let r = match catch(|| check_cancel(ctx, k, variant, true)) {
				Ok(r) => r,
				Err(p) => Err(p),
			};
			if let Err(f) = r {
				ctx.report("cancel", &f.sig, json!({"k": k, "variant": variant}), &f.msg);
				break 'cancel;
			}
		}
	}

	for variant in 0..ctx.n(2, 6) as u32 {
		let r = match catch(|| check_block_cancel(ctx, variant, true)) {
			Ok(r) => r,
			Err(p) => Err(p),
		};
		if let Err(f) = r {
			ctx.report("block_cancel", &f.sig, json!({"variant": variant}), &f.msg);
			break;
		}
	}

	for variant in 0..ctx.n(8, 40) as u32 {
		let r = match catch(|| check_recreate(ctx, variant, true)) {
			Ok(r) => r,
			Err(p) => Err(p),
		};
		if let Err(f) = r {
			ctx.report("recreate", &f.sig, json!({"variant": variant}), &f.msg);
			break;
		}
	}

	// directed: the smallest multiset whose remainder has a zero offset while the
	// known subset has not (de-aggregation failed on it before fa092684c)
	let minimal = minimal_zero_remainder_case();
	if let Ok(Err(f)) | Err(f) = catch(|| check_multiset(ctx, &minimal, true)) {
		ctx.report("multiset", &f.sig, serde_json::to_value(&minimal).unwrap(), &f.msg);
	}

	// the exploration: 16 single-threaded child processes (grin's secp context is
	// one global mutex, threads do not scale); the bulletproofs prefetched above
	// reach the children through the on-disk cache
	let cases = ctx.n(QUICK_CASES, THOROUGH_CASES);
	if let Some((case, f)) = pbt_proc(ctx, "multiset", cases, 16) {
		ctx.report("multiset", &f.sig, case, &f.msg);
	}
	ev.extra("proofs_created", json!(LIB.proofs_created.load(std::sync::atomic::Ordering::Relaxed)));
	for cl in ["with_cut_through", "multi_kernel", "nrd", "height_locked", "zero_offset", "deaggregate_checked", "hydrate_groupings", "injected_nonce"] {
		if ev.class_count(cl) == 0 {
			eprintln!("warning: class {} is empty in this run", cl);
		}
	}
	Ok(())
}

/// one child process of the exploration (single-threaded)
pub fn part(ctx: &Ctx, part: &str, seed: u64, cases: u32) -> Option<(Value, Fail)> {
	init_global();
	match part {
		"multiset" => run_part(ctx, seed, cases, &case_strategy(), |c, counting| check_multiset(ctx, c, counting)),
		_ => None,
	}
}

pub fn replay(ctx: &Ctx, part: &str, case: &Value) -> PResult {
	init_global();
	match part {
		"multiset" => {
			let c: Case = serde_json::from_value(case.clone()).map_err(|e| Fail::new("harness:replay-parse", e.to_string()))?;
			check_multiset(ctx, &c, false)
		}
		"block_cancel" => check_block_cancel(ctx, case["variant"].as_u64().unwrap_or(0) as u32, false),
		"recreate" => check_recreate(ctx, case["variant"].as_u64().unwrap_or(0) as u32, false),
		"cancel" => check_cancel(ctx, case["k"].as_u64().unwrap_or(2) as usize, case["variant"].as_u64().unwrap_or(0) as u32, false),
		_ => Ok(()),
	}
}
