//! C11 — Decoding untrusted bytes never panics, aborts, hangs or over-allocates.
//!
//! Layout of this file:
//! * `dec` — the decoding core: numbered entry points (every decoder reachable
//!   from the network / API) plus the stateless post-decode checks. It depends
//!   only on the grin crates, so the cargo-fuzz crate under `harness/fuzz`
//!   includes this very file (`#[path]`, with `--cfg fuzzing`) and runs the same
//!   code under libFuzzer.
//! * `hs` (not compiled when fuzzing) — the harness side: worker processes
//!   (`gv child x C11 worker`), case generation (honest encodings + structure-aware
//!   mutations located through a recording `Reader`), the oracle, reporting,
//!   replay and the thorough-tier libFuzzer campaigns.
//!
//! A case is `{entry, version, flags, hex | text}`; replay runs it in a fresh
//! worker with strict reporting.

#![allow(unexpected_cfgs)]

#[allow(dead_code)]
pub mod dec {
	use croaring::Bitmap;
	use grin_chain::txhashset::{BitmapAccumulator, BitmapChunk, BitmapSegment};
	use grin_core::core::hash::Hash;
	use grin_core::core::merkle_proof::MerkleProof;
	use grin_core::core::pmmr::{self, ReadablePMMR, ReadonlyPMMR, VecBackend, PMMR};
	use grin_core::core::{
		Block, BlockHeader, CompactBlock, FeeFields, Input, KernelFeatures, NRDRelativeHeight, Output, OutputFeatures, OutputIdentifier,
		Segment, SegmentIdentifier, SegmentProof, Transaction, TransactionBody, TxKernel, UntrustedBlock, UntrustedBlockHeader,
		UntrustedCompactBlock, Weighting,
	};
	use grin_core::global::{self, ChainTypes};
	use grin_core::pow::{Proof, ProofOfWork};
	use grin_core::ser::{self, BinReader, BufReader, DeserializationMode, PMMRIndexHashable, PMMRable, ProtocolVersion, Readable, Reader};
	use grin_p2p::msg::{
		read_message, BanReason, GetPeerAddrs, Hand, Locator, MsgHeaderWrapper, OutputBitmapSegmentResponse, OutputSegmentResponse, PeerAddrs,
		PeerError, Ping, Pong, SegmentRequest, SegmentResponse, Shake, TxHashSetArchive, TxHashSetRequest, Type,
	};
	use grin_p2p::PeerAddr;
	use grin_util::secp::pedersen::{Commitment, RangeProof};
	use grin_util::secp::Signature;
	use std::cell::Cell;
	use std::sync::atomic::{AtomicBool, Ordering};
	use std::sync::OnceLock;

	// ------------------------------------------------------------------ flags

	/// chain type Mainnet (proof size 42, mainnet magic and weights) instead of AutomatedTesting
	pub const F_MAINNET: u8 = 1;
	/// directed case of an open known finding: do not apply its exclusion
	pub const F_NOEXCL: u8 = 2;
	/// `BinReader` over a slice (handshake / API / db path) instead of `BufReader` (codec path)
	pub const F_BIN: u8 = 4;

	// ------------------------------------------------------------------ entry points

	#[derive(Clone, Copy, Debug)]
	pub struct EntryDef {
		pub id: u16,
		pub name: &'static str,
		/// fuzz target / corpus group
		pub group: &'static str,
		/// input is a string (from_hex family)
		pub text: bool,
		/// input is a framed message stream
		pub framed: bool,
		/// encoding depends on the protocol version
		pub versioned: bool,
		/// default reader is BinReader
		pub bin: bool,
	}

	pub const E_PING: u16 = 0;
	pub const E_PONG: u16 = 1;
	pub const E_BAN: u16 = 2;
	pub const E_HASH: u16 = 3;
	pub const E_TX: u16 = 4;
	pub const E_UBLOCK: u16 = 5;
	pub const E_UCOMPACT: u16 = 6;
	pub const E_LOCATOR: u16 = 7;
	pub const E_UHEADER: u16 = 8;
	pub const E_GETPEERS: u16 = 9;
	pub const E_PEERADDRS: u16 = 10;
	pub const E_TXHSREQ: u16 = 11;
	pub const E_TXHSARCH: u16 = 12;
	pub const E_SEGREQ: u16 = 13;
	pub const E_BITMAPRESP: u16 = 14;
	pub const E_OUTRESP: u16 = 15;
	pub const E_RPRESP: u16 = 16;
	pub const E_KERNRESP: u16 = 17;
	pub const E_HAND: u16 = 18;
	pub const E_SHAKE: u16 = 19;
	pub const E_PEERERR: u16 = 20;
	pub const E_HEADER: u16 = 21;
	pub const E_BLOCK: u16 = 22;
	pub const E_COMPACT: u16 = 23;
	pub const E_BODY: u16 = 24;
	pub const E_MSGHDR: u16 = 25;
	pub const E_RM_HAND: u16 = 26;
	pub const E_RM_SHAKE: u16 = 27;
	pub const E_CODEC: u16 = 28;
	pub const E_MERKLE: u16 = 30;
	pub const E_MERKLE_HEX: u16 = 31;
	pub const E_UTIL_HEX: u16 = 32;
	pub const E_SEG_OUT: u16 = 33;
	pub const E_SEG_RP: u16 = 34;
	pub const E_SEG_KERN: u16 = 35;
	pub const E_BITMAPSEG: u16 = 36;
	pub const E_SEGPROOF: u16 = 37;
	pub const E_PROOF: u16 = 38;
	pub const E_POW: u16 = 39;
	pub const E_KERNEL: u16 = 40;
	pub const E_OUTPUT: u16 = 41;
	pub const E_OUTID: u16 = 42;
	pub const E_RANGEPROOF: u16 = 43;
	pub const E_INPUT: u16 = 44;
	pub const E_KFEATURES: u16 = 45;
	pub const E_PEERADDR: u16 = 46;
	pub const E_SEGID: u16 = 47;

	const fn e(id: u16, name: &'static str, group: &'static str, versioned: bool, bin: bool) -> EntryDef {
		EntryDef { id, name, group, text: false, framed: false, versioned, bin }
	}

	pub const ENTRIES: &[EntryDef] = &[
		e(E_PING, "Ping", "msg_body", false, false),
		e(E_PONG, "Pong", "msg_body", false, false),
		e(E_BAN, "BanReason", "msg_body", false, false),
		e(E_HASH, "Hash", "msg_body", false, false),
		e(E_TX, "Transaction", "block_tx", true, false),
		e(E_UBLOCK, "UntrustedBlock", "block_tx", true, false),
		e(E_UCOMPACT, "UntrustedCompactBlock", "block_tx", true, false),
		e(E_LOCATOR, "Locator", "msg_body", false, false),
		e(E_UHEADER, "UntrustedBlockHeader", "header", false, false),
		e(E_GETPEERS, "GetPeerAddrs", "msg_body", false, false),
		e(E_PEERADDRS, "PeerAddrs", "msg_body", false, false),
		e(E_TXHSREQ, "TxHashSetRequest", "msg_body", false, false),
		e(E_TXHSARCH, "TxHashSetArchive", "msg_body", false, false),
		e(E_SEGREQ, "SegmentRequest", "msg_body", false, false),
		e(E_BITMAPRESP, "OutputBitmapSegmentResponse", "bitmap_segment", false, false),
		e(E_OUTRESP, "OutputSegmentResponse", "segment", false, false),
		e(E_RPRESP, "SegmentResponse<RangeProof>", "segment", false, false),
		e(E_KERNRESP, "SegmentResponse<TxKernel>", "segment", true, false),
		e(E_HAND, "Hand", "msg_body", false, true),
		e(E_SHAKE, "Shake", "msg_body", false, true),
		e(E_PEERERR, "PeerError", "msg_body", false, true),
		e(E_HEADER, "BlockHeader", "header", false, true),
		e(E_BLOCK, "Block", "block_tx", true, true),
		e(E_COMPACT, "CompactBlock", "block_tx", true, true),
		e(E_BODY, "TransactionBody", "block_tx", true, true),
		e(E_MSGHDR, "MsgHeaderWrapper", "framing", false, false),
		EntryDef { id: E_RM_HAND, name: "read_message<Hand>", group: "framing", text: false, framed: true, versioned: false, bin: true },
		EntryDef { id: E_RM_SHAKE, name: "read_message<Shake>", group: "framing", text: false, framed: true, versioned: false, bin: true },
		EntryDef { id: E_CODEC, name: "Codec::read", group: "codec", text: false, framed: true, versioned: true, bin: false },
		e(E_MERKLE, "MerkleProof::read", "merkle_proof", false, true),
		EntryDef { id: E_MERKLE_HEX, name: "MerkleProof::from_hex", group: "merkle_proof", text: true, framed: false, versioned: false, bin: true },
		EntryDef { id: E_UTIL_HEX, name: "util::from_hex", group: "merkle_proof", text: true, framed: false, versioned: false, bin: true },
		e(E_SEG_OUT, "Segment<OutputIdentifier>", "segment", false, false),
		e(E_SEG_RP, "Segment<RangeProof>", "segment", false, false),
		e(E_SEG_KERN, "Segment<TxKernel>", "segment", true, false),
		e(E_BITMAPSEG, "BitmapSegment", "bitmap_segment", false, false),
		e(E_SEGPROOF, "SegmentProof", "segment", false, false),
		e(E_PROOF, "Proof", "header", false, false),
		e(E_POW, "ProofOfWork", "header", false, false),
		e(E_KERNEL, "TxKernel", "block_tx", true, false),
		e(E_OUTPUT, "Output", "block_tx", false, false),
		e(E_OUTID, "OutputIdentifier", "block_tx", false, false),
		e(E_RANGEPROOF, "RangeProof", "block_tx", false, false),
		e(E_INPUT, "Input", "block_tx", false, false),
		e(E_KFEATURES, "KernelFeatures", "block_tx", true, false),
		e(E_PEERADDR, "PeerAddr", "msg_body", false, false),
		e(E_SEGID, "SegmentIdentifier", "msg_body", false, false),
	];

	pub fn entry(id: u16) -> Option<&'static EntryDef> {
		ENTRIES.iter().find(|e| e.id == id)
	}

	pub fn entry_by_name(name: &str) -> Option<&'static EntryDef> {
		ENTRIES.iter().find(|e| e.name == name)
	}

	pub fn entry_name(id: u16) -> &'static str {
		entry(id).map(|e| e.name).unwrap_or("?")
	}

	pub const GROUPS: &[&str] = &["msg_body", "block_tx", "header", "segment", "bitmap_segment", "merkle_proof", "framing", "codec"];

	pub const VERSIONS: [u32; 4] = [1, 2, 3, 1000];

	/// entries of one fuzz group, in table order (the fuzz input's first byte selects among them)
	pub fn group_entries(group: &str) -> Vec<&'static EntryDef> {
		ENTRIES.iter().filter(|e| e.group == group).collect()
	}

	/// fuzz input = [selector, version index, flags] ++ data
	pub fn fuzz_split<'a>(group: &str, input: &'a [u8]) -> Option<(u16, u32, u8, &'a [u8])> {
		if input.len() < 3 {
			return None;
		}
		let es = group_entries(group);
		if es.is_empty() {
			return None;
		}
		let e = es[input[0] as usize % es.len()];
		let v = VERSIONS[input[1] as usize % 4];
		let flags = input[2] & (F_MAINNET | F_BIN);
		Some((e.id, v, flags, &input[3..]))
	}

	pub fn fuzz_join(id: u16, version: u32, flags: u8, data: &[u8]) -> Option<(&'static str, Vec<u8>)> {
		let e = entry(id)?;
		let es = group_entries(e.group);
		let sel = es.iter().position(|x| x.id == id)? as u8;
		let vi = VERSIONS.iter().position(|v| *v == version).unwrap_or(0) as u8;
		let mut out = vec![sel, vi, flags & (F_MAINNET | F_BIN)];
		out.extend_from_slice(data);
		Some((e.group, out))
	}

	// ------------------------------------------------------------------ open-finding preconditions (exclusion by construction)

	/// declared path_len of a MerkleProof encoding
	pub fn merkle_declared_len(b: &[u8]) -> Option<u64> {
		if b.len() < 16 {
			return None;
		}
		let mut a = [0u8; 8];
		a.copy_from_slice(&b[8..16]);
		Some(u64::from_be_bytes(a))
	}

	/// The framing layer buffers an announced message body before it arrives
	/// (Codec::read_inner reserves msg_len, msg::read_body / read_discard allocate
	/// msg_len): a header announcing more than this many bytes that are not in
	/// the input is excluded after the finding was recorded.
	pub const FRAME_ANNOUNCE_CAP: u64 = 4 << 20;
	/// ... and no more than the header rule lets through for any message type on any chain type (4 x the
	/// nominal maximum of the largest type: 4 x 2 x 1 348 032 bytes for a mainnet segment response). The
	/// recorded findings are about lengths the header rule ACCEPTS; a header announcing more than this is
	/// refused before anything is allocated, is not excluded, and must stay refused.
	pub const FRAME_ACCEPT_MAX: u64 = 4 * 2 * 1_348_032;

	/// does some message header of the stream announce > FRAME_ANNOUNCE_CAP bytes that the input does not hold
	pub fn frame_overannounce(data: &[u8]) -> bool {
		let mut at = 0usize;
		while at + 11 <= data.len() {
			let mut a = [0u8; 8];
			a.copy_from_slice(&data[at + 3..at + 11]);
			let len = u64::from_be_bytes(a);
			let rest = (data.len() - at - 11) as u64;
			if len > rest {
				return len > FRAME_ANNOUNCE_CAP && len <= FRAME_ACCEPT_MAX;
			}
			at += 11 + len as usize;
		}
		false
	}

	// Exclusion by construction exists only for findings that are listed as OPEN in
	// KNOWN_FINDINGS.json: the parent computes the mask from the list and hands it
	// to workers and fuzz targets (GV_C11_EXCL). A finding that is not listed is
	// generated and checked like any other input, i.e. it is a plain violation.

	/// message body buffered from the announced length (Codec::read / msg::read_message)
	pub const X_FRAME: u32 = 1;
	/// Segment::root starts at a wrapped position when the identifier's leaf offset is >= 2^63
	pub const X_SEGWRAP: u32 = 2;

	pub const SIG_FRAME_CODEC: &str = "overalloc:Codec::read:body-buffered-from-announced-length";
	pub const SIG_FRAME_RM: &str = "overalloc:msg::read_message:body-buffered-from-announced-length";
	pub const SIG_SEGWRAP: &str = "panic:Segment::validate@core/src/core/pmmr/segment.rs:460";

	static EXCL: std::sync::atomic::AtomicU32 = std::sync::atomic::AtomicU32::new(u32::MAX);

	pub fn set_exclusions(mask: u32) {
		EXCL.store(mask, Ordering::SeqCst);
	}

	/// the active exclusions: set explicitly, else GV_C11_EXCL, else the framing findings only
	pub fn exclusions() -> u32 {
		let m = EXCL.load(Ordering::SeqCst);
		if m != u32::MAX {
			return m;
		}
		let m = std::env::var("GV_C11_EXCL").ok().and_then(|s| s.parse::<u32>().ok()).unwrap_or(X_FRAME);
		EXCL.store(m, Ordering::SeqCst);
		m
	}

	/// leaf offset of the identifier as the release build computes it
	pub fn leaf_offset(id: &SegmentIdentifier) -> u64 {
		id.idx.wrapping_mul(1u64.wrapping_shl(id.height as u32))
	}

	/// Some(reason) if this case meets the precondition of an open known finding
	pub fn excluded_by_known(entry: u16, flags: u8, data: &[u8]) -> Option<&'static str> {
		if flags & F_NOEXCL != 0 {
			return None;
		}
		match entry {
			E_CODEC | E_RM_HAND | E_RM_SHAKE if exclusions() & X_FRAME != 0 && frame_overannounce(data) => Some("frame-announces-absent-megabytes"),
			_ => None,
		}
	}

	// ------------------------------------------------------------------ counting / recording reader

	#[derive(Clone, Copy, Debug, PartialEq, Eq, Hash)]
	pub enum FK {
		U8,
		U16,
		U32,
		U64,
		Fixed,
		LenBytes,
	}

	impl FK {
		pub fn name(&self) -> &'static str {
			match self {
				FK::U8 => "u8",
				FK::U16 => "u16",
				FK::U32 => "u32",
				FK::U64 => "u64",
				FK::Fixed => "fixed",
				FK::LenBytes => "lenbytes",
			}
		}
	}

	#[derive(Clone, Copy, Debug)]
	pub struct Field {
		pub off: usize,
		pub len: usize,
		pub kind: FK,
	}

	#[derive(Clone, Debug, Default)]
	pub struct ReadStats {
		/// primitive reads attempted
		pub reads: u64,
		/// successful ones
		pub ok: u64,
		/// successful reads of zero bytes
		pub zero: u64,
		pub consumed: u64,
		/// 0 = unlimited
		pub budget: u64,
		pub budget_hit: bool,
		pub fields: Option<Vec<Field>>,
	}

	pub struct CR<'s, R: Reader> {
		inner: R,
		st: &'s mut ReadStats,
	}

	impl<'s, R: Reader> CR<'s, R> {
		fn pre(&mut self) -> Result<(), ser::Error> {
			self.st.reads += 1;
			if self.st.budget != 0 && self.st.reads > self.st.budget {
				self.st.budget_hit = true;
				return Err(ser::Error::TooLargeReadErr);
			}
			Ok(())
		}
		fn post<T>(&mut self, r: Result<T, ser::Error>, w: impl Fn(&T) -> usize, kind: FK) -> Result<T, ser::Error> {
			if let Ok(v) = &r {
				let w = w(v);
				self.st.ok += 1;
				if w == 0 {
					self.st.zero += 1;
				}
				if let Some(f) = &mut self.st.fields {
					f.push(Field { off: self.st.consumed as usize, len: w, kind });
				}
				self.st.consumed += w as u64;
			}
			r
		}
	}

	impl<'s, R: Reader> Reader for CR<'s, R> {
		fn deserialization_mode(&self) -> DeserializationMode {
			self.inner.deserialization_mode()
		}
		fn read_u8(&mut self) -> Result<u8, ser::Error> {
			self.pre()?;
			let r = self.inner.read_u8();
			self.post(r, |_| 1, FK::U8)
		}
		fn read_u16(&mut self) -> Result<u16, ser::Error> {
			self.pre()?;
			let r = self.inner.read_u16();
			self.post(r, |_| 2, FK::U16)
		}
		fn read_u32(&mut self) -> Result<u32, ser::Error> {
			self.pre()?;
			let r = self.inner.read_u32();
			self.post(r, |_| 4, FK::U32)
		}
		fn read_u64(&mut self) -> Result<u64, ser::Error> {
			self.pre()?;
			let r = self.inner.read_u64();
			self.post(r, |_| 8, FK::U64)
		}
		fn read_i32(&mut self) -> Result<i32, ser::Error> {
			self.pre()?;
			let r = self.inner.read_i32();
			self.post(r, |_| 4, FK::U32)
		}
		fn read_i64(&mut self) -> Result<i64, ser::Error> {
			self.pre()?;
			let r = self.inner.read_i64();
			self.post(r, |_| 8, FK::U64)
		}
		fn read_bytes_len_prefix(&mut self) -> Result<Vec<u8>, ser::Error> {
			self.pre()?;
			let r = self.inner.read_bytes_len_prefix();
			self.post(r, |v| 8 + v.len(), FK::LenBytes)
		}
		fn read_fixed_bytes(&mut self, length: usize) -> Result<Vec<u8>, ser::Error> {
			self.pre()?;
			let r = self.inner.read_fixed_bytes(length);
			self.post(r, |v| v.len(), FK::Fixed)
		}
		fn expect_u8(&mut self, val: u8) -> Result<u8, ser::Error> {
			self.pre()?;
			let r = self.inner.expect_u8(val);
			self.post(r, |_| 1, FK::U8)
		}
		fn protocol_version(&self) -> ProtocolVersion {
			self.inner.protocol_version()
		}
	}

	/// `BufReader::body::<T>()` / `ser::deserialize::<T>` through the counting reader
	pub fn rd<T: Readable>(data: &[u8], version: u32, flags: u8, st: &mut ReadStats) -> Result<T, ser::Error> {
		let mut s: &[u8] = data;
		if flags & F_BIN != 0 {
			let mut r = CR { inner: BinReader::new(&mut s, ProtocolVersion(version), DeserializationMode::default()), st };
			T::read(&mut r)
		} else {
			let mut r = CR { inner: BufReader::new(&mut s, ProtocolVersion(version)), st };
			T::read(&mut r)
		}
	}

	// ------------------------------------------------------------------ outcome

	#[derive(Clone, Debug, Default)]
	pub struct Outcome {
		pub decoded: bool,
		pub err: String,
		pub post_ok: u32,
		pub post_err: u32,
		/// post-decode checks skipped because of a known-finding precondition
		pub excluded: u32,
		/// messages returned by Codec::read
		pub msgs: u32,
		pub calls: u64,
		/// Codec::read kept returning without reaching the end of the input
		pub spin: bool,
		pub harness_err: Option<String>,
		pub st: ReadStats,
	}

	thread_local! {
		static STAGE: Cell<&'static str> = Cell::new("decode");
	}
	static MARK: AtomicBool = AtomicBool::new(false);

	/// let `set_stage` write "S <stage>" marker lines to stderr (worker processes)
	pub fn mark_stages(on: bool) {
		MARK.store(on, Ordering::Relaxed);
	}

	pub fn stage() -> &'static str {
		STAGE.with(|s| s.get())
	}

	pub fn set_stage(s: &'static str) {
		let changed = STAGE.with(|c| {
			let ch = c.get() != s;
			c.set(s);
			ch
		});
		if changed && MARK.load(Ordering::Relaxed) {
			use std::io::Write;
			let _ = writeln!(std::io::stderr(), "S {}", s);
		}
	}

	fn tally(out: &mut Outcome, ok: bool) {
		if ok {
			out.post_ok += 1;
		} else {
			out.post_err += 1;
		}
	}

	pub fn err_name<E: std::fmt::Debug>(e: &E) -> String {
		let s = format!("{:?}", e);
		s.split(|c: char| c == '(' || c == '{' || c == ' ').next().unwrap_or("").to_string()
	}

	// ------------------------------------------------------------------ deterministic synthetic leaves and the MMR universe

	pub fn mix(x: u64) -> u64 {
		let mut z = x.wrapping_add(0x9e3779b97f4a7c15);
		z = (z ^ (z >> 30)).wrapping_mul(0xbf58476d1ce4e5b9);
		z = (z ^ (z >> 27)).wrapping_mul(0x94d049bb133111eb);
		z ^ (z >> 31)
	}

	pub fn fill(seed: u64, n: usize) -> Vec<u8> {
		let mut out = Vec::with_capacity(n + 8);
		let mut s = seed;
		while out.len() < n {
			s = mix(s);
			out.extend_from_slice(&s.to_be_bytes());
		}
		out.truncate(n);
		out
	}

	pub fn mk_hash(seed: u64) -> Hash {
		Hash::from_vec(&fill(seed ^ 0x4a11, 32))
	}

	pub fn mk_commit(seed: u64) -> Commitment {
		let mut b = fill(seed ^ 0xc0, 33);
		b[0] = 0x08 | (b[0] & 1);
		Commitment::from_vec(b)
	}

	pub fn mk_rproof(seed: u64) -> RangeProof {
		let b = fill(seed ^ 0x9f, 675);
		let mut proof = [0u8; 675];
		proof.copy_from_slice(&b);
		RangeProof { proof, plen: 675 }
	}

	pub fn mk_sig(seed: u64) -> Signature {
		let b = fill(seed ^ 0x51, 64);
		let mut a = [0u8; 64];
		a.copy_from_slice(&b);
		Signature::from_raw_data(&a).expect("sig")
	}

	/// kind: 0 plain, 1 coinbase, 2 height locked, 3 NRD
	pub fn mk_kernel(seed: u64, kind: u8) -> TxKernel {
		let x = mix(seed);
		let fee = FeeFields::new((x >> 3) % 16, 1 + (x >> 8) % ((1u64 << 40) - 1)).expect("fee");
		let features = match kind % 4 {
			0 => KernelFeatures::Plain { fee },
			1 => KernelFeatures::Coinbase,
			2 => KernelFeatures::HeightLocked { fee, lock_height: x.rotate_left(17) },
			_ => KernelFeatures::NoRecentDuplicate { fee, relative_height: NRDRelativeHeight::new(1 + (x >> 20) % 10080).expect("nrd") },
		};
		TxKernel { features, excess: mk_commit(seed ^ 0xe7), excess_sig: mk_sig(seed) }
	}

	pub fn mk_outid(seed: u64) -> OutputIdentifier {
		let f = if mix(seed) & 1 == 1 { OutputFeatures::Coinbase } else { OutputFeatures::Plain };
		OutputIdentifier::new(f, &mk_commit(seed ^ 0x0d))
	}

	pub fn mk_output(seed: u64, cb: bool) -> Output {
		Output::new(if cb { OutputFeatures::Coinbase } else { OutputFeatures::Plain }, mk_commit(seed ^ 0x0d), mk_rproof(seed))
	}

	pub fn mk_input(seed: u64, cb: bool) -> Input {
		Input::new(if cb { OutputFeatures::Coinbase } else { OutputFeatures::Plain }, mk_commit(seed ^ 0x1d))
	}

	pub struct Tree<T: PMMRable> {
		pub n: u64,
		pub size: u64,
		pub root: Hash,
		pub backend: VecBackend<T>,
	}

	pub struct BmTree {
		pub chunks: u64,
		pub size: u64,
		pub root: Hash,
		pub acc: BitmapAccumulator,
		/// size of the output MMR the bitmap belongs to (only used as a hash index)
		pub out_size: u64,
	}

	pub struct Uni {
		pub kern: Vec<Tree<TxKernel>>,
		pub outid: Vec<Tree<OutputIdentifier>>,
		pub rproof: Vec<Tree<RangeProof>>,
		pub bitmap: Vec<BmTree>,
		/// the "other root" of validate_with
		pub other: Hash,
	}

	pub const TREE_LEAVES: [u64; 16] = [1, 2, 3, 4, 5, 6, 7, 8, 9, 11, 15, 16, 17, 23, 32, 33];
	pub const BITMAP_CHUNKS: [u64; 9] = [1, 2, 3, 4, 5, 8, 64, 65, 130];

	fn build_tree<T: PMMRable>(n: u64, leaf: impl Fn(u64) -> T) -> Tree<T> {
		let mut backend: VecBackend<T> = VecBackend::new();
		let size = {
			let mut p = PMMR::<T, _>::new(&mut backend);
			for i in 0..n {
				p.push(&leaf(i)).expect("push");
			}
			p.unpruned_size()
		};
		let root = ReadonlyPMMR::<T, _>::at(&backend, size).root().expect("root");
		Tree { n, size, root, backend }
	}

	/// bit k of chunk c of the accumulator with `chunks` chunks
	pub fn bm_bit(chunks: u64, c: u64, k: u64) -> bool {
		let x = mix(chunks * 1_000_003 + c * 1031 + k);
		match (chunks + c) % 3 {
			0 => x % 97 == 0,
			1 => x % 97 != 0,
			_ => x & 1 == 1,
		}
	}

	fn build_bm(chunks: u64) -> BmTree {
		let mut acc = BitmapAccumulator::new();
		for c in 0..chunks {
			let mut ch = BitmapChunk::new();
			for k in 0..1024u64 {
				if bm_bit(chunks, c, k) {
					ch.set(k, true);
				}
			}
			acc.append_chunk(ch).expect("append chunk");
		}
		let size = acc.readonly_pmmr().unpruned_size();
		let root = acc.root();
		BmTree { chunks, size, root, acc, out_size: pmmr::insertion_to_pmmr_index(chunks * 1024 - 3) }
	}

	pub fn uni() -> &'static Uni {
		static U: OnceLock<Uni> = OnceLock::new();
		U.get_or_init(|| Uni {
			kern: TREE_LEAVES.iter().map(|&n| build_tree(n, |i| mk_kernel(n * 1000 + i, (i % 4) as u8))).collect(),
			outid: TREE_LEAVES.iter().map(|&n| build_tree(n, |i| mk_outid(n * 1000 + i))).collect(),
			rproof: TREE_LEAVES.iter().map(|&n| build_tree(n, |i| mk_rproof(n * 1000 + i))).collect(),
			bitmap: BITMAP_CHUNKS.iter().map(|&c| build_bm(c)).collect(),
			other: mk_hash(77),
		})
	}

	/// leaf-index bitmaps a prunable MMR with n leaves is validated with
	pub fn bitmaps(n: u64) -> Vec<Bitmap> {
		let mut all = Bitmap::new();
		let mut alt = Bitmap::new();
		let mut rnd = Bitmap::new();
		for i in 0..n {
			all.add(i as u32);
			if (i / 2) % 2 == 0 {
				alt.add(i as u32);
			}
			if mix(n * 131 + i) % 3 == 0 {
				rnd.add(i as u32);
			}
		}
		vec![all, Bitmap::new(), alt, rnd]
	}

	pub fn combined_root(root: Hash, other: Hash, other_is_left: bool, hash_last_pos: u64) -> Hash {
		if other_is_left {
			(other, root).hash_with_index(hash_last_pos)
		} else {
			(root, other).hash_with_index(hash_last_pos)
		}
	}

	/// does the identifier address at least one leaf of an MMR with n leaves
	/// (computed as the release build computes it: wrapping shift and multiplication)
	pub fn segment_exists(id: &SegmentIdentifier, n_leaves: u64) -> bool {
		let cap = 1u64.wrapping_shl(id.height as u32);
		let off = id.idx.wrapping_mul(cap);
		n_leaves > off
	}

	// ------------------------------------------------------------------ post-decode stateless checks

	fn post_tx(tx: Transaction, out: &mut Outcome) {
		set_stage("Transaction::validate_read");
		tally(out, tx.validate_read().is_ok());
		set_stage("TransactionBody::validate_read");
		for w in [Weighting::AsTransaction, Weighting::AsBlock, Weighting::AsLimitedTransaction(100), Weighting::NoLimit] {
			tally(out, tx.body.validate_read(w).is_ok());
		}
	}

	fn post_body(b: TransactionBody, out: &mut Outcome) {
		set_stage("TransactionBody::validate_read");
		for w in [Weighting::AsTransaction, Weighting::AsBlock, Weighting::AsLimitedTransaction(100), Weighting::NoLimit] {
			tally(out, b.validate_read(w).is_ok());
		}
	}

	fn post_block(b: Block, out: &mut Outcome) {
		set_stage("Block::validate_read");
		tally(out, b.validate_read().is_ok());
	}

	fn post_compact(cb: CompactBlock, out: &mut Outcome) {
		// what the node does with a compact block that has no short ids (or an empty pool)
		set_stage("Block::hydrate_from");
		match Block::hydrate_from(cb, &[]) {
			Ok(b) => {
				tally(out, true);
				post_block(b, out);
			}
			Err(_) => tally(out, false),
		}
	}

	fn post_segment<T: PMMRIndexHashable>(seg: &Segment<T>, trees: &[(u64, u64, Hash)], prunable: bool, flags: u8, out: &mut Outcome) {
		let other = uni().other;
		if exclusions() & X_SEGWRAP != 0 && flags & F_NOEXCL == 0 && leaf_offset(&seg.identifier()) >= 1 << 63 {
			out.excluded += 1;
			return;
		}
		for &(n, size, root) in trees {
			set_stage("Segment::validate");
			tally(out, seg.validate(size, None, root).is_ok());
			set_stage("Segment::validate_with");
			tally(out, seg.validate_with(size, None, combined_root(root, other, false, size), size, other, false).is_ok());
			if prunable {
				for bm in bitmaps(n) {
					set_stage("Segment::validate");
					tally(out, seg.validate(size, Some(&bm), root).is_ok());
					set_stage("Segment::validate_with");
					tally(out, seg.validate_with(size, Some(&bm), combined_root(root, other, false, size), size, other, false).is_ok());
				}
			}
		}
	}

	fn trees_of<T: PMMRable>(t: &[Tree<T>]) -> Vec<(u64, u64, Hash)> {
		t.iter().map(|t| (t.n, t.size, t.root)).collect()
	}

	fn post_bitmap(bs: BitmapSegment, _flags: u8, out: &mut Outcome) {
		// what Protocol::consume does with a received bitmap segment
		set_stage("BitmapSegment::into_segment");
		let seg = match bs.into_segment() {
			Ok(s) => {
				tally(out, true);
				s
			}
			Err(_) => {
				tally(out, false);
				return;
			}
		};
		let u = uni();
		for bt in &u.bitmap {
			// Desegmenter::add_bitmap_segment
			set_stage("Segment::validate_with");
			let root = combined_root(bt.root, u.other, true, bt.out_size);
			tally(out, seg.validate_with(bt.size, None, root, bt.out_size, u.other, true).is_ok());
		}
	}

	fn post_segproof(p: SegmentProof, out: &mut Outcome) {
		// parameters as Segment::validate derives them from an identifier and an MMR size
		let u = uni();
		set_stage("SegmentProof::validate");
		for t in &u.kern {
			for h in 0..4u8 {
				let count = SegmentIdentifier::count_segments_required(t.size, h) as u64;
				for idx in 0..count.min(4) {
					let id = SegmentIdentifier { height: h, idx };
					let (first, last) = id.segment_pos_range(t.size);
					tally(out, p.validate(t.size, t.root, first, last, u.other, last + 1).is_ok());
					tally(out, p.validate_with(t.size, t.root, first, last, u.other, last + 1, t.size, u.other, false).is_ok());
				}
			}
		}
	}

	fn post_merkle(p: MerkleProof, out: &mut Outcome) {
		// a path of an MMR with fewer than 2^64 nodes has at most 64 + 64 entries
		if p.path.len() > 128 {
			return;
		}
		set_stage("MerkleProof::verify");
		let elem = mk_kernel(5, 0);
		let root = uni().other;
		for pos in [0u64, 1, 3, p.mmr_size.saturating_sub(1), p.mmr_size] {
			tally(out, p.verify(root, &elem, pos).is_ok());
		}
		// against the MMR of that size, for each of its leaves (an honest proof verifies for its own leaf)
		for t in uni().kern.iter().filter(|t| t.size == p.mmr_size) {
			for i in 0..t.n {
				let pos = pmmr::insertion_to_pmmr_index(i);
				tally(out, p.verify(t.root, &mk_kernel(t.n * 1000 + i, (i % 4) as u8), pos).is_ok());
			}
		}
	}

	/// Measured, not asserted (the statement bounds work by the input only for
	/// decoders): a 33-byte output segment {height 63, idx 0, no hashes, no leaves,
	/// empty proof} validated with an empty leaf bitmap makes Segment::root visit
	/// every position of the MMR. Returns (microseconds, validate answered Err).
	pub fn validate_walk_probe(n_leaves: u64) -> (u64, bool) {
		let mut b = vec![63u8];
		b.extend_from_slice(&[0u8; 32]);
		let mut st = ReadStats::default();
		let seg: Segment<OutputIdentifier> = match rd(&b, 1, 0, &mut st) {
			Ok(s) => s,
			Err(_) => return (0, true),
		};
		let size = pmmr::insertion_to_pmmr_index(n_leaves);
		let bm = Bitmap::new();
		let t0 = std::time::Instant::now();
		let r = seg.validate(size, Some(&bm), uni().other);
		(t0.elapsed().as_micros() as u64, r.is_err())
	}

	// ------------------------------------------------------------------ framed entry points

	fn rm_case<T: Readable>(version: u32, data: &[u8], ty: Type, out: &mut Outcome) {
		let mut s: &[u8] = data;
		let r = read_message::<T, _>(&mut s, ProtocolVersion(version), ty);
		let used = data.len() - s.len();
		out.st.consumed = used as u64;
		out.st.reads = 1;
		if used >= 11 {
			out.st.ok = 1;
		}
		match r {
			Ok(_) => out.decoded = true,
			Err(e) => out.err = err_name(&e),
		}
	}

	fn codec_case(version: u32, data: &[u8], out: &mut Outcome) {
		use grin_p2p::verif_export::Codec;
		use std::io::Write;
		use std::net::{Shutdown, TcpListener, TcpStream};
		thread_local! {
			static LISTENER: std::cell::RefCell<Option<TcpListener>> = std::cell::RefCell::new(None);
		}
		let pair = LISTENER.with(|l| -> std::io::Result<(TcpStream, TcpStream)> {
			let mut l = l.borrow_mut();
			if l.is_none() {
				*l = Some(TcpListener::bind("127.0.0.1:0")?);
			}
			let lst = l.as_ref().unwrap();
			let client = TcpStream::connect(lst.local_addr()?)?;
			let (server, _) = lst.accept()?;
			Ok((client, server))
		});
		let (client, server) = match pair {
			Ok(p) => p,
			Err(e) => {
				out.harness_err = Some(format!("loopback socket: {}", e));
				return;
			}
		};
		let payload = data.to_vec();
		let writer = std::thread::spawn(move || {
			let mut c = client;
			let _ = c.write_all(&payload);
			let _ = c.shutdown(Shutdown::Write);
			c
		});
		let mut codec = Codec::new(ProtocolVersion(version), server);
		let max_calls = data.len() as u64 + 16;
		loop {
			let (r, n) = codec.read();
			out.calls += 1;
			out.st.consumed += n;
			match r {
				Ok(_) => {
					out.msgs += 1;
					out.decoded = true;
				}
				Err(e) => {
					out.err = err_name(&e);
					break;
				}
			}
			if out.calls > max_calls {
				out.spin = true;
				break;
			}
		}
		out.st.reads = out.calls;
		out.st.ok = out.msgs as u64 + if out.st.consumed >= 11 { 1 } else { 0 };
		drop(codec);
		let _ = writer.join();
	}

	// ------------------------------------------------------------------ dispatch

	pub fn set_chain(flags: u8) {
		global::set_local_chain_type(if flags & F_MAINNET != 0 { ChainTypes::Mainnet } else { ChainTypes::AutomatedTesting });
	}

	/// Decode `data` at entry point `entry` and run the stateless post-decode
	/// checks on the value. Panics propagate to the caller.
	pub fn decode_case(entry: u16, version: u32, flags: u8, data: &[u8], out: &mut Outcome) {
		set_chain(flags);
		set_stage("decode");
		macro_rules! body {
			($T:ty) => {
				body!($T, |_x: $T, _o: &mut Outcome| {})
			};
			($T:ty, $post:expr) => {{
				match rd::<$T>(data, version, flags, &mut out.st) {
					Ok(x) => {
						out.decoded = true;
						let f: &dyn Fn($T, &mut Outcome) = &$post;
						f(x, out);
					}
					Err(e) => out.err = err_name(&e),
				}
			}};
		}
		let u = uni();
		match entry {
			E_PING => body!(Ping),
			E_PONG => body!(Pong),
			E_BAN => body!(BanReason),
			E_HASH => body!(Hash),
			E_TX => body!(Transaction, post_tx),
			E_UBLOCK => body!(UntrustedBlock, |b: UntrustedBlock, o: &mut Outcome| post_block(b.into(), o)),
			E_UCOMPACT => body!(UntrustedCompactBlock, |b: UntrustedCompactBlock, o: &mut Outcome| post_compact(b.into(), o)),
			E_LOCATOR => body!(Locator),
			E_UHEADER => body!(UntrustedBlockHeader),
			E_GETPEERS => body!(GetPeerAddrs),
			E_PEERADDRS => body!(PeerAddrs),
			E_TXHSREQ => body!(TxHashSetRequest),
			E_TXHSARCH => body!(TxHashSetArchive),
			E_SEGREQ => body!(SegmentRequest),
			E_BITMAPRESP => body!(OutputBitmapSegmentResponse, |r: OutputBitmapSegmentResponse, o: &mut Outcome| post_bitmap(r.segment, flags, o)),
			E_OUTRESP => body!(OutputSegmentResponse, |r: OutputSegmentResponse, o: &mut Outcome| post_segment(
				&r.response.segment,
				&trees_of(&u.outid),
				true,
				flags,
				o
			)),
			E_RPRESP => {
				body!(SegmentResponse<RangeProof>, |r: SegmentResponse<RangeProof>, o: &mut Outcome| post_segment(&r.segment, &trees_of(&u.rproof), true, flags, o))
			}
			E_KERNRESP => {
				body!(SegmentResponse<TxKernel>, |r: SegmentResponse<TxKernel>, o: &mut Outcome| post_segment(&r.segment, &trees_of(&u.kern), false, flags, o))
			}
			E_HAND => body!(Hand),
			E_SHAKE => body!(Shake),
			E_PEERERR => body!(PeerError),
			E_HEADER => body!(BlockHeader),
			E_BLOCK => body!(Block, post_block),
			E_COMPACT => body!(CompactBlock, post_compact),
			E_BODY => body!(TransactionBody, post_body),
			E_MSGHDR => body!(MsgHeaderWrapper),
			E_RM_HAND => rm_case::<Hand>(version, data, Type::Hand, out),
			E_RM_SHAKE => rm_case::<Shake>(version, data, Type::Shake, out),
			E_CODEC => codec_case(version, data, out),
			E_MERKLE => body!(MerkleProof, post_merkle),
			E_MERKLE_HEX => match std::str::from_utf8(data) {
				Ok(s) => {
					set_stage("MerkleProof::from_hex");
					out.st.reads = 1;
					match MerkleProof::from_hex(s) {
						Ok(p) => {
							out.decoded = true;
							out.st.ok = 1;
							post_merkle(p, out);
						}
						Err(_) => out.err = "from_hex-err".into(),
					}
				}
				Err(_) => out.harness_err = Some("text entry fed with invalid UTF-8".into()),
			},
			E_UTIL_HEX => match std::str::from_utf8(data) {
				Ok(s) => {
					set_stage("util::from_hex");
					out.st.reads = 1;
					match grin_util::from_hex(s) {
						Ok(b) => {
							out.decoded = true;
							if !b.is_empty() {
								out.st.ok = 1;
							}
						}
						Err(_) => out.err = "from_hex-err".into(),
					}
				}
				Err(_) => out.harness_err = Some("text entry fed with invalid UTF-8".into()),
			},
			E_SEG_OUT => body!(Segment<OutputIdentifier>, |s: Segment<OutputIdentifier>, o: &mut Outcome| post_segment(&s, &trees_of(&u.outid), true, flags, o)),
			E_SEG_RP => body!(Segment<RangeProof>, |s: Segment<RangeProof>, o: &mut Outcome| post_segment(&s, &trees_of(&u.rproof), true, flags, o)),
			E_SEG_KERN => body!(Segment<TxKernel>, |s: Segment<TxKernel>, o: &mut Outcome| post_segment(&s, &trees_of(&u.kern), false, flags, o)),
			E_BITMAPSEG => body!(BitmapSegment, |s: BitmapSegment, o: &mut Outcome| post_bitmap(s, flags, o)),
			E_SEGPROOF => body!(SegmentProof, post_segproof),
			E_PROOF => body!(Proof),
			E_POW => body!(ProofOfWork),
			E_KERNEL => body!(TxKernel),
			E_OUTPUT => body!(Output),
			E_OUTID => body!(OutputIdentifier),
			E_RANGEPROOF => body!(RangeProof),
			E_INPUT => body!(Input),
			E_KFEATURES => body!(KernelFeatures),
			E_PEERADDR => body!(PeerAddr),
			E_SEGID => body!(SegmentIdentifier),
			_ => out.harness_err = Some(format!("unknown entry {}", entry)),
		}
		set_stage("done");
	}
}

#[cfg(not(fuzzing))]
pub use hs::{child, part, replay, run};

#[cfg(not(fuzzing))]
#[allow(dead_code)]
mod hs {
	use super::dec::*;
	use crate::engine::*;
	use crate::world::{init_global, init_thread};
	use grin_chain::txhashset::{BitmapChunk, BitmapSegment};
	use grin_core::core::hash::{Hash, Hashed};
	use grin_core::core::id::ShortIdentifiable;
	use grin_core::core::merkle_proof::MerkleProof;
	use grin_core::core::pmmr::{self, ReadablePMMR, ReadonlyPMMR};
	use grin_core::core::{
		Block, BlockHeader, HeaderVersion, Inputs, Output, OutputIdentifier, Segment, SegmentIdentifier, SegmentProof, Transaction,
		TransactionBody, TxKernel,
	};
	use grin_core::pow::{Difficulty, Proof, ProofOfWork};
	use grin_core::ser::{self, PMMRable, ProtocolVersion, Readable, Writeable};
	use grin_keychain::BlindingFactor;
	use grin_p2p::msg::{
		BanReason, GetPeerAddrs, Hand, Headers, Locator, MsgHeader, OutputBitmapSegmentResponse, OutputSegmentResponse, PeerAddrs, PeerError, Ping,
		Pong, SegmentRequest, SegmentResponse, Shake, TxHashSetArchive, TxHashSetRequest, Type,
	};
	use grin_p2p::{Capabilities, PeerAddr, ReasonForBan};
	use grin_util::secp::pedersen::RangeProof;
	use grin_util::ToHex;
	use serde_json::{json, Value};
	use std::collections::{BTreeMap, HashMap};
	use std::io::{BufRead, Read, Write};
	use std::net::{Ipv4Addr, Ipv6Addr, SocketAddr, SocketAddrV4, SocketAddrV6};
	use std::path::{Path, PathBuf};
	use std::process::{Child, ChildStdin, Command, Stdio};
	use std::sync::atomic::{AtomicUsize, Ordering};
	use std::sync::{mpsc, Mutex};
	use std::time::{Duration, Instant};

	// ------------------------------------------------------------------ oracle constants

	/// a single allocation request may not exceed ALLOC_REQ_BASE + 64 x input length
	const ALLOC_REQ_BASE: u64 = 4 << 20;
	/// peak live bytes may not exceed ALLOC_LIVE_BASE + 64 x input length
	const ALLOC_LIVE_BASE: u64 = 16 << 20;
	const ALLOC_PER_BYTE: u64 = 64;
	/// requests above this make the allocator answer null, i.e. the worker aborts quickly
	const ALLOC_HARD_LIMIT: usize = 256 << 20;
	/// address-space cap of a worker (peak-live runaways die instead of thrashing the machine)
	const WORKER_AS_LIMIT: u64 = 6 << 30;
	const CASE_TIMEOUT: Duration = Duration::from_secs(20);
	const ALONE_TIMEOUT: Duration = Duration::from_secs(60);
	const WORKERS: usize = 16;

	/// sensitivity switches (GV_C11_SENS=alloc|reads|hang): deliberately wrong oracle
	/// expectations / a deliberately hanging worker, to show that the check can fail
	fn sens(what: &str) -> bool {
		std::env::var("GV_C11_SENS").map(|v| v == what).unwrap_or(false)
	}
	fn env_secs(name: &str, default: Duration) -> Duration {
		std::env::var(name).ok().and_then(|s| s.parse::<u64>().ok()).map(Duration::from_secs).unwrap_or(default)
	}
	fn case_timeout() -> Duration {
		env_secs("GV_C11_TIMEOUT_S", CASE_TIMEOUT)
	}
	fn alone_timeout() -> Duration {
		env_secs("GV_C11_ALONE_S", ALONE_TIMEOUT)
	}

	fn alloc_req_limit(len: usize) -> u64 {
		if sens("alloc") {
			return 512 + len as u64 / 2;
		}
		ALLOC_REQ_BASE + ALLOC_PER_BYTE * len as u64
	}
	fn alloc_live_limit(len: usize) -> u64 {
		ALLOC_LIVE_BASE + ALLOC_PER_BYTE * len as u64
	}
	/// primitive reads (successful or not) an honest decoder may perform on an input of this length
	fn read_limit(len: usize) -> u64 {
		if sens("reads") {
			return len as u64 / 8;
		}
		2 * len as u64 + 64
	}

	// ------------------------------------------------------------------ small helpers

	#[derive(Clone)]
	pub struct Rng(u64);

	impl Rng {
		pub fn new(seed: u64) -> Rng {
			Rng(mix(seed ^ 0xc11c11))
		}
		pub fn next(&mut self) -> u64 {
			self.0 = self.0.wrapping_add(0x9e3779b97f4a7c15);
			mix(self.0)
		}
		pub fn below(&mut self, n: u64) -> u64 {
			if n == 0 {
				0
			} else {
				self.next() % n
			}
		}
		pub fn bytes(&mut self, n: usize) -> Vec<u8> {
			let mut v = Vec::with_capacity(n + 8);
			while v.len() < n {
				v.extend_from_slice(&self.next().to_be_bytes());
			}
			v.truncate(n);
			v
		}
		pub fn pick<'a, T>(&mut self, v: &'a [T]) -> &'a T {
			&v[self.below(v.len() as u64) as usize]
		}
	}

	fn hex(b: &[u8]) -> String {
		b.to_vec().to_hex()
	}

	fn enc<T: Writeable>(x: &T, v: u32) -> Option<Vec<u8>> {
		ser::ser_vec(x, ProtocolVersion(v)).ok()
	}

	fn rel_path(loc: &str) -> String {
		// "/repo/core/src/x.rs:12" -> "core/src/x.rs:12"; std locations -> "std:<file>"
		if let Some(r) = loc.strip_prefix("/repo/") {
			return r.to_string();
		}
		// the repository checked out elsewhere (background runs against a snapshot of /repo)
		for c in ["core", "chain", "store", "pool", "p2p", "keychain", "util"].iter() {
			if let Some(i) = loc.find(&format!("/{}/src/", c)) {
				if !loc.contains("/registry/") {
					return loc[i + 1..].to_string();
				}
			}
		}
		if loc.starts_with("/rustc/") || loc.contains("/library/") {
			let f = loc.rsplit('/').next().unwrap_or(loc);
			let f = f.split(':').next().unwrap_or(f);
			return format!("std:{}", f);
		}
		if let Some(i) = loc.find("/registry/src/") {
			let rest = &loc[i + "/registry/src/".len()..];
			return rest.splitn(2, '/').nth(1).unwrap_or(rest).to_string();
		}
		loc.to_string()
	}

	// ------------------------------------------------------------------ cases

	#[derive(Clone, Debug)]
	pub struct Case {
		pub entry: u16,
		pub version: u32,
		pub flags: u8,
		pub data: Vec<u8>,
		/// mutation kind
		pub kind: &'static str,
		/// field class the mutation touched
		pub fclass: String,
		/// label of the honest object the case derives from
		pub origin: String,
		/// Some(name) for the directed case of a known finding
		pub directed: Option<&'static str>,
	}

	impl Case {
		fn text(&self) -> bool {
			entry(self.entry).map(|e| e.text).unwrap_or(false)
		}
		pub fn to_json(&self) -> Value {
			let mut v = json!({
				"entry": entry_name(self.entry),
				"version": self.version,
				"flags": self.flags,
				"mutation": self.kind,
				"field": self.fclass,
				"origin": self.origin,
				"len": self.data.len(),
			});
			if self.text() {
				v["text"] = json!(String::from_utf8_lossy(&self.data).to_string());
			}
			v["hex"] = json!(hex(&self.data));
			if let Some(d) = self.directed {
				v["directed"] = json!(d);
			}
			v
		}
		pub fn from_json(v: &Value) -> Result<Case, Fail> {
			let name = v["entry"].as_str().unwrap_or("");
			let e = entry_by_name(name).ok_or_else(|| Fail::new("harness:replay-entry", format!("unknown entry {:?}", name)))?;
			let data = match v["hex"].as_str() {
				Some(h) => grin_util::from_hex(h).map_err(|e| Fail::new("harness:replay-hex", e))?,
				None => v["text"].as_str().unwrap_or("").as_bytes().to_vec(),
			};
			Ok(Case {
				entry: e.id,
				version: v["version"].as_u64().unwrap_or(1) as u32,
				flags: v["flags"].as_u64().unwrap_or(0) as u8,
				data,
				kind: "replay",
				fclass: String::new(),
				origin: v["origin"].as_str().unwrap_or("").to_string(),
				directed: None,
			})
		}
	}

	// ------------------------------------------------------------------ worker process: `gv child x C11 worker`

	fn read_exact_or_eof(r: &mut impl Read, buf: &mut [u8]) -> std::io::Result<bool> {
		let mut got = 0;
		while got < buf.len() {
			let n = r.read(&mut buf[got..])?;
			if n == 0 {
				return Ok(false);
			}
			got += n;
		}
		Ok(true)
	}

	fn run_in_worker(entry: u16, version: u32, flags: u8, data: &[u8]) -> Value {
		let mut out = Outcome::default();
		out.st.budget = 4 * data.len() as u64 + 4096;
		if sens("hang") && entry == E_PING && data == b"HANG" {
			loop {
				std::thread::sleep(Duration::from_secs(1));
			}
		}
		let t0 = Instant::now();
		alloc::start(ALLOC_HARD_LIMIT);
		let r = catch(|| decode_case(entry, version, flags, data, &mut out));
		let (largest, peak) = alloc::stop();
		let us = t0.elapsed().as_micros() as u64;
		let stage_at_end = stage();
		let (status, loc, msg) = match &r {
			Ok(()) => (if out.decoded { "ok" } else { "err" }, String::new(), String::new()),
			Err(f) => ("panic", f.sig.trim_start_matches("panic@").to_string(), truncate(&f.msg, 300)),
		};
		json!({
			"s": status, "e": out.err, "loc": loc, "msg": msg, "stage": stage_at_end,
			"lg": largest, "pk": peak, "r": out.st.reads, "ok": out.st.ok, "z": out.st.zero, "bh": out.st.budget_hit,
			"po": out.post_ok, "pe": out.post_err, "ex": out.excluded, "msgs": out.msgs, "calls": out.calls, "spin": out.spin,
			"he": out.harness_err, "us": us,
		})
	}

	fn worker_main() -> i32 {
		init_global();
		unsafe {
			let lim = libc::rlimit { rlim_cur: WORKER_AS_LIMIT, rlim_max: WORKER_AS_LIMIT };
			libc::setrlimit(libc::RLIMIT_AS, &lim);
		}
		let _ = uni();
		mark_stages(true);
		let stdin = std::io::stdin();
		let mut inp = stdin.lock();
		let stdout = std::io::stdout();
		let mut outp = stdout.lock();
		loop {
			let mut head = [0u8; 11];
			match read_exact_or_eof(&mut inp, &mut head) {
				Ok(true) => {}
				_ => return 0,
			}
			let len = u32::from_be_bytes([head[0], head[1], head[2], head[3]]) as usize;
			let entry = u16::from_be_bytes([head[4], head[5]]);
			let version = u32::from_be_bytes([head[6], head[7], head[8], head[9]]);
			let flags = head[10];
			let mut data = vec![0u8; len];
			if !matches!(read_exact_or_eof(&mut inp, &mut data), Ok(true)) {
				return 0;
			}
			let _ = writeln!(std::io::stderr(), "C {} {}", entry, len);
			let v = run_in_worker(entry, version, flags, &data);
			if writeln!(outp, "{}", v).is_err() || outp.flush().is_err() {
				return 0;
			}
		}
	}

	/// `gv child x C11 <args...>`
	pub fn child(args: &[String]) -> i32 {
		match args.first().map(|s| s.as_str()) {
			Some("worker") => worker_main(),
			Some("gen-corpus") => match args.get(1) {
				Some(dir) => gen_corpus_main(Path::new(dir)),
				None => 2,
			},
			_ => 2,
		}
	}

	// ------------------------------------------------------------------ parent side of a worker

	pub struct Worker {
		child: Child,
		stdin: Option<ChildStdin>,
		rx: mpsc::Receiver<String>,
		errfile: PathBuf,
	}

	pub enum Res {
		Line(Value),
		Died { signal: Option<i32>, code: Option<i32>, stderr: String },
		Timeout,
	}

	static WORKER_SEQ: AtomicUsize = AtomicUsize::new(0);

	impl Worker {
		pub fn spawn(dir: &Path) -> HResult<Worker> {
			let n = WORKER_SEQ.fetch_add(1, Ordering::SeqCst);
			let errfile = dir.join(format!("worker-{}.err", n));
			let ef = std::fs::File::create(&errfile)?;
			let mut child = Command::new(std::env::current_exe()?)
				.args(["child", "x", "C11", "worker"])
				.env("RUST_BACKTRACE", "0")
				.env("GV_C11_EXCL", exclusions().to_string())
				.stdin(Stdio::piped())
				.stdout(Stdio::piped())
				.stderr(Stdio::from(ef))
				.spawn()?;
			let stdin = child.stdin.take();
			let stdout = child.stdout.take().ok_or_else(|| HarnessError("no stdout".into()))?;
			let (tx, rx) = mpsc::channel();
			std::thread::spawn(move || {
				let mut r = std::io::BufReader::new(stdout);
				loop {
					let mut line = String::new();
					match r.read_line(&mut line) {
						Ok(0) | Err(_) => break,
						Ok(_) => {
							if tx.send(line).is_err() {
								break;
							}
						}
					}
				}
			});
			Ok(Worker { child, stdin, rx, errfile })
		}

		fn stderr_tail(&self) -> String {
			let s = std::fs::read(&self.errfile).unwrap_or_default();
			let from = s.len().saturating_sub(6000);
			String::from_utf8_lossy(&s[from..]).to_string()
		}

		fn died(&mut self) -> Res {
			use std::os::unix::process::ExitStatusExt;
			self.stdin = None;
			let st = self.child.wait().ok();
			Res::Died { signal: st.and_then(|s| s.signal()), code: st.and_then(|s| s.code()), stderr: self.stderr_tail() }
		}

		pub fn run(&mut self, c: &Case, timeout: Duration) -> Res {
			let mut frame = Vec::with_capacity(c.data.len() + 11);
			frame.extend_from_slice(&(c.data.len() as u32).to_be_bytes());
			frame.extend_from_slice(&c.entry.to_be_bytes());
			frame.extend_from_slice(&c.version.to_be_bytes());
			frame.push(c.flags);
			frame.extend_from_slice(&c.data);
			let wrote = match self.stdin.as_mut() {
				Some(s) => s.write_all(&frame).and_then(|_| s.flush()).is_ok(),
				None => false,
			};
			if !wrote {
				return self.died();
			}
			match self.rx.recv_timeout(timeout) {
				Ok(line) => match serde_json::from_str::<Value>(&line) {
					Ok(v) => Res::Line(v),
					Err(_) => Res::Line(json!({"s": "err", "he": format!("unparsable worker line {:?}", truncate(&line, 100))})),
				},
				Err(mpsc::RecvTimeoutError::Disconnected) => self.died(),
				Err(mpsc::RecvTimeoutError::Timeout) => {
					let _ = self.child.kill();
					let _ = self.child.wait();
					self.stdin = None;
					Res::Timeout
				}
			}
		}

		pub fn alive(&self) -> bool {
			self.stdin.is_some()
		}
	}

	impl Drop for Worker {
		fn drop(&mut self) {
			self.stdin = None;
			let _ = self.child.kill();
			let _ = self.child.wait();
		}
	}

	// ------------------------------------------------------------------ oracle on one result

	/// label used in signatures for a panic location
	fn panic_label(loc: &str, stage: &str) -> String {
		let file = loc.rsplitn(2, ':').nth(1).unwrap_or(loc);
		match file {
			"core/src/core/pmmr/segment.rs" if stage.starts_with("BitmapSegment") => stage.to_string(),
			"core/src/core/pmmr/segment.rs" => "Segment::validate".into(),
			"util/src/hex.rs" => "util::from_hex".into(),
			"core/src/core/merkle_proof.rs" => "MerkleProof::from_hex".into(),
			_ => stage.to_string(),
		}
	}

	const SIG_MERKLE_ALLOC: &str = "abort:MerkleProof::read:capacity-overflow-or-oom";

	fn last_stage(stderr: &str) -> Option<String> {
		let mut st = None;
		for l in stderr.lines() {
			if let Some(s) = l.strip_prefix("S ") {
				st = Some(s.trim().to_string());
			} else if l.starts_with("C ") {
				st = None;
			}
		}
		st
	}

	fn merkle_entry(c: &Case) -> bool {
		c.entry == E_MERKLE || c.entry == E_MERKLE_HEX
	}

	/// None = the case passes; Some(fail) = violation of C11
	pub fn judge(c: &Case, res: &Res) -> Option<Fail> {
		let name = entry_name(c.entry);
		let len = c.data.len();
		match res {
			Res::Timeout => Some(Fail::new(format!("hang:{}", name), format!("{}: no answer within the time limit on an input of {} bytes", name, len))),
			Res::Died { signal, code, stderr } => {
				let stage = last_stage(stderr).filter(|s| s != "decode" && s != "done").unwrap_or_else(|| name.to_string());
				let alloc_fail = stderr.contains("memory allocation of");
				let what = stderr
					.lines()
					.rev()
					.find(|l| l.contains("memory allocation of") || l.contains("panicked") || l.contains("overflowed its stack"))
					.or_else(|| stderr.lines().rev().find(|l| !l.starts_with("S ") && !l.starts_with("C ") && !l.trim().is_empty()))
					.unwrap_or("")
					.to_string();
				let kind = if alloc_fail {
					"capacity-overflow-or-oom".to_string()
				} else if stderr.contains("overflowed its stack") {
					"stack-overflow".to_string()
				} else {
					match (signal, code) {
						(Some(s), _) => format!("signal-{}", s),
						(None, Some(c)) => format!("exit-{}", c),
						_ => "died".to_string(),
					}
				};
				let sig = if merkle_entry(c) && alloc_fail { SIG_MERKLE_ALLOC.to_string() } else { format!("abort:{}:{}", stage, kind) };
				Some(Fail::new(
					sig,
					format!("{}: the decoding process died (signal {:?}, exit code {:?}) on an input of {} bytes; last words: {}", name, signal, code, len, truncate(&what, 200)),
				))
			}
			Res::Line(v) => {
				if !v["he"].is_null() {
					return None;
				}
				let stage = v["stage"].as_str().unwrap_or("decode");
				if v["s"] == "panic" {
					let loc = rel_path(v["loc"].as_str().unwrap_or("?"));
					let msg = v["msg"].as_str().unwrap_or("");
					if merkle_entry(c) && msg.contains("capacity overflow") {
						return Some(Fail::new(SIG_MERKLE_ALLOC, format!("{}: {} (input of {} bytes)", name, msg, len)));
					}
					let st = if stage == "decode" { format!("{}::read", name) } else { stage.to_string() };
					let label = panic_label(&loc, &st);
					return Some(Fail::new(format!("panic:{}@{}", label, loc), format!("{} (stage {}): {} on an input of {} bytes", name, stage, msg, len)));
				}
				let (lg, pk) = (v["lg"].as_u64().unwrap_or(0), v["pk"].as_u64().unwrap_or(0));
				if lg > alloc_req_limit(len) || pk > alloc_live_limit(len) {
					let st = if stage == "decode" || stage == "done" { name.to_string() } else { stage.to_string() };
					let sig = if merkle_entry(c) {
						SIG_MERKLE_ALLOC.to_string()
					} else if c.entry == E_CODEC && frame_overannounce(&c.data) {
						SIG_FRAME_CODEC.to_string()
					} else if (c.entry == E_RM_HAND || c.entry == E_RM_SHAKE) && frame_overannounce(&c.data) {
						SIG_FRAME_RM.to_string()
					} else {
						format!("overalloc:{}", st)
					};
					return Some(Fail::new(
						sig,
						format!(
							"{}: input of {} bytes made the decoder request {} bytes at once (limit {}) / hold {} bytes live (limit {})",
							name,
							len,
							lg,
							alloc_req_limit(len),
							pk,
							alloc_live_limit(len)
						),
					));
				}
				if v["spin"] == true {
					return Some(Fail::new(format!("spin:{}", name), format!("{}: {} calls on {} bytes without reaching an error or the end", name, v["calls"], len)));
				}
				let reads = v["r"].as_u64().unwrap_or(0);
				if v["bh"] == true || (c.entry != E_CODEC && reads > read_limit(len)) {
					return Some(Fail::new(
						format!("reads-unbounded:{}", name),
						format!("{}: {} primitive reads on an input of {} bytes (limit {})", name, reads, len, read_limit(len)),
					));
				}
				None
			}
		}
	}

	// ------------------------------------------------------------------ honest values (generators)

	fn g_header(r: &mut Rng, mainnet: bool) -> BlockHeader {
		let n = if mainnet { 42 } else { 8 };
		let eb: u8 = if mainnet { 29 + r.below(4) as u8 } else { 10 + r.below(22) as u8 };
		let mask = (1u64 << eb) - 1;
		let mut nonces: Vec<u64> = (0..n).map(|_| r.next() & mask).collect();
		nonces.sort();
		BlockHeader {
			version: HeaderVersion(1 + r.below(5) as u16),
			height: r.below(2_000_000),
			prev_hash: mk_hash(r.next()),
			prev_root: mk_hash(r.next()),
			timestamp: chrono::DateTime::<chrono::Utc>::from_timestamp(1_600_000_000 + r.below(1_000_000) as i64, 0).expect("ts"),
			output_root: mk_hash(r.next()),
			range_proof_root: mk_hash(r.next()),
			kernel_root: mk_hash(r.next()),
			total_kernel_offset: BlindingFactor::from_slice(&r.bytes(32)),
			output_mmr_size: pmmr::insertion_to_pmmr_index(1 + r.below(100_000)),
			kernel_mmr_size: pmmr::insertion_to_pmmr_index(1 + r.below(100_000)),
			pow: ProofOfWork {
				total_difficulty: Difficulty::from_num(1 + r.below(1 << 40)),
				secondary_scaling: r.next() as u32,
				nonce: r.next(),
				proof: Proof { edge_bits: eb, nonces },
			},
		}
	}

	fn g_parts(r: &mut Rng, ni: usize, no: usize, nk: usize, block: bool) -> (Inputs, Vec<Output>, Vec<TxKernel>) {
		let ins: Vec<_> = (0..ni).map(|_| mk_input(r.next(), r.below(4) == 0)).collect();
		let outs: Vec<_> = (0..no).map(|i| mk_output(r.next(), block && i == 0)).collect();
		let kinds: [u8; 3] = [0, 2, 3];
		let kerns: Vec<_> = (0..nk).map(|i| if block && i == 0 { mk_kernel(r.next(), 1) } else { mk_kernel(r.next(), kinds[r.below(3) as usize]) }).collect();
		(Inputs::from(ins.as_slice()), outs, kerns)
	}

	fn g_tx(r: &mut Rng, ni: usize, no: usize, nk: usize) -> Transaction {
		let (i, o, k) = g_parts(r, ni, no, nk, false);
		Transaction::new(i, &o, &k).with_offset(BlindingFactor::from_slice(&r.bytes(32)))
	}

	fn g_body(r: &mut Rng, ni: usize, no: usize, nk: usize) -> TransactionBody {
		let (i, o, k) = g_parts(r, ni, no, nk, true);
		TransactionBody::init(i, &o, &k, false).expect("body")
	}

	/// the documented compact block layout: header, nonce, three counts, sorted lists
	fn compact_bytes(h: &BlockHeader, nonce: u64, outs: &[Output], kerns: &[TxKernel], others: &[TxKernel], v: u32) -> Option<Vec<u8>> {
		let mut outs = outs.to_vec();
		let mut kerns = kerns.to_vec();
		outs.sort();
		kerns.sort();
		let hh = h.hash();
		let mut ids: Vec<_> = others.iter().map(|k| k.short_id(&hh, nonce)).collect();
		ids.sort();
		ids.dedup();
		let mut b = enc(h, v)?;
		b.extend_from_slice(&nonce.to_be_bytes());
		b.extend_from_slice(&(outs.len() as u64).to_be_bytes());
		b.extend_from_slice(&(kerns.len() as u64).to_be_bytes());
		b.extend_from_slice(&(ids.len() as u64).to_be_bytes());
		for o in &outs {
			b.extend_from_slice(&enc(o, v)?);
		}
		for k in &kerns {
			b.extend_from_slice(&enc(k, v)?);
		}
		for i in &ids {
			b.extend_from_slice(i.as_ref());
		}
		Some(b)
	}

	fn compact_of_block(b: &Block, nonce: u64, v: u32) -> Option<Vec<u8>> {
		let outs: Vec<Output> = b.body.outputs.iter().filter(|o| o.is_coinbase()).cloned().collect();
		let kerns: Vec<TxKernel> = b.body.kernels.iter().filter(|k| k.is_coinbase()).cloned().collect();
		let others: Vec<TxKernel> = b.body.kernels.iter().filter(|k| !k.is_coinbase()).cloned().collect();
		compact_bytes(&b.header, nonce, &outs, &kerns, &others, v)
	}

	fn g_addr(r: &mut Rng, v6: bool) -> PeerAddr {
		if v6 {
			let s: Vec<u16> = (0..8).map(|_| r.next() as u16).collect();
			PeerAddr(SocketAddr::V6(SocketAddrV6::new(Ipv6Addr::new(0x2001, s[1], s[2], s[3], s[4], s[5], s[6], s[7]), r.next() as u16, 0, 0)))
		} else {
			let b = r.bytes(4);
			PeerAddr(SocketAddr::V4(SocketAddrV4::new(Ipv4Addr::new(b[0], b[1], b[2], b[3]), r.next() as u16)))
		}
	}

	fn segproof(r: &mut Rng, n: u64) -> SegmentProof {
		let mut b = n.to_be_bytes().to_vec();
		for _ in 0..n {
			b.extend_from_slice(&r.bytes(32));
		}
		let mut st = ReadStats::default();
		rd::<SegmentProof>(&b, 1, 0, &mut st).expect("segment proof layout")
	}

	fn seg_from_tree<T>(t: &Tree<T>, h: u8, idx: u64, prunable: bool) -> Option<Segment<T>>
	where
		T: PMMRable<E = T> + Readable + Writeable + std::fmt::Debug,
	{
		Segment::from_pmmr(SegmentIdentifier { height: h, idx }, &ReadonlyPMMR::<T, _>::at(&t.backend, t.size), prunable).ok()
	}

	/// drop the data of leaves the bitmap does not ask for (keeping their hashes), as a pruned MMR would serve them
	fn prune_segment<T: PMMRable + Clone>(seg: Segment<T>, t: &Tree<T>, bm: &croaring::Bitmap) -> Segment<T> {
		let (id, hash_pos, hashes, leaf_pos, leaf_data, proof) = seg.parts();
		let mut hs: BTreeMap<u64, Hash> = hash_pos.into_iter().zip(hashes).collect();
		let mut lp = vec![];
		let mut ld = vec![];
		for (p, d) in leaf_pos.into_iter().zip(leaf_data) {
			let i = pmmr::n_leaves(p + 1) - 1;
			let sib = if pmmr::is_left_sibling(p) { i + 1 } else { i.wrapping_sub(1) };
			let needed = bm.contains(i as u32) || bm.contains(sib as u32) || p == t.size - 1;
			if needed {
				lp.push(p);
				ld.push(d);
			} else if let Some(h) = t.backend.hashes.get(p as usize) {
				hs.insert(p, *h);
			}
		}
		let (hp, hh): (Vec<u64>, Vec<Hash>) = hs.into_iter().unzip();
		Segment::from_parts(id, hp, hh, lp, ld, proof)
	}

	fn frame(ty: u8, body: &[u8]) -> Vec<u8> {
		let mut b = enc(&MsgHeader::new(Type::Ping, body.len() as u64), 1).expect("msg header");
		b[2] = ty;
		b.extend_from_slice(body);
		b
	}

	// ------------------------------------------------------------------ seeds: honest encodings with their field layout

	pub struct Seed {
		pub entry: u16,
		pub version: u32,
		pub flags: u8,
		pub data: Vec<u8>,
		pub label: String,
		pub fields: Vec<Field>,
	}

	/// decode an honest encoding in-process with the recording reader
	fn record(entry: u16, version: u32, flags: u8, data: &[u8]) -> (bool, Vec<Field>) {
		let mut out = Outcome::default();
		out.st.fields = Some(vec![]);
		let r = catch(|| decode_case(entry, version, flags, data, &mut out));
		set_chain(0);
		(r.is_ok() && out.decoded, out.st.fields.take().unwrap_or_default())
	}

	pub struct Seeds {
		pub v: Vec<Seed>,
		/// honest seeds that did not decode (generator defects, reported as classes)
		pub undecodable: Vec<String>,
	}

	impl Seeds {
		fn push_raw(&mut self, entry: u16, version: u32, flags: u8, data: Vec<u8>, label: &str, fields: Option<Vec<Field>>) {
			let e = entry_def(entry);
			let flags = flags | if e.bin { F_BIN } else { 0 };
			let fields = match fields {
				Some(f) => f,
				None if e.text => vec![],
				None => {
					let (ok, f) = record(entry, version, flags, &data);
					if !ok {
						self.undecodable.push(format!("{}:{}:v{}", e.name, label, version));
					}
					f
				}
			};
			self.v.push(Seed { entry, version, flags, data, label: label.to_string(), fields });
		}

		/// encode a value at the versions that matter for the entry
		fn add<T: Writeable>(&mut self, entry: u16, flags: u8, label: &str, x: &T) {
			set_chain(flags);
			let e = entry_def(entry);
			let vs: &[u32] = if e.versioned { &VERSIONS } else { &[2, 1000] };
			for (i, v) in vs.iter().enumerate() {
				if !e.versioned && i != self.v.len() % 2 {
					continue;
				}
				set_chain(flags);
				if let Some(b) = enc(x, *v) {
					self.push_raw(entry, *v, flags, b, label, None);
				}
			}
			set_chain(0);
		}
	}

	fn entry_def(id: u16) -> &'static EntryDef {
		entry(id).expect("entry")
	}

	/// fields of a framed stream: message headers plus the recorded layout of known bodies
	fn framed_fields(msgs: &[(u8, Vec<u8>, Option<u16>)], version: u32, flags: u8) -> (Vec<u8>, Vec<Field>) {
		let mut data = vec![];
		let mut fields = vec![];
		for (ty, body, ent) in msgs {
			let at = data.len();
			fields.push(Field { off: at, len: 1, kind: FK::U8 });
			fields.push(Field { off: at + 1, len: 1, kind: FK::U8 });
			fields.push(Field { off: at + 2, len: 1, kind: FK::U8 });
			fields.push(Field { off: at + 3, len: 8, kind: FK::U64 });
			if let Some(e) = ent {
				let fl = flags | if entry_def(*e).bin { F_BIN } else { 0 };
				let (_, f) = record(*e, version, fl, body);
				fields.extend(f.into_iter().map(|f| Field { off: f.off + at + 11, ..f }));
			} else if *ty == Type::Headers as u8 && body.len() >= 2 {
				fields.push(Field { off: at + 11, len: 2, kind: FK::U16 });
				let (_, f) = record(E_UHEADER, version, flags, &body[2..]);
				fields.extend(f.into_iter().map(|f| Field { off: f.off + at + 13, ..f }));
			}
			set_chain(flags);
			data.extend_from_slice(&frame(*ty, body));
			set_chain(0);
		}
		(data, fields)
	}

	/// Honest encodings of every entry point's type. `real` = blocks of the prepared real-PoW chain.
	pub fn build_seeds(seed: u64, real: &[Block]) -> Seeds {
		init_thread();
		let mut s = Seeds { v: vec![], undecodable: vec![] };
		let mut r = Rng::new(seed);
		let u = uni();
		let td = |r: &mut Rng| Difficulty::from_num(1 + r.below(1 << 50));

		// --- simple p2p messages
		for k in 0..2u64 {
			s.add(E_PING, 0, "ping", &Ping { total_difficulty: td(&mut r), height: r.next() >> (k * 30) });
			s.add(E_PONG, 0, "pong", &Pong { total_difficulty: td(&mut r), height: r.below(1 << 30) });
		}
		s.add(E_BAN, 0, "ban", &BanReason { ban_reason: ReasonForBan::BadBlock });
		s.add(E_BAN, 0, "ban", &BanReason { ban_reason: ReasonForBan::BadHandshake });
		s.add(E_HASH, 0, "hash", &mk_hash(r.next()));
		for n in [0u64, 1, 20] {
			s.add(E_LOCATOR, 0, &format!("locator{}", n), &Locator { hashes: (0..n).map(|_| mk_hash(r.next())).collect() });
		}
		s.add(E_GETPEERS, 0, "getpeers", &GetPeerAddrs { capabilities: Capabilities::from_bits_truncate(r.next() as u32 & 0x7f) });
		for n in [0u64, 1, 3, 256] {
			s.add(E_PEERADDRS, 0, &format!("peers{}", n), &PeerAddrs { peers: (0..n).map(|i| g_addr(&mut r, i % 2 == 1)).collect() });
		}
		s.add(E_PEERADDR, 0, "v4", &g_addr(&mut r, false));
		s.add(E_PEERADDR, 0, "v6", &g_addr(&mut r, true));
		s.add(E_TXHSREQ, 0, "req", &TxHashSetRequest { hash: mk_hash(r.next()), height: r.below(1 << 24) });
		s.add(E_TXHSARCH, 0, "arch", &TxHashSetArchive { hash: mk_hash(r.next()), height: r.below(1 << 24), bytes: r.below(1 << 32) });
		s.add(E_SEGREQ, 0, "segreq", &SegmentRequest { block_hash: mk_hash(r.next()), identifier: SegmentIdentifier { height: 11, idx: r.below(1000) } });
		s.add(E_SEGID, 0, "segid", &SegmentIdentifier { height: 9, idx: r.below(1000) });
		let uas = ["MW/Grin 5.3.0", "", "gr\u{00fc}n \u{1f331} node"];
		let mut hands = vec![];
		for (i, ua) in uas.iter().enumerate() {
			let hand = Hand {
				version: ProtocolVersion(1 + i as u32),
				capabilities: Capabilities::from_bits_truncate(0x7f),
				nonce: r.next(),
				genesis: mk_hash(1),
				total_difficulty: td(&mut r),
				sender_addr: g_addr(&mut r, i == 1),
				receiver_addr: g_addr(&mut r, i == 2),
				user_agent: ua.to_string(),
			};
			s.add(E_HAND, 0, "hand", &hand);
			hands.push(enc(&hand, 1).expect("hand"));
			let shake = Shake { version: ProtocolVersion(3), capabilities: Capabilities::from_bits_truncate(0x0f), genesis: mk_hash(1), total_difficulty: td(&mut r), user_agent: ua.to_string() };
			s.add(E_SHAKE, 0, "shake", &shake);
			hands.push(enc(&shake, 1).expect("shake"));
			s.add(E_PEERERR, 0, "peererr", &PeerError { code: r.next() as u32, message: ua.to_string() });
		}

		// --- transaction family (synthetic commitments and proofs: the codecs do not look inside)
		for k in 0..4u8 {
			let kern = mk_kernel(r.next(), k);
			s.add(E_KERNEL, 0, &format!("kernel{}", k), &kern);
			s.add(E_KFEATURES, 0, &format!("features{}", k), &kern.features);
		}
		s.add(E_OUTPUT, 0, "plain", &mk_output(r.next(), false));
		s.add(E_OUTPUT, 0, "coinbase", &mk_output(r.next(), true));
		s.add(E_OUTID, 0, "outid", &mk_outid(r.next()));
		s.add(E_RANGEPROOF, 0, "rproof", &mk_rproof(r.next()));
		s.add(E_INPUT, 0, "input", &mk_input(r.next(), false));
		s.add(E_INPUT, 0, "input-cb", &mk_input(r.next(), true));
		for (ni, no, nk) in [(0usize, 0usize, 0usize), (1, 2, 1), (2, 3, 2), (0, 1, 1), (6, 4, 4)] {
			s.add(E_TX, 0, &format!("tx{}-{}-{}", ni, no, nk), &g_tx(&mut r, ni, no, nk));
		}
		for (ni, no, nk) in [(0usize, 1usize, 1usize), (2, 3, 2), (5, 4, 3)] {
			s.add(E_BODY, 0, &format!("body{}-{}-{}", ni, no, nk), &g_body(&mut r, ni, no, nk));
		}
		// --- headers, blocks, compact blocks with synthetic proofs of work (plain readers do not verify them)
		for mainnet in [false, true] {
			let fl = if mainnet { F_MAINNET } else { 0 };
			set_chain(fl);
			let h = g_header(&mut r, mainnet);
			s.add(E_HEADER, fl, "synthetic", &h);
			s.add(E_PROOF, fl, "proof", &h.pow.proof);
			s.add(E_POW, fl, "pow", &h.pow);
			for (ni, no, nk) in [(0usize, 1usize, 1usize), (2, 3, 2)] {
				set_chain(fl);
				let body = g_body(&mut r, ni, no, nk);
				let b = Block { header: g_header(&mut r, mainnet), body };
				s.add(E_BLOCK, fl, &format!("synthetic{}-{}-{}", ni, no, nk), &b);
				for v in VERSIONS {
					set_chain(fl);
					if let Some(cb) = compact_of_block(&b, r.next(), v) {
						s.push_raw(E_COMPACT, v, fl, cb, "synthetic", None);
					}
				}
			}
			set_chain(0);
		}
		// --- mainnet headers of every hard-fork era (the version scheduled for the height, a past timestamp, both
		// proof-of-work sizes) with UNSOLVED proofs: ascending in-range nonces, random / all even / all odd / one
		// repeated. The untrusted readers run the era's verifier (Cuckatoo, Cuckaroo, Cuckarood, Cuckaroom,
		// Cuckarooz) on them while decoding; it must answer with an error, whatever the nonces look like
		{
			set_chain(F_MAINNET);
			for (era, height) in [262_079u64, 262_080, 400_000, 524_160, 700_000, 786_240, 1_000_000, 1_048_320, 1_500_000].iter().enumerate() {
				for (k, eb) in [29u8, 31, 32].iter().enumerate() {
					let shape = (era + k) % 4;
					set_chain(F_MAINNET);
					let mut h = g_header(&mut r, true);
					h.height = *height;
					h.version = grin_core::consensus::header_version(*height);
					let mask = (1u64 << eb) - 1;
					let mut nonces: Vec<u64> = (0..42).map(|_| r.next() & mask).collect();
					match shape {
						1 => nonces.iter_mut().for_each(|n| *n &= !1),
						2 => nonces.iter_mut().for_each(|n| *n |= 1),
						_ => {}
					}
					nonces.sort();
					nonces.dedup();
					while nonces.len() < 42 {
						let x = *nonces.last().unwrap();
						nonces.push(if shape == 3 { x } else { (x + 2).min(mask) });
					}
					h.pow.proof = Proof { edge_bits: *eb, nonces };
					let tag = format!("era-h{}-eb{}-shape{}", height, eb, shape);
					s.add(E_UHEADER, F_MAINNET, &tag, &h);
					if k == 0 {
						set_chain(F_MAINNET);
						let b = Block { header: h.clone(), body: g_body(&mut r, 0, 1, 1) };
						s.add(E_UBLOCK, F_MAINNET, &tag, &b);
					}
				}
			}
			set_chain(0);
		}
		// --- objects of the real-PoW chain (the untrusted readers verify the proof of work)
		let picks: Vec<&Block> = {
			let mut v: Vec<&Block> = vec![];
			let n = real.len();
			if n > 0 {
				let mut idx = vec![0usize, n / 3, n / 2, n - 1];
				// blocks that carry transactions
				idx.extend(real.iter().enumerate().filter(|(_, b)| b.body.kernels.len() > 1).map(|(i, _)| i).take(3));
				idx.sort();
				idx.dedup();
				for i in idx {
					v.push(&real[i]);
				}
			}
			v
		};
		for b in &picks {
			let tag = format!("real-h{}", b.header.height);
			s.add(E_UHEADER, 0, &tag, &b.header);
			s.add(E_UBLOCK, 0, &tag, *b);
			for v in VERSIONS {
				if let Some(cb) = compact_of_block(b, r.next(), v) {
					s.push_raw(E_UCOMPACT, v, 0, cb, &tag, None);
				}
			}
			let outs: Vec<Output> = b.body.outputs.iter().filter(|o| !o.is_coinbase()).cloned().collect();
			let kerns: Vec<TxKernel> = b.body.kernels.iter().filter(|k| !k.is_coinbase()).cloned().collect();
			if !kerns.is_empty() {
				s.add(E_TX, 0, &tag, &Transaction::new(b.body.inputs.clone(), &outs, &kerns));
			}
		}
		// --- segments cut from the universe's MMRs by the repository's own producer
		for (ti, h, idx) in [(0usize, 0u8, 0u64), (4, 0, 2), (4, 1, 1), (4, 2, 0), (7, 3, 0), (12, 2, 3), (12, 4, 1), (15, 3, 2), (15, 5, 1)] {
			let tag = format!("n{}-h{}-i{}", TREE_LEAVES[ti], h, idx);
			if let Some(seg) = seg_from_tree(&u.kern[ti], h, idx, false) {
				s.add(E_SEG_KERN, 0, &tag, &seg);
				s.add(E_KERNRESP, 0, &tag, &SegmentResponse { block_hash: mk_hash(3), segment: seg });
			}
			if let Some(seg) = seg_from_tree(&u.outid[ti], h, idx, true) {
				let bm = &bitmaps(u.outid[ti].n)[2];
				let pruned = prune_segment(seg.clone(), &u.outid[ti], bm);
				s.add(E_SEG_OUT, 0, &tag, &seg);
				s.add(E_SEG_OUT, 0, &format!("{}-pruned", tag), &pruned);
				s.add(E_OUTRESP, 0, &tag, &OutputSegmentResponse { response: SegmentResponse { block_hash: mk_hash(3), segment: pruned }, output_bitmap_root: mk_hash(4) });
			}
			if ti <= 7 {
				if let Some(seg) = seg_from_tree(&u.rproof[ti], h, idx, true) {
					s.add(E_SEG_RP, 0, &tag, &seg);
					s.add(E_RPRESP, 0, &tag, &SegmentResponse { block_hash: mk_hash(3), segment: seg });
				}
			}
		}
		// segments with arbitrary (sorted) positions
		for k in 0..2u64 {
			let hp: Vec<u64> = (0..3).map(|i| 2 + 5 * i + k).collect();
			let lp: Vec<u64> = (0..4).map(|i| 1 + 3 * i + k).collect();
			let id = SegmentIdentifier { height: 2 + k as u8, idx: k };
			let hashes: Vec<Hash> = hp.iter().map(|p| mk_hash(*p)).collect();
			let seg = Segment::from_parts(id, hp.clone(), hashes.clone(), lp.clone(), lp.iter().map(|p| mk_kernel(*p, *p as u8)).collect(), segproof(&mut r, 2 + k));
			s.add(E_SEG_KERN, 0, "synthetic", &seg);
			let seg = Segment::from_parts(id, hp.clone(), hashes.clone(), lp.clone(), lp.iter().map(|p| mk_outid(*p)).collect::<Vec<OutputIdentifier>>(), segproof(&mut r, k));
			s.add(E_SEG_OUT, 0, "synthetic", &seg);
			let seg = Segment::from_parts(id, hp, hashes, lp.clone(), lp.iter().map(|p| mk_rproof(*p)).collect::<Vec<RangeProof>>(), segproof(&mut r, 1));
			s.add(E_SEG_RP, 0, "synthetic", &seg);
			s.add(E_SEGPROOF, 0, "segproof", &segproof(&mut r, 3 * k));
		}
		// --- bitmap segments (all three block encodings occur: sparse, dense, half-filled chunks)
		for (bi, h, idx) in [(0usize, 0u8, 0u64), (2, 1, 0), (2, 1, 1), (4, 2, 1), (7, 6, 0), (7, 6, 1), (7, 3, 8), (8, 7, 0), (8, 7, 1), (6, 9, 0)] {
			let bt = &u.bitmap[bi];
			if let Ok(seg) = Segment::from_pmmr(SegmentIdentifier { height: h, idx }, &bt.acc.readonly_pmmr(), false) {
				let bs = BitmapSegment::from(seg);
				let tag = format!("c{}-h{}-i{}", bt.chunks, h, idx);
				s.add(E_BITMAPSEG, 0, &tag, &bs);
				s.add(E_BITMAPRESP, 0, &tag, &OutputBitmapSegmentResponse { block_hash: mk_hash(3), segment: bs, output_root: u.other });
			}
		}
		// --- Merkle proofs
		for (ti, leaf) in [(0usize, 0u64), (4, 2), (12, 16), (15, 0), (15, 32)] {
			let t = &u.kern[ti];
			if let Ok(p) = ReadonlyPMMR::<TxKernel, _>::at(&t.backend, t.size).merkle_proof(pmmr::insertion_to_pmmr_index(leaf)) {
				s.add(E_MERKLE, 0, &format!("n{}-leaf{}", t.n, leaf), &p);
			}
		}
		s.add(E_MERKLE, 0, "empty", &MerkleProof::empty());
		// --- framing
		let ping = enc(&Ping { total_difficulty: td(&mut r), height: 7 }, 1).expect("ping");
		for (ty, len) in [(Type::Ping as u8, 16u64), (Type::Block as u8, 3000), (Type::Headers as u8, 2), (200u8, 5), (Type::Error as u8, 0)] {
			let mut b = frame(ty, &[]);
			b[3..11].copy_from_slice(&len.to_be_bytes());
			s.push_raw(E_MSGHDR, 1, 0, b, &format!("type{}", ty), None);
		}
		for (i, body) in hands.iter().enumerate() {
			let (ty, ent, rm) = if i % 2 == 0 { (Type::Hand as u8, E_HAND, E_RM_HAND) } else { (Type::Shake as u8, E_SHAKE, E_RM_SHAKE) };
			let (d, f) = framed_fields(&[(ty, body.clone(), Some(ent))], 1, 0);
			s.push_raw(rm, 1, 0, d, "handshake", Some(f));
		}
		// message streams for the streaming codec
		let mut streams: Vec<(String, Vec<(u8, Vec<u8>, Option<u16>)>)> = vec![];
		streams.push(("ping-pong-getpeers".into(), vec![
			(Type::Ping as u8, ping.clone(), Some(E_PING)),
			(Type::Pong as u8, ping.clone(), Some(E_PONG)),
			(Type::GetPeerAddrs as u8, vec![0, 0, 0, 1], Some(E_GETPEERS)),
		]));
		streams.push(("unknown-then-ping".into(), vec![(200, vec![1, 2, 3, 4, 5], None), (Type::Ping as u8, ping.clone(), Some(E_PING))]));
		streams.push(("locator-hash".into(), vec![
			(Type::GetHeaders as u8, enc(&Locator { hashes: vec![mk_hash(1), mk_hash(2)] }, 1).unwrap(), Some(E_LOCATOR)),
			(Type::GetBlock as u8, mk_hash(5).as_bytes().to_vec(), Some(E_HASH)),
			(Type::TxHashSetArchive as u8, enc(&TxHashSetArchive { hash: mk_hash(9), height: 5, bytes: 1000 }, 1).unwrap(), Some(E_TXHSARCH)),
		]));
		if !real.is_empty() {
			for n in [1usize, 3, 40] {
				let hs: Vec<BlockHeader> = real.iter().take(n).map(|b| b.header.clone()).collect();
				let body = enc(&Headers { headers: hs }, 1).unwrap();
				streams.push((format!("headers{}", n), vec![(Type::Headers as u8, body, None), (Type::Ping as u8, ping.clone(), Some(E_PING))]));
			}
			let b = picks.last().unwrap();
			for v in [1u32, 3] {
				if let Some(bb) = enc(*b, v) {
					let mut msgs = vec![(Type::Block as u8, bb, Some(E_UBLOCK))];
					if let Some(cb) = compact_of_block(b, 11, v) {
						msgs.push((Type::CompactBlock as u8, cb, Some(E_UCOMPACT)));
					}
					msgs.push((Type::Header as u8, enc(&b.header, v).unwrap(), Some(E_UHEADER)));
					let (d, f) = framed_fields(&msgs, v, 0);
					s.push_raw(E_CODEC, v, 0, d, "block-compact-header", Some(f));
				}
			}
		}
		if let Some(seg) = seg_from_tree(&u.kern[4], 1, 1, false) {
			let body = enc(&SegmentResponse { block_hash: mk_hash(3), segment: seg }, 1).unwrap();
			streams.push(("kernel-segment".into(), vec![(Type::KernelSegment as u8, body, Some(E_KERNRESP)), (Type::GetKernelSegment as u8, enc(&SegmentRequest { block_hash: mk_hash(3), identifier: SegmentIdentifier { height: 1, idx: 1 } }, 1).unwrap(), Some(E_SEGREQ))]));
		}
		let tx = g_tx(&mut r, 1, 2, 1);
		for v in [1u32, 2, 3, 1000] {
			let (d, f) = framed_fields(&[(Type::Transaction as u8, enc(&tx, v).unwrap(), Some(E_TX)), (Type::StemTransaction as u8, enc(&tx, v).unwrap(), Some(E_TX))], v, 0);
			s.push_raw(E_CODEC, v, 0, d, "tx-stemtx", Some(f));
		}
		for (i, (name, msgs)) in streams.iter().enumerate() {
			let v = if name.contains("segment") { 1 } else { VERSIONS[i % 4] };
			let (d, f) = framed_fields(msgs, v, 0);
			s.push_raw(E_CODEC, v, 0, d, name, Some(f));
		}
		// a mainnet-framed stream (other magic, other size limits)
		{
			let (d, f) = framed_fields(&[(Type::Ping as u8, ping.clone(), Some(E_PING)), (Type::Pong as u8, ping, Some(E_PONG))], 2, F_MAINNET);
			s.push_raw(E_CODEC, 2, F_MAINNET, d, "mainnet-ping-pong", Some(f));
			// mainnet limits of the big message types and of unknown types
			for ty in [Type::Block as u8, Type::KernelSegment as u8, Type::Headers as u8, 200u8] {
				let (d, f) = framed_fields(&[(ty, vec![0u8; 40], None), (Type::Ping as u8, vec![0u8; 16], Some(E_PING))], 1, F_MAINNET);
				s.push_raw(E_CODEC, 1, F_MAINNET, d.clone(), &format!("probe-mainnet-type{}", ty), Some(f.clone()));
				if ty != Type::Headers as u8 {
					s.push_raw(E_RM_HAND, 1, F_MAINNET, d, &format!("probe-mainnet-type{}", ty), Some(f));
				}
			}
		}
		// --- hex strings
		let proofs: Vec<Vec<u8>> = s.v.iter().filter(|x| x.entry == E_MERKLE).map(|x| x.data.clone()).collect();
		for (i, p) in proofs.iter().enumerate() {
			let h = hex(p);
			let t = match i % 4 {
				0 => h,
				1 => format!("0x{}", h),
				2 => format!("  {}\n", h.to_uppercase()),
				_ => format!("0x0x{}", h),
			};
			s.push_raw(E_MERKLE_HEX, 1, 0, t.clone().into_bytes(), "merkle-hex", None);
			s.push_raw(E_UTIL_HEX, 1, 0, t.into_bytes(), "merkle-hex", None);
		}
		s.push_raw(E_UTIL_HEX, 1, 0, b"00ff10".to_vec(), "short", None);
		set_chain(0);
		s
	}

	// ------------------------------------------------------------------ mutations

	#[derive(Clone, Debug)]
	enum M {
		Honest,
		/// overwrite w bytes at off with the big-endian value
		Set { off: usize, w: u8, val: u64 },
		Trunc(usize),
		/// 0: =0x00, 1: =0xff, 2: +1, 3: -1
		ByteOp { off: usize, op: u8 },
		/// keep [..at] and continue with another seed's bytes from other_at
		Splice { at: usize, other: u32, other_at: usize },
		/// repeat the byte range once more right after itself
		Dup { off: usize, len: usize },
		Append(u8),
		BitFlip(usize),
		/// keep [..at], then n pseudo-random bytes
		RandTail { at: usize, n: usize },
		/// strings: delete `del` bytes at `at`, insert `ins`
		Text { at: usize, del: usize, ins: &'static str },
	}

	#[derive(Clone, Debug)]
	struct Desc {
		seed: u32,
		m: M,
		kind: &'static str,
		/// field class
		fc: String,
	}

	/// first / last second chrono's DateTime can represent (timestamps are i64 fields read through the
	/// same 8-byte reader): arithmetic on a timestamp next to them overflows inside the time library
	const TS_MIN: i64 = -8_334_601_228_800;
	const TS_MAX: i64 = 8_210_266_876_799;
	const U64_VALS: [u64; 45] = [
		TS_MIN as u64,
		(TS_MIN + 1) as u64,
		(TS_MIN + 299) as u64,
		(TS_MIN + 300) as u64,
		(TS_MIN + 43_200) as u64,
		(TS_MIN - 1) as u64,
		TS_MAX as u64,
		(TS_MAX - 1) as u64,
		(TS_MAX - 299) as u64,
		(TS_MAX - 300) as u64,
		(TS_MAX - 43_200) as u64,
		(TS_MAX + 1) as u64,
		(1 << 63) + 1,
		(1 << 63) + 2,
		(1 << 63) + 4,
		(1 << 63) + 1024,
		(1 << 62) + 2,
		1 << 56,
		1 << 57,
		1 << 61,
		1 << 62,
		(1 << 63) - 1,
		5_000_000,
		10_000_000,
		0,
		1,
		2,
		0xff,
		0x100,
		0xffff,
		0x1_0000,
		0xffff_ffff,
		1 << 32,
		1 << 40,
		1 << 63,
		u64::MAX,
		u64::MAX - 1,
		999_999,
		1_000_000,
		1_000_001,
		100_000,
		100_001,
		1023,
		1024,
		1025,
	];
	const U32_VALS: [u64; 13] = [0, 1, 2, 0xff, 0x100, 0xffff, 0x1_0000, 0x7fff_ffff, 0x8000_0000, 0xffff_ffff, 255, 256, 257];
	const U16_VALS: [u64; 16] = [0, 1, 2, 0xff, 0x100, 0x7fff, 0x8000, 0xffff, 511, 512, 513, 1023, 1024, 4095, 4096, 4097];
	const U8_VALS: [u64; 11] = [0, 1, 2, 3, 4, 0x3f, 0x40, 0x7f, 0x80, 0xfe, 0xff];
	const TEXT_INS: [&str; 14] = ["g", "z", " ", "\n", "0x", "\u{e9}", "\u{20ac}", "\u{10348}", "+", "-", "0", "F", "\u{0}", "\u{e9}\u{e9}"];

	fn be_at(b: &[u8], off: usize, w: usize) -> u64 {
		let mut x = 0u64;
		for i in 0..w {
			x = (x << 8) | *b.get(off + i).unwrap_or(&0) as u64;
		}
		x
	}

	fn field_class(kind: FK, ord: usize) -> String {
		format!("{}#{}", kind.name(), ord.min(9))
	}

	/// every directed mutation of one seed (descriptors only; bytes are materialised after selection)
	fn enumerate(si: u32, seed: &Seed, n_seeds: u32, r: &mut Rng, out: &mut Vec<Desc>) {
		let len = seed.data.len();
		let text = entry_def(seed.entry).text;
		out.push(Desc { seed: si, m: M::Honest, kind: "honest", fc: "-".into() });
		if text {
			let s = String::from_utf8_lossy(&seed.data).to_string();
			let bounds: Vec<usize> = s.char_indices().map(|(i, _)| i).collect();
			let picks: Vec<usize> = if bounds.len() <= 80 { bounds.clone() } else { (0..80).map(|_| *r.pick(&bounds)).collect() };
			for &at in &picks {
				out.push(Desc { seed: si, m: M::Trunc(at), kind: "text-trunc", fc: format!("parity{}", at % 2) });
			}
			for k in 0..picks.len().min(60) {
				let at = picks[k];
				let ins = TEXT_INS[r.below(TEXT_INS.len() as u64) as usize];
				let del = r.below(3) as usize;
				let del = if s.is_char_boundary((at + del).min(s.len())) { del.min(s.len() - at) } else { 0 };
				out.push(Desc { seed: si, m: M::Text { at, del, ins }, kind: if del == 0 { "text-insert" } else { "text-replace" }, fc: format!("{}b-parity{}", ins.len(), at % 2) });
			}
			return;
		}
		// fields, by kind
		let mut ord: HashMap<FK, usize> = HashMap::new();
		for f in &seed.fields {
			let o = *ord.entry(f.kind).and_modify(|x| *x += 1).or_insert(0);
			let fc = field_class(f.kind, o);
			let (w, vals): (usize, &[u64]) = match f.kind {
				FK::U64 | FK::LenBytes => (8, &U64_VALS),
				FK::U32 => (4, &U32_VALS),
				FK::U16 => (2, &U16_VALS),
				FK::U8 => (1, &U8_VALS),
				FK::Fixed => (0, &[]),
			};
			if f.off + w > len {
				continue;
			}
			if w == 0 {
				if f.len > 0 {
					for (off, op) in [(f.off, 1u8), (f.off, 2), (f.off + f.len - 1, 0), (f.off + f.len - 1, 3)] {
						out.push(Desc { seed: si, m: M::ByteOp { off, op }, kind: "fixed-edge", fc: fc.clone() });
					}
				}
				continue;
			}
			let orig = be_at(&seed.data, f.off, w);
			let kind = match f.kind {
				FK::U8 => "u8-tag",
				FK::U16 => "u16-boundary",
				FK::U32 => "u32-boundary",
				_ => "u64-boundary",
			};
			if f.kind == FK::U8 && o < 3 {
				// tag / feature / height bytes: full sweep
				for v in 0..=255u64 {
					if v != orig {
						out.push(Desc { seed: si, m: M::Set { off: f.off, w: 1, val: v }, kind: "u8-sweep", fc: fc.clone() });
					}
				}
				continue;
			}
			let mask = if w == 8 { u64::MAX } else { (1u64 << (8 * w)) - 1 };
			let mut vs: Vec<u64> = if o < 24 { vals.to_vec() } else { vec![0, mask] };
			vs.push(orig.wrapping_add(1) & mask);
			vs.push(orig.wrapping_sub(1) & mask);
			vs.sort();
			vs.dedup();
			for v in vs {
				if v != orig {
					out.push(Desc { seed: si, m: M::Set { off: f.off, w: w as u8, val: v }, kind, fc: fc.clone() });
				}
			}
		}
		// truncation
		let bound_class = |at: usize| -> String {
			match seed.fields.iter().position(|f| f.off + f.len > at) {
				Some(i) => format!("in-field{}", i.min(9)),
				None => "tail".into(),
			}
		};
		if len <= 400 {
			for at in 0..len {
				out.push(Desc { seed: si, m: M::Trunc(at), kind: "trunc", fc: bound_class(at) });
			}
		} else {
			let mut ats: Vec<usize> = vec![];
			for f in seed.fields.iter().take(150) {
				ats.push(f.off);
				ats.push(f.off + 1);
				ats.push((f.off + f.len).saturating_sub(1));
			}
			for k in 0..48 {
				ats.push(len * k / 48);
			}
			ats.push(len - 1);
			ats.sort();
			ats.dedup();
			for at in ats {
				if at < len {
					out.push(Desc { seed: si, m: M::Trunc(at), kind: "trunc", fc: bound_class(at) });
				}
			}
		}
		// every byte position (short encodings) / sampled positions
		let pos: Vec<usize> = if len <= 160 { (0..len).collect() } else { (0..64).map(|_| r.below(len as u64) as usize).collect() };
		for off in pos {
			for op in 0..4u8 {
				out.push(Desc { seed: si, m: M::ByteOp { off, op }, kind: "byte-set", fc: bound_class(off) });
			}
		}
		for _ in 0..16 {
			let bit = r.below(8 * len.max(1) as u64) as usize;
			out.push(Desc { seed: si, m: M::BitFlip(bit), kind: "bit-flip", fc: bound_class(bit / 8) });
		}
		// splices, duplications, appended bytes, random tails (at field boundaries)
		let bounds: Vec<usize> = if seed.fields.is_empty() { vec![0, len / 2] } else { seed.fields.iter().map(|f| f.off).collect() };
		for _ in 0..8 {
			let at = *r.pick(&bounds);
			out.push(Desc { seed: si, m: M::Splice { at, other: r.below(n_seeds as u64) as u32, other_at: r.next() as usize }, kind: "splice", fc: bound_class(at) });
		}
		if !seed.fields.is_empty() {
			for _ in 0..4 {
				let f = *r.pick(&seed.fields);
				out.push(Desc { seed: si, m: M::Dup { off: f.off, len: f.len }, kind: "dup-field", fc: field_class(f.kind, 0) });
			}
		}
		for v in 0..3u8 {
			out.push(Desc { seed: si, m: M::Append(v), kind: "append", fc: format!("v{}", v) });
		}
		for _ in 0..6 {
			let at = *r.pick(&bounds);
			let n = [1usize, 8, 33, 256][r.below(4) as usize];
			out.push(Desc { seed: si, m: M::RandTail { at, n }, kind: "rand-tail", fc: bound_class(at) });
		}
	}

	fn materialise(d: &Desc, seeds: &[Seed]) -> Vec<u8> {
		let s = &seeds[d.seed as usize];
		let mut b = s.data.clone();
		match &d.m {
			M::Honest => {}
			M::Set { off, w, val } => {
				let w = *w as usize;
				let bytes = val.to_be_bytes();
				b[*off..*off + w].copy_from_slice(&bytes[8 - w..]);
			}
			M::Trunc(at) => b.truncate(*at),
			M::ByteOp { off, op } => {
				if let Some(x) = b.get_mut(*off) {
					*x = match op {
						0 => 0,
						1 => 0xff,
						2 => x.wrapping_add(1),
						_ => x.wrapping_sub(1),
					};
				}
			}
			M::Splice { at, other, other_at } => {
				let o = &seeds[*other as usize];
				b.truncate(*at);
				let from = if o.fields.is_empty() { 0 } else { o.fields[*other_at % o.fields.len()].off };
				b.extend_from_slice(&o.data[from.min(o.data.len())..]);
			}
			M::Dup { off, len } => {
				let end = (*off + *len).min(b.len());
				let piece = b[*off..end].to_vec();
				let tail = b.split_off(end);
				b.extend_from_slice(&piece);
				b.extend_from_slice(&tail);
			}
			M::Append(v) => match v {
				0 => b.push(0),
				1 => b.extend_from_slice(&[0xff; 8]),
				_ => b.extend_from_slice(&fill(d.seed as u64, 64)),
			},
			M::BitFlip(bit) => {
				if let Some(x) = b.get_mut(bit / 8) {
					*x ^= 1 << (bit % 8);
				}
			}
			M::RandTail { at, n } => {
				b.truncate(*at);
				b.extend_from_slice(&fill((d.seed as u64) << 20 | (*at as u64) << 8 | *n as u64, *n));
			}
			M::Text { at, del, ins } => {
				let end = (*at + *del).min(b.len());
				let tail = b.split_off(end);
				b.truncate(*at);
				b.extend_from_slice(ins.as_bytes());
				b.extend_from_slice(&tail);
			}
		}
		b
	}

	/// water-filling: every stratum (entry, mutation kind) gets min(size, q) cases so that the total is about `budget`
	fn select(descs: Vec<Desc>, seeds: &[Seed], budget: usize, r: &mut Rng) -> Vec<Desc> {
		let mut strata: BTreeMap<(u16, &'static str), Vec<Desc>> = BTreeMap::new();
		for d in descs {
			strata.entry((seeds[d.seed as usize].entry, d.kind)).or_default().push(d);
		}
		let total: usize = strata.values().map(|v| v.len()).sum();
		if total <= budget {
			return strata.into_values().flatten().collect();
		}
		let (mut lo, mut hi) = (1usize, total);
		while lo < hi {
			let q = (lo + hi + 1) / 2;
			let t: usize = strata.values().map(|v| v.len().min(q)).sum();
			if t <= budget {
				lo = q;
			} else {
				hi = q - 1;
			}
		}
		let q = lo;
		let mut out = vec![];
		for (_, mut v) in strata {
			if v.len() > q {
				// honest cases first, the rest by a seeded partial shuffle
				let mut keep: Vec<Desc> = vec![];
				let mut rest: Vec<Desc> = vec![];
				for d in v.drain(..) {
					if matches!(d.m, M::Honest) {
						keep.push(d);
					} else {
						rest.push(d);
					}
				}
				for i in 0..rest.len() {
					if keep.len() >= q {
						break;
					}
					let j = i + r.below((rest.len() - i) as u64) as usize;
					rest.swap(i, j);
					keep.push(rest[i].clone());
				}
				out.extend(keep);
			} else {
				out.extend(v);
			}
		}
		out
	}

	fn random_text(r: &mut Rng) -> Vec<u8> {
		const ALPHA: [&str; 24] = ["0", "1", "9", "a", "b", "f", "A", "F", "x", "0x", " ", "g", "z", "\u{e9}", "\u{20ac}", "\u{10348}", "+", "\t", "7", "c", "d", "e", "00", "ff"];
		let n = match r.below(4) {
			0 => r.below(8),
			1 => r.below(40),
			2 => r.below(200),
			_ => r.below(2000),
		};
		let mut s = String::new();
		let hexish = r.below(3) != 0;
		for _ in 0..n {
			if hexish && r.below(12) != 0 {
				s.push_str(ALPHA[r.below(8) as usize]);
			} else {
				s.push_str(ALPHA[r.below(24) as usize]);
			}
		}
		s.into_bytes()
	}

	fn random_len(r: &mut Rng) -> usize {
		match r.below(6) {
			0 => r.below(12) as usize,
			1 => r.below(64) as usize,
			2 | 3 => r.below(512) as usize,
			_ => r.below(4097) as usize,
		}
	}

	pub struct Generated {
		pub cases: Vec<Case>,
		pub excluded: BTreeMap<String, u64>,
		pub n_seeds: usize,
		pub undecodable: Vec<String>,
	}

	/// all cases of a run: a pure function of (seed, budget, real blocks)
	pub fn generate(seed: u64, budget: usize, real: &[Block]) -> Generated {
		let seeds = build_seeds(seed, real);
		let mut r = Rng::new(seed ^ 0x5eed);
		let mut descs = vec![];
		let n = seeds.v.len() as u32;
		for (i, s) in seeds.v.iter().enumerate() {
			let mut rs = Rng::new(seed ^ ((i as u64 + 1) << 24));
			enumerate(i as u32, s, n, &mut rs, &mut descs);
		}
		let structured = budget * 86 / 100;
		let chosen = select(descs, &seeds.v, structured, &mut r);
		let mut cases = vec![];
		let mut excluded: BTreeMap<String, u64> = BTreeMap::new();
		let mut push = |c: Case, cases: &mut Vec<Case>| {
			if let Some(reason) = excluded_by_known(c.entry, c.flags, &c.data) {
				*excluded.entry(reason.to_string()).or_insert(0) += 1;
			} else {
				cases.push(c);
			}
		};
		for d in &chosen {
			let s = &seeds.v[d.seed as usize];
			let mut flags = s.flags;
			// the other reader implementation for a share of the cases
			if !entry_def(s.entry).text && !entry_def(s.entry).framed && mix(d.seed as u64 ^ (cases.len() as u64) << 7) % 6 == 0 {
				flags ^= F_BIN;
			}
			let c = Case { entry: s.entry, version: s.version, flags, data: materialise(d, &seeds.v), kind: d.kind, fclass: d.fc.clone(), origin: s.label.clone(), directed: None };
			// Merkle proof cases also travel as hex strings
			if c.entry == E_MERKLE && cases.len() % 2 == 0 {
				let h = hex(&c.data);
				let t = if cases.len() % 4 == 0 { h } else { format!("0x{}", h.to_uppercase().replace("0X", "0x")) };
				push(Case { entry: E_MERKLE_HEX, version: 1, flags: F_BIN, data: t.into_bytes(), kind: c.kind, fclass: c.fclass.clone(), origin: c.origin.clone(), directed: None }, &mut cases);
			}
			push(c, &mut cases);
		}
		// pure random input for every entry point
		let per_entry = (budget - structured.min(budget)) / ENTRIES.len().max(1);
		for e in ENTRIES {
			for k in 0..per_entry {
				let data = if e.text { random_text(&mut r) } else { let n = random_len(&mut r); r.bytes(n) };
				let version = VERSIONS[k % 4];
				let mut flags = if e.bin { F_BIN } else { 0 };
				if k % 5 == 4 {
					flags |= F_MAINNET;
				}
				push(Case { entry: e.id, version, flags, data, kind: "random", fclass: "-".into(), origin: "random".into(), directed: None }, &mut cases);
			}
		}
		Generated { cases, excluded, n_seeds: seeds.v.len(), undecodable: seeds.undecodable }
	}

	// ------------------------------------------------------------------ directed cases of the known findings (minimised by hand)

	fn mainnet_header(ty: u8, len: u64) -> Vec<u8> {
		let mut b = vec![97u8, 61, ty];
		b.extend_from_slice(&len.to_be_bytes());
		b
	}

	pub fn directed_cases() -> Vec<Case> {
		let mk = |entry: u16, flags: u8, data: Vec<u8>, name: &'static str| Case {
			entry,
			version: 1,
			flags: flags | F_NOEXCL,
			data,
			kind: "directed",
			fclass: "-".into(),
			origin: name.to_string(),
			directed: Some(name),
		};
		let merkle = |path_len: u64| {
			let mut b = 0u64.to_be_bytes().to_vec();
			b.extend_from_slice(&path_len.to_be_bytes());
			b
		};
		// identifier (height 0, idx 1), no hashes, no leaves, empty proof: validated against the one-leaf MMR
		let mut seg = vec![0u8];
		seg.extend_from_slice(&1u64.to_be_bytes());
		seg.extend_from_slice(&[0u8; 24]);
		vec![
			mk(E_MERKLE_HEX, F_BIN, b"zz".to_vec(), "merkle-from-hex-unwrap"),
			mk(E_MERKLE, F_BIN, merkle(1 << 40), "merkle-path-len-2^40"),
			mk(E_MERKLE, F_BIN, merkle(1 << 63), "merkle-path-len-2^63"),
			// smallest declared length whose pre-allocation exceeds the bound (32 bytes per hash)
			mk(E_MERKLE, F_BIN, merkle((ALLOC_REQ_BASE + 16 * ALLOC_PER_BYTE) / 32 + 1), "merkle-path-len-smallest-over-bound"),
			mk(E_MERKLE_HEX, F_BIN, hex(&merkle(1 << 40)).into_bytes(), "merkle-hex-path-len-2^40"),
			mk(E_SEG_KERN, 0, seg.clone(), "segment-idx-beyond-last"),
			// identifier (height 0, idx 2^63 + 2): insertion_to_pmmr_index wraps, the walk starts at position 2 (a parent)
			mk(E_SEG_KERN, 0, { let mut s = seg.clone(); s[1] = 0x80; s[8] = 2; s }, "segment-leaf-offset-2^63+2"),
			// identifier (height 64, idx 1): `1 << 64` wraps to capacity 1 while the position range still adds 64
			mk(E_SEG_OUT, 0, { let mut s = seg; s[0] = 64; s }, "segment-height-64"),
			mk(E_UTIL_HEX, F_BIN, "a\u{e9}a".as_bytes().to_vec(), "hex-char-boundary"),
			// bitmap segment (height 1, idx 2^62): one block of two empty chunks, empty proof; leaf offset 2^63
			mk(
				E_BITMAPSEG,
				0,
				{
					let mut b = vec![1u8];
					b.extend_from_slice(&(1u64 << 62).to_be_bytes());
					b.extend_from_slice(&[0, 1, 2, 1, 0, 0]);
					b.extend_from_slice(&[0u8; 8]);
					b
				},
				"bitmap-segment-leaf-offset-2^63",
			),
			// mainnet: 11-byte headers announcing the largest body the framing accepts (4 x max_msg_size)
			mk(E_CODEC, F_MAINNET, mainnet_header(Type::KernelSegment as u8, 10_784_256), "codec-announced-kernel-segment-10MB"),
			mk(E_CODEC, F_MAINNET, mainnet_header(Type::Block as u8, 5_392_128), "codec-announced-block-5MB"),
			mk(E_RM_HAND, F_MAINNET, mainnet_header(200, 5_392_128), "handshake-announced-unknown-5MB"),
			mk(E_RM_HAND, F_MAINNET, mainnet_header(Type::Hand as u8, 512), "handshake-announced-hand-512"),
			mk(E_MERKLE_HEX, F_BIN, "a\u{e9}a".as_bytes().to_vec(), "merkle-hex-char-boundary"),
		]
	}

	// ------------------------------------------------------------------ calibration: honest maximal messages

	pub fn calibration_cases() -> Vec<Case> {
		let mut r = Rng::new(0xca11b);
		let mut v = vec![];
		let mut mk = |entry: u16, flags: u8, version: u32, data: Vec<u8>, name: &str| {
			let e = entry_def(entry);
			v.push(Case { entry, version, flags: flags | if e.bin { F_BIN } else { 0 }, data, kind: "calibrate", fclass: "-".into(), origin: name.to_string(), directed: None });
		};
		// a full mainnet block: 1,900 outputs + 33 kernels (weight 40,000)
		set_chain(F_MAINNET);
		let (i, o, k) = g_parts(&mut r, 0, 1900, 33, true);
		let body = TransactionBody::init(i, &o, &k, false).expect("body");
		let block = Block { header: g_header(&mut r, true), body };
		for ver in [1u32, 3] {
			let b = enc(&block, ver).expect("block");
			mk(E_BLOCK, F_MAINNET, ver, b.clone(), "mainnet-full-block");
			mk(E_BODY, F_MAINNET, ver, enc(&block.body, ver).expect("body"), "mainnet-full-body");
			set_chain(F_MAINNET);
			mk(E_CODEC, F_MAINNET, ver, frame(Type::Block as u8, &b), "mainnet-full-block-framed");
		}
		// a transaction of maximal weight
		let tx = g_tx(&mut r, 100, 1890, 10);
		mk(E_TX, F_MAINNET, 2, enc(&tx, 2).expect("tx"), "mainnet-max-tx");
		set_chain(0);
		// PIBD segments of the heights the node requests (2^11 leaves, bitmap 2^9 chunks)
		let n = 2048u64;
		let lp: Vec<u64> = (0..n).map(pmmr::insertion_to_pmmr_index).collect();
		let hp: Vec<u64> = (0..n - 1).map(|i| pmmr::insertion_to_pmmr_index(i + 1) - 1).filter(|p| !pmmr::is_leaf(*p)).collect();
		let hashes: Vec<Hash> = hp.iter().map(|p| mk_hash(*p)).collect();
		let id = SegmentIdentifier { height: 11, idx: 0 };
		let seg = Segment::from_parts(id, vec![], vec![], lp.clone(), lp.iter().map(|p| mk_kernel(*p, *p as u8)).collect::<Vec<TxKernel>>(), segproof(&mut r, 20));
		mk(E_KERNRESP, 0, 1, enc(&SegmentResponse { block_hash: mk_hash(1), segment: seg }, 1).expect("seg"), "kernel-segment-2048");
		let seg = Segment::from_parts(id, hp.clone(), hashes.clone(), lp.clone(), lp.iter().map(|p| mk_rproof(*p)).collect::<Vec<RangeProof>>(), segproof(&mut r, 20));
		mk(E_RPRESP, 0, 1, enc(&SegmentResponse { block_hash: mk_hash(1), segment: seg }, 1).expect("seg"), "rangeproof-segment-2048");
		let seg = Segment::from_parts(id, hp, hashes, lp.clone(), lp.iter().map(|p| mk_outid(*p)).collect::<Vec<OutputIdentifier>>(), segproof(&mut r, 20));
		mk(E_OUTRESP, 0, 1, enc(&OutputSegmentResponse { response: SegmentResponse { block_hash: mk_hash(1), segment: seg }, output_bitmap_root: mk_hash(2) }, 1).expect("seg"), "output-segment-2048");
		let lp: Vec<u64> = (0..512u64).map(pmmr::insertion_to_pmmr_index).collect();
		let chunks: Vec<BitmapChunk> = (0..512u64)
			.map(|c| {
				let mut ch = BitmapChunk::new();
				for k in 0..1024u64 {
					if mix(c * 1024 + k) & 1 == 1 {
						ch.set(k, true);
					}
				}
				ch
			})
			.collect();
		let bs = BitmapSegment::from(Segment::from_parts(SegmentIdentifier { height: 9, idx: 0 }, vec![], vec![], lp, chunks, segproof(&mut r, 12)));
		mk(E_BITMAPRESP, 0, 1, enc(&OutputBitmapSegmentResponse { block_hash: mk_hash(1), segment: bs, output_root: mk_hash(2) }, 1).expect("bitmap"), "bitmap-segment-512");
		// the longest lists the small messages allow
		mk(E_PEERADDRS, 0, 1, enc(&PeerAddrs { peers: (0..256).map(|i| g_addr(&mut r, i % 2 == 0)).collect() }, 1).expect("peers"), "peeraddrs-256");
		mk(E_LOCATOR, 0, 1, enc(&Locator { hashes: (0..20).map(mk_hash).collect() }, 1).expect("locator"), "locator-20");
		let t = &uni().kern[15];
		if let Ok(p) = ReadonlyPMMR::<TxKernel, _>::at(&t.backend, t.size).merkle_proof(0) {
			let b = enc(&p, 1).expect("merkle");
			mk(E_MERKLE_HEX, 0, 1, hex(&b).into_bytes(), "merkle-proof-33-leaves");
			mk(E_MERKLE, 0, 1, b, "merkle-proof-33-leaves");
		}
		drop(mk);
		set_chain(0);
		v
	}

	// ------------------------------------------------------------------ running cases on the worker pool

	#[derive(Default)]
	struct Tally {
		evals: u64,
		classes: BTreeMap<String, u64>,
		shapes: Vec<u64>,
		/// entry -> (largest request, peak live, input length) over honest / calibration cases
		honest_max: BTreeMap<String, (u64, u64, u64)>,
		max_us: u64,
		slowest: String,
	}

	impl Tally {
		fn class(&mut self, c: String) {
			*self.classes.entry(c).or_insert(0) += 1;
		}
		fn merge(&mut self, o: Tally) {
			self.evals += o.evals;
			for (k, n) in o.classes {
				*self.classes.entry(k).or_insert(0) += n;
			}
			self.shapes.extend(o.shapes);
			for (k, v) in o.honest_max {
				let e = self.honest_max.entry(k).or_insert((0, 0, 0));
				if v.0 > e.0 {
					e.0 = v.0;
					e.2 = v.2;
				}
				e.1 = e.1.max(v.1);
			}
			if o.max_us > self.max_us {
				self.max_us = o.max_us;
				self.slowest = o.slowest;
			}
		}
	}

	fn account(t: &mut Tally, c: &Case, res: &Res) {
		let name = entry_name(c.entry);
		t.evals += 1;
		t.class(format!("mutation:{}", c.kind));
		match res {
			Res::Line(v) => {
				if !v["he"].is_null() {
					t.class(format!("harness_problem_in_worker:{}", name));
					return;
				}
				let s = v["s"].as_str().unwrap_or("?");
				let outcome = match s {
					"ok" => "decoded_ok",
					"err" => "decode_err",
					_ => "panic",
				};
				t.class(format!("entry:{}:{}", name, outcome));
				let (po, pe) = (v["po"].as_u64().unwrap_or(0), v["pe"].as_u64().unwrap_or(0));
				if po > 0 {
					t.class(format!("entry:{}:post_check_ok", name));
				}
				if pe > 0 {
					t.class(format!("entry:{}:post_check_err", name));
				}
				let ex = v["ex"].as_u64().unwrap_or(0);
				if ex > 0 {
					*t.classes.entry("excluded_by_construction:segment-leaf-offset>=2^63(validations skipped)".into()).or_insert(0) += ex;
				}
				if c.kind == "honest" && s != "ok" && !c.origin.starts_with("probe-") {
					eprintln!("note: honest case not decoded: {} {} v{} flags {}: {}", name, c.origin, c.version, c.flags, v);
					t.class(format!("honest_not_decoded:{}", name));
				}
				// non-trivial: got past the first field, or decoded and reached the post-decode checks
				if v["ok"].as_u64().unwrap_or(0) >= 1 || po + pe > 0 {
					t.shapes.push(hash_of(&(c.entry, c.kind, &c.fclass, outcome, po > 0, pe > 0)));
				}
				if c.kind == "honest" || c.kind == "calibrate" {
					let e = t.honest_max.entry(name.to_string()).or_insert((0, 0, 0));
					let (lg, pk) = (v["lg"].as_u64().unwrap_or(0), v["pk"].as_u64().unwrap_or(0));
					if lg > e.0 {
						e.0 = lg;
						e.2 = c.data.len() as u64;
					}
					e.1 = e.1.max(pk);
				}
				let us = v["us"].as_u64().unwrap_or(0);
				if us > t.max_us {
					t.max_us = us;
					t.slowest = format!("{} ({} bytes, {})", name, c.data.len(), c.kind);
				}
			}
			Res::Died { .. } => t.class(format!("entry:{}:process_died", name)),
			Res::Timeout => t.class(format!("entry:{}:watchdog", name)),
		}
	}

	pub struct Found {
		pub fail: Fail,
		pub case: Case,
	}

	/// run all cases on `procs` worker processes; returns failures and the cases that tripped the watchdog
	fn run_pool(ctx: &Ctx, cases: &[Case], procs: usize, dir: &Path) -> HResult<(Vec<Found>, Vec<Case>)> {
		let next = AtomicUsize::new(0);
		let found: Mutex<Vec<Found>> = Mutex::new(vec![]);
		let slow: Mutex<Vec<Case>> = Mutex::new(vec![]);
		let total: Mutex<Tally> = Mutex::new(Tally::default());
		let problems: Mutex<Vec<String>> = Mutex::new(vec![]);
		std::thread::scope(|sc| {
			for _ in 0..procs.max(1) {
				sc.spawn(|| {
					let mut t = Tally::default();
					let mut w = match Worker::spawn(dir) {
						Ok(w) => w,
						Err(e) => {
							problems.lock().unwrap().push(format!("cannot spawn worker: {}", e.0));
							return;
						}
					};
					loop {
						let i = next.fetch_add(1, Ordering::SeqCst);
						if i >= cases.len() {
							break;
						}
						let c = &cases[i];
						if !w.alive() {
							w = match Worker::spawn(dir) {
								Ok(w) => w,
								Err(e) => {
									problems.lock().unwrap().push(format!("cannot respawn worker: {}", e.0));
									return;
								}
							};
							t.class("worker_restarts".into());
						}
						let res = w.run(c, case_timeout());
						account(&mut t, c, &res);
						match &res {
							Res::Timeout => slow.lock().unwrap().push(c.clone()),
							_ => {
								if let Some(fail) = judge(c, &res) {
									found.lock().unwrap().push(Found { fail, case: c.clone() });
								}
							}
						}
					}
					total.lock().unwrap().merge(t);
				});
			}
		});
		if let Some(p) = problems.lock().unwrap().first() {
			return Err(HarnessError(p.clone()));
		}
		let t = total.into_inner().unwrap();
		{
			let mut g = ctx.ev.0.lock().unwrap();
			g.evaluations += t.evals;
			for (k, n) in &t.classes {
				*g.classes.entry(k.clone()).or_insert(0) += n;
			}
			for h in &t.shapes {
				g.shapes.insert(*h);
			}
		}
		merge_honest_max(ctx, &t);
		Ok((found.into_inner().unwrap(), slow.into_inner().unwrap()))
	}

	fn merge_honest_max(ctx: &Ctx, t: &Tally) {
		let mut g = ctx.ev.0.lock().unwrap();
		let mut cur: BTreeMap<String, Value> = g.extra.get("honest_alloc_max").and_then(|v| serde_json::from_value(v.clone()).ok()).unwrap_or_default();
		for (k, v) in &t.honest_max {
			let old = cur.get(k).map(|o| o["largest_request"].as_u64().unwrap_or(0)).unwrap_or(0);
			if v.0 >= old {
				cur.insert(k.clone(), json!({"largest_request": v.0, "peak_live": v.1, "input_len": v.2}));
			}
		}
		g.extra.insert("honest_alloc_max".into(), json!(cur));
		let old_us = g.extra.get("slowest_case_us").and_then(|v| v.as_u64()).unwrap_or(0);
		if t.max_us > old_us {
			g.extra.insert("slowest_case_us".into(), json!(t.max_us));
			g.extra.insert("slowest_case".into(), json!(t.slowest));
		}
	}

	/// a case that tripped the watchdog is re-run alone three times with a long limit
	fn rerun_alone(dir: &Path, c: &Case) -> HResult<Option<Res>> {
		let mut last = None;
		for _ in 0..3 {
			let mut w = Worker::spawn(dir)?;
			let res = w.run(c, alone_timeout());
			if !matches!(res, Res::Timeout) {
				return Ok(Some(res));
			}
			last = Some(res);
		}
		let _ = last;
		Ok(None)
	}

	/// one case in a fresh worker, strict: Err(Fail) on any violation
	pub fn check_case(dir: &Path, c: &Case) -> Result<Res, Fail> {
		let mut w = Worker::spawn(dir).map_err(|e| Fail::new("harness:spawn", e.0))?;
		let res = w.run(c, case_timeout());
		let res = if matches!(res, Res::Timeout) {
			match rerun_alone(dir, c).map_err(|e| Fail::new("harness:spawn", e.0))? {
				Some(r) => r,
				None => return Err(judge(c, &Res::Timeout).unwrap()),
			}
		} else {
			res
		};
		match judge(c, &res) {
			Some(f) => Err(f),
			None => Ok(res),
		}
	}

	/// shrink a failing input: shortest prefix, then zeroed bytes, keeping the signature
	fn minimise(dir: &Path, found: &Found) -> Case {
		let mut best = found.case.clone();
		let sig = &found.fail.sig;
		let Ok(mut w) = Worker::spawn(dir) else { return best };
		let mut runs = 0;
		let still = |w: &mut Worker, c: &Case, runs: &mut u32| -> bool {
			*runs += 1;
			if !w.alive() {
				match Worker::spawn(dir) {
					Ok(n) => *w = n,
					Err(_) => return false,
				}
			}
			if excluded_by_known(c.entry, c.flags, &c.data).is_some() {
				return false;
			}
			let res = w.run(c, case_timeout());
			judge(c, &res).map(|f| &f.sig == sig).unwrap_or(false)
		};
		let text = best.text();
		// shortest failing prefix (binary search, then linear refinement)
		let (mut lo, mut hi) = (0usize, best.data.len());
		while lo < hi && runs < 60 {
			let mid = (lo + hi) / 2;
			let mut c = best.clone();
			c.data.truncate(mid);
			if text && std::str::from_utf8(&c.data).is_err() {
				lo = mid + 1;
				continue;
			}
			if still(&mut w, &c, &mut runs) {
				hi = mid;
				best = c;
			} else {
				lo = mid + 1;
			}
		}
		// zero what can be zeroed (binary inputs)
		if !text {
			let n = best.data.len().min(200);
			for i in 0..n {
				if runs > 300 {
					break;
				}
				if best.data[i] == 0 {
					continue;
				}
				let mut c = best.clone();
				c.data[i] = 0;
				if still(&mut w, &c, &mut runs) {
					best = c;
				}
			}
		}
		best.kind = "minimised";
		best
	}

	fn report_found(ctx: &Ctx, dir: &Path, part: &str, found: Vec<Found>) {
		let mut by_sig: BTreeMap<String, Vec<Found>> = BTreeMap::new();
		for f in found {
			by_sig.entry(f.fail.sig.clone()).or_default().push(f);
		}
		for (sig, mut v) in by_sig {
			v.sort_by(|a, b| (a.case.directed.is_none(), a.case.data.len(), &a.case.data).cmp(&(b.case.directed.is_none(), b.case.data.len(), &b.case.data)));
			let n = v.len();
			let first = &v[0];
			let case = if first.case.directed.is_some() || ctx.is_known(&sig) { first.case.clone() } else { minimise(dir, first) };
			let mut j = case.to_json();
			j["occurrences_in_this_run"] = json!(n);
			ctx.report(part, &sig, j, &first.fail.msg);
			// further occurrences of an open known finding are counted, not reported one by one
			for _ in 1..n {
				ctx.known_hit(&sig);
			}
			ctx.ev.class_n(&format!("failing_cases:{}", sig), n as u64);
		}
	}

	// ------------------------------------------------------------------ run

	fn real_blocks(ctx: &Ctx) -> Vec<Block> {
		match crate::props::c02::base(ctx) {
			Ok(b) => b.world.nodes.iter().skip(1).map(|n| n.block.clone()).collect(),
			Err(e) => {
				eprintln!("warning: real-PoW base chain not available ({}); untrusted block/header entries get no honest seeds", e);
				vec![]
			}
		}
	}

	/// exclusions by construction follow the OPEN entries of KNOWN_FINDINGS.json
	fn exclusion_mask(ctx: &Ctx) -> u32 {
		let mut m = 0;
		if ctx.is_known(SIG_FRAME_CODEC) || ctx.is_known(SIG_FRAME_RM) {
			m |= X_FRAME;
		}
		if ctx.is_known(SIG_SEGWRAP) {
			m |= X_SEGWRAP;
		}
		m
	}

	pub fn run(ctx: &Ctx) -> HResult<()> {
		init_global();
		set_exclusions(exclusion_mask(ctx));
		let ev = &ctx.ev;
		ev.extra("exclusions_active", json!({"frame-announced-length": exclusions() & X_FRAME != 0, "segment-leaf-offset>=2^63": exclusions() & X_SEGWRAP != 0}));
		ev.rule("every case = (entry point, protocol version 1/2/3/1000, chain type, reader implementation, bytes or string) is decoded in a worker process under the counting allocator, then the stateless post-decode checks run on the value (validate_read, hydrate_from, into_segment, Segment::validate / validate_with against the roots of 16 MMR sizes with and without leaf bitmaps, SegmentProof::validate, MerkleProof::verify). Inputs: honest encodings of every type (synthetic values, objects of a real-PoW chain, segments cut by Segment::from_pmmr) whose field layout is recorded by a wrapping Reader; every u64/u32/u16 field set to boundary and huge values, leading u8 fields swept 0..255, truncation at every offset (short encodings) or every field boundary, every byte position set to 00/ff/+1/-1, bit flips, tails spliced from other messages, duplicated fields, appended bytes, random tails, pure random bytes/strings of length 0..4096; selected by water-filling over strata (entry, mutation kind) from the run seed. evaluations = inputs decoded; non-trivial = at least one successful primitive read (past the first field) or post-decode checks reached; distinct by (entry, mutation kind, field class, decode outcome, post-check outcomes)");
		ev.assume("allocation bounds pinned against honest maximal messages (calibration cases, re-measured in every run, see honest_alloc_max): a full mainnet block / body / maximal transaction of 1.37 MB needs a largest single request of 1.49 MB and 2.9 MB live; a 2048-leaf rangeproof segment of 1.46 MB needs 1.41 MB / 1.47 MB; a framed full block needs exactly its body length in one request: all far below 4 MiB + 64 x len and 16 MiB + 64 x len, so the designed constants were kept");
		ev.assume("the counting global allocator sees every heap request of the worker; a single request above 256 MiB is refused (the worker aborts, which is the observable), the address space of a worker is capped at 6 GiB");
		ev.assume("MMR sizes handed to Segment::validate are sizes of real MMRs (they come from a PoW-validated archive header); MerkleProof::verify is only measured for paths of at most 128 hashes");
		ev.assume("the two open known findings (message body buffered from the announced length in Codec::read_inner and msg::read_body / read_discard) are excluded by construction: framed inputs announcing more than 4 MiB (and no more than the 10.8 MB the header rule accepts for the largest message type) that are not in the input are not generated — longer announcements are generated and must be refused before anything is allocated, one directed case each is kept and reported through the known-findings list; the six repaired findings are no longer excluded anywhere: their directed cases are kept and must pass");
		ev.assume("StreamingReader (msg::read_item) has no caller on network data in this tree and is not an entry point; Codec::read is driven over a loopback socket whose write side is closed after the input, so read timeouts never fire");
		ev.extra("entry_points", json!(ENTRIES.iter().map(|e| e.name).collect::<Vec<_>>()));
		ev.extra("alloc_limits", json!({"largest_request": "4 MiB + 64 x len", "peak_live": "16 MiB + 64 x len", "hard_single_request": ALLOC_HARD_LIMIT}));
		let dir = ctx.scratch_dir("c11");
		let t0 = Instant::now();
		let real = real_blocks(ctx);
		ev.extra("real_blocks", json!(real.len()));
		let budget = ctx.n(400_000, 4_000_000) as usize;
		let g = generate(ctx.seed, budget, &real);
		ev.extra("honest_seed_encodings", json!(g.n_seeds));
		ev.extra("generation_s", json!(t0.elapsed().as_secs_f64()));
		for u in &g.undecodable {
			eprintln!("warning: honest seed does not decode: {}", u);
			ev.class("honest_seed_not_decodable");
		}
		for (k, n) in &g.excluded {
			ev.class_n(&format!("excluded_by_construction:{}", k), *n);
		}
		if let Some(c) = g.cases.iter().find(|c| c.kind == "u64-boundary") {
			ev.sample("decode", || c.to_json());
		}
		// 1. calibration (honest maximal messages) and the directed cases of known findings
		let mut pre = calibration_cases();
		let n_cal = pre.len();
		pre.extend(directed_cases());
		if sens("hang") {
			pre.push(Case { entry: E_PING, version: 1, flags: 0, data: b"HANG".to_vec(), kind: "sensitivity", fclass: "-".into(), origin: "deliberate hang".into(), directed: None });
		}
		let (found, slow) = run_pool(ctx, &pre, 4, &dir)?;
		let mut all_slow = slow;
		// a calibration case that violates the bounds means the constants are wrong for honest traffic
		let (cal_fail, directed): (Vec<Found>, Vec<Found>) = found.into_iter().partition(|f| f.case.kind == "calibrate");
		for f in &cal_fail {
			eprintln!("CALIBRATION: honest maximal message {} violates the oracle: {} {}", f.case.origin, f.fail.sig, f.fail.msg);
		}
		ev.extra("calibration_cases", json!(n_cal));
		let hit: Vec<&'static str> = directed.iter().filter_map(|f| f.case.directed).collect();
		for c in directed_cases() {
			if let Some(d) = c.directed {
				ev.class(&format!("directed:{}:{}", d, if hit.contains(&d) { "still-fails" } else { "passes" }));
			}
		}
		report_found(ctx, &dir, "directed", directed);
		report_found(ctx, &dir, "calibration", cal_fail);
		// 2. the generated cases
		let t1 = Instant::now();
		let (found, slow) = run_pool(ctx, &g.cases, WORKERS, &dir)?;
		all_slow.extend(slow);
		ev.extra("decode_wall_s", json!(t1.elapsed().as_secs_f64()));
		report_found(ctx, &dir, "decode", found);
		// 3. watchdog cases: alone, three times, long limit
		for c in all_slow {
			match rerun_alone(&dir, &c)? {
				None => {
					let f = judge(&c, &Res::Timeout).unwrap();
					ctx.report("decode", &f.sig, c.to_json(), &format!("{} (three runs alone exceeded {} s each)", f.msg, alone_timeout().as_secs()));
				}
				Some(res) => {
					ev.class("inconclusive_watchdog_then_finished_alone");
					if let Some(fail) = judge(&c, &res) {
						report_found(ctx, &dir, "decode", vec![Found { fail, case: c }]);
					}
				}
			}
		}
		// measured only: work of Segment::validate on a 33-byte segment as a function of the MMR size
		let mut walk = serde_json::Map::new();
		for lg in [10u32, 14, 18, 22] {
			match catch(|| validate_walk_probe(1u64 << lg)) {
				Ok((us, is_err)) => {
					walk.insert(format!("2^{}_leaves", lg), json!({"us": us, "answer": if is_err { "Err" } else { "Ok" }}));
				}
				Err(f) => ctx.report("directed", &format!("panic:Segment::validate@{}", rel_path(f.sig.trim_start_matches("panic@"))), json!({"probe": "validate_walk", "leaves_log2": lg}), &f.msg),
			}
		}
		ev.extra("segment_validate_walk_33_byte_segment_height63_empty_bitmap", Value::Object(walk));
		// 4. thorough: libFuzzer campaigns
		if !ctx.quick() {
			fuzz_campaigns(ctx, &real);
		}
		let _ = std::fs::remove_dir_all(&dir);
		Ok(())
	}

	pub fn part(_ctx: &Ctx, _part: &str, _seed: u64, _cases: u32) -> Option<(Value, Fail)> {
		None
	}

	pub fn replay(ctx: &Ctx, part: &str, case: &Value) -> PResult {
		init_global();
		// strict: nothing is skipped when a saved case is replayed
		set_exclusions(0);
		let dir = ctx.scratch_dir("c11-replay");
		let r = match part {
			"decode" | "directed" | "calibration" | "fuzz" => {
				let c = Case::from_json(case)?;
				check_case(&dir, &c).map(|_| ())
			}
			_ => Ok(()),
		};
		let _ = std::fs::remove_dir_all(&dir);
		r
	}

	// ------------------------------------------------------------------ E2: libFuzzer campaigns (thorough tier only)

	/// per target: (-max_len, -malloc_limit_mb, share of the run count)
	fn fuzz_params(group: &str) -> (usize, usize, f64) {
		match group {
			"msg_body" => (4096, 8, 1.0),
			"block_tx" => (16384, 8, 0.5),
			"header" => (2048, 8, 1.0),
			"segment" => (16384, 8, 0.25),
			"bitmap_segment" => (70000, 12, 0.25),
			"merkle_proof" => (8192, 8, 1.0),
			"framing" => (4096, 8, 1.0),
			"codec" => (8192, 8, 0.05),
			_ => (4096, 8, 0.1),
		}
	}

	/// seed corpus: every honest encoding (that fits the target's max_len) in the fuzz input format
	fn write_corpus(dir: &Path, seeds: &Seeds) -> std::io::Result<BTreeMap<String, usize>> {
		let mut n: BTreeMap<String, usize> = BTreeMap::new();
		for (i, s) in seeds.v.iter().enumerate() {
			let Some((group, bytes)) = fuzz_join(s.entry, s.version, s.flags, &s.data) else { continue };
			if bytes.len() > fuzz_params(group).0 {
				continue;
			}
			let d = dir.join(group);
			std::fs::create_dir_all(&d)?;
			std::fs::write(d.join(format!("seed-{:04}-{}", i, entry_name(s.entry).replace(|c: char| !c.is_ascii_alphanumeric(), "_"))), bytes)?;
			*n.entry(group.to_string()).or_insert(0) += 1;
		}
		Ok(n)
	}

	/// `gv child x C11 gen-corpus <dir>`
	fn gen_corpus_main(dir: &Path) -> i32 {
		init_global();
		let root = std::env::var("GV_ROOT").map(PathBuf::from).unwrap_or_else(|_| PathBuf::from("/verif"));
		let seed: u64 = std::env::var("VERIF_SEED").ok().and_then(|s| s.trim().parse::<i128>().ok()).map(|v| v as u64).unwrap_or(1);
		let ctx = Ctx::new("C11", Tier::Quick, seed, root, "exploration");
		let real = real_blocks(&ctx);
		let seeds = build_seeds(seed, &real);
		let r = write_corpus(dir, &seeds);
		ctx.cleanup();
		match r {
			Ok(n) => {
				eprintln!("corpus written to {}: {:?}", dir.display(), n);
				0
			}
			Err(e) => {
				eprintln!("cannot write corpus: {}", e);
				2
			}
		}
	}

	fn fuzz_dir() -> PathBuf {
		std::env::var("GV_C11_FUZZ_DIR").map(PathBuf::from).unwrap_or_else(|_| Path::new(env!("CARGO_MANIFEST_DIR")).join("fuzz"))
	}

	fn fuzz_build(fz: &Path) -> Result<PathBuf, String> {
		let harness = fz.parent().ok_or("fuzz dir has no parent")?;
		if !fz.join("Cargo.toml").exists() {
			return Err(format!("{} not found", fz.join("Cargo.toml").display()));
		}
		if !fz.join("Cargo.lock").exists() {
			std::fs::copy("/repo/Cargo.lock", fz.join("Cargo.lock")).map_err(|e| format!("cannot copy /repo/Cargo.lock: {}", e))?;
		}
		let out = Command::new("cargo")
			.args(["+nightly", "fuzz", "build", "-O"])
			.current_dir(harness)
			.env("CARGO_NET_OFFLINE", "true")
			.env("RUSTFLAGS", "--cfg grin_verif")
			.env_remove("CARGO_TARGET_DIR")
			.output()
			.map_err(|e| format!("cannot run cargo fuzz: {}", e))?;
		if !out.status.success() {
			let err = String::from_utf8_lossy(&out.stderr);
			let tail: Vec<&str> = err.lines().rev().take(12).collect();
			return Err(format!("cargo +nightly fuzz build -O failed: {}", tail.into_iter().rev().collect::<Vec<_>>().join(" | ")));
		}
		Ok(fz.join("target").join("x86_64-unknown-linux-gnu").join("release"))
	}

	fn crash_kind(stderr: &str) -> String {
		if let Some(l) = stderr.lines().find(|l| l.starts_with("C11 fuzz:")) {
			return truncate(l.trim_start_matches("C11 fuzz:").trim(), 160);
		}
		for (pat, k) in [("out-of-memory (malloc", "malloc-limit"), ("out-of-memory", "rss-limit"), ("timeout", "timeout"), ("stack-overflow", "stack-overflow"), ("deadly signal", "deadly-signal"), ("AddressSanitizer", "asan")] {
			if stderr.contains(pat) {
				return k.to_string();
			}
		}
		"crash".into()
	}

	fn fuzz_campaigns(ctx: &Ctx, real: &[Block]) {
		let ev = &ctx.ev;
		let fz = fuzz_dir();
		let t0 = Instant::now();
		let bins = match fuzz_build(&fz) {
			Ok(b) => b,
			Err(e) => {
				eprintln!("C11: libFuzzer campaigns SKIPPED: {}", e);
				ev.extra("fuzz_status", json!(format!("skipped: {}", e)));
				ev.class("fuzz_campaigns_skipped");
				return;
			}
		};
		ev.extra("fuzz_build_s", json!(t0.elapsed().as_secs_f64()));
		let work = ctx.scratch_dir("fuzz");
		let seeds = build_seeds(ctx.seed, real);
		let counts = match write_corpus(&work.join("corpus"), &seeds) {
			Ok(c) => c,
			Err(e) => {
				eprintln!("C11: libFuzzer campaigns SKIPPED: corpus: {}", e);
				ev.extra("fuzz_status", json!(format!("skipped: corpus: {}", e)));
				return;
			}
		};
		ev.extra("fuzz_seed_corpus", json!(counts));
		// sensitivity: an extra corpus file (e.g. the self-test input of fuzz/src/lib.rs)
		if let Ok(p) = std::env::var("GV_C11_FUZZ_EXTRA_SEED") {
			let _ = std::fs::copy(&p, work.join("corpus").join("msg_body").join("extra-seed"));
		}
		let runs_base = ctx.n(0, 2_000_000);
		let results: Mutex<Vec<(String, u64, f64, Vec<(PathBuf, String)>)>> = Mutex::new(vec![]);
		std::thread::scope(|sc| {
			for g in GROUPS {
				let (work, bins, results) = (&work, &bins, &results);
				sc.spawn(move || {
					let (max_len, malloc_mb, share) = fuzz_params(g);
					let runs = ((runs_base as f64) * share).ceil() as u64;
					let corpus = work.join("corpus").join(g);
					let arts = work.join("artifacts").join(g);
					let _ = std::fs::create_dir_all(&corpus);
					let _ = std::fs::create_dir_all(&arts);
					let t = Instant::now();
					let out = Command::new(bins.join(g))
						.arg(&corpus)
						.args([
							format!("-runs={}", runs),
							format!("-seed={}", (ctx.seed % 0xffff_ffff).max(1)),
							"-len_control=0".to_string(),
							format!("-max_len={}", max_len),
							format!("-malloc_limit_mb={}", malloc_mb),
							"-rss_limit_mb=3072".to_string(),
							"-timeout=20".to_string(),
							"-print_final_stats=1".to_string(),
							format!("-artifact_prefix={}/", arts.display()),
						])
						.env("RUST_BACKTRACE", "0")
						.env("GV_C11_EXCL", exclusions().to_string())
						.env("ASAN_OPTIONS", "detect_odr_violation=0:detect_leaks=0")
						.stdin(Stdio::null())
						.stdout(Stdio::null())
						.output();
					let (execs, crashes) = match out {
						Ok(o) => {
							let err = String::from_utf8_lossy(&o.stderr).to_string();
							let execs = err
								.lines()
								.find_map(|l| l.strip_prefix("stat::number_of_executed_units:").and_then(|n| n.trim().parse::<u64>().ok()))
								.unwrap_or(0);
							let mut crashes = vec![];
							if let Ok(rd) = std::fs::read_dir(&arts) {
								for e in rd.flatten() {
									crashes.push((e.path(), crash_kind(&err)));
								}
							}
							if !o.status.success() && crashes.is_empty() {
								crashes.push((PathBuf::new(), format!("exit {:?}: {}", o.status.code(), truncate(err.lines().last().unwrap_or(""), 160))));
							}
							(execs, crashes)
						}
						Err(e) => (0, vec![(PathBuf::new(), format!("cannot start target: {}", e))]),
					};
					results.lock().unwrap().push((g.to_string(), execs, t.elapsed().as_secs_f64(), crashes));
				});
			}
		});
		let dir = ctx.scratch_dir("c11-fuzz-replay");
		let mut res = results.into_inner().unwrap();
		res.sort_by(|a, b| a.0.cmp(&b.0));
		let mut summary = serde_json::Map::new();
		for (g, execs, secs, crashes) in res {
			ev.evals(execs);
			ev.class_n(&format!("fuzz_executions:{}", g), execs);
			ev.nontrivial(&("fuzz", &g));
			summary.insert(g.clone(), json!({"executions": execs, "seconds": secs, "crash_files": crashes.len()}));
			for (path, kind) in crashes {
				let bytes = std::fs::read(&path).unwrap_or_default();
				if path.as_os_str().is_empty() {
					ev.class(&format!("fuzz_target_problem:{}", g));
					eprintln!("C11: fuzz target {} ended abnormally without an artifact: {}", g, kind);
					continue;
				}
				// keep the artifact and re-run the input through the worker path for a canonical signature
				let keep = ctx.root.join("out").join("C11");
				let _ = std::fs::create_dir_all(&keep);
				let kept = keep.join(format!("fuzz-{}-{}", g, path.file_name().and_then(|f| f.to_str()).unwrap_or("artifact")));
				let _ = std::fs::copy(&path, &kept);
				match fuzz_split(g.as_str(), &bytes) {
					Some((entry, version, flags, data)) => {
						let c = Case { entry, version, flags, data: data.to_vec(), kind: "fuzz", fclass: "-".into(), origin: format!("libFuzzer:{}", g), directed: None };
						let mut j = c.to_json();
						j["artifact"] = json!(kept.display().to_string());
						j["libfuzzer_says"] = json!(kind);
						// an input excluded by construction never reaches the decoders inside the target
						let rerun = if excluded_by_known(entry, flags, data).is_some() { Ok(()) } else { check_case(&dir, &c).map(|_| ()) };
						match rerun {
							Err(f) => ctx.report("fuzz", &f.sig, j, &f.msg),
							Ok(_) => ctx.report("fuzz", &format!("fuzz-crash:{}:{}", g, kind.split(' ').next().unwrap_or("crash")), j, &format!("libFuzzer target {} crashed ({}) but the worker does not reproduce it", g, kind)),
						}
					}
					None => ctx.report("fuzz", &format!("fuzz-crash:{}:short-input", g), json!({"artifact": kept.display().to_string()}), &kind),
				}
			}
		}
		ev.extra("fuzz_campaigns", Value::Object(summary));
		ev.extra("fuzz_status", json!("ran"));
		let _ = std::fs::remove_dir_all(&work);
		let _ = std::fs::remove_dir_all(&dir);
	}
}
