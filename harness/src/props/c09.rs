//! C09 — a crash at any persistence step never bricks or corrupts the chain.
//!
//! Engine E3: for a scenario (prepared directory + in-flight action) a trace
//! run counts the durable steps N (cfg(grin_verif) crash points); then for
//! every n in 1..=N a child process runs the action on a copy of the
//! directory and dies at step n, and a second child reopens the directory
//! with Chain::init (the repository's own recovery path), validates,
//! re-delivers the scenario's chain above the reopened head and reports.

use crate::engine::*;
use crate::props::c02::{base, clone_world};
use crate::world::gen::*;
use crate::world::*;
use grin_chain::types::Options;
use grin_chain::Chain;
use grin_core::core::hash::{Hash, Hashed};
use grin_core::core::{Block, BlockHeader};
use grin_core::ser::{self, ProtocolVersion};
use grin_util::ToHex;
use proptest::prelude::*;
use serde_derive::{Deserialize, Serialize};
use serde_json::{json, Value};
use std::collections::BTreeSet;
use std::path::{Path, PathBuf};
use std::process::Command;

#[derive(Clone, Debug, Serialize, Deserialize, PartialEq)]
pub enum Action {
	/// deliver these blocks in order through process_block
	Blocks,
	/// deliver the headers of the action blocks through sync_block_headers
	Headers,
	/// run Chain::compact()
	Compact,
	/// Chain::compact() and then the action blocks
	CompactThenBlocks,
}

/// what the children need: everything as hex so they never touch the asset library
#[derive(Clone, Debug, Serialize, Deserialize)]
pub struct Scenario {
	pub kind: String,
	pub action: Action,
	/// in-flight inputs
	pub action_blocks: Vec<String>,
	/// every block of the world (parents first) — offered again after the crash
	pub all_blocks: Vec<String>,
	/// hashes of the blocks the head may legitimately be after the crash:
	/// the old head, the new head, and their ancestors
	pub allowed_heads: Vec<String>,
	/// two further blocks on the best chain of the uninterrupted run, delivered after the
	/// re-delivery: recovery must leave a node that carries on like one that never crashed
	#[serde(default)]
	pub continuation: Vec<String>,
	/// height of the head before the action (evidence only: how often recovery steps back below it)
	#[serde(default)]
	pub old_head_height: u64,
}

fn hex_block(b: &Block) -> String {
	ser::ser_vec(b, ProtocolVersion(1000)).expect("ser").to_hex()
}

fn unhex_block(s: &str) -> Block {
	let bytes = grin_util::from_hex(s).expect("hex");
	ser::deserialize(&mut &bytes[..], ProtocolVersion(1000), ser::DeserializationMode::default()).expect("block")
}

fn open_chain(dir: &Path) -> Result<Chain, String> {
	Chain::init(
		dir.to_string_lossy().to_string(),
		std::sync::Arc::new(RecAdapter::default()),
		genesis_block(),
		grin_core::pow::verify_size,
		false,
		None,
	)
	.map_err(|e| format!("{:?}", e))
}

fn roots_string(chain: &Chain) -> String {
	let tx = chain.txhashset();
	let r = tx.read().roots();
	match r {
		Ok(r) => format!("{:?}/{:?}/{:?}/{:?}", r.output_roots.pmmr_root, r.output_roots.bitmap_root, r.rproof_root, r.kernel_root),
		Err(e) => format!("roots error {:?}", e),
	}
}

fn unspent_digest(chain: &Chain) -> String {
	let mut v: Vec<Vec<u8>> = vec![];
	let mut start = 1u64;
	loop {
		match chain.unspent_outputs_by_pmmr_index(start, 500, None) {
			Ok((last, max, outs)) => {
				for o in &outs {
					v.push(o.commitment().0.to_vec());
				}
				if outs.is_empty() || last >= max {
					break;
				}
				start = last + 1;
			}
			Err(e) => return format!("enum error {:?}", e),
		}
	}
	v.sort();
	let refs: Vec<&[u8]> = v.iter().map(|x| &x[..]).collect();
	crate::refmmr::blake(&refs).to_vec().to_hex()
}

fn perform(chain: &Chain, sc: &Scenario) -> Result<(), String> {
	let blocks: Vec<Block> = sc.action_blocks.iter().map(|h| unhex_block(h)).collect();
	match sc.action {
		Action::Blocks => {
			for b in blocks {
				chain.process_block(b, Options::NONE).map_err(|e| format!("{:?}", e))?;
			}
		}
		Action::Headers => {
			let hs: Vec<BlockHeader> = blocks.iter().map(|b| b.header.clone()).collect();
			let sync_head = chain.header_head().map_err(|e| format!("{:?}", e))?;
			chain.sync_block_headers(&hs, sync_head, Options::NONE).map_err(|e| format!("{:?}", e))?;
		}
		Action::Compact => chain.compact().map_err(|e| format!("{:?}", e))?,
		Action::CompactThenBlocks => {
			chain.compact().map_err(|e| format!("{:?}", e))?;
			for b in blocks {
				chain.process_block(b, Options::NONE).map_err(|e| format!("{:?}", e))?;
			}
		}
	}
	Ok(())
}

/// `gv child crash run <scenario.json> <dir>`: open, arm, perform (may die)
/// `gv child crash check <scenario.json> <dir> <out.json>`: reopen and report
pub fn child(args: &[String]) -> i32 {
	init_global();
	let sc: Scenario = match std::fs::read_to_string(&args[1]).ok().and_then(|s| serde_json::from_str(&s).ok()) {
		Some(s) => s,
		None => return 3,
	};
	let dir = PathBuf::from(&args[2]);
	match args[0].as_str() {
		"run" => {
			grin_util::verif::arm(false);
			let chain = match open_chain(&dir) {
				Ok(c) => c,
				Err(e) => {
					eprintln!("run child: init failed: {}", e);
					return 4;
				}
			};
			grin_util::verif::reset();
			grin_util::verif::arm(true);
			let r = perform(&chain, &sc);
			grin_util::verif::arm(false);
			match r {
				Ok(()) => 0,
				Err(e) => {
					eprintln!("run child: action failed: {}", e);
					5
				}
			}
		}
		"check" => {
			grin_util::verif::arm(false);
			let out = PathBuf::from(&args[3]);
			let mut rep = serde_json::Map::new();
			let res = catch(|| {
				let chain = match open_chain(&dir) {
					Ok(c) => c,
					Err(e) => {
						rep.insert("init".into(), json!(format!("ERR {}", e)));
						return;
					}
				};
				rep.insert("init".into(), json!("ok"));
				let head = chain.head().map(|t| (t.height, t.last_block_h.to_hex())).map_err(|e| format!("{:?}", e));
				rep.insert("head".into(), json!(head));
				rep.insert("header_head".into(), json!(chain.header_head().map(|t| (t.height, t.last_block_h.to_hex())).map_err(|e| format!("{:?}", e))));
				rep.insert("validate".into(), json!(chain.validate(false).map_err(|e| format!("{:?}", e))));
				// every best-chain block must be readable
				let mut missing = vec![];
				if let Ok(t) = chain.head() {
					let tail_h = chain.tail().map(|t| t.height).unwrap_or(0);
					let mut h = t.last_block_h;
					loop {
						let hdr = match chain.get_block_header(&h) {
							Ok(x) => x,
							Err(_) => {
								missing.push(format!("header {}", h.to_hex()));
								break;
							}
						};
						if hdr.height < tail_h.max(1) {
							break;
						}
						if chain.get_block(&h).is_err() {
							missing.push(format!("block at {}", hdr.height));
						}
						if chain.get_block_sums(&h).is_err() {
							missing.push(format!("sums at {}", hdr.height));
						}
						if hdr.height == 0 {
							break;
						}
						h = hdr.prev_hash;
					}
				}
				rep.insert("missing".into(), json!(missing));
				rep.insert("unspent_before".into(), json!(unspent_digest(&chain)));
				// re-deliver: the action again (compaction), then every block of the world
				let mut redeliver_errors = vec![];
				if sc.action == Action::Compact || sc.action == Action::CompactThenBlocks {
					if let Err(e) = chain.compact() {
						redeliver_errors.push(format!("compact: {:?}", e));
					}
				}
				if sc.action == Action::Headers {
					for hx in &sc.action_blocks {
						let b = unhex_block(hx);
						if let Err(e) = chain.process_block_header(&b.header, Options::NONE) {
							redeliver_errors.push(format!("header h={}: {:?}", b.header.height, e));
						}
					}
				}
				rep.insert("tail_after_action".into(), json!(chain.tail().map(|t| t.height).map_err(|e| format!("{:?}", e))));
				// offer every block of the world above the reopened head, parents first
				// (recovery may have stepped back and deleted blocks; blocks at or
				// below the reopened head are either present or behind the horizon)
				let reopened_h = chain.head().map(|t| t.height).unwrap_or(0);
				for hx in &sc.all_blocks {
					let b = unhex_block(hx);
					if b.header.height <= reopened_h {
						continue;
					}
					if sc.action == Action::Headers && sc.action_blocks.contains(hx) {
						continue; // header-only scenario: bodies of the fork were never delivered
					}
					match chain.process_block(b.clone(), Options::NONE) {
						Ok(_) => {}
						Err(grin_chain::Error::Unfit(_)) => {}
						Err(e) => redeliver_errors.push(format!("block h={} {}: {:?}", b.header.height, b.hash().to_hex(), e)),
					}
				}
				rep.insert("redeliver_errors".into(), json!(redeliver_errors));
				rep.insert("final_head".into(), json!(chain.head().map(|t| (t.height, t.last_block_h.to_hex())).map_err(|e| format!("{:?}", e))));
				rep.insert("final_header_head".into(), json!(chain.header_head().map(|t| (t.height, t.last_block_h.to_hex())).map_err(|e| format!("{:?}", e))));
				rep.insert("final_roots".into(), json!(roots_string(&chain)));
				rep.insert("final_unspent".into(), json!(unspent_digest(&chain)));
				rep.insert("final_validate".into(), json!(chain.validate(false).map_err(|e| format!("{:?}", e))));
				// carry on: two more blocks, then the chain as looked up by height (header MMR) and by hash
				let mut cont_errors = vec![];
				for hx in &sc.continuation {
					let b = unhex_block(hx);
					if let Err(e) = chain.process_block(b.clone(), Options::NONE) {
						cont_errors.push(format!("block h={}: {:?}", b.header.height, e));
					}
				}
				rep.insert("continuation_errors".into(), json!(cont_errors));
				rep.insert("continued_head".into(), json!(chain.head().map(|t| (t.height, t.last_block_h.to_hex())).map_err(|e| format!("{:?}", e))));
				let top = chain.header_head().map(|t| t.height).unwrap_or(0);
				let by_height: Vec<String> = (0..=top)
					.map(|h| match chain.get_header_by_height(h) {
						Ok(hd) => format!("{}:{}:{}", h, hd.hash().to_hex(), hd.height),
						Err(e) => format!("{}:ERR {:?}", h, e),
					})
					.collect();
				rep.insert("continued_by_height".into(), json!(by_height));
				rep.insert("continued_roots".into(), json!(roots_string(&chain)));
			});
			if let Err(f) = res {
				rep.insert("panic".into(), json!(f.msg));
			}
			let _ = std::fs::write(&out, serde_json::to_string(&Value::Object(rep)).unwrap());
			0
		}
		_ => 2,
	}
}

// ------------------------------------------------------------------ scenarios

#[derive(Clone, Debug, Serialize, Deserialize)]
pub struct Recipe {
	/// 0 extension, 1 losing fork block, 2 reorg with spends, 3 header-only reorg,
	/// 4 compaction, 5 compaction then block
	pub kind: u8,
	pub on_base: bool,
	/// blocks applied before the action (beyond the start state)
	pub pre: Vec<RawBlock>,
	/// the in-flight blocks
	pub act: Vec<RawBlock>,
}

fn spendy_block(parent: u8, picks: Vec<u16>, kern: u8) -> RawBlock {
	RawBlock {
		parent,
		cb_key: 0,
		txs: picks
			.into_iter()
			.map(|p| RawTx {
				ins: vec![p],
				outs: vec![RawOut { kind: 0, amt: 1, key: 2 }, RawOut { kind: 0, amt: 0, key: 3 }],
				fee: 1,
				kern,
				zero_offset: false,
				chain_prev: false,
			})
			.collect(),
		dt: 60,
		diff: 1,
		neg: Neg::None,
		neg_pick: 0,
			hdr: 0,
			inp: 0,
	}
}

fn empty_block(parent: u8, cb_key: u8) -> RawBlock {
	RawBlock {
		parent,
		cb_key,
		txs: vec![],
		dt: 60,
		diff: 1,
		neg: Neg::None,
		neg_pick: 0,
			hdr: 0,
			inp: 0,
	}
}

/// the fixed scenarios of the statement
pub fn fixed_recipes() -> Vec<Recipe> {
	vec![
		// plain extension with two spends (one recent, one old output)
		Recipe {
			kind: 0,
			on_base: false,
			pre: (0..8).map(|i| if i % 2 == 1 && i > 3 { spendy_block(0, vec![60000], 0) } else { empty_block(0, 0) }).collect(),
			act: vec![spendy_block(0, vec![0, 65000], 0)],
		},
		// fork block that does not win
		Recipe {
			kind: 1,
			on_base: false,
			pre: (0..7).map(|i| if i == 5 { spendy_block(0, vec![0], 0) } else { empty_block(0, 0) }).collect(),
			act: vec![spendy_block(102, vec![30000], 0)],
		},
		// reorg with spends on both sides: main has 2 spending blocks, the fork 3
		Recipe {
			kind: 2,
			on_base: false,
			pre: {
				let mut v: Vec<RawBlock> = (0..6).map(|_| empty_block(0, 0)).collect();
				v.push(spendy_block(0, vec![0], 0));
				v.push(spendy_block(0, vec![0], 0));
				v.push({
					let mut b = spendy_block(102, vec![20000], 0);
					b.cb_key = 1;
					b
				});
				v.push({
					let mut b = spendy_block(1, vec![40000], 0);
					b.cb_key = 1;
					b
				});
				v
			},
			act: vec![{
				let mut b = spendy_block(1, vec![10000], 0);
				b.cb_key = 1;
				b
			}],
		},
		// header-only reorg: headers of a longer fork arrive through sync_block_headers
		Recipe {
			kind: 3,
			on_base: false,
			pre: (0..6).map(|_| empty_block(0, 0)).collect(),
			act: vec![empty_block(102, 1), empty_block(1, 1), empty_block(1, 1), empty_block(1, 1)],
		},
		// compaction of the 90-block base chain
		Recipe {
			kind: 4,
			on_base: true,
			pre: vec![],
			act: vec![],
		},
		// compaction followed by a block with an old and a recent spend
		Recipe {
			kind: 5,
			on_base: true,
			pre: vec![],
			act: vec![spendy_block(0, vec![0, 64000], 0)],
		},
	]
}

fn recipe_strategy() -> impl Strategy<Value = Recipe> {
	(
		0u8..6,
		prop::collection::vec(raw_block(0), 6..12),
		prop::collection::vec(raw_block(0), 1..3),
		1u8..4,
	)
		.prop_map(|(kind, mut pre, mut act, d)| {
			for b in pre.iter_mut() {
				b.parent = 0;
			}
			match kind {
				0 | 5 => {
					act.truncate(1);
					act[0].parent = 0;
				}
				1 => {
					act.truncate(1);
					act[0].parent = 100 + d;
				}
				2 => {
					// a fork of d+1 blocks: all but the last are part of the prepared state
					let mut fork: Vec<RawBlock> = (0..=d).map(|i| {
						let mut b = act[i as usize % act.len()].clone();
						b.parent = if i == 0 { 100 + d } else { 1 };
						b.cb_key = 1;
						b
					}).collect();
					let last = fork.pop().unwrap();
					pre.extend(fork);
					act = vec![last];
				}
				3 => {
					act = (0..=d).map(|i| empty_block(if i == 0 { 100 + d } else { 1 }, 1)).collect();
				}
				_ => act.clear(),
			}
			Recipe {
				kind,
				on_base: kind >= 4,
				pre,
				act,
			}
		})
}

struct Prepared {
	dir: PathBuf,
	scenario: Scenario,
}

fn kind_name(k: u8) -> &'static str {
	match k {
		0 => "extension",
		1 => "losing-fork-block",
		2 => "reorg-with-spends",
		3 => "header-only-reorg",
		4 => "compaction",
		_ => "compaction-then-block",
	}
}

/// build the prepared directory and the scenario description
fn prepare(ctx: &Ctx, r: &Recipe) -> Result<Prepared, Fail> {
	init_thread();
	let dir = ctx.scratch_dir("c09prep");
	let (mut cb, mut w, mut head) = if r.on_base {
		let b = base(ctx).map_err(|e| Fail::new("harness:base", e))?;
		copy_dir(&b.dir, &dir).map_err(|e| Fail::new("harness:copy", e.to_string()))?;
		let cb = ChainBox::open(&dir).map_err(|e| Fail::new("init-base-copy", e))?;
		let w = clone_world(&b.world);
		let h = w.nodes.len() - 1;
		(cb, w, h)
	} else {
		let cb = ChainBox::open(&dir).map_err(|e| Fail::new("init-fresh", e))?;
		let w = World::new(&cb.genesis, true);
		(cb, w, 0)
	};
	for (i, raw) in r.pre.iter().enumerate() {
		let built = w.build(cb.c(), raw, head).map_err(|e| Fail::new("builder", format!("pre {}: {}", i, e)))?;
		let Ok(m) = built.verdict.clone() else { continue };
		match cb.c().process_block(built.block.clone(), Options::NONE) {
			Ok(tip) => {
				let n = w.push(&built, m);
				if tip.is_some() {
					head = n;
				}
			}
			Err(e) => return Err(Fail::new("valid-block-rejected", format!("pre {}: {}", i, err_name(&e)))),
		}
	}
	let old_head = head;
	// build the action blocks on a scratch copy so that the prepared state stays "before"
	let mut action_blocks = vec![];
	let mut new_nodes: Vec<usize> = vec![];
	let mut continuation: Vec<String> = vec![];
	let mut n_world = w.nodes.len();
	if !r.act.is_empty() {
		let scratch = ctx.scratch_dir("c09build");
		cb.close();
		copy_dir(&dir, &scratch).map_err(|e| Fail::new("harness:copy", e.to_string()))?;
		let sb = ChainBox::open(&scratch).map_err(|e| Fail::new("init-copy", e))?;
		let mut h2 = head;
		for (i, raw) in r.act.iter().enumerate() {
			let built = w.build(sb.c(), raw, h2).map_err(|e| Fail::new("builder", format!("act {}: {}", i, e)))?;
			let Ok(m) = built.verdict.clone() else {
				return Err(Fail::new("harness:bad-recipe", "action block invalid in model"));
			};
			match sb.c().process_block(built.block.clone(), Options::NONE) {
				Ok(tip) => {
					let n = w.push(&built, m);
					new_nodes.push(n);
					if tip.is_some() {
						h2 = n;
					}
					action_blocks.push(hex_block(&built.block));
				}
				Err(e) => return Err(Fail::new("valid-block-rejected", format!("act {}: {}", i, err_name(&e)))),
			}
		}
		// continuation: two empty blocks on whatever is the head after the action (pushed into the world
		// only so that the second can be built on the first; they are not part of all_blocks)
		n_world = w.nodes.len();
		if let Ok(t) = sb.c().head() {
			if let Some(mut tip) = (0..w.nodes.len()).find(|i| w.nodes[*i].hash() == t.last_block_h) {
				for i in 0..2u8 {
					let built = w.build(sb.c(), &empty_block(0, 3), tip).map_err(|e| Fail::new("builder", format!("continuation {}: {}", i, e)))?;
					let Ok(m) = built.verdict.clone() else { break };
					if sb.c().process_block(built.block.clone(), Options::NONE).is_err() {
						break;
					}
					continuation.push(hex_block(&built.block));
					tip = w.push(&built, m);
				}
			}
		}
		drop(sb);
	} else {
		cb.close();
	}
	// allowed heads: ancestors of the old head and of every new node
	let mut allowed: BTreeSet<String> = BTreeSet::new();
	let mut tips = vec![old_head];
	tips.extend(new_nodes.iter().cloned());
	for t in tips {
		let mut a = t;
		loop {
			allowed.insert(w.nodes[a].hash().to_hex());
			if a == 0 {
				break;
			}
			a = w.nodes[a].parent;
		}
	}
	let all_blocks: Vec<String> = w.nodes.iter().take(n_world).skip(1).map(|n| hex_block(&n.block)).collect();
	let scenario = Scenario {
		kind: kind_name(r.kind).to_string(),
		action: match r.kind {
			3 => Action::Headers,
			4 => Action::Compact,
			5 => Action::CompactThenBlocks,
			_ => Action::Blocks,
		},
		action_blocks,
		all_blocks,
		allowed_heads: allowed.into_iter().collect(),
		continuation,
		old_head_height: w.nodes[old_head].height(),
	};
	std::mem::forget(cb); // keep the directory
	Ok(Prepared { dir, scenario })
}

fn run_child(args: &[&str], envs: &[(&str, String)]) -> std::io::Result<std::process::ExitStatus> {
	let exe = std::env::current_exe()?;
	let mut c = Command::new(exe);
	c.arg("child").arg("crash").args(args);
	for (k, v) in envs {
		c.env(k, v);
	}
	c.stdin(std::process::Stdio::null()).stdout(std::process::Stdio::null()).stderr(std::process::Stdio::null());
	c.status()
}

fn read_json(p: &Path) -> Option<Value> {
	std::fs::read_to_string(p).ok().and_then(|s| serde_json::from_str(&s).ok())
}

/// enumerate every crash point of one scenario
pub fn sweep(ctx: &Ctx, r: &Recipe, counting: bool) -> PResult {
	let ev = &ctx.ev;
	let prep = prepare(ctx, r)?;
	let work = ctx.scratch_dir("c09work");
	let scf = work.join("scenario.json");
	std::fs::write(&scf, serde_json::to_string(&prep.scenario).unwrap()).map_err(|e| Fail::new("harness:io", e.to_string()))?;
	// reference (uninterrupted) run with a trace
	let refdir = work.join("ref");
	copy_dir(&prep.dir, &refdir).map_err(|e| Fail::new("harness:copy", e.to_string()))?;
	let trace = work.join("trace.txt");
	let st = run_child(&["run", scf.to_str().unwrap(), refdir.to_str().unwrap()], &[("GRIN_VERIF_CRASH_TRACE", trace.to_string_lossy().to_string()), ("GRIN_VERIF_CRASH_AT", "0".into())]).map_err(|e| Fail::new("harness:spawn", e.to_string()))?;
	if !st.success() {
		return Err(Fail::new("uninterrupted-run-failed", format!("{}: the uninterrupted action failed: {:?}", prep.scenario.kind, st)));
	}
	let labels: Vec<String> = std::fs::read_to_string(&trace).unwrap_or_default().lines().map(|l| l.splitn(2, ' ').nth(1).unwrap_or("").to_string()).collect();
	let n_points = labels.len();
	let refout = work.join("ref.json");
	run_child(&["check", scf.to_str().unwrap(), refdir.to_str().unwrap(), refout.to_str().unwrap()], &[]).map_err(|e| Fail::new("harness:spawn", e.to_string()))?;
	let Some(reference) = read_json(&refout) else {
		return Err(Fail::new("harness:ref-report", "no reference report"));
	};
	if reference["init"] != json!("ok") || !reference["final_validate"]["Ok"].is_null() && reference["final_validate"].get("Err").is_some() {
		return Err(Fail::new("uninterrupted-run-invalid", format!("reference run does not reopen/validate: {}", reference)));
	}
	let _ = std::fs::remove_dir_all(&refdir);
	if counting {
		ev.class(&format!("scenario:{}", prep.scenario.kind));
		ev.class_n("crash_points_total", n_points as u64);
		ev.sample(&prep.scenario.kind, || json!({"kind": prep.scenario.kind, "points": n_points, "labels": labels.iter().take(40).collect::<Vec<_>>()}));
	}
	// all points, 16 at a time
	let fails: std::sync::Mutex<Vec<(usize, Fail)>> = std::sync::Mutex::new(vec![]);
	let next = std::sync::atomic::AtomicUsize::new(1);
	std::thread::scope(|sc| {
		for _ in 0..16usize.min(n_points.max(1)) {
			sc.spawn(|| loop {
				let n = next.fetch_add(1, std::sync::atomic::Ordering::SeqCst);
				if n > n_points {
					break;
				}
				let d = work.join(format!("p{}", n));
				let out = work.join(format!("p{}.json", n));
				let r = (|| -> PResult {
					copy_dir(&prep.dir, &d).map_err(|e| Fail::new("harness:copy", e.to_string()))?;
					let st = run_child(&["run", scf.to_str().unwrap(), d.to_str().unwrap()], &[("GRIN_VERIF_CRASH_AT", n.to_string())]).map_err(|e| Fail::new("harness:spawn", e.to_string()))?;
					if st.success() {
						return Err(Fail::new("harness:no-crash", format!("point {} was not reached", n)));
					}
					run_child(&["check", scf.to_str().unwrap(), d.to_str().unwrap(), out.to_str().unwrap()], &[]).map_err(|e| Fail::new("harness:spawn", e.to_string()))?;
					let Some(rep) = read_json(&out) else {
						return Err(Fail::new("recovery-process-died", "the reopening process died without a report".to_string()));
					};
					if counting {
						if let Some(h) = rep["head"]["Ok"].get(0).and_then(|x| x.as_u64()) {
							if h < prep.scenario.old_head_height {
								ev.class("restarts_with_head_below_the_old_head(allowed: an ancestor)");
							}
						}
					}
					judge(&prep.scenario, &reference, &rep).map_err(|f| {
						Fail::new(
							f.sig,
							format!(
								"{} [reopened head {} header_head {} tail {} validate {}]",
								f.msg,
								rep["head"],
								rep["header_head"],
								rep["tail_after_action"],
								rep["validate"]
							),
						)
					})
				})();
				let _ = std::fs::remove_dir_all(&d);
				let _ = std::fs::remove_file(&out);
				if counting {
					ev.eval();
					let inside = n > 1 && n < n_points;
					if inside {
						ev.nontrivial(&(prep.scenario.kind.clone(), labels[n - 1].clone(), n));
					}
				}
				if let Err(f) = r {
					let before = if n >= 2 { labels[n - 2].as_str() } else { "start" };
					let at = labels[n - 1].as_str();
					// a finding is identified by the scenario kind, the durable step the process died at, the
					// last durable step completed on ANOTHER file (or none) before it — together they say which
					// files are already in their new state and which are not — and the failure class
					let file_of = |l: &str| l.rsplit(':').next().filter(|x| x.contains('/')).unwrap_or("").to_string();
					let at_file = file_of(at);
					let prev_other = labels[..n - 1].iter().rev().find(|l| file_of(l) != at_file).map(|l| l.as_str()).unwrap_or("start");
					let sig = format!("{}|{}|after:{}|{}", prep.scenario.kind, at, prev_other, f.sig);
					fails.lock().unwrap().push((n, Fail::new(sig, format!("crash at point {} of {} ('{}'), last completed '{}': {}", n, n_points, at, before, f.msg))));
				}
			});
		}
	});
	let _ = std::fs::remove_dir_all(&work);
	let _ = std::fs::remove_dir_all(&prep.dir);
	let mut fails = fails.into_inner().unwrap();
	fails.sort_by_key(|x| x.0);
	// known findings are keyed by (scenario, last completed label, crash label, failure class)
	if let Ok(p) = std::env::var("GV_C09_COLLECT") {
		use std::io::Write;
		if let Ok(mut fh) = std::fs::OpenOptions::new().create(true).append(true).open(p) {
			for (n, f) in &fails {
				let _ = writeln!(fh, "{}\t{}\t{}", f.sig, n, truncate(&f.msg, 300).replace('\n', " "));
			}
		}
	}
	let mut unknown: Vec<Fail> = vec![];
	for (_, f) in fails {
		if ctx.known_hit(&f.sig) {
			continue;
		}
		if !unknown.iter().any(|u| u.sig == f.sig) {
			unknown.push(f);
		}
	}
	if unknown.is_empty() {
		return Ok(());
	}
	// one failure per distinct signature; the first is returned, the others are attached
	let mut first = unknown.remove(0);
	if !unknown.is_empty() {
		first.msg = format!("{} || further distinct failing points of this scenario: {}", first.msg, unknown.iter().map(|u| u.sig.clone()).collect::<Vec<_>>().join(" ;; "));
	}
	Err(first)
}

/// which group of files a crash-point label refers to
fn file_group(label: &str) -> Option<&'static str> {
	for (pat, g) in [
		("header_head/", "header-mmr-files"),
		("header_extending", "header-mmr-files"),
		("output/", "txhashset-files"),
		("rangeproof/", "txhashset-files"),
		("kernel/", "txhashset-files"),
		("txhashset.extending", "txhashset-files"),
	] {
		if label.contains(pat) {
			return Some(g);
		}
	}
	None
}

fn judge(sc: &Scenario, reference: &Value, rep: &Value) -> PResult {
	if let Some(p) = rep.get("panic") {
		return Err(Fail::new("recovery-panicked", format!("{}", p)));
	}
	let init = rep["init"].as_str().unwrap_or("?");
	if init != "ok" {
		// class = error variant + message words, without hashes/numbers
		let slug: String = init
			.trim_start_matches("ERR ")
			.split(|c: char| !c.is_ascii_alphabetic())
			.filter(|w| !w.is_empty())
			.filter(|w| !(w.len() >= 8 && w.chars().all(|c| c.is_ascii_hexdigit())))
			.take(7)
			.collect::<Vec<_>>()
			.join("-");
		// cut after the word "hash" (what follows is a block hash fragment)
		let slug = match slug.find("-hash") {
			Some(i) => slug[..i + 5].to_string(),
			None => slug,
		};
		return Err(Fail::new(format!("init-fails:{}", slug), format!("Chain::init on the directory left by the crash: {}", init)));
	}
	let head = &rep["head"]["Ok"];
	let hh = head.get(1).and_then(|x| x.as_str()).unwrap_or("");
	if !sc.allowed_heads.iter().any(|a| a == hh) {
		return Err(Fail::new("head-not-on-accepted-chain", format!("reopened head {} is neither the old head, the new head nor an ancestor", head)));
	}
	if rep["validate"].get("Err").is_some() {
		return Err(Fail::new("reopened-state-invalid", format!("validate(false) after reopen: {}", rep["validate"]["Err"])));
	}
	if rep["missing"].as_array().map(|a| !a.is_empty()).unwrap_or(false) {
		return Err(Fail::new("best-chain-data-missing", format!("best-chain records missing after reopen: {}", rep["missing"])));
	}
	if rep["redeliver_errors"].as_array().map(|a| !a.is_empty()).unwrap_or(true) {
		return Err(Fail::new("redelivery-rejected", format!("re-delivering the chain above the reopened head failed: {}", rep["redeliver_errors"])));
	}
	for k in ["final_head", "final_roots", "final_unspent"] {
		if rep[k] != reference[k] {
			return Err(Fail::new(format!("differs-from-uninterrupted:{}", k), format!("{} after re-delivery {} != uninterrupted {}", k, rep[k], reference[k])));
		}
	}
	if sc.action == Action::Headers && rep["final_header_head"] != reference["final_header_head"] {
		return Err(Fail::new("differs-from-uninterrupted:final_header_head", format!("{} vs {}", rep["final_header_head"], reference["final_header_head"])));
	}
	if rep["final_validate"].get("Err").is_some() {
		return Err(Fail::new("final-state-invalid", format!("validate(false) after re-delivery: {}", rep["final_validate"]["Err"])));
	}
	if !sc.continuation.is_empty() && reference["continuation_errors"].as_array().map(|a| a.is_empty()).unwrap_or(false) {
		if rep["continuation_errors"].as_array().map(|a| !a.is_empty()).unwrap_or(true) {
			return Err(Fail::new("continuation-rejected", format!("blocks extending the chain after recovery and re-delivery are refused: {}", rep["continuation_errors"])));
		}
		for k in ["continued_head", "continued_roots", "continued_by_height"] {
			if rep[k] != reference[k] {
				return Err(Fail::new(format!("differs-from-uninterrupted:{}", k), format!("{} after two further blocks {} != uninterrupted {}", k, rep[k], reference[k])));
			}
		}
	}
	Ok(())
}

pub fn run(ctx: &Ctx) -> HResult<()> {
	init_global();
	let ev = &ctx.ev;
	ev.rule("scenarios (6 fixed: plain extension, losing fork block, reorg with spends on both sides, header-only reorg, compaction, compaction then block; plus proptest-generated variations of contents, fork depth and spend ages); for each scenario EVERY durable step (file truncate/write/fsync, temp-file rename, file replace, LMDB commit incl. nested, MMR syncs) is enumerated: a child process dies at step n (abort, nothing flushed), a second child reopens with Chain::init, validates, checks best-chain records, re-delivers the scenario's chain above the reopened head and is compared with the uninterrupted run; non-trivial = crash point strictly inside the scenario's persist sequence; distinct by (scenario kind, label, ordinal)");
	ev.assume("crash = process death at an instrumented point: data already handed to the kernel survives, user-space buffers do not; torn sectors / lost fsyncs are out of scope");
	ev.set_exhaustive(true);
	base(ctx).map_err(HarnessError)?;
	let mut recipes = fixed_recipes();
	let extra = ctx.n(6, 60);
	for k in 0..extra {
		recipes.push(sample_one(ctx.derive_seed("recipe", k), &recipe_strategy()));
	}
	for (i, r) in recipes.iter().enumerate() {
		match catch(|| sweep(ctx, r, true)) {
			Ok(Ok(())) => {}
			Ok(Err(f)) | Err(f) => {
				if f.sig.starts_with("harness:") {
					ev.class("scenarios_skipped_harness");
					eprintln!("scenario {} skipped: {} {}", i, f.sig, f.msg);
					continue;
				}
				ctx.report("sweep", &f.sig, serde_json::to_value(r).unwrap(), &f.msg);
			}
		}
	}
	Ok(())
}

pub fn replay(ctx: &Ctx, part: &str, case: &Value) -> PResult {
	init_global();
	match part {
		"sweep" => {
			base(ctx).map_err(|e| Fail::new("harness:base", e))?;
			let r: Recipe = serde_json::from_value(case.clone()).map_err(|e| Fail::new("harness:replay-parse", e.to_string()))?;
			sweep(ctx, &r, false)
		}
		_ => Ok(()),
	}
}
