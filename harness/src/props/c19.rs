//! C19 — Peer message framing is faithful under fragmentation and enforces size limits.
//!
//! Parts:
//!  * `frag`      — a sequence of wire messages written into a loopback socket in fragments
//!                  is read by `Codec::read` as the identical sequence (case = `WireCase`).
//!  * `limits`    — frames with a wrong magic / over-limit announced length / inconsistent
//!                  header-list counts are refused without consuming the announced body
//!                  (case = `LimitCase`); `limits-alloc` = the same frame in a single-threaded
//!                  child process under the counting allocator.
//!  * `handshake` — version negotiation, genesis mismatch, self connection (case = `HsCase`).

use crate::engine::*;
use crate::refmmr::blake;
use crate::world::{assemble, init_global, init_thread, scalar_from, sign_kernel, KKind, KernelSpec, OutRef, TxSpec, LIB};
use crate::{ensure, fail};
use chrono::Utc;
use grin_chain::txhashset::{BitmapChunk, BitmapSegment};
use grin_core::core::hash::{Hash, Hashed};
use grin_core::core::id::{ShortId, ShortIdentifiable};
use grin_core::core::pmmr::{ReadablePMMR, ReadonlyPMMR, VecBackend, PMMR};
use grin_core::core::{
	Block, BlockHeader, CompactBlock, FeeFields, KernelFeatures, Output, OutputIdentifier, Segment, SegmentIdentifier, Transaction,
	TxKernel,
};
use grin_core::global::{self, ChainTypes};
use grin_core::pow::Difficulty;
use grin_core::ser::{self, DeserializationMode, PMMRable, ProtocolVersion, Writeable, Writer};
use grin_p2p::handshake::Handshake;
use grin_p2p::msg::{
	BanReason, GetPeerAddrs, Hand, Locator, Message, Msg, MsgHeader, OutputBitmapSegmentResponse, OutputSegmentResponse, PeerAddrs,
	Ping, Pong, SegmentRequest, SegmentResponse, Shake, TxHashSetArchive, TxHashSetRequest, Type,
};
use grin_p2p::types::AttachmentMeta;
use grin_p2p::verif_export::{Codec, Tracker};
use grin_p2p::{Capabilities, P2PConfig, PeerAddr, ReasonForBan};
use grin_util::secp::pedersen::RangeProof;
use grin_util::ToHex;
use proptest::prelude::*;
use serde_derive::{Deserialize, Serialize};
use serde_json::{json, Value};
use std::io::{Read, Write};
use std::net::{Ipv4Addr, Ipv6Addr, Shutdown, SocketAddr, SocketAddrV4, SocketAddrV6, TcpListener, TcpStream};
use std::sync::atomic::{AtomicBool, AtomicUsize, Ordering};
use std::sync::{mpsc, Arc, Mutex, OnceLock};
use std::time::Duration;

const HDR: usize = 11;
const VERSIONS: [u32; 4] = [1, 2, 3, 1000];
const OTHER_MAGIC: [u8; 2] = [73, 43];
const MAINNET_MAGIC: [u8; 2] = [97, 61];
/// generous watchdog (never an assertion by itself: see `with_stall_retry`)
const WATCHDOG: Duration = Duration::from_secs(20);
/// inter-fragment delays (µs) a plan can pick from; far inside the 2 s / 60 s timeouts
const DELAYS_US: [u32; 6] = [0, 0, 50, 200, 1000, 5000];
/// total sleeping per connection is capped (fixed work, not a time quota)
const DELAY_BUDGET_US: u64 = 30_000;

const TYPES: [Type; 29] = [
	Type::Error,
	Type::Hand,
	Type::Shake,
	Type::Ping,
	Type::Pong,
	Type::GetPeerAddrs,
	Type::PeerAddrs,
	Type::GetHeaders,
	Type::Header,
	Type::Headers,
	Type::GetBlock,
	Type::Block,
	Type::GetCompactBlock,
	Type::CompactBlock,
	Type::StemTransaction,
	Type::Transaction,
	Type::TxHashSetRequest,
	Type::TxHashSetArchive,
	Type::BanReason,
	Type::GetTransaction,
	Type::TransactionKernel,
	Type::GetOutputBitmapSegment,
	Type::OutputBitmapSegment,
	Type::GetOutputSegment,
	Type::OutputSegment,
	Type::GetRangeProofSegment,
	Type::RangeProofSegment,
	Type::GetKernelSegment,
	Type::KernelSegment,
];

fn known(t: u8) -> Option<Type> {
	TYPES.get(t as usize).copied().filter(|x| *x as u8 == t)
}

fn tname(t: u8) -> String {
	match known(t) {
		Some(x) => format!("{:?}", x),
		None => "Unknown".to_string(),
	}
}

/// `max_msg_size` of p2p/src/msg.rs (private there): nominal per-type maximum under the
/// calling thread's chain type. `MsgHeaderWrapper::read` refuses `msg_len > 4 * nominal`
/// ("TODO 4x the limits for now to leave ourselves space to change things").
fn nominal_max(t: u8) -> u64 {
	let max_block = (global::max_block_weight() / grin_core::consensus::OUTPUT_WEIGHT * 708) as u64;
	let Some(ty) = known(t) else { return max_block };
	match ty {
		Type::Error => 0,
		Type::Hand => 128,
		Type::Shake => 88,
		Type::Ping => 16,
		Type::Pong => 16,
		Type::GetPeerAddrs => 4,
		Type::PeerAddrs => 4 + (1 + 16 + 2) * grin_p2p::MAX_PEER_ADDRS as u64,
		Type::GetHeaders => 1 + 32 * grin_p2p::MAX_LOCATORS as u64,
		Type::Header => 365,
		Type::Headers => 2 + 365 * grin_p2p::MAX_BLOCK_HEADERS as u64,
		Type::GetBlock => 32,
		Type::Block => max_block,
		Type::GetCompactBlock => 32,
		Type::CompactBlock => max_block / 10,
		Type::StemTransaction => max_block,
		Type::Transaction => max_block,
		Type::TxHashSetRequest => 40,
		Type::TxHashSetArchive => 64,
		Type::BanReason => 64,
		Type::GetTransaction => 32,
		Type::TransactionKernel => 32,
		Type::GetOutputBitmapSegment => 41,
		Type::OutputBitmapSegment => 2 * max_block,
		Type::GetOutputSegment => 41,
		Type::OutputSegment => 2 * max_block,
		Type::GetRangeProofSegment => 41,
		Type::RangeProofSegment => 2 * max_block,
		Type::GetKernelSegment => 41,
		Type::KernelSegment => 2 * max_block,
	}
}

fn hexs(b: &[u8]) -> String {
	b.to_vec().to_hex()
}

fn unhex(s: &str) -> Result<Vec<u8>, Fail> {
	if s.is_empty() {
		return Ok(vec![]);
	}
	grin_util::from_hex(s).map_err(|e| Fail::new("harness:replay-parse", format!("hex: {:?}", e)))
}

/// deterministic pseudo-random bytes from a seed
fn expand(seed: u64, tag: u8, n: usize) -> Vec<u8> {
	let mut out = Vec::with_capacity(n + 32);
	let mut ctr = 0u32;
	while out.len() < n {
		out.extend_from_slice(&blake(&[b"c19", &seed.to_be_bytes(), &[tag], &ctr.to_be_bytes()]));
		ctr += 1;
	}
	out.truncate(n);
	out
}

fn hash_from(seed: u64, tag: u8) -> Hash {
	Hash::from_vec(&expand(seed, tag, 32))
}

fn enc<T: Writeable>(x: &T, v: u32) -> Result<Vec<u8>, ser::Error> {
	ser::ser_vec(x, ProtocolVersion(v))
}

/// the documented frame header: 2 magic bytes, type byte, body length (u64 big endian)
fn frame_header(magic: [u8; 2], t: u8, len: u64) -> Vec<u8> {
	let mut h = vec![magic[0], magic[1], t];
	h.extend_from_slice(&len.to_be_bytes());
	h
}

fn harness<E: std::fmt::Debug>(what: &str) -> impl Fn(E) -> Fail + '_ {
	move |e| Fail::new("harness:io", format!("{}: {:?}", what, e))
}

// ------------------------------------------------------------------ pool of real objects

pub struct Pool {
	headers: Vec<BlockHeader>,
	blocks: Vec<Block>,
	compacts: Vec<CompactBlock>,
	txs: Vec<Transaction>,
	kernels: Vec<TxKernel>,
	outids: Vec<OutputIdentifier>,
	proofs: Vec<RangeProof>,
}

static POOL: OnceLock<Result<Pool, String>> = OnceLock::new();

fn universe() -> (Vec<OutRef>, Vec<OutRef>) {
	let plain = [0u32, 1, 2, 3, 4, 7, 8, 9, 10, 11, 14, 15, 16, 17, 18, 21].iter().map(|k| OutRef { amount: 1, key: *k, cb: false }).collect();
	let cb = [4u32, 5, 6, 8, 9, 10, 12, 13].iter().map(|k| OutRef { amount: grin_core::consensus::REWARD, key: *k, cb: true }).collect();
	(plain, cb)
}

/// deterministic compact block: the documented layout (header, nonce, three counts,
/// sorted coinbase outputs / coinbase kernels / short ids of the other kernels), decoded
/// by the plain `CompactBlock` reader (`CompactBlock::from(Block)` draws a random nonce)
fn compact_of(b: &Block, nonce: u64) -> Result<CompactBlock, String> {
	let hh = b.header.hash();
	let mut outs: Vec<Output> = b.outputs().iter().filter(|o| o.is_coinbase()).cloned().collect();
	let mut kf: Vec<TxKernel> = b.kernels().iter().filter(|k| k.is_coinbase()).cloned().collect();
	let mut ids: Vec<ShortId> = b.kernels().iter().filter(|k| !k.is_coinbase()).map(|k| k.short_id(&hh, nonce)).collect();
	outs.sort();
	kf.sort();
	ids.sort();
	ids.dedup();
	let e = |x: Result<Vec<u8>, ser::Error>| x.map_err(|e| format!("compact layout: {:?}", e));
	let mut bytes = e(enc(&b.header, 1))?;
	bytes.extend_from_slice(&nonce.to_be_bytes());
	for n in [outs.len(), kf.len(), ids.len()] {
		bytes.extend_from_slice(&(n as u64).to_be_bytes());
	}
	for o in &outs {
		bytes.extend_from_slice(&e(enc(o, 1))?);
	}
	for k in &kf {
		bytes.extend_from_slice(&e(enc(k, 1))?);
	}
	for i in &ids {
		bytes.extend_from_slice(i.as_ref());
	}
	let mut s: &[u8] = &bytes;
	let cb: CompactBlock = ser::deserialize(&mut s, ProtocolVersion(1), DeserializationMode::default()).map_err(|e| format!("compact layout refused: {:?}", e))?;
	if !s.is_empty() || cb.header != b.header || cb.nonce != nonce {
		return Err("compact layout: decoded value differs".into());
	}
	Ok(cb)
}

fn build_pool(ctx: &Ctx) -> Result<Pool, String> {
	init_thread();
	let base = crate::props::c02::base(ctx)?;
	let blocks: Vec<Block> = base.world.nodes.iter().skip(1).map(|n| n.block.clone()).collect();
	if blocks.len() < 80 {
		return Err(format!("base chain has only {} blocks", blocks.len()));
	}
	let headers: Vec<BlockHeader> = blocks.iter().map(|b| b.header.clone()).collect();
	let mut compacts = vec![];
	for b in &blocks {
		compacts.push(compact_of(b, 0x5eed_0000 + b.header.height)?);
	}
	let (plain, cb) = universe();
	let reward = grin_core::consensus::REWARD;
	let k = |kind: KKind, fee: u64, lock: u64| KernelSpec { kind, fee, shift: 0, lock, excess_tag: 0 };
	let specs = vec![
		TxSpec { inputs: vec![cb[0]], outputs: vec![plain[0]], kernels: vec![k(KKind::Plain, reward - 1, 0)], zero_offset: false },
		TxSpec { inputs: vec![cb[1]], outputs: vec![plain[1], plain[2]], kernels: vec![k(KKind::Plain, reward - 2, 0)], zero_offset: true },
		TxSpec { inputs: vec![cb[2], cb[3]], outputs: vec![plain[3]], kernels: vec![k(KKind::Plain, 2 * reward - 1, 0)], zero_offset: false },
		TxSpec {
			inputs: vec![cb[4]],
			outputs: vec![plain[4], plain[5]],
			kernels: vec![k(KKind::Plain, 7, 0), k(KKind::HeightLocked, reward - 9, 12345)],
			zero_offset: false,
		},
		TxSpec { inputs: vec![cb[5]], outputs: vec![plain[6]], kernels: vec![k(KKind::Nrd, reward - 1, 60)], zero_offset: false },
		TxSpec { inputs: vec![plain[7], plain[8], plain[9]], outputs: vec![plain[10]], kernels: vec![k(KKind::Plain, 2, 0)], zero_offset: true },
	];
	let mut txs = vec![];
	for s in &specs {
		if !s.balanced() {
			return Err(format!("pool tx spec does not balance: {:?}", s));
		}
		txs.push(assemble(s).0);
	}
	let mut kernels = vec![];
	for i in 0..40u64 {
		let fee = FeeFields::new(0, 1 + i * 1000).map_err(|e| format!("{:?}", e))?;
		let f = match i % 3 {
			0 => KernelFeatures::Plain { fee },
			1 => KernelFeatures::HeightLocked { fee, lock_height: i * 77 },
			_ => KernelFeatures::Coinbase,
		};
		kernels.push(sign_kernel(f, &scalar_from(format!("c19-kernel-{}", i).as_bytes())));
	}
	let mut outids = vec![];
	let mut proofs = vec![];
	for o in plain.iter().chain(cb.iter()) {
		let out = LIB.output(o);
		outids.push(out.identifier());
		proofs.push(out.proof);
	}
	Ok(Pool { headers, blocks, compacts, txs, kernels, outids, proofs })
}

pub fn pool(ctx: &Ctx) -> Result<&'static Pool, String> {
	POOL.get_or_init(|| build_pool(ctx)).as_ref().map_err(|e| e.clone())
}

/// segment cut from a small in-memory PMMR by the repository's own producer
fn seg_from<T: PMMRable>(items: &[T], leaves: usize, h: u8, idx_sel: u8) -> Result<Segment<T::E>, String> {
	let mut backend: VecBackend<T> = VecBackend::new();
	let n = leaves.max(1);
	let size = {
		let mut p = PMMR::<T, _>::new(&mut backend);
		for i in 0..n {
			p.push(&items[i % items.len()]).map_err(|e| format!("push: {}", e))?;
		}
		p.unpruned_size()
	};
	let count = SegmentIdentifier::count_segments_required(size, h).max(1) as u64;
	let id = SegmentIdentifier { height: h, idx: idx_sel as u64 % count };
	let ro = ReadonlyPMMR::<T, _>::at(&backend, size);
	Segment::from_pmmr(id, &ro, false).map_err(|e| format!("from_pmmr: {:?}", e))
}

fn bitmap_chunks(seed: u64, n: usize) -> Vec<BitmapChunk> {
	(0..n)
		.map(|i| {
			let mut c = BitmapChunk::new();
			let raw = expand(seed, 40 + i as u8, 128);
			match (seed >> (2 * (i % 16))) & 3 {
				0 => {}
				1 => {
					for j in 0..(raw[0] as u64 % 20) {
						c.set((raw[1 + j as usize] as u64 * 4 + j) % 1024, true);
					}
				}
				2 => {
					for p in 0..1024u64 {
						c.set(p, true);
					}
				}
				_ => {
					for p in 0..1024usize {
						if raw[p / 8] >> (p % 8) & 1 == 1 {
							c.set(p as u64, true);
						}
					}
				}
			}
			c
		})
		.collect()
}

// ------------------------------------------------------------------ message specs (what proptest generates)

#[derive(Clone, Debug)]
pub struct AddrSpec {
	v6: bool,
	ip: [u16; 8],
	port: u16,
}

impl AddrSpec {
	fn addr(&self) -> PeerAddr {
		if self.v6 {
			let mut s = self.ip;
			// PeerAddr::read turns the IPv4-mapped form into an IPv4 address (documented): not generated
			if Ipv6Addr::new(s[0], s[1], s[2], s[3], s[4], s[5], s[6], s[7]).to_ipv4_mapped().is_some() {
				s[0] = 0x2001;
			}
			PeerAddr(SocketAddr::V6(SocketAddrV6::new(Ipv6Addr::new(s[0], s[1], s[2], s[3], s[4], s[5], s[6], s[7]), self.port, 0, 0)))
		} else {
			let b = [self.ip[0].to_be_bytes(), self.ip[1].to_be_bytes()];
			PeerAddr(SocketAddr::V4(SocketAddrV4::new(Ipv4Addr::new(b[0][0], b[0][1], b[1][0], b[1][1]), self.port)))
		}
	}
}

fn addrspec() -> impl Strategy<Value = AddrSpec> {
	(any::<bool>(), prop::array::uniform8(any::<u16>()), any::<u16>()).prop_map(|(v6, ip, port)| AddrSpec { v6, ip, port })
}

#[derive(Clone, Debug)]
pub enum MsgSpec {
	Ping(u64, u64),
	Pong(u64, u64),
	GetPeerAddrs(u8),
	PeerAddrs(Vec<AddrSpec>),
	GetHeaders(u64, u8),
	Header(u16),
	/// contiguous run of real headers: start selector, count (0 = the empty list a peer with nothing newer sends)
	Headers(u16, u16),
	GetBlock(u64),
	Block(u16),
	GetCompactBlock(u64),
	CompactBlock(u16),
	StemTx(u16),
	Tx(u16),
	TxHashSetRequest(u64, u64),
	/// hash seed, height, attachment length, attachment seed
	TxHashSetArchive(u64, u64, u32, u64),
	BanReason(u8),
	GetTransaction(u64),
	TransactionKernel(u64),
	/// which request type (0..4), hash seed, segment height, segment index
	SegRequest(u8, u64, u8, u64),
	/// (seed, leaves, segment height, segment selector)
	KernelSeg(u64, u8, u8, u8),
	RangeProofSeg(u64, u8, u8, u8),
	OutputSeg(u64, u8, u8, u8),
	BitmapSeg(u64, u8, u8, u8),
	/// type byte outside `Type`, body length, body seed
	Unknown(u8, u16, u64),
}

fn u64_edges() -> impl Strategy<Value = u64> {
	prop_oneof![4 => any::<u64>(), 1 => Just(0u64), 1 => Just(u64::MAX), 1 => 0u64..1000]
}

fn att_len() -> impl Strategy<Value = u32> {
	prop_oneof![
		2 => Just(0u32),
		2 => 1u32..200,
		3 => 200u32..20_000,
		1 => Just(47_999u32),
		1 => Just(48_000u32),
		1 => Just(48_001u32),
		1 => Just(96_000u32),
		2 => 20_000u32..=200_000,
		1 => Just(200_000u32),
	]
}

fn headers_n() -> impl Strategy<Value = u16> {
	prop_oneof![6 => Just(0u16), 3 => Just(1u16), 2 => Just(31u16), 3 => Just(32u16), 3 => Just(33u16), 3 => Just(64u16), 1 => Just(65u16), 1 => Just(89u16), 3 => 2u16..=89,
		// the full list of a header sync (MAX_BLOCK_HEADERS = 512: what a peer with more headers than that sends
		// every time), one less, and a length in between
		1 => Just(511u16), 2 => Just(512u16), 1 => 90u16..511]
}

const REASONS: [ReasonForBan; 8] = [
	ReasonForBan::None,
	ReasonForBan::BadBlock,
	ReasonForBan::BadCompactBlock,
	ReasonForBan::BadBlockHeader,
	ReasonForBan::BadTxHashSet,
	ReasonForBan::ManualBan,
	ReasonForBan::FraudHeight,
	ReasonForBan::BadHandshake,
];

fn small_msg() -> impl Strategy<Value = MsgSpec> {
	prop_oneof![
		3 => (u64_edges(), u64_edges()).prop_map(|(a, b)| MsgSpec::Ping(a, b)),
		3 => (u64_edges(), u64_edges()).prop_map(|(a, b)| MsgSpec::Pong(a, b)),
		2 => (0u8..128).prop_map(MsgSpec::GetPeerAddrs),
		2 => prop::collection::vec(addrspec(), 0..=3).prop_map(MsgSpec::PeerAddrs),
		2 => (any::<u64>(), 0u8..=3).prop_map(|(a, b)| MsgSpec::GetHeaders(a, b)),
		2 => any::<u64>().prop_map(MsgSpec::GetBlock),
		2 => any::<u64>().prop_map(MsgSpec::GetCompactBlock),
		2 => (any::<u64>(), u64_edges()).prop_map(|(a, b)| MsgSpec::TxHashSetRequest(a, b)),
		2 => (any::<u64>(), u64_edges(), 0u32..64, any::<u64>()).prop_map(|(a, b, c, d)| MsgSpec::TxHashSetArchive(a, b, c, d)),
		2 => (0u8..8).prop_map(MsgSpec::BanReason),
		2 => any::<u64>().prop_map(MsgSpec::GetTransaction),
		2 => any::<u64>().prop_map(MsgSpec::TransactionKernel),
		// segment heights are 0..=63: positions are 64 bit and the identifier reader refuses anything
		// higher (fix d144945c2) — such a request is not a message the writer's peer can read back
		3 => (0u8..4, any::<u64>(), 0u8..=63, u64_edges()).prop_map(|(a, b, c, d)| MsgSpec::SegRequest(a, b, c, d)),
		4 => (29u8..=255, 0u16..40, any::<u64>()).prop_map(|(a, b, c)| MsgSpec::Unknown(a, b, c)),
		3 => Just(MsgSpec::Headers(0, 0)),
	]
}

fn any_msg() -> impl Strategy<Value = MsgSpec> {
	prop_oneof![
		12 => small_msg(),
		// any count up to the limit, and the limit itself (MAX_PEER_ADDRS = 256: what a node that knows
		// many peers answers with) and its neighbour
		2 => prop_oneof![3 => 0usize..=256, 1 => Just(255usize), 2 => Just(256usize)].prop_flat_map(|n| prop::collection::vec(addrspec(), n)).prop_map(MsgSpec::PeerAddrs),
		2 => (any::<u64>(), prop_oneof![3 => 0u8..=20, 1 => Just(20u8)]).prop_map(|(a, b)| MsgSpec::GetHeaders(a, b)),
		3 => any::<u16>().prop_map(MsgSpec::Header),
		6 => (any::<u16>(), headers_n()).prop_map(|(a, b)| MsgSpec::Headers(a, b)),
		3 => any::<u16>().prop_map(MsgSpec::Block),
		3 => any::<u16>().prop_map(MsgSpec::CompactBlock),
		2 => any::<u16>().prop_map(MsgSpec::StemTx),
		2 => any::<u16>().prop_map(MsgSpec::Tx),
		5 => (any::<u64>(), u64_edges(), att_len(), any::<u64>()).prop_map(|(a, b, c, d)| MsgSpec::TxHashSetArchive(a, b, c, d)),
		2 => (any::<u64>(), 1u8..=40, 0u8..4, any::<u8>()).prop_map(|(a, b, c, d)| MsgSpec::KernelSeg(a, b, c, d)),
		2 => (any::<u64>(), 1u8..=12, 0u8..4, any::<u8>()).prop_map(|(a, b, c, d)| MsgSpec::RangeProofSeg(a, b, c, d)),
		2 => (any::<u64>(), 1u8..=40, 0u8..4, any::<u8>()).prop_map(|(a, b, c, d)| MsgSpec::OutputSeg(a, b, c, d)),
		2 => (any::<u64>(), 1u8..=8, 0u8..4, any::<u8>()).prop_map(|(a, b, c, d)| MsgSpec::BitmapSeg(a, b, c, d)),
		3 => (29u8..=255, unknown_len(), any::<u64>()).prop_map(|(a, b, c)| MsgSpec::Unknown(a, b, c)),
	]
}

/// body length of a frame of unknown type: anything up to the limit for such frames (4 x the largest block of
/// the chain type: 31 152 bytes on AutomatedTesting) — short ones, lengths around the codec's initial buffer
/// (8 KiB) and its multiples, and the limit itself with its neighbour
fn unknown_len() -> impl Strategy<Value = u16> {
	let limit = (4 * (grin_core::global::max_block_weight() / grin_core::consensus::OUTPUT_WEIGHT * 708)).min(60_000) as u16;
	prop_oneof![
		6 => 0u16..2000,
		2 => 2000u16..=limit,
		1 => Just(8191u16), 1 => Just(8192u16), 2 => Just(8193u16), 1 => Just(16_384u16), 1 => Just(16_385u16),
		1 => Just(limit - 1), 2 => Just(limit),
	]
}

/// monotone index into a collection (so that shrinking works)
fn pick(i: u16, len: usize) -> usize {
	(i as usize * len) >> 16
}

/// One message as it goes on the wire. `att` = (length, seed) of the attachment that
/// follows a TxHashSetArchive (bytes = expand(seed, 9, length)).
#[derive(Clone, Debug, Serialize, Deserialize, PartialEq)]
pub struct WireMsg {
	pub t: u8,
	pub body: String,
	#[serde(default)]
	pub att: Option<(u32, u64)>,
	/// the last `pad` bytes of `body` are padding behind a complete message body: the frame announces
	/// more than its decoder needs (still within the type's limit), as a newer peer's extra fields would
	#[serde(default)]
	pub pad: u16,
}

fn wire<T: Writeable>(t: Type, x: &T, v: u32) -> Result<WireMsg, String> {
	enc(x, v).map(|b| WireMsg { t: t as u8, body: hexs(&b), att: None, pad: 0 }).map_err(|e| format!("{:?}", e))
}

/// typed value -> wire message at version v. Err(reason) = this value cannot be written at
/// this version (the writer refuses it, e.g. commit-only inputs below version 3).
fn build_msg(spec: &MsgSpec, v: u32, p: &Pool) -> Result<WireMsg, String> {
	let d = Difficulty::from_num;
	match spec {
		MsgSpec::Ping(a, b) => wire(Type::Ping, &Ping { total_difficulty: d(*a), height: *b }, v),
		MsgSpec::Pong(a, b) => wire(Type::Pong, &Pong { total_difficulty: d(*a), height: *b }, v),
		MsgSpec::GetPeerAddrs(c) => wire(Type::GetPeerAddrs, &GetPeerAddrs { capabilities: Capabilities::from_bits_truncate(*c as u32 & 0x7f) }, v),
		MsgSpec::PeerAddrs(a) => wire(Type::PeerAddrs, &PeerAddrs { peers: a.iter().map(|a| a.addr()).collect() }, v),
		MsgSpec::GetHeaders(seed, n) => wire(Type::GetHeaders, &Locator { hashes: (0..*n).map(|i| hash_from(*seed, i)).collect() }, v),
		MsgSpec::Header(i) => wire(Type::Header, &p.headers[pick(*i, p.headers.len())], v),
		MsgSpec::Headers(start, n) => {
			// more headers than the prepared chain has: go round it again (the codec does not look at how the
			// headers of a list relate to each other)
			let len = p.headers.len();
			let n = *n as usize;
			let s = pick(*start, if n <= len { len - n + 1 } else { len });
			wire(Type::Headers, &grin_p2p::msg::Headers { headers: (0..n).map(|k| p.headers[(s + k) % len].clone()).collect() }, v)
		}
		MsgSpec::GetBlock(s) => wire(Type::GetBlock, &hash_from(*s, 1), v),
		MsgSpec::Block(i) => wire(Type::Block, &p.blocks[pick(*i, p.blocks.len())], v),
		MsgSpec::GetCompactBlock(s) => wire(Type::GetCompactBlock, &hash_from(*s, 1), v),
		MsgSpec::CompactBlock(i) => wire(Type::CompactBlock, &p.compacts[pick(*i, p.compacts.len())], v),
		MsgSpec::StemTx(i) => wire(Type::StemTransaction, &p.txs[pick(*i, p.txs.len())], v),
		MsgSpec::Tx(i) => wire(Type::Transaction, &p.txs[pick(*i, p.txs.len())], v),
		MsgSpec::TxHashSetRequest(s, h) => wire(Type::TxHashSetRequest, &TxHashSetRequest { hash: hash_from(*s, 1), height: *h }, v),
		MsgSpec::TxHashSetArchive(s, h, len, aseed) => {
			let mut m = wire(Type::TxHashSetArchive, &TxHashSetArchive { hash: hash_from(*s, 1), height: *h, bytes: *len as u64 }, v)?;
			m.att = Some((*len, *aseed));
			Ok(m)
		}
		MsgSpec::BanReason(r) => wire(Type::BanReason, &BanReason { ban_reason: REASONS[*r as usize % 8] }, v),
		MsgSpec::GetTransaction(s) => wire(Type::GetTransaction, &hash_from(*s, 1), v),
		MsgSpec::TransactionKernel(s) => wire(Type::TransactionKernel, &hash_from(*s, 1), v),
		MsgSpec::SegRequest(w, s, h, idx) => {
			let t = [Type::GetOutputBitmapSegment, Type::GetOutputSegment, Type::GetRangeProofSegment, Type::GetKernelSegment][*w as usize % 4];
			wire(t, &SegmentRequest { block_hash: hash_from(*s, 1), identifier: SegmentIdentifier { height: *h, idx: *idx } }, v)
		}
		MsgSpec::KernelSeg(s, leaves, h, sel) => {
			let off = (*s % 40) as usize;
			let items: Vec<TxKernel> = p.kernels.iter().cycle().skip(off).take(40).cloned().collect();
			wire(Type::KernelSegment, &SegmentResponse { block_hash: hash_from(*s, 1), segment: seg_from(&items, *leaves as usize, *h, *sel)? }, v)
		}
		MsgSpec::RangeProofSeg(s, leaves, h, sel) => {
			let off = (*s % 24) as usize;
			let items: Vec<RangeProof> = p.proofs.iter().cycle().skip(off).take(24).cloned().collect();
			wire(Type::RangeProofSegment, &SegmentResponse { block_hash: hash_from(*s, 1), segment: seg_from(&items, *leaves as usize, *h, *sel)? }, v)
		}
		MsgSpec::OutputSeg(s, leaves, h, sel) => {
			let off = (*s % 24) as usize;
			let items: Vec<OutputIdentifier> = p.outids.iter().cycle().skip(off).take(24).cloned().collect();
			let segment = seg_from(&items, *leaves as usize, *h, *sel)?;
			wire(
				Type::OutputSegment,
				&OutputSegmentResponse { response: SegmentResponse { block_hash: hash_from(*s, 1), segment }, output_bitmap_root: hash_from(*s, 2) },
				v,
			)
		}
		MsgSpec::BitmapSeg(s, leaves, h, sel) => {
			let chunks = bitmap_chunks(*s, *leaves as usize);
			let seg = seg_from(&chunks, *leaves as usize, *h, *sel)?;
			wire(
				Type::OutputBitmapSegment,
				&OutputBitmapSegmentResponse { block_hash: hash_from(*s, 1), segment: BitmapSegment::from(seg), output_root: hash_from(*s, 2) },
				v,
			)
		}
		MsgSpec::Unknown(t, len, seed) => Ok(WireMsg { t: (*t).max(29), body: hexs(&expand(*seed, 7, *len as usize)), att: None, pad: 0 }),
	}
}

// ------------------------------------------------------------------ fragmentation plans

#[derive(Clone, Debug)]
pub enum PlanSpec {
	Whole,
	Single(u16),
	Multi(Vec<u16>),
	Dribble,
	/// every item boundary (header start, body start, attachment start, end) shifted by the offset
	Edges(i8),
	/// one split inside every message header and one inside every body / attachment
	HeaderBody(u16, u16),
}

#[derive(Clone, Debug)]
pub struct FragPlan {
	plan: PlanSpec,
	delays: Vec<u8>,
}

fn plan_strategy() -> impl Strategy<Value = FragPlan> {
	let plan = prop_oneof![
		1 => Just(PlanSpec::Whole),
		2 => any::<u16>().prop_map(PlanSpec::Single),
		4 => prop::collection::vec(any::<u16>(), 2..=40).prop_map(PlanSpec::Multi),
		2 => Just(PlanSpec::Dribble),
		2 => (-1i8..=1).prop_map(PlanSpec::Edges),
		4 => (any::<u16>(), any::<u16>()).prop_map(|(a, b)| PlanSpec::HeaderBody(a, b)),
	];
	(plan, prop::collection::vec(0u8..6, 1..=6)).prop_map(|(plan, delays)| FragPlan { plan, delays })
}

#[derive(Clone, Debug)]
pub struct FragSpec {
	version: u8,
	msgs: Vec<MsgSpec>,
	plans: Vec<FragPlan>,
}

fn frag_strategy(plans: usize) -> impl Strategy<Value = FragSpec> {
	(0u8..4, prop::collection::vec(any_msg(), 1..=12), prop::collection::vec(plan_strategy(), plans))
		.prop_map(|(version, msgs, plans)| FragSpec { version, msgs, plans })
}

/// The replayable case of part `frag`.
#[derive(Clone, Debug, Serialize, Deserialize)]
pub struct WireCase {
	pub version: u32,
	pub msgs: Vec<WireMsg>,
	/// sorted offsets (0 < c < stream length) at which the stream is split into separate writes
	pub cuts: Vec<usize>,
	/// sleep after fragment i = delays_us[i % len] µs (total capped at DELAY_BUDGET_US)
	pub delays_us: Vec<u32>,
	pub kind: String,
}

/// (header offset, body length, attachment length) per message, total length
fn layout(msgs: &[WireMsg]) -> (Vec<(usize, usize, usize)>, usize) {
	let mut at = 0;
	let mut l = vec![];
	for m in msgs {
		let b = m.body.len() / 2;
		let a = m.att.map(|a| a.0 as usize).unwrap_or(0);
		l.push((at, b, a));
		at += HDR + b + a;
	}
	(l, at)
}

fn cuts_for(plan: &PlanSpec, msgs: &[WireMsg]) -> (Vec<usize>, &'static str) {
	let (lay, total) = layout(msgs);
	let frac = |f: u16, lo: usize, hi: usize| -> Option<usize> {
		// a point strictly inside (lo, hi)
		if hi <= lo + 1 {
			None
		} else {
			Some(lo + 1 + ((f as usize * (hi - lo - 1)) >> 16))
		}
	};
	let (mut cuts, kind): (Vec<usize>, &'static str) = match plan {
		PlanSpec::Whole => (vec![], "whole"),
		PlanSpec::Single(f) => (frac(*f, 0, total).into_iter().collect(), "single"),
		PlanSpec::Multi(fs) => (fs.iter().filter_map(|f| frac(*f, 0, total)).collect(), "multi"),
		PlanSpec::Dribble => ((1..total.min(1201)).collect(), "dribble"),
		PlanSpec::Edges(off) => {
			let mut c = vec![];
			for (s, b, a) in &lay {
				for e in [*s, s + HDR, s + HDR + b, s + HDR + b + a] {
					c.push((e as i64 + *off as i64).max(0) as usize);
				}
			}
			(c, "edges")
		}
		PlanSpec::HeaderBody(f, g) => {
			let mut c = vec![];
			for (i, (s, b, a)) in lay.iter().enumerate() {
				let fi = f.wrapping_add((i as u16).wrapping_mul(7919));
				let gi = g.wrapping_add((i as u16).wrapping_mul(104_729u32 as u16));
				c.extend(frac(fi, *s, s + HDR));
				c.extend(frac(gi, s + HDR, s + HDR + b));
				c.extend(frac(gi, s + HDR + b, s + HDR + b + a));
			}
			(c, "header+body")
		}
	};
	cuts.retain(|c| *c > 0 && *c < total);
	cuts.sort();
	cuts.dedup();
	(cuts, kind)
}

fn wire_case(spec: &FragSpec, plan: &FragPlan, p: &Pool, ev: Option<&Ev>) -> WireCase {
	let v = VERSIONS[spec.version as usize % 4];
	let mut msgs = vec![];
	for m in &spec.msgs {
		match build_msg(m, v, p) {
			Ok(w) => msgs.push(w),
			Err(e) => {
				// the writer refuses this value at this version: a peer cannot send it
				if let Some(ev) = ev {
					ev.class(&format!("not_writable_at_version_{}:{}", v, truncate(&e, 60)));
				}
			}
		}
	}
	if msgs.is_empty() {
		msgs.push(build_msg(&MsgSpec::Ping(1, 1), v, p).expect("ping"));
	}
	let (cuts, kind) = cuts_for(&plan.plan, &msgs);
	WireCase { version: v, msgs, cuts, delays_us: plan.delays.iter().map(|d| DELAYS_US[*d as usize % 6]).collect(), kind: kind.to_string() }
}

// ------------------------------------------------------------------ transport

thread_local! {
	static LISTENER: std::cell::RefCell<Option<TcpListener>> = std::cell::RefCell::new(None);
}

/// a connected loopback pair (writer end, reader end); one listener per harness thread
fn socket_pair() -> Result<(TcpStream, TcpStream), Fail> {
	LISTENER.with(|l| {
		let mut l = l.borrow_mut();
		if l.is_none() {
			*l = Some(TcpListener::bind("127.0.0.1:0").map_err(harness("bind"))?);
		}
		let lis = l.as_ref().unwrap();
		let addr = lis.local_addr().map_err(harness("local_addr"))?;
		let w = TcpStream::connect(addr).map_err(harness("connect"))?;
		let (r, peer) = lis.accept().map_err(harness("accept"))?;
		if peer != w.local_addr().map_err(harness("local_addr"))? {
			return Err(Fail::new("harness:io", "accepted a foreign connection"));
		}
		w.set_nodelay(true).map_err(harness("nodelay"))?;
		let _ = w.set_write_timeout(Some(Duration::from_secs(30)));
		Ok((w, r))
	})
}

/// outcome of one attempt: a verdict, or "the reader did not get its bytes in time"
/// (scheduling trouble or a codec stall — decided by `with_stall_retry`)
enum Once<T> {
	Done(T),
	Stall(String),
}

/// A stall is a violation (`codec-stall`) only if it reproduces 3 times in a row;
/// a stall that disappears on retry is recorded as harness noise.
fn with_stall_retry<T>(ctx: &Ctx, what: &str, f: impl Fn() -> Result<Once<T>, Fail>) -> Result<T, Fail> {
	let mut last = String::new();
	for attempt in 0..3 {
		match f()? {
			Once::Done(t) => {
				if attempt > 0 {
					ctx.ev.class("harness_stall_disappeared_on_retry");
				}
				return Ok(t);
			}
			Once::Stall(m) => last = m,
		}
	}
	Err(Fail::new("codec-stall", format!("{}: reader stalled 3 times in a row although all bytes were written: {}", what, last)))
}

fn is_timeout(e: &grin_p2p::Error) -> bool {
	match e {
		grin_p2p::Error::Connection(e) => matches!(e.kind(), std::io::ErrorKind::TimedOut | std::io::ErrorKind::WouldBlock),
		_ => false,
	}
}

/// Writes `stream` split at `cuts` (with the plan's delays), half-closes, then acts as the
/// watchdog: if the reader has not finished WATCHDOG after the last byte, the socket is
/// shut down so the reader returns. Returns true if the watchdog fired.
fn writer_thread(mut w: TcpStream, stream: &[u8], cuts: &[usize], delays_us: &[u32], done: mpsc::Receiver<()>, half_close: bool) -> bool {
	let mut at = 0;
	let mut slept = 0u64;
	let mut bounds: Vec<usize> = cuts.to_vec();
	bounds.push(stream.len());
	for (i, b) in bounds.iter().enumerate() {
		if *b > at {
			if w.write_all(&stream[at..*b]).is_err() {
				// the reader went away (it reports why)
				return false;
			}
			at = *b;
		}
		if !delays_us.is_empty() && i + 1 < bounds.len() {
			let d = delays_us[i % delays_us.len()] as u64;
			if d >= 1_000_000 {
				// an explicit long gap (slow-body cases): not part of the small-delay budget
				std::thread::sleep(Duration::from_micros(d));
			} else if d > 0 && slept + d <= DELAY_BUDGET_US {
				slept += d;
				std::thread::sleep(Duration::from_micros(d));
			}
		}
	}
	if half_close {
		let _ = w.shutdown(Shutdown::Write);
	}
	match done.recv_timeout(WATCHDOG) {
		Ok(()) | Err(mpsc::RecvTimeoutError::Disconnected) => {
			if !half_close {
				let _ = w.shutdown(Shutdown::Write);
			}
			false
		}
		Err(mpsc::RecvTimeoutError::Timeout) => {
			let _ = w.shutdown(Shutdown::Both);
			true
		}
	}
}

// ------------------------------------------------------------------ part frag: the check

/// re-encode a received plain message: (type byte, body)
fn reencode(m: Message, v: u32) -> Result<(u8, Vec<u8>), String> {
	fn e<T: Writeable>(t: Type, x: &T, v: u32) -> Result<(u8, Vec<u8>), String> {
		enc(x, v).map(|b| (t as u8, b)).map_err(|e| format!("re-encoding {:?}: {:?}", t, e))
	}
	match m {
		Message::Ping(x) => e(Type::Ping, &x, v),
		Message::Pong(x) => e(Type::Pong, &x, v),
		Message::BanReason(x) => e(Type::BanReason, &x, v),
		Message::TransactionKernel(x) => e(Type::TransactionKernel, &x, v),
		Message::GetTransaction(x) => e(Type::GetTransaction, &x, v),
		Message::Transaction(x) => e(Type::Transaction, &x, v),
		Message::StemTransaction(x) => e(Type::StemTransaction, &x, v),
		Message::GetBlock(x) => e(Type::GetBlock, &x, v),
		Message::Block(x) => e(Type::Block, &Block::from(x), v),
		Message::GetCompactBlock(x) => e(Type::GetCompactBlock, &x, v),
		Message::CompactBlock(x) => e(Type::CompactBlock, &CompactBlock::from(x), v),
		Message::GetHeaders(x) => e(Type::GetHeaders, &x, v),
		Message::Header(x) => e(Type::Header, &BlockHeader::from(x), v),
		Message::GetPeerAddrs(x) => e(Type::GetPeerAddrs, &x, v),
		Message::PeerAddrs(x) => e(Type::PeerAddrs, &x, v),
		Message::TxHashSetRequest(x) => e(Type::TxHashSetRequest, &x, v),
		Message::TxHashSetArchive(x) => e(Type::TxHashSetArchive, &x, v),
		Message::GetOutputBitmapSegment(x) => e(Type::GetOutputBitmapSegment, &x, v),
		Message::OutputBitmapSegment(x) => e(Type::OutputBitmapSegment, &x, v),
		Message::GetOutputSegment(x) => e(Type::GetOutputSegment, &x, v),
		Message::OutputSegment(x) => e(Type::OutputSegment, &x, v),
		Message::GetRangeProofSegment(x) => e(Type::GetRangeProofSegment, &x, v),
		Message::RangeProofSegment(x) => e(Type::RangeProofSegment, &x, v),
		Message::GetKernelSegment(x) => e(Type::GetKernelSegment, &x, v),
		Message::KernelSegment(x) => e(Type::KernelSegment, &x, v),
		Message::Unknown(t) => Err(format!("Unknown({})", t)),
		Message::Headers(d) => Err(format!("Headers(batch of {}, remaining {})", d.headers.len(), d.remaining)),
		Message::Attachment(u, _) => Err(format!("Attachment(read {}, left {})", u.read, u.left)),
	}
}

fn describe(r: &Result<Message, grin_p2p::Error>) -> String {
	match r {
		Ok(Message::Headers(d)) => format!("Ok(headers: batch of {}, remaining {})", d.headers.len(), d.remaining),
		Ok(Message::Attachment(u, _)) => format!("Ok(attachment: read {}, left {})", u.read, u.left),
		Ok(m) => format!("Ok({})", m),
		Err(e) => format!("Err({:?})", e),
	}
}

#[derive(Default)]
struct FragStats {
	/// slow-body cases: a read that times out is repeated on the same codec, as the connection loop does
	retry_timeouts: bool,
	timeouts: u64,
	reads: u64,
	batches: u64,
	max_batch: usize,
	chunks: u64,
	bytes: u64,
}

struct Sent {
	t: u8,
	body: Vec<u8>,
	att: Option<Vec<u8>>,
	pad: usize,
}

fn sent_of(case: &WireCase) -> Result<(Vec<Sent>, Vec<u8>), Fail> {
	let mut sent = vec![];
	let mut stream = vec![];
	for m in &case.msgs {
		let body = unhex(&m.body)?;
		let att = m.att.map(|(len, seed)| expand(seed, 9, len as usize));
		let h = frame_header(OTHER_MAGIC, m.t, body.len() as u64);
		if let Some(ty) = known(m.t) {
			// the frame header the harness writes is what the repository's own writer produces
			let theirs = enc(&MsgHeader::new(ty, body.len() as u64), case.version).map_err(harness("MsgHeader"))?;
			ensure!(theirs == h, "harness:frame-header-model", "MsgHeader encodes as {} but the documented layout gives {}", hexs(&theirs), hexs(&h));
		}
		stream.extend_from_slice(&h);
		stream.extend_from_slice(&body);
		if let Some(a) = &att {
			stream.extend_from_slice(a);
		}
		sent.push(Sent { t: m.t, body, att, pad: m.pad as usize });
	}
	Ok((sent, stream))
}

/// The reader side: drives `Codec::read` exactly as conn.rs does (expect_attachment after a
/// TxHashSetArchive) and compares with what was sent.
fn read_and_compare(codec: &mut Codec, v: u32, sent: &[Sent], total: usize, st: &mut FragStats) -> Result<Once<()>, Fail> {
	macro_rules! rd {
		($i:expr, $t:expr) => {{
			let (mut r, n) = codec.read();
			st.reads += 1;
			st.bytes += n;
			// conn.rs (try_break!) treats TimedOut / WouldBlock as "nothing yet" and reads again
			while st.retry_timeouts && st.timeouts < 30 && matches!(&r, Err(e) if is_timeout(e)) {
				st.timeouts += 1;
				let (r2, n2) = codec.read();
				st.reads += 1;
				st.bytes += n2;
				r = r2;
			}
			if let Err(e) = &r {
				if is_timeout(e) {
					return Ok(Once::Stall(format!("message {} ({}): {:?}", $i, tname($t), e)));
				}
			}
			r
		}};
	}
	for (i, s) in sent.iter().enumerate() {
		let name = tname(s.t);
		if known(s.t).is_none() {
			let r = rd!(i, s.t);
			match r {
				Ok(Message::Unknown(t)) if t == s.t => {}
				other => fail!("frag-unknown-type-not-skipped", "message {}: unknown type byte {} with a {}-byte body was read as {}", i, s.t, s.body.len(), describe(&other)),
			}
			continue;
		}
		if s.t == Type::Headers as u8 {
			let n = u16::from_be_bytes([s.body[0], s.body[1]]) as usize;
			let mut got: Vec<BlockHeader> = vec![];
			loop {
				let r = rd!(i, s.t);
				let d = match r {
					Ok(Message::Headers(d)) => d,
					Err(e) if n == 0 && !is_timeout(&e) => {
						let (next, _) = codec.read();
						fail!(
							"zero-headers-badmessage",
							"message {}: a Headers message with zero items (body 0000, what a peer with nothing newer answers to GetHeaders) is refused with {:?} instead of being read as an empty list (the read after the error returned {})",
							i,
							e,
							describe(&next)
						)
					}
					other => fail!("frag-read-error:Headers", "message {}: header list of {} ({} received so far): read returned {}", i, n, got.len(), describe(&other)),
				};
				st.batches += 1;
				st.max_batch = st.max_batch.max(d.headers.len());
				ensure!(n == 0 || !d.headers.is_empty(), "frag-headers-empty-batch", "message {}: empty batch inside a list of {}", i, n);
				got.extend(d.headers);
				ensure!(got.len() <= n, "frag-headers-too-many", "message {}: {} headers delivered for a list of {}", i, got.len(), n);
				ensure!(
					d.remaining == (n - got.len()) as u64,
					"frag-headers-remaining",
					"message {}: after {} of {} headers the batch says remaining = {}",
					i,
					got.len(),
					n,
					d.remaining
				);
				if got.len() == n {
					break;
				}
			}
			let mut re = (n as u16).to_be_bytes().to_vec();
			for h in &got {
				re.extend_from_slice(&enc(h, v).map_err(harness("re-encode header"))?);
			}
			ensure!(re == s.body, "frag-body-mismatch:Headers", "message {}: the {} delivered headers re-encode differently from the sent list", i, n);
			continue;
		}
		let r = rd!(i, s.t);
		let m = match r {
			Ok(m) => m,
			// a frame that announces more than its message needs may be refused (the connection is then
			// dropped: nothing more to compare) — what it must not do is shift the frame boundary
			Err(_) if s.pad > 0 => return Ok(Once::Done(())),
			Err(e) => fail!(format!("frag-read-error:{}", name), "message {} ({}, {} body bytes): read returned Err({:?})", i, name, s.body.len(), e),
		};
		let att_size = match &m {
			Message::TxHashSetArchive(a) => Some((a.bytes as usize, a.hash, a.height)),
			_ => None,
		};
		let shown = format!("{}", m);
		match reencode(m, v) {
			Ok((t, b)) => {
				ensure!(t == s.t, "frag-variant-mismatch", "message {}: sent {} but read {}", i, name, shown);
				ensure!(
					b == s.body[..s.body.len() - s.pad],
					format!("frag-body-mismatch:{}", name),
					"message {} ({}): read value re-encodes as {} but {} was sent",
					i,
					name,
					truncate(&hexs(&b), 300),
					truncate(&hexs(&s.body), 300)
				);
			}
			Err(what) => fail!("frag-variant-mismatch", "message {}: sent {} but read {}", i, name, what),
		}
		if let (Some(att), Some((size, hash, height))) = (&s.att, att_size) {
			// what protocol.rs answers with: Consumed::Attachment(meta) -> codec.expect_attachment(meta)
			let meta = Arc::new(AttachmentMeta { size, hash, height, start_time: Utc::now(), path: std::path::PathBuf::new() });
			codec.expect_attachment(meta);
			let mut got: Vec<u8> = Vec::with_capacity(size);
			loop {
				let r = rd!(i, s.t);
				let (u, bytes) = match r {
					Ok(Message::Attachment(u, Some(b))) => (u, b),
					other => fail!("frag-read-error:Attachment", "message {}: attachment of {} bytes ({} received): read returned {}", i, size, got.len(), describe(&other)),
				};
				st.chunks += 1;
				ensure!(u.read == bytes.len(), "frag-attachment-update", "message {}: chunk of {} bytes announced as read = {}", i, bytes.len(), u.read);
				got.extend_from_slice(&bytes[..]);
				ensure!(got.len() <= att.len(), "frag-attachment-too-long", "message {}: {} attachment bytes delivered of {}", i, got.len(), att.len());
				ensure!(u.left == att.len() - got.len(), "frag-attachment-update", "message {}: after {} of {} bytes the update says left = {}", i, got.len(), att.len(), u.left);
				if u.left == 0 {
					break;
				}
				ensure!(!bytes.is_empty(), "frag-attachment-empty-chunk", "message {}: empty chunk with {} bytes left", i, u.left);
			}
			ensure!(got == *att, "frag-attachment-mismatch", "message {}: the {} attachment bytes delivered differ from the bytes sent", i, att.len());
		}
	}
	// every read reports the bytes it pulled from the socket: nothing left over, nothing read twice
	ensure!(st.bytes == total as u64, "frag-bytes-read-sum", "the reads report {} bytes in total but {} were sent", st.bytes, total);
	Ok(Once::Done(()))
}

fn frag_once(case: &WireCase, sent: &[Sent], stream: &[u8]) -> Result<Once<FragStats>, Fail> {
	let (w, r) = socket_pair()?;
	let (done_tx, done_rx) = mpsc::channel::<()>();
	let mut st = FragStats::default();
	st.retry_timeouts = case.kind == "slow-body";
	let (res, fired) = std::thread::scope(|sc| {
		let cuts = &case.cuts;
		let delays = &case.delays_us;
		let wh = sc.spawn(move || writer_thread(w, stream, cuts, delays, done_rx, true));
		let mut codec = Codec::new(ProtocolVersion(case.version), r);
		let res = catch(|| read_and_compare(&mut codec, case.version, sent, stream.len(), &mut st));
		drop(codec);
		let _ = done_tx.send(());
		let fired = wh.join().unwrap_or(false);
		(res, fired)
	});
	let res = match res {
		Ok(r) => r,
		Err(panic) => Err(panic),
	};
	if fired {
		return Ok(Once::Stall(format!("watchdog fired; reader said {:?}", res.as_ref().map(|_| ()).map_err(|f| f.msg.clone()))));
	}
	Ok(match res? {
		Once::Done(()) => Once::Done(st),
		Once::Stall(m) => Once::Stall(m),
	})
}

pub fn check_frag(ctx: &Ctx, case: &WireCase, counting: bool) -> PResult {
	init_thread();
	let (sent, stream) = sent_of(case)?;
	for c in &case.cuts {
		ensure!(*c > 0 && *c < stream.len(), "harness:replay-parse", "cut {} outside the stream of {} bytes", c, stream.len());
	}
	let st = with_stall_retry(ctx, "frag", || frag_once(case, &sent, &stream))?;
	if counting {
		let ev = &ctx.ev;
		ev.eval();
		ev.class(&format!("version:{}", case.version));
		ev.class(&format!("frag_kind:{}", case.kind));
		ev.class_n("codec_reads", st.reads);
		ev.class_n("fragments_written", case.cuts.len() as u64 + 1);
		if st.max_batch > 0 {
			ev.class(&format!("largest_header_batch:{}", st.max_batch));
		}
		let (lay, _) = layout(&case.msgs);
		let (mut in_hdr, mut in_body) = (false, false);
		for c in &case.cuts {
			for (s, b, a) in &lay {
				if *c > *s && *c < s + HDR {
					in_hdr = true;
				}
				if (*c > s + HDR && *c < s + HDR + b) || (*c > s + HDR + b && *c < s + HDR + b + a) {
					in_body = true;
				}
			}
		}
		let mut types: Vec<u8> = vec![];
		let (mut batched, mut attached) = (0usize, 0usize);
		for (m, s) in case.msgs.iter().zip(&sent) {
			ev.class(&format!("msg_type:{}", tname(m.t)));
			types.push(m.t.min(29));
			if m.t == Type::Headers as u8 {
				let n = u16::from_be_bytes([s.body[0], s.body[1]]);
				ev.class(&format!("headers_list_size:{}", match n {
					0 | 1 | 31 | 32 | 33 | 64 | 65 | 89 | 511 | 512 => n.to_string(),
					2..=30 => "2-30".into(),
					34..=63 => "34-63".into(),
					66..=88 => "66-88".into(),
					_ => "90-510".into(),
				}));
				if n > 32 {
					batched = batched.max(n as usize);
				}
			}
			if let Some(a) = &s.att {
				ev.class(&format!("attachment_size:{}", match a.len() {
					0 => "0".to_string(),
					1..=199 => "1-199".into(),
					200..=47_999 => "200-47999".into(),
					48_000 => "48000".into(),
					48_001..=96_000 => "48001-96000".into(),
					_ => "96001-200000".into(),
				}));
				if !a.is_empty() {
					attached = attached.max(a.len());
				}
			}
		}
		if in_hdr && in_body && (batched > 0 || attached > 0) {
			types.sort();
			types.dedup();
			ev.class("nontrivial_sequences");
			ev.nontrivial(&(case.version, types, (batched + 31) / 32, (attached + 47_999) / 48_000, &case.kind));
		}
		ev.sample(&format!("frag:{}", case.kind), || {
			json!({"version": case.version, "kind": case.kind, "messages": case.msgs.iter().map(|m| json!({"type": tname(m.t), "body_len": m.body.len() / 2, "att": m.att})).collect::<Vec<_>>(), "cuts": case.cuts.iter().take(24).collect::<Vec<_>>(), "n_cuts": case.cuts.len(), "delays_us": case.delays_us})
		});
	}
	Ok(())
}

// ------------------------------------------------------------------ part limits

/// `variant`: "magic-net" (another network's magic), "magic-b0" / "magic-b1" (one bit of a
/// magic byte flipped), "len" (announced length `len`), and for header lists
/// "count-large" / "count-small" / "count-zero" (`n` real headers on the wire, the count
/// field says n+1 / n-1 / 0).
#[derive(Clone, Debug, Serialize, Deserialize)]
pub struct LimitCase {
	pub mainnet: bool,
	pub t: u8,
	pub variant: String,
	pub len: u64,
	#[serde(default)]
	pub n: u16,
}

fn set_chain(mainnet: bool) {
	global::set_local_chain_type(if mainnet { ChainTypes::Mainnet } else { ChainTypes::AutomatedTesting });
}

struct LimitFrame {
	/// header + the body bytes offered on the wire
	bytes: Vec<u8>,
	/// the header rule of the code refuses it (wrong magic, or announced length > 4 x nominal)
	refused_by_header: bool,
	/// inconsistent item count: must end in an error, cannot be known from the header
	count_variant: bool,
	/// the count field of an inconsistent header list
	count_field: u16,
	announced: u64,
}

fn limit_frame(c: &LimitCase, pool: Option<&Pool>) -> Result<LimitFrame, Fail> {
	let magic = if c.mainnet { MAINNET_MAGIC } else { OTHER_MAGIC };
	let max = nominal_max(c.t);
	match c.variant.as_str() {
		"magic-net" | "magic-b0" | "magic-b1" => {
			let m = match c.variant.as_str() {
				"magic-net" => {
					if c.mainnet {
						OTHER_MAGIC
					} else {
						MAINNET_MAGIC
					}
				}
				"magic-b0" => [magic[0] ^ 0x20, magic[1]],
				_ => [magic[0], magic[1] ^ 0x01],
			};
			let len = c.len.min(max);
			let mut bytes = frame_header(m, c.t, len);
			bytes.extend_from_slice(&vec![0u8; len as usize]);
			Ok(LimitFrame { bytes, refused_by_header: true, count_variant: false, count_field: 0, announced: len })
		}
		"len" => {
			let refused = c.len > 4 * max;
			let offered = if refused { c.len.saturating_sub(1).min(4096) } else { c.len };
			let mut bytes = frame_header(magic, c.t, c.len);
			bytes.extend_from_slice(&vec![0u8; offered as usize]);
			Ok(LimitFrame { bytes, refused_by_header: refused, count_variant: false, count_field: 0, announced: c.len })
		}
		"count-large" | "count-small" | "count-zero" => {
			let p = pool.ok_or_else(|| Fail::new("harness:pool", "header-count variants need the pool"))?;
			ensure!(!c.mainnet && c.t == Type::Headers as u8, "harness:replay-parse", "count variants are for Headers on the testing chain");
			let n = (c.n as usize).clamp(1, p.headers.len());
			let count: u16 = match c.variant.as_str() {
				"count-large" => n as u16 + 1,
				"count-small" => n as u16 - 1,
				_ => 0,
			};
			let mut body = count.to_be_bytes().to_vec();
			for h in &p.headers[..n] {
				body.extend_from_slice(&enc(h, 1000).map_err(harness("header"))?);
			}
			let mut bytes = frame_header(magic, c.t, body.len() as u64);
			let announced = body.len() as u64;
			bytes.extend_from_slice(&body);
			Ok(LimitFrame { bytes, refused_by_header: false, count_variant: true, count_field: count, announced })
		}
		other => Err(Fail::new("harness:replay-parse", format!("unknown variant {}", other))),
	}
}

struct LimitObs {
	results: Vec<String>,
	any_err: bool,
	final_ok: bool,
	delivered_headers: usize,
	/// bytes of the frame taken from the socket, measured by draining what is left
	consumed: usize,
	tail_ok: bool,
}

fn limit_once(c: &LimitCase, f: &LimitFrame) -> Result<Once<LimitObs>, Fail> {
	let magic = if c.mainnet { MAINNET_MAGIC } else { OTHER_MAGIC };
	let ping = {
		let mut b = frame_header(magic, Type::Ping as u8, 16);
		b.extend_from_slice(&enc(&Ping { total_difficulty: Difficulty::from_num(7), height: 9 }, 1000).map_err(harness("ping"))?);
		b
	};
	// a valid Ping, the frame under test, and (where the frame is complete on the wire) a valid Ping behind it
	let tail = if f.refused_by_header && c.variant == "len" { vec![] } else { ping.clone() };
	let mut stream = ping.clone();
	stream.extend_from_slice(&f.bytes);
	stream.extend_from_slice(&tail);
	let (w, r) = socket_pair()?;
	let (done_tx, done_rx) = mpsc::channel::<()>();
	let stream_ref = &stream;
	let out = std::thread::scope(|sc| -> Result<Once<LimitObs>, Fail> {
		let wh = sc.spawn(move || writer_thread(w, stream_ref, &[], &[], done_rx, false));
		let mut codec = Codec::new(ProtocolVersion(1000), r);
		let mut obs = LimitObs { results: vec![], any_err: false, final_ok: false, delivered_headers: 0, consumed: 0, tail_ok: false };
		let (first, _) = codec.read();
		let mut stall = None;
		if !matches!(first, Ok(Message::Ping(_))) {
			let _ = done_tx.send(());
			let _ = wh.join();
			if first.as_ref().err().map(is_timeout).unwrap_or(false) {
				return Ok(Once::Stall("leading ping timed out".into()));
			}
			fail!("harness:limit-leading-ping", "the valid leading Ping was read as {}", describe(&first));
		}
		// read until the frame is answered with an error or with a completed message
		for _ in 0..40 {
			let (r, _) = codec.read();
			obs.results.push(describe(&r));
			match r {
				Err(e) => {
					if is_timeout(&e) {
						stall = Some(format!("{:?}", e));
					}
					obs.any_err = true;
					break;
				}
				Ok(Message::Headers(d)) => {
					obs.delivered_headers += d.headers.len();
					if d.remaining == 0 {
						obs.final_ok = true;
						break;
					}
				}
				Ok(_) => {
					obs.final_ok = true;
					break;
				}
			}
		}
		// what the codec left in the socket (the writer half-closes once it is told we are done)
		let mut rest = codec.stream();
		let _ = done_tx.send(());
		let _ = rest.set_read_timeout(Some(WATCHDOG));
		let mut left = vec![];
		let drained = rest.read_to_end(&mut left);
		let fired = wh.join().unwrap_or(false);
		if fired || stall.is_some() {
			return Ok(Once::Stall(format!("reads so far {:?} (watchdog fired: {})", obs.results, fired)));
		}
		drained.map_err(harness("drain"))?;
		ensure!(left.len() <= f.bytes.len() + tail.len(), "harness:limit-drain", "drained {} bytes, more than were sent", left.len());
		obs.consumed = f.bytes.len() + tail.len() - left.len();
		obs.tail_ok = left.ends_with(&tail);
		Ok(Once::Done(obs))
	})?;
	Ok(out)
}

pub fn check_limit(ctx: &Ctx, c: &LimitCase, counting: bool) -> PResult {
	init_thread();
	set_chain(c.mainnet);
	let r = check_limit_inner(ctx, c, counting);
	set_chain(false);
	r
}

fn check_limit_inner(ctx: &Ctx, c: &LimitCase, counting: bool) -> PResult {
	let pool = if c.variant.starts_with("count") { Some(pool(ctx).map_err(|e| Fail::new("harness:pool", e))?) } else { None };
	let f = limit_frame(c, pool)?;
	let name = tname(c.t);
	let max = nominal_max(c.t);
	let o = match with_stall_retry(ctx, "limits", || limit_once(c, &f)) {
		Ok(o) => o,
		Err(mut fl) => {
			if f.refused_by_header {
				fl.sig = "limit-waited-for-body".into();
				fl.msg = format!("{} {}: the reader did not answer a frame its header rule refuses without more bytes: {}", name, c.variant, fl.msg);
			}
			return Err(fl);
		}
	};
	let what = format!("{} {} (announced {}, nominal max {}, chain {})", name, c.variant, f.announced, max, if c.mainnet { "Mainnet" } else { "AutomatedTesting" });
	if f.refused_by_header {
		ensure!(o.any_err && !o.final_ok, format!("limit-not-refused:{}", c.variant), "{}: read returned {:?}", what, o.results);
		ensure!(
			o.consumed == HDR,
			"limit-body-consumed",
			"{}: the refused frame had {} of its bytes taken from the socket (header = {}); reads: {:?}",
			what,
			o.consumed,
			HDR,
			o.results
		);
	} else if f.count_variant {
		ensure!(o.any_err && !o.final_ok, format!("limit-not-refused:{}", c.variant), "{}: a header list whose count disagrees with its length ended with {:?}", what, o.results);
		ensure!(o.consumed <= f.bytes.len(), "limit-read-past-frame", "{}: {} bytes consumed, the frame has {}", what, o.consumed, f.bytes.len());
		ensure!(o.tail_ok, "limit-read-past-frame", "{}: the message behind the frame was touched", what);
		if f.count_field == 0 {
			// a zero count with a non-empty body is inconsistent on its face: the first
			// read must be the error and no header of the frame may ever be delivered
			ensure!(
				o.delivered_headers == 0 && o.results.len() == 1,
				"headers-count0-trailing-delivered",
				"{}: a Headers frame announcing 0 items followed by {} headers was not refused by the first read ({} headers delivered as successful batches); reads: {:?}",
				what,
				c.n,
				o.delivered_headers,
				o.results
			);
		}
	} else {
		// the header rule accepts it. Up to the nominal maximum this must be so (a legitimate
		// message of maximal size has to be readable): the body is taken from the socket.
		if c.len <= max && c.len > 0 && c.t != Type::Headers as u8 {
			ensure!(o.consumed == f.bytes.len(), "limit-legit-length-refused", "{}: only {} of {} bytes consumed; reads {:?}", what, o.consumed, f.bytes.len(), o.results);
		}
	}
	if counting {
		let ev = &ctx.ev;
		ev.eval();
		ev.class(&format!("limit_variant:{}", c.variant));
		ev.class(&format!("limit_type:{}", name));
		if c.variant == "len" {
			let zone = if c.len <= max {
				"at_or_below_nominal"
			} else if c.len <= 4 * max {
				"above_nominal_but_within_4x:accepted_by_code"
			} else {
				"above_4x:refused"
			};
			ev.class(&format!("limit_len_zone:{}", zone));
			if c.len > max && c.len <= 4 * max && o.consumed > HDR {
				ev.class("frames_above_nominal_limit_whose_body_was_read");
			}
		}
		if f.count_variant && o.delivered_headers > 0 {
			ev.class(&format!("count_variant_batches_delivered_before_error:{}", c.variant));
		}
		if f.count_variant {
			ev.class(&format!(
				"inconsistent_count_detected_{}:{}",
				if o.consumed > HDR + 2 { "only_after_reading_body_bytes" } else { "from_the_count_field_alone" },
				c.variant
			));
		}
		ev.sample(&format!("limits:{}", c.variant), || json!({"case": c, "reads": o.results, "frame_bytes_consumed": o.consumed}));
	}
	Ok(())
}

fn limit_table(mainnet: bool) -> Vec<LimitCase> {
	set_chain(mainnet);
	let mut v = vec![];
	let mut types: Vec<u8> = (0u8..29).collect();
	types.extend([29u8, 77, 255]);
	for t in types {
		let max = nominal_max(t);
		for variant in ["magic-net", "magic-b0", "magic-b1"] {
			v.push(LimitCase { mainnet, t, variant: variant.into(), len: 16, n: 0 });
		}
		let mut lens = vec![max, max + 1, 4 * max, 4 * max + 1, 4 * max + 4097, 1u64 << 32, 1u64 << 63, u64::MAX];
		lens.dedup();
		for len in lens {
			v.push(LimitCase { mainnet, t, variant: "len".into(), len, n: 0 });
		}
	}
	if !mainnet {
		for n in [1u16, 2, 31, 32, 33, 64, 89] {
			for variant in ["count-large", "count-small", "count-zero"] {
				v.push(LimitCase { mainnet, t: Type::Headers as u8, variant: variant.into(), len: 0, n });
			}
		}
	}
	set_chain(false);
	v
}

// ---- allocation while refusing: single-threaded child under the counting allocator

/// `gv child x C19 alloc <cases.json> <out.jsonl>`: for every case write the frame into a
/// loopback socket, half-close, and run one `Codec::read` under the counting allocator.
pub fn child(args: &[String]) -> i32 {
	if args.len() < 3 || args[0] != "alloc" {
		return 2;
	}
	init_global();
	let Ok(s) = std::fs::read_to_string(&args[1]) else { return 2 };
	let Ok(cases) = serde_json::from_str::<Vec<LimitCase>>(&s) else { return 2 };
	let Ok(mut out) = std::fs::File::create(&args[2]) else { return 2 };
	for (i, c) in cases.iter().enumerate() {
		set_chain(c.mainnet);
		let line = match child_one(c) {
			Ok(v) => v,
			Err(e) => json!({"i": i, "harness_error": e}),
		};
		let mut line = line;
		line["i"] = json!(i);
		let _ = writeln!(out, "{}", line);
		let _ = out.flush();
	}
	0
}

fn child_one(c: &LimitCase) -> Result<Value, String> {
	let f = limit_frame(c, None).map_err(|e| e.msg)?;
	let lis = TcpListener::bind("127.0.0.1:0").map_err(|e| e.to_string())?;
	let mut w = TcpStream::connect(lis.local_addr().map_err(|e| e.to_string())?).map_err(|e| e.to_string())?;
	let (r, _) = lis.accept().map_err(|e| e.to_string())?;
	if f.bytes.len() > 16 * 1024 {
		return Err("frame too large for the single-threaded child".into());
	}
	w.write_all(&f.bytes).map_err(|e| e.to_string())?;
	w.shutdown(Shutdown::Write).map_err(|e| e.to_string())?;
	let mut codec = Codec::new(ProtocolVersion(1000), r);
	alloc::start(0);
	let (res, n) = codec.read();
	let (largest, peak) = alloc::stop();
	Ok(json!({"largest": largest, "peak": peak, "bytes_read": n, "result": describe(&res), "is_err": res.is_err()}))
}

/// run the child over a batch; one Value per case (Null = the child died at/before it)
fn alloc_batch(ctx: &Ctx, cases: &[LimitCase]) -> Result<Vec<Value>, Fail> {
	let dir = ctx.scratch_dir("alloc");
	let inp = dir.join("cases.json");
	let outp = dir.join("out.jsonl");
	std::fs::write(&inp, serde_json::to_string(cases).unwrap()).map_err(harness("write cases"))?;
	let exe = std::env::current_exe().map_err(harness("current_exe"))?;
	let status = std::process::Command::new(exe)
		.args(["child", "x", "C19", "alloc", inp.to_str().unwrap(), outp.to_str().unwrap()])
		.env("GV_ROOT", &ctx.root)
		.stdin(std::process::Stdio::null())
		.stdout(std::process::Stdio::null())
		.status()
		.map_err(harness("spawn child"))?;
	let body = std::fs::read_to_string(&outp).unwrap_or_default();
	let mut res = vec![Value::Null; cases.len()];
	for line in body.lines() {
		if let Ok(v) = serde_json::from_str::<Value>(line) {
			if let Some(i) = v["i"].as_u64() {
				if (i as usize) < res.len() {
					res[i as usize] = v;
				}
			}
		}
	}
	let _ = std::fs::remove_dir_all(&dir);
	if !status.success() && res.iter().all(|v| !v.is_null()) {
		return Err(Fail::new("harness:alloc-child", format!("child exited with {:?}", status)));
	}
	Ok(res)
}

/// allocations below this size are bookkeeping, not "the announced body"
const ALLOC_FLOOR: u64 = 4096;

fn judge_alloc(ctx: &Ctx, c: &LimitCase, v: &Value, counting: bool) -> PResult {
	let what = format!("{} {} announced {} ({})", tname(c.t), c.variant, c.len, if c.mainnet { "Mainnet" } else { "AutomatedTesting" });
	if v.is_null() {
		fail!("over-limit-alloc-abort", "{}: the reading process died while answering this frame (allocation failure / abort)", what);
	}
	if let Some(e) = v["harness_error"].as_str() {
		fail!("harness:alloc-child", "{}: {}", what, e);
	}
	let largest = v["largest"].as_u64().unwrap_or(0);
	let peak = v["peak"].as_u64().unwrap_or(0);
	ensure!(v["is_err"].as_bool() == Some(true), "limit-not-refused:len", "{}: single-threaded read returned {}", what, v["result"]);
	if c.len >= ALLOC_FLOOR {
		ensure!(
			largest < c.len && peak < c.len,
			"over-limit-alloc",
			"{}: while refusing, the largest single allocation was {} bytes and the live peak {} bytes (announced {})",
			what,
			largest,
			peak,
			c.len
		);
	}
	if counting {
		ctx.ev.eval();
		ctx.ev.class(if c.len >= ALLOC_FLOOR { "alloc_checked_refused_frames" } else { "alloc_measured_only_announced_below_4096" });
		let mut g = ctx.ev.0.lock().unwrap();
		let cur = g.extra.get("largest_allocation_while_refusing").and_then(|x| x.as_u64()).unwrap_or(0);
		g.extra.insert("largest_allocation_while_refusing".into(), json!(cur.max(largest)));
	}
	Ok(())
}

pub fn check_limit_alloc(ctx: &Ctx, c: &LimitCase, counting: bool) -> PResult {
	let r = alloc_batch(ctx, std::slice::from_ref(c))?;
	judge_alloc(ctx, c, &r[0], counting)
}

// ------------------------------------------------------------------ part handshake

/// scenario: "accept" (real accept, scripted Hand of `version`), "initiate" (real initiate,
/// scripted Shake of `version`), "real-real", "genesis-accept" (two real instances),
/// "genesis-initiate" (scripted Shake with another genesis), "self" (one instance dials itself)
#[derive(Clone, Debug, Serialize, Deserialize)]
pub struct HsCase {
	pub scenario: String,
	pub version: u32,
	/// scenario "self": outbound handshake attempts the instance has made before it dials itself
	/// (the refusal rests on remembering the nonces of its own recent Hand messages)
	#[serde(default)]
	pub prior: u32,
}

fn write_frame(s: &mut TcpStream, t: u8, body: &[u8]) -> std::io::Result<()> {
	let mut b = frame_header(OTHER_MAGIC, t, body.len() as u64);
	b.extend_from_slice(body);
	s.write_all(&b)
}

fn read_frame(s: &mut TcpStream) -> Result<(u8, Vec<u8>), Fail> {
	let _ = s.set_read_timeout(Some(WATCHDOG));
	let mut h = [0u8; HDR];
	s.read_exact(&mut h).map_err(|e| Fail::new("handshake-no-reply", format!("the real side sent no frame: {}", e)))?;
	ensure!([h[0], h[1]] == OTHER_MAGIC, "handshake-frame", "reply carries magic {:?}", &h[..2]);
	let mut l = [0u8; 8];
	l.copy_from_slice(&h[3..]);
	let len = u64::from_be_bytes(l);
	ensure!(len <= 1024, "handshake-frame", "reply announces {} bytes", len);
	let mut body = vec![0u8; len as usize];
	s.read_exact(&mut body).map_err(|e| Fail::new("handshake-no-reply", format!("reply body: {}", e)))?;
	Ok((h[2], body))
}

fn plain_pair() -> Result<(TcpStream, TcpStream), Fail> {
	let lis = TcpListener::bind("127.0.0.1:0").map_err(harness("bind"))?;
	let a = TcpStream::connect(lis.local_addr().map_err(harness("addr"))?).map_err(harness("connect"))?;
	let (b, _) = lis.accept().map_err(harness("accept"))?;
	Ok((a, b))
}

fn dec<T: ser::Readable>(b: &[u8], v: u32) -> Result<T, ser::Error> {
	let mut s: &[u8] = b;
	ser::deserialize(&mut s, ProtocolVersion(v), DeserializationMode::default())
}

pub fn check_handshake(ctx: &Ctx, c: &HsCase, counting: bool) -> PResult {
	init_thread();
	let local = ProtocolVersion::local().0;
	let g1 = hash_from(1, 1);
	let g2 = hash_from(2, 1);
	let caps = Capabilities::default();
	let td = Difficulty::from_num(1234);
	let want = local.min(c.version);
	let v = c.version;
	match c.scenario.as_str() {
		"accept" => {
			let hs = Handshake::new(g1, P2PConfig::default());
			let (mut peer, mut conn) = plain_pair()?;
			let me = PeerAddr(peer.local_addr().map_err(harness("addr"))?);
			let hand = Hand {
				version: ProtocolVersion(v),
				capabilities: caps,
				nonce: 0x1234_5678_9abc_def0,
				genesis: g1,
				total_difficulty: td,
				sender_addr: me,
				receiver_addr: PeerAddr(conn.local_addr().map_err(harness("addr"))?),
				user_agent: "gv-scripted".into(),
			};
			write_frame(&mut peer, Type::Hand as u8, &enc(&hand, v).map_err(harness("hand"))?).map_err(harness("write hand"))?;
			let info = hs.accept(caps, td, &mut conn).map_err(|e| Fail::new("handshake-accept-failed", format!("Hand advertising version {}: {:?}", v, e)))?;
			ensure!(info.version.0 == want, "handshake-version", "accept: remote advertises {}, local {}: negotiated {} instead of {}", v, local, info.version.0, want);
			let (t, body) = read_frame(&mut peer)?;
			ensure!(t == Type::Shake as u8, "handshake-frame", "accept answered with message type {}", t);
			let shake: Shake = dec(&body, want).map_err(|e| Fail::new("handshake-frame", format!("Shake does not decode at version {}: {:?}", want, e)))?;
			ensure!(shake.genesis == g1, "handshake-frame", "Shake carries genesis {:?}", shake.genesis);
			// the remote applies the same rule to what the Shake advertises: both ends must agree
			ensure!(
				v.min(shake.version.0) == want,
				"handshake-version-disagree",
				"accept: the Shake advertises {}, so a remote of version {} settles on {} while the local side settled on {}",
				shake.version.0,
				v,
				v.min(shake.version.0),
				want
			);
		}
		"initiate" | "genesis-initiate" => {
			let hs = Handshake::new(g1, P2PConfig::default());
			let (mut conn, mut peer) = plain_pair()?;
			let shake = Shake {
				version: ProtocolVersion(v),
				capabilities: caps,
				genesis: if c.scenario == "initiate" { g1 } else { g2 },
				total_difficulty: td,
				user_agent: "gv-scripted".into(),
			};
			// full duplex: the scripted answer can be on the wire before the Hand is read
			write_frame(&mut peer, Type::Shake as u8, &enc(&shake, want).map_err(harness("shake"))?).map_err(harness("write shake"))?;
			let me = PeerAddr(conn.local_addr().map_err(harness("addr"))?);
			let res = hs.initiate(caps, td, me, &mut conn);
			let (t, body) = read_frame(&mut peer)?;
			ensure!(t == Type::Hand as u8, "handshake-frame", "initiate sent message type {}", t);
			let hand: Hand = dec(&body, local).map_err(|e| Fail::new("handshake-frame", format!("Hand does not decode: {:?}", e)))?;
			ensure!(hand.genesis == g1, "handshake-frame", "Hand carries genesis {:?}", hand.genesis);
			if c.scenario == "initiate" {
				let info = res.map_err(|e| Fail::new("handshake-initiate-failed", format!("Shake advertising version {}: {:?}", v, e)))?;
				ensure!(info.version.0 == want, "handshake-version", "initiate: remote advertises {}, local {}: negotiated {} instead of {}", v, local, info.version.0, want);
				ensure!(
					v.min(hand.version.0) == want,
					"handshake-version-disagree",
					"initiate: the Hand advertises {}, so a remote of version {} settles on {} while the local side settled on {}",
					hand.version.0,
					v,
					v.min(hand.version.0),
					want
				);
			} else {
				match res {
					Err(grin_p2p::Error::GenesisMismatch { us, peer }) => ensure!(us == g1 && peer == g2, "handshake-genesis", "GenesisMismatch reports us={:?} peer={:?}", us, peer),
					other => fail!("handshake-genesis-accepted", "initiate against a Shake with another genesis returned {:?}", other.map(|i| i.version)),
				}
			}
		}
		"real-real" | "genesis-accept" | "self" => {
			let a = Handshake::new(g1, P2PConfig::default());
			let b = Handshake::new(if c.scenario == "genesis-accept" { g2 } else { g1 }, P2PConfig::default());
			let acceptor = if c.scenario == "self" { &a } else { &b };
			// earlier outbound attempts of the dialling instance (to peers that hang up at once)
			for _ in 0..c.prior {
				let (mut x, y) = plain_pair()?;
				let addr = PeerAddr(x.local_addr().map_err(harness("addr"))?);
				let _ = y.shutdown(Shutdown::Both);
				drop(y);
				let _ = x.set_read_timeout(Some(Duration::from_millis(200)));
				let _ = a.initiate(caps, td, addr, &mut x);
			}
			let (mut ca, mut cb) = plain_pair()?;
			let me = PeerAddr(ca.local_addr().map_err(harness("addr"))?);
			let (ra, rb) = std::thread::scope(|sc| {
				let h = sc.spawn(|| {
					init_thread();
					let r = acceptor.accept(caps, td, &mut cb);
					// a refusing node drops the connection
					if r.is_err() {
						let _ = cb.shutdown(Shutdown::Both);
					}
					r
				});
				let ra = a.initiate(caps, td, me, &mut ca);
				(ra, h.join())
			});
			let rb = rb.map_err(|_| Fail::new("panic@handshake-accept", "accept panicked"))?;
			match c.scenario.as_str() {
				"real-real" => {
					let ia = ra.map_err(|e| Fail::new("handshake-initiate-failed", format!("{:?}", e)))?;
					let ib = rb.map_err(|e| Fail::new("handshake-accept-failed", format!("{:?}", e)))?;
					ensure!(ia.version.0 == local && ib.version.0 == local, "handshake-version", "two local-version nodes settled on {} / {}", ia.version.0, ib.version.0);
				}
				"genesis-accept" => {
					match rb {
						Err(grin_p2p::Error::GenesisMismatch { us, peer }) => ensure!(us == g2 && peer == g1, "handshake-genesis", "GenesisMismatch reports us={:?} peer={:?}", us, peer),
						other => fail!("handshake-genesis-accepted", "accept of a Hand with another genesis returned {:?}", other.map(|i| i.version)),
					}
					ensure!(ra.is_err(), "handshake-genesis-accepted", "the initiating side completed a handshake with a node of another genesis");
				}
				_ => {
					match rb {
						Err(grin_p2p::Error::PeerWithSelf) => {}
						other => fail!("handshake-self-accepted", "a node accepting its own Hand (after {} earlier outbound handshake attempts) returned {:?}", c.prior, other.map(|i| i.version)),
					}
					ensure!(ra.is_err(), "handshake-self-accepted", "the initiating side completed a handshake with itself");
				}
			}
		}
		other => fail!("harness:replay-parse", "unknown scenario {}", other),
	}
	if counting {
		ctx.ev.eval();
		ctx.ev.class(&format!("handshake:{}", c.scenario));
		if c.scenario == "self" {
			ctx.ev.class(&format!("handshake:self_after_prior_outbound_attempts:{}", c.prior));
		}
		ctx.ev.sample(&format!("handshake:{}", c.scenario), || json!(c));
	}
	Ok(())
}

fn handshake_table(quick: bool) -> Vec<HsCase> {
	let mut v = vec![];
	for ver in [1u32, 2, 3, 999, 1000, 1001, u32::MAX, 0] {
		v.push(HsCase { scenario: "accept".into(), version: ver, prior: 0 });
		v.push(HsCase { scenario: "initiate".into(), version: ver, prior: 0 });
	}
	for s in ["real-real", "genesis-accept", "genesis-initiate", "self"] {
		v.push(HsCase { scenario: s.into(), version: 1000, prior: 0 });
	}
	// the node dials itself after a history of outbound attempts (around and beyond any plausible
	// size of the memory of its own nonces)
	// (each attempt costs ~150 ms: the handshake writes through the rate-limited message writer)
	let priors: &[u32] = if quick { &[1, 100, 101, 140] } else { &[1, 2, 50, 99, 100, 101, 128, 140, 255, 256, 257, 300, 1000] };
	for prior in priors {
		v.push(HsCase { scenario: "self".into(), version: 1000, prior: *prior });
	}
	v
}

// ------------------------------------------------------------------ wire format cross-check

struct Raw<'a>(&'a [u8]);

impl<'a> Writeable for Raw<'a> {
	fn write<W: Writer>(&self, w: &mut W) -> Result<(), ser::Error> {
		w.write_fixed_bytes(self.0)
	}
}

/// header ‖ body ‖ attachment as this harness composes it equals what `Msg::new` +
/// `write_message` put on the wire (fresh Tracker: no 150 ms pacing)
fn crosscheck_wire(ctx: &Ctx, p: &Pool) -> PResult {
	let mut n = 0u64;
	for t in TYPES {
		for (i, len) in [0usize, 1, 16, 300].iter().enumerate() {
			let body = expand(t as u64, i as u8, *len);
			for v in VERSIONS {
				let msg = Msg::new(t, Raw(&body), ProtocolVersion(v)).map_err(harness("Msg::new"))?;
				let mut out: Vec<u8> = vec![];
				grin_p2p::msg::write_message(&mut out, &msg, Arc::new(Tracker::new())).map_err(|e| Fail::new("harness:io", format!("{:?}", e)))?;
				let mut mine = frame_header(OTHER_MAGIC, t as u8, body.len() as u64);
				mine.extend_from_slice(&body);
				ensure!(out == mine, "harness:wire-model", "write_message({:?}, {} bytes) differs from header‖body", t, len);
				n += 1;
			}
		}
	}
	// typed bodies and an attachment
	for spec in [MsgSpec::Ping(5, 6), MsgSpec::Headers(0, 3), MsgSpec::Block(40_000), MsgSpec::TxHashSetArchive(1, 2, 20_000, 3)] {
		let w = build_msg(&spec, 1000, p).map_err(|e| Fail::new("harness:build", e))?;
		let case = WireCase { version: 1000, msgs: vec![w.clone()], cuts: vec![], delays_us: vec![], kind: "whole".into() };
		let (_, mine) = sent_of(&case)?;
		let mut out: Vec<u8> = vec![];
		let tr = Arc::new(Tracker::new());
		match &spec {
			MsgSpec::Ping(a, b) => {
				let m = Msg::new(Type::Ping, Ping { total_difficulty: Difficulty::from_num(*a), height: *b }, ProtocolVersion(1000)).map_err(harness("Msg::new"))?;
				grin_p2p::msg::write_message(&mut out, &m, tr).map_err(|e| Fail::new("harness:io", format!("{:?}", e)))?;
			}
			MsgSpec::Headers(..) => {
				let m = Msg::new(Type::Headers, grin_p2p::msg::Headers { headers: p.headers[0..3].to_vec() }, ProtocolVersion(1000)).map_err(harness("Msg::new"))?;
				grin_p2p::msg::write_message(&mut out, &m, tr).map_err(|e| Fail::new("harness:io", format!("{:?}", e)))?;
			}
			MsgSpec::Block(i) => {
				let m = Msg::new(Type::Block, p.blocks[pick(*i, p.blocks.len())].clone(), ProtocolVersion(1000)).map_err(harness("Msg::new"))?;
				grin_p2p::msg::write_message(&mut out, &m, tr).map_err(|e| Fail::new("harness:io", format!("{:?}", e)))?;
			}
			_ => {
				let (len, seed) = w.att.unwrap();
				let path = ctx.scratch_dir("att").join("a.bin");
				std::fs::write(&path, expand(seed, 9, len as usize)).map_err(harness("att file"))?;
				let mut m = Msg::new(Type::TxHashSetArchive, TxHashSetArchive { hash: hash_from(1, 1), height: 2, bytes: len as u64 }, ProtocolVersion(1000)).map_err(harness("Msg::new"))?;
				m.add_attachment(std::fs::File::open(&path).map_err(harness("att open"))?);
				grin_p2p::msg::write_message(&mut out, &m, tr).map_err(|e| Fail::new("harness:io", format!("{:?}", e)))?;
				let _ = std::fs::remove_dir_all(path.parent().unwrap());
			}
		}
		ensure!(out == mine, "harness:wire-model", "write_message output for {:?} differs from the harness's wire bytes", spec);
		n += 1;
	}
	ctx.ev.class_n("wire_bytes_crosschecked_against_write_message", n);
	Ok(())
}

// ------------------------------------------------------------------ driver

/// run `f` over the items on `threads` harness threads; returns the failures (index, Fail)
fn par_for<T: Sync>(items: &[T], threads: usize, f: impl Fn(&T) -> PResult + Sync) -> Vec<(usize, Fail)> {
	let next = AtomicUsize::new(0);
	let stop = AtomicBool::new(false);
	let out: Mutex<Vec<(usize, Fail)>> = Mutex::new(vec![]);
	std::thread::scope(|sc| {
		for _ in 0..threads.max(1).min(items.len().max(1)) {
			sc.spawn(|| {
				init_thread();
				loop {
					let i = next.fetch_add(1, Ordering::SeqCst);
					if i >= items.len() || stop.load(Ordering::SeqCst) {
						break;
					}
					let r = match catch(|| f(&items[i])) {
						Ok(r) => r,
						Err(p) => Err(p),
					};
					if let Err(fl) = r {
						let mut g = out.lock().unwrap();
						g.push((i, fl));
						if g.len() >= 8 {
							stop.store(true, Ordering::SeqCst);
						}
					}
				}
			});
		}
	});
	let mut v = out.into_inner().unwrap();
	v.sort_by_key(|x| x.0);
	v
}

/// report failures; harness problems become a HarnessError
fn settle(ctx: &Ctx, part: &str, fails: Vec<(Value, Fail)>) -> HResult<()> {
	let mut seen = std::collections::HashSet::new();
	for (case, f) in fails {
		if f.sig.starts_with("harness:") {
			return Err(HarnessError(format!("{} [{}]: {}", part, f.sig, f.msg)));
		}
		if seen.insert(f.sig.clone()) {
			ctx.report(part, &f.sig, case, &f.msg);
		}
	}
	Ok(())
}

fn first_failing_plan(ctx: &Ctx, spec: &FragSpec, p: &Pool) -> Option<(WireCase, Fail)> {
	for plan in &spec.plans {
		let wc = wire_case(spec, plan, p, None);
		let r = match catch(|| check_frag(ctx, &wc, false)) {
			Ok(r) => r,
			Err(pf) => Err(pf),
		};
		if let Err(f) = r {
			return Some((wc, f));
		}
	}
	None
}

fn short_seq_strategy() -> impl Strategy<Value = (u8, Vec<MsgSpec>)> {
	let m = prop_oneof![
		10 => small_msg(),
		1 => any::<u16>().prop_map(MsgSpec::Header),
		1 => any::<u16>().prop_map(|s| MsgSpec::Headers(s, 1)),
	];
	(0u8..4, prop::collection::vec(m, 2..=7))
}

const RULE: &str = "part frag: proptest generates (protocol version in {1,2,3,1000}, 1-12 messages, 4 fragmentation plans); headers/blocks/compact blocks are real mined objects of the prepared 89-block AutomatedTesting chain, transactions come from the asset library, segment responses are cut from small in-memory PMMRs by Segment::from_pmmr, the rest from typed generators, unknown type bytes 29..255 carry arbitrary bodies of any length up to the limit for such frames (weighted towards short ones, 8 KiB +-1, 16 KiB, the limit and limit-1), TxHashSetArchive is followed by an attachment of 0..200000 bytes; every (sequence, plan) is one loopback TCP connection: the writer thread writes header‖body‖attachment split at the plan's cut points (whole / one cut / 2-40 random cuts / 1-byte dribble / all item boundaries -1,0,+1 / one cut inside every header and every body) with 0-5 ms pauses, the reader drives Codec::read like conn.rs (expect_attachment after TxHashSetArchive) and every received message is re-encoded and compared with the sent bytes (header batches concatenated, `remaining` and attachment `left` checked, sum of bytes_read = bytes sent); sweeps: every single cut point of short sequences (<= 600 bytes) plus a strided sweep over a long sequence (33 headers + attachment); header lists have 0 (the empty list a peer with nothing newer sends, frequent, in every position), 1, 31, 32, 33, 64, 65, 89, 511, 512 (the full list of a header sync) or random items (beyond 89 the prepared headers repeat); the empty list is additionally sent in directed sequences (alone, first, last, tripled, between batched lists, around attachments) at every version. part limits: for every type byte 0..28 and three unknown ones, on AutomatedTesting and Mainnet limits: wrong magic (other network / one bit flipped) and announced lengths nominal, nominal+1, 4x, 4x+1, 4x+4097, 2^32, 2^63, 2^64-1; header lists whose count field is n+1 / n-1 / 0 for n real headers (a zero count with trailing headers must be refused by the first read with nothing delivered); the bytes taken from the socket are measured by draining what the codec left; refused frames are re-read in a single-threaded child under the counting allocator. part handshake: real accept/initiate against a scripted peer advertising versions 0,1,2,3,999,1000,1001,2^32-1, two real instances (same / different genesis), one instance dialling itself. evaluations = connections of part frag + limit frames + allocator frames + handshakes. non-trivial = frag connection with >=1 cut strictly inside a message header and >=1 strictly inside a body/attachment whose sequence contains a header list of more than 32 items or a non-empty attachment; distinct by (version, set of message types, number of batches, number of attachment chunks, fragmentation kind)";

pub fn run(ctx: &Ctx) -> HResult<()> {
	init_global();
	let ev = &ctx.ev;
	ev.rule(RULE);
	ev.assume("loopback TCP delivers the written bytes in order; the harness's frame layout (2 magic bytes, type byte, u64 length) and the per-type limits are transcribed from p2p/src/msg.rs and cross-checked against MsgHeader / write_message on every run; the writers (Writeable impls) are the reference for what a peer sends");
	let t0 = std::time::Instant::now();
	let p = pool(ctx).map_err(HarnessError)?;
	ev.extra("pool_build_s", json!(t0.elapsed().as_secs_f64()));
	let threads = 8usize;

	if let Err(f) = crosscheck_wire(ctx, p) {
		return Err(HarnessError(format!("[{}] {}", f.sig, f.msg)));
	}

	// ---- directed: the empty header list (sig zero-headers-badmessage if it is refused) alone,
	// first, last, doubled, next to batched lists and next to attachments, at every version
	{
		let e = || MsgSpec::Headers(0, 0);
		let seqs: Vec<Vec<MsgSpec>> = vec![
			vec![MsgSpec::Ping(3, 4), e(), MsgSpec::Ping(3, 4)],
			vec![e()],
			vec![e(), MsgSpec::Pong(1, 2)],
			vec![MsgSpec::Pong(1, 2), e()],
			vec![e(), e(), e()],
			vec![MsgSpec::Headers(100, 33), e(), MsgSpec::Headers(9000, 64), e(), MsgSpec::Headers(0, 1)],
			vec![MsgSpec::TxHashSetArchive(1, 2, 48_001, 3), e(), MsgSpec::TxHashSetArchive(4, 5, 0, 6), e(), MsgSpec::Unknown(99, 17, 7), e()],
		];
		let plans = [PlanSpec::Whole, PlanSpec::Dribble, PlanSpec::Edges(-1), PlanSpec::Edges(0), PlanSpec::Edges(1), PlanSpec::HeaderBody(30_000, 50_000)];
		let mut directed: Vec<WireCase> = vec![];
		for (vi, _) in VERSIONS.iter().enumerate() {
			for msgs in &seqs {
				for plan in &plans {
					let spec = FragSpec { version: vi as u8, msgs: msgs.clone(), plans: vec![] };
					directed.push(wire_case(&spec, &FragPlan { plan: plan.clone(), delays: vec![0, 3] }, p, None));
				}
			}
		}
		ev.class_n("zero_headers_directed_cases", directed.len() as u64);
		let fails = par_for(&directed, threads, |wc| check_frag(ctx, wc, true));
		settle(ctx, "frag", fails.into_iter().map(|(i, f)| (serde_json::to_value(&directed[i]).unwrap(), f)).collect())?;
	}

	// ---- generated sequences x fragmentation plans
	let plans_per_seq = 4usize;
	let seqs = ctx.n(300, 6000);
	let fl = pbt_par(
		ctx,
		"frag",
		seqs,
		threads,
		|| frag_strategy(plans_per_seq),
		init_thread,
		|spec: &FragSpec, counting| {
			for plan in &spec.plans {
				let wc = wire_case(spec, plan, p, if counting { Some(ev) } else { None });
				check_frag(ctx, &wc, counting)?;
			}
			if counting {
				ev.class("sequences");
			}
			Ok(())
		},
	);
	if let Some(fl) = fl {
		let (case, f) = match first_failing_plan(ctx, &fl.value, p) {
			Some((wc, f)) => (serde_json::to_value(&wc).unwrap(), f),
			None => (json!({"spec": format!("{:?}", fl.value)}), fl.fail),
		};
		settle(ctx, "frag", vec![(case, f)])?;
	}

	// ---- full single-cut sweeps of short sequences, plus dribble
	let n_short = ctx.n(20, 300);
	let mut sweep: Vec<WireCase> = vec![];
	for k in 0..n_short {
		let (vi, specs) = sample_one(ctx.derive_seed("sweep", k), &short_seq_strategy());
		let v = VERSIONS[vi as usize % 4];
		let mut msgs: Vec<WireMsg> = vec![];
		for s in &specs {
			if let Ok(w) = build_msg(s, v, p) {
				let mut cand = msgs.clone();
				cand.push(w);
				if layout(&cand).1 <= 600 {
					msgs = cand;
				}
			}
		}
		if msgs.is_empty() {
			continue;
		}
		let total = layout(&msgs).1;
		ev.class("sweep_sequences_short");
		for c in 1..total {
			sweep.push(WireCase { version: v, msgs: msgs.clone(), cuts: vec![c], delays_us: vec![200], kind: "sweep-single".into() });
		}
		sweep.push(WireCase { version: v, msgs: msgs.clone(), cuts: (1..total).collect(), delays_us: vec![0, 0, 0, 50], kind: "dribble".into() });
	}
	// strided sweep over a long sequence: header batching boundary and attachment
	{
		let n_long = ctx.n(2, 8);
		let stride = if ctx.quick() { 7 } else { 1 };
		for k in 0..n_long {
			let v = VERSIONS[(k % 4) as usize];
			let specs = [MsgSpec::Ping(k, 2), MsgSpec::Headers((k * 9000) as u16, 33), MsgSpec::TxHashSetArchive(k, 5, 700, k), MsgSpec::Unknown(200, 33, k), MsgSpec::Pong(1, k)];
			let msgs: Vec<WireMsg> = specs.iter().filter_map(|s| build_msg(s, v, p).ok()).collect();
			let total = layout(&msgs).1;
			ev.class("sweep_sequences_long");
			let mut c = 1 + (k as usize % stride);
			while c < total {
				sweep.push(WireCase { version: v, msgs: msgs.clone(), cuts: vec![c], delays_us: vec![200], kind: "sweep-single".into() });
				c += stride;
			}
		}
	}
	let fails = par_for(&sweep, threads, |wc| check_frag(ctx, wc, true));
	settle(ctx, "frag", fails.into_iter().map(|(i, f)| (serde_json::to_value(&sweep[i]).unwrap(), f)).collect())?;
	drop(sweep);

	// ---- slow bodies: one gap longer than the 2 s frame-header timeout and far below the 60 s body
	// timeout, strictly inside a message body (part of the body has arrived with the header). "Within
	// the I/O timeouts" of the statement; the reader repeats a timed-out read as the connection loop does.
	{
		let n_slow = ctx.n(16, 96);
		let mut slow: Vec<WireCase> = vec![];
		for k in 0..n_slow {
			let v = VERSIONS[(k % 4) as usize];
			let specs: Vec<MsgSpec> = match k % 4 {
				0 => vec![MsgSpec::Ping(k, 7), MsgSpec::Pong(3, k)],
				1 => vec![MsgSpec::Headers((k * 977) as u16, 1 + (k % 40) as u16), MsgSpec::Ping(k, 1)],
				2 => vec![MsgSpec::Unknown(201, 40 + (k % 50) as u16, k), MsgSpec::Ping(k, 2)],
				_ => {
					let (_, mut sp) = sample_one(ctx.derive_seed("slow", k), &short_seq_strategy());
					sp.truncate(3);
					sp.push(MsgSpec::Ping(k, 3));
					sp
				}
			};
			let msgs: Vec<WireMsg> = specs.iter().filter_map(|s| build_msg(s, v, p).ok()).collect();
			let (lay, _) = layout(&msgs);
			// the first message with a body of at least 2 bytes; the cut leaves >= 1 byte on each side
			let Some((s0, b, _)) = lay.iter().find(|(_, b, _)| *b >= 2).cloned() else { continue };
			let inside = 1 + (ctx.derive_seed("slowcut", k) as usize % (b - 1));
			slow.push(WireCase { version: v, msgs, cuts: vec![s0 + HDR + inside], delays_us: vec![2_300_000], kind: "slow-body".into() });
		}
		let fails = par_for(&slow, 16.max(threads), |wc| check_frag(ctx, wc, true));
		settle(ctx, "frag", fails.into_iter().map(|(i, f)| (serde_json::to_value(&slow[i]).unwrap(), f)).collect())?;
	}

	// ---- over-long frames of known types: the announced length (within the limit of the type) exceeds
	// what the message needs. The frame boundary is where the header says, whatever the decoder
	// consumed: the messages that follow are read as sent (or the frame is refused)
	{
		let mut padded: Vec<WireCase> = vec![];
		for (k, v) in VERSIONS.iter().enumerate() {
			for (j, pad) in [1usize, 8, HDR, HDR + 16, 48].iter().enumerate() {
				let Ok(mut first) = build_msg(&MsgSpec::Ping(7 + k as u64, j as u64), *v, p) else { continue };
				let Ok(follow) = build_msg(&MsgSpec::Pong(5, k as u64 + j as u64), *v, p) else { continue };
				let Ok(last) = build_msg(&MsgSpec::Ping(9, 9), *v, p) else { continue };
				let mut body = unhex(&first.body).map_err(|f| HarnessError(f.msg))?;
				// the padding: zeros, or — when it is long enough — a complete well-formed frame
				let fill: Vec<u8> = if *pad >= HDR + 16 {
					let inner = unhex(&follow.body).map_err(|f| HarnessError(f.msg))?;
					let mut f = frame_header(OTHER_MAGIC, Type::Pong as u8, inner.len() as u64);
					f.extend_from_slice(&inner);
					f.resize(*pad, 0);
					f
				} else {
					vec![0u8; *pad]
				};
				body.extend_from_slice(&fill);
				first.body = hexs(&body);
				first.pad = *pad as u16;
				let msgs = vec![first, follow, last];
				let total = layout(&msgs).1;
				padded.push(WireCase { version: *v, msgs: msgs.clone(), cuts: vec![], delays_us: vec![], kind: "padded-frame".into() });
				padded.push(WireCase { version: *v, msgs, cuts: (1..total).step_by(5).collect(), delays_us: vec![0, 50], kind: "padded-frame".into() });
			}
		}
		let fails = par_for(&padded, threads, |wc| check_frag(ctx, wc, true));
		settle(ctx, "frag", fails.into_iter().map(|(i, f)| (serde_json::to_value(&padded[i]).unwrap(), f)).collect())?;
	}

	// ---- refused frames
	let mut table = limit_table(false);
	table.extend(limit_table(true));
	let fails = par_for(&table, threads, |c| check_limit(ctx, c, true));
	settle(ctx, "limits", fails.into_iter().map(|(i, f)| (serde_json::to_value(&table[i]).unwrap(), f)).collect())?;
	{
		let refused: Vec<LimitCase> = table
			.iter()
			.filter(|c| {
				set_chain(c.mainnet);
				let r = c.variant.starts_with("magic") || (c.variant == "len" && c.len > 4 * nominal_max(c.t));
				set_chain(false);
				r
			})
			.cloned()
			.collect();
		let res = alloc_batch(ctx, &refused).map_err(|f| HarnessError(format!("[{}] {}", f.sig, f.msg)))?;
		let mut fails = vec![];
		let mut dead = false;
		for (c, v) in refused.iter().zip(&res) {
			if v.is_null() && dead {
				// the child died earlier: these were never run
				ev.class("alloc_cases_not_run_after_child_death");
				continue;
			}
			if let Err(f) = judge_alloc(ctx, c, v, true) {
				dead |= v.is_null();
				fails.push((serde_json::to_value(c).unwrap(), f));
			}
		}
		settle(ctx, "limits-alloc", fails)?;
	}

	// ---- header lists of the real networks
	{
		let mut cases = vec![];
		for mainnet in [true, false] {
			for n in [1u16, 2, 31, 32, 33, 100] {
				for (dribble, version) in [(false, 1000u32), (true, 2), (false, 1)] {
					cases.push(NetListCase { mainnet, n, dribble, version });
				}
			}
		}
		let fails = par_for(&cases, 4, |c| check_netlist(ctx, c, true));
		settle(ctx, "netlist", fails.into_iter().map(|(i, f)| (serde_json::to_value(&cases[i]).unwrap(), f)).collect())?;
	}

	// ---- handshake
	let hs = handshake_table(ctx.quick());
	let fails = par_for(&hs, 16, |c| check_handshake(ctx, c, true));
	settle(ctx, "handshake", fails.into_iter().map(|(i, f)| (serde_json::to_value(&hs[i]).unwrap(), f)).collect())?;

	ev.extra("code_limit_rule", json!("MsgHeaderWrapper::read refuses msg_len > 4 * max_msg_size(type) (unknown types: 4 * max_block_size): the enforced boundary is 4x the nominal per-type maximum"));
	for cl in ["nontrivial_sequences", "headers_list_size:0", "msg_type:Headers", "msg_type:TxHashSetArchive", "msg_type:Unknown", "msg_type:Block", "frag_kind:dribble"] {
		if ev.class_count(cl) == 0 {
			eprintln!("warning: class {} is empty in this run", cl);
		}
	}
	Ok(())
}

/// Header lists as the REAL networks carry them: under the Mainnet / Testnet chain type (their magic, their
/// minimum primary edge bits of 31) a `Headers` message holding `n` copies of that network's genesis header — a
/// 29-edge-bit secondary proof of work, the smallest header those networks know, smaller than any primary one —
/// between a Ping and a Pong, written whole or dribbled. The testing chain types cannot show this shape: there the
/// secondary size (29) is far ABOVE the primary minimum (10).
#[derive(Clone, Debug, Serialize, Deserialize)]
pub struct NetListCase {
	pub mainnet: bool,
	pub n: u16,
	pub dribble: bool,
	pub version: u32,
}

pub fn check_netlist(ctx: &Ctx, c: &NetListCase, counting: bool) -> PResult {
	let (ct, g) = if c.mainnet { (ChainTypes::Mainnet, grin_core::genesis::genesis_main()) } else { (ChainTypes::Testnet, grin_core::genesis::genesis_test()) };
	global::set_local_chain_type(ct);
	let r = (|| -> PResult {
		let hb = enc(&g.header, c.version).map_err(harness("ser"))?;
		let mut list = c.n.to_be_bytes().to_vec();
		for _ in 0..c.n {
			list.extend_from_slice(&hb);
		}
		let frame = |t: Type, body: &[u8]| -> Result<Vec<u8>, Fail> {
			let mut f = enc(&MsgHeader::new(t, body.len() as u64), c.version).map_err(harness("ser"))?;
			f.extend_from_slice(body);
			Ok(f)
		};
		let ping = enc(&Ping { total_difficulty: Difficulty::from_num(7), height: 9 }, c.version).map_err(harness("ser"))?;
		let pong = enc(&Pong { total_difficulty: Difficulty::from_num(8), height: 10 }, c.version).map_err(harness("ser"))?;
		let mut stream = frame(Type::Ping, &ping)?;
		stream.extend(frame(Type::Headers, &list)?);
		stream.extend(frame(Type::Pong, &pong)?);
		let (mut w, rd) = socket_pair()?;
		let dribble = c.dribble;
		let (got, err) = std::thread::scope(|sc| {
			let st = &stream;
			let wh = sc.spawn(move || {
				if dribble {
					for ch in st.chunks(7) {
						if w.write_all(ch).is_err() {
							break;
						}
					}
				} else {
					let _ = w.write_all(st);
				}
				let _ = w.shutdown(Shutdown::Write);
				// keep the socket until the reader is done
				w
			});
			let mut codec = Codec::new(ProtocolVersion(c.version), rd);
			let mut got: Vec<String> = vec![];
			let mut headers = 0usize;
			let mut err = None;
			for _ in 0..(c.n as usize + 8) {
				match catch(|| codec.read()) {
					Err(p) => {
						err = Some(format!("panic: {}", p.msg));
						break;
					}
					Ok((Ok(Message::Ping(_)), _)) => got.push("Ping".into()),
					Ok((Ok(Message::Pong(_)), _)) => {
						got.push("Pong".into());
						break;
					}
					Ok((Ok(Message::Headers(d)), _)) => {
						if d.headers.iter().any(|h| *h != g.header) {
							err = Some("a delivered header differs from the one sent".into());
							break;
						}
						headers += d.headers.len();
					}
					Ok((Ok(m), _)) => got.push(describe(&Ok(m))),
					Ok((Err(e), _)) => {
						err = Some(format!("{:?}", e));
						break;
					}
				}
			}
			drop(codec);
			let _ = wh.join();
			got.push(format!("headers={}", headers));
			(got, err)
		});
		let want = vec!["Ping".to_string(), "Pong".to_string(), format!("headers={}", c.n)];
		ensure!(
			err.is_none() && got == want,
			"real-network-header-list-not-read",
			"{} chain, version {}, {} genesis headers (29 edge bits) in one Headers message{}: read {:?} / error {:?}, expected {:?}",
			if c.mainnet { "Mainnet" } else { "Testnet" },
			c.version,
			c.n,
			if c.dribble { ", dribbled" } else { "" },
			got,
			err,
			want
		);
		Ok(())
	})();
	global::set_local_chain_type(ChainTypes::AutomatedTesting);
	if counting && r.is_ok() {
		ctx.ev.eval();
		ctx.ev.class(&format!("real_network_header_list:{}:{}", if c.mainnet { "mainnet" } else { "testnet" }, c.n));
	}
	r
}

/// not used (the work is I/O bound: threads, not processes)
pub fn part(_ctx: &Ctx, _part: &str, _seed: u64, _cases: u32) -> Option<(Value, Fail)> {
	None
}

pub fn replay(ctx: &Ctx, part: &str, case: &Value) -> PResult {
	init_global();
	let parse = |e: serde_json::Error| Fail::new("harness:replay-parse", e.to_string());
	match part {
		"frag" => {
			pool(ctx).map_err(|e| Fail::new("harness:pool", e))?;
			let c: WireCase = serde_json::from_value(case.clone()).map_err(parse)?;
			check_frag(ctx, &c, false)
		}
		"limits" => {
			let c: LimitCase = serde_json::from_value(case.clone()).map_err(parse)?;
			check_limit(ctx, &c, false)
		}
		"limits-alloc" => {
			let c: LimitCase = serde_json::from_value(case.clone()).map_err(parse)?;
			check_limit_alloc(ctx, &c, false)
		}
		"handshake" => {
			let c: HsCase = serde_json::from_value(case.clone()).map_err(parse)?;
			check_handshake(ctx, &c, false)
		}
		"netlist" => {
			let c: NetListCase = serde_json::from_value(case.clone()).map_err(parse)?;
			check_netlist(ctx, &c, false)
		}
		_ => Ok(()),
	}
}
