//! C18 — Database batches are atomic, isolated and survive growth of the map.
//!
//! Part "seq":   proptest-generated operation sequences over one `store::Store`
//!               (default db + 3 prefix dbs) compared with a nested-transaction
//!               map model (stack of overlays over a base map).
//! Part "conc":  writer / reader / iterator-holder threads in a child process
//!               while the LMDB map is enlarged automatically; generation
//!               numbers make partial batches, lost commits and going back in
//!               time observable.
//! Part "crash": every cfg(grin_verif) crash point around `Batch::commit` of a
//!               scenario is enumerated (child dies at point n, second child
//!               reopens and dumps the content).
//!
//! Facts about the code under test this file relies on (store/src/lmdb.rs):
//! * databases are selected by `db_key: Option<u8>` (None = default db, Some(p)
//!   = the named LMDB database created for prefix byte p by Store::new);
//!   iteration is over one whole database in LMDB's byte-lexicographic key order.
//! * the environment is opened with MDB_NOTLS, Store::get_ser/exists/iter open
//!   a fresh read transaction, and enter_tx only blocks while a resize is
//!   pending and the thread holds no transaction — so reads through the Store on
//!   the SAME thread while a batch is open are possible and are done here.
//! * Store::get_ser opens one read transaction per call: several gets cannot
//!   share a snapshot through the public API, so the snapshot unit of the
//!   concurrent part is one iterator pass (or a batch used read-only).
//! * heed opens the map with LMDB's default size (1 MiB, DEFAULT_MAPSIZE); under
//!   AutomatedTesting it grows in 1 MiB chunks once `used/map > 0.9`
//!   (needs_resize), only from Store::batch() (maybe_resize). Nested write
//!   transactions may be nested to any depth; 3 child levels are exercised.
//! * there is no public accessor for the map size: it is read from
//!   /proc/self/maps, used space from the length of data.mdb.

use crate::engine::*;
use crate::world::{init_global, init_thread};
use crate::{ensure, fail};
use grin_core::ser::{self, Readable, Reader, Writeable, Writer};
use grin_store::lmdb::{Batch, DatabaseIterator, Error as DbError, Store};
use grin_util::ToHex;
use proptest::prelude::*;
use serde_derive::{Deserialize, Serialize};
use serde_json::{json, Value};
use std::collections::{BTreeMap, BTreeSet};
use std::path::{Path, PathBuf};
use std::process::Command;
use std::sync::atomic::{AtomicBool, AtomicU64, AtomicUsize, Ordering};
use std::sync::{Arc, Mutex};
use std::time::{Duration, Instant};

// ------------------------------------------------------------------ common

/// the three prefix databases (Store::new creates one named LMDB database per
/// prefix byte; `None` selects the default database)
const PREFIXES: [u8; 3] = [b'h', b'P', 0xF0];
const NDB: usize = 4;

fn dbk(db: usize) -> Option<u8> {
	if db == 0 {
		None
	} else {
		Some(PREFIXES[(db - 1) % 3])
	}
}

fn open_store(dir: &Path) -> Result<Store, DbError> {
	Store::new(dir.to_str().unwrap(), None, Some("c18"), PREFIXES.to_vec(), None, None)
}

fn err_class(e: &DbError) -> String {
	let s = e.to_string();
	if s.contains("MAP_FULL") || s.to_lowercase().contains("mapsize limit") {
		return "map-full".into();
	}
	match e {
		DbError::NotFoundErr(_) => "NotFoundErr".into(),
		DbError::LmdbErr(m) => format!("LmdbErr:{}", m.split(|c: char| !c.is_ascii_alphanumeric() && c != '_').filter(|w| !w.is_empty()).take(4).collect::<Vec<_>>().join("-")),
		DbError::SerErr(_) => "SerErr".into(),
		DbError::FileErr(_) => "FileErr".into(),
		DbError::OtherErr(_) => "OtherErr".into(),
	}
}

fn dberr(part: &str, op: &str, e: DbError) -> Fail {
	if err_class(&e) == "map-full" {
		return Fail::new(format!("{}:map-full", part), format!("{} failed for lack of space: {}", op, e));
	}
	Fail::new(format!("{}:op-error:{}:{}", part, op, err_class(&e)), format!("{} returned an error: {}", op, e))
}

fn hx(b: &[u8]) -> String {
	if b.len() <= 24 {
		b.to_vec().to_hex()
	} else {
		format!("{}..({} B)", b[..12].to_vec().to_hex(), b.len())
	}
}

/// small key universe; chosen so that byte-lexicographic order differs from
/// length order and from insertion order
fn key_bytes(k: u8) -> Vec<u8> {
	match k % 8 {
		0 => vec![0],
		1 => vec![0, 0],
		2 => vec![0, 1],
		3 => b"a".to_vec(),
		4 => b"ab".to_vec(),
		5 => vec![0x7f, 0x80, 0xff],
		6 => vec![0xff],
		_ => vec![b'k'; 40],
	}
}

#[derive(Clone, Debug, Serialize, Deserialize, PartialEq)]
pub struct ValSpec {
	pub len: u32,
	pub tag: u8,
}

impl ValSpec {
	fn bytes(&self) -> Vec<u8> {
		let n = self.len.max(1) as usize;
		(0..n).map(|i| self.tag ^ ((i as u32).wrapping_mul(2654435761) >> 24) as u8).collect()
	}
}

fn val_spec() -> impl Strategy<Value = ValSpec> {
	// a third of the values come from a menu of six, so that a key is often given back EXACTLY the bytes it
	// held before (in the same batch, in a child, in a later batch) — a write that changes nothing relative to
	// some earlier state is where write-avoidance shortcuts go wrong
	let menu = prop_oneof![
		Just(ValSpec { len: 3000, tag: 1 }),
		Just(ValSpec { len: 3000, tag: 2 }),
		Just(ValSpec { len: 2048, tag: 3 }),
		Just(ValSpec { len: 2047, tag: 3 }),
		Just(ValSpec { len: 10, tag: 4 }),
		Just(ValSpec { len: 65536, tag: 5 }),
	];
	prop_oneof![2 => val_spec_free(), 1 => menu]
}

fn val_spec_free() -> impl Strategy<Value = ValSpec> {
	(
		prop_oneof![
			6 => 1u32..200,
			2 => 200u32..5000,
			1 => 4000u32..4200,
			1 => 5000u32..65536,
			1 => Just(65536u32),
		],
		any::<u8>(),
	)
		.prop_map(|(len, tag)| ValSpec { len, tag })
}

/// value type for put_ser: u64 length + bytes. The model stores the
/// hand-written encoding (big-endian length, then the bytes).
struct Rec(Vec<u8>);

impl Writeable for Rec {
	fn write<W: Writer>(&self, w: &mut W) -> Result<(), ser::Error> {
		w.write_u64(self.0.len() as u64)?;
		w.write_fixed_bytes(&self.0)
	}
}

impl Readable for Rec {
	fn read<R: Reader>(r: &mut R) -> Result<Rec, ser::Error> {
		let n = r.read_u64()?;
		Ok(Rec(r.read_fixed_bytes(n as usize)?))
	}
}

fn rec_encoding(body: &[u8]) -> Vec<u8> {
	let mut v = (body.len() as u64).to_be_bytes().to_vec();
	v.extend_from_slice(body);
	v
}

/// if `v` is a Rec encoding return its body
fn rec_body(v: &[u8]) -> Option<&[u8]> {
	if v.len() < 8 {
		return None;
	}
	let mut a = [0u8; 8];
	a.copy_from_slice(&v[..8]);
	if u64::from_be_bytes(a) as usize == v.len() - 8 && v.len() - 8 <= 100_000 {
		Some(&v[8..])
	} else {
		None
	}
}

/// bytes written as they are (put_ser path without any framing)
struct Blob(Vec<u8>);

impl Writeable for Blob {
	fn write<W: Writer>(&self, w: &mut W) -> Result<(), ser::Error> {
		w.write_fixed_bytes(&self.0)
	}
}

/// size of the memory map of `<dir>/multi_lmdb/data.mdb` in this process, read
/// from /proc/self/maps (the Store has no public accessor for the map size)
fn map_size(dir: &Path) -> Option<u64> {
	let want = dir.join("multi_lmdb").join("data.mdb");
	let want = want.to_str()?;
	let maps = std::fs::read_to_string("/proc/self/maps").ok()?;
	let mut total = 0u64;
	for l in maps.lines() {
		if !l.ends_with(want) {
			continue;
		}
		let range = l.split(' ').next()?;
		let (a, b) = range.split_once('-')?;
		total += u64::from_str_radix(b, 16).ok()? - u64::from_str_radix(a, 16).ok()?;
	}
	if total == 0 {
		None
	} else {
		Some(total)
	}
}

/// bytes of the data file in use (LMDB writes pages with pwrite, so the file
/// ends at the last page ever committed = `last_page_number * page_size`,
/// the quantity `needs_resize` looks at)
fn file_used(dir: &Path) -> u64 {
	std::fs::metadata(dir.join("multi_lmdb").join("data.mdb")).map(|m| m.len()).unwrap_or(0)
}

/// conservative page cost of writing one value of `len` bytes
fn put_cost(len: usize) -> i64 {
	((len as i64 + 4095) / 4096 + 2) * 4096
}

type KV = (Vec<u8>, Vec<u8>);
type IterFn = fn(&[u8], &[u8]) -> Result<KV, DbError>;

fn kv_copy(k: &[u8], v: &[u8]) -> Result<KV, DbError> {
	Ok((k.to_vec(), v.to_vec()))
}

// ------------------------------------------------------------------ the model

type Val = Arc<Vec<u8>>;
type Db = BTreeMap<Vec<u8>, Val>;
type Ov = BTreeMap<Vec<u8>, Option<Val>>;

/// Nested-transaction map model: `base` is the committed content, `ovs` the
/// stack of open levels (outermost first); `None` in an overlay = deleted.
/// BTreeMap<Vec<u8>> orders keys byte-lexicographically (shorter first on a
/// common prefix), which is LMDB's documented default key order.
#[derive(Clone, Default)]
struct Model {
	base: [Db; NDB],
	ovs: Vec<[Ov; NDB]>,
}

impl Model {
	fn get(&self, db: usize, key: &[u8]) -> Option<Val> {
		for ov in self.ovs.iter().rev() {
			if let Some(x) = ov[db].get(key) {
				return x.clone();
			}
		}
		self.base[db].get(key).cloned()
	}
	fn get_base(&self, db: usize, key: &[u8]) -> Option<Val> {
		self.base[db].get(key).cloned()
	}
	fn view(&self, db: usize) -> Vec<(Vec<u8>, Val)> {
		let mut m: Db = self.base[db].clone();
		for ov in &self.ovs {
			for (k, v) in &ov[db] {
				match v {
					Some(v) => {
						m.insert(k.clone(), v.clone());
					}
					None => {
						m.remove(k);
					}
				}
			}
		}
		m.into_iter().collect()
	}
	fn base_view(&self, db: usize) -> Vec<(Vec<u8>, Val)> {
		self.base[db].iter().map(|(k, v)| (k.clone(), v.clone())).collect()
	}
	fn put(&mut self, db: usize, key: Vec<u8>, v: Vec<u8>) {
		self.ovs.last_mut().expect("open level")[db].insert(key, Some(Arc::new(v)));
	}
	fn del(&mut self, db: usize, key: Vec<u8>) {
		self.ovs.last_mut().expect("open level")[db].insert(key, None);
	}
	fn push(&mut self) {
		self.ovs.push(Default::default());
	}
	fn drop_top(&mut self) {
		self.ovs.pop().expect("open level");
	}
	fn commit_top(&mut self) {
		let top = self.ovs.pop().expect("open level");
		match self.ovs.last_mut() {
			Some(below) => {
				for (db, m) in top.into_iter().enumerate() {
					for (k, v) in m {
						below[db].insert(k, v);
					}
				}
			}
			None => {
				for (db, m) in top.into_iter().enumerate() {
					for (k, v) in m {
						match v {
							Some(v) => {
								self.base[db].insert(k, v);
							}
							None => {
								self.base[db].remove(&k);
							}
						}
					}
				}
			}
		}
	}
}

fn list_diff(got: &[KV], want: &[(Vec<u8>, Val)]) -> Option<String> {
	let same = got.len() == want.len() && got.iter().zip(want.iter()).all(|(g, w)| g.0 == w.0 && g.1 == **w.1);
	if same {
		return None;
	}
	let gk: Vec<String> = got.iter().map(|(k, v)| format!("{}={}", hx(k), hx(v))).collect();
	let wk: Vec<String> = want.iter().map(|(k, v)| format!("{}={}", hx(k), hx(v))).collect();
	Some(format!("got [{}] expected [{}]", gk.join(", "), wk.join(", ")))
}

// ------------------------------------------------------------------ part A: sequences

const MAX_DEPTH: usize = 4; // outer batch + 3 nested child levels

#[derive(Clone, Debug, Serialize, Deserialize, PartialEq)]
pub enum Op {
	/// depth 0: Store::batch(); inside a batch: Batch::child() of the innermost level
	Open,
	/// commit the innermost open level
	Commit,
	/// drop the innermost open level
	Drop,
	Put { db: u8, key: u8, val: ValSpec },
	PutSer { db: u8, key: u8, val: ValSpec },
	Delete { db: u8, key: u8 },
	/// read at the innermost open level (outside read when nothing is open)
	Get { db: u8, key: u8 },
	Exists { db: u8, key: u8 },
	Iter { db: u8 },
	/// read through the Store (fresh read transaction) — also while a batch is open
	OutGet { db: u8, key: u8 },
	OutExists { db: u8, key: u8 },
	OutIter { db: u8 },
	/// open a Store::iter, read `take` entries and keep it open
	HoldIter { db: u8, take: u8 },
	/// read the rest of the held iterator
	FinishIter,
	/// drop the Store and open it again (only when no batch is open)
	Reopen,
}

#[derive(Clone, Debug, Serialize, Deserialize)]
pub struct Seq {
	pub ops: Vec<Op>,
}

fn op_strategy() -> impl Strategy<Value = Op> {
	let db = 0u8..NDB as u8;
	let key = 0u8..8;
	prop_oneof![
		7 => Just(Op::Open),
		5 => Just(Op::Commit),
		3 => Just(Op::Drop),
		9 => (db.clone(), key.clone(), val_spec()).prop_map(|(db, key, val)| Op::Put { db, key, val }),
		4 => (db.clone(), key.clone(), val_spec()).prop_map(|(db, key, val)| Op::PutSer { db, key, val }),
		5 => (db.clone(), key.clone()).prop_map(|(db, key)| Op::Delete { db, key }),
		4 => (db.clone(), key.clone()).prop_map(|(db, key)| Op::Get { db, key }),
		2 => (db.clone(), key.clone()).prop_map(|(db, key)| Op::Exists { db, key }),
		3 => db.clone().prop_map(|db| Op::Iter { db }),
		3 => (db.clone(), key.clone()).prop_map(|(db, key)| Op::OutGet { db, key }),
		2 => (db.clone(), key.clone()).prop_map(|(db, key)| Op::OutExists { db, key }),
		3 => db.clone().prop_map(|db| Op::OutIter { db }),
		2 => (db.clone(), 0u8..4).prop_map(|(db, take)| Op::HoldIter { db, take }),
		2 => Just(Op::FinishIter),
		1 => Just(Op::Reopen),
	]
}

fn seq_strategy(quick: bool) -> impl Strategy<Value = Seq> {
	prop::collection::vec(op_strategy(), 6..if quick { 60 } else { 90 }).prop_map(|ops| Seq { ops })
}

struct Held {
	it: DatabaseIterator<'static, IterFn, KV>,
	expect: Vec<(Vec<u8>, Val)>,
	got: Vec<KV>,
	db: usize,
	/// structural events (commit of an outermost batch) that happened while it was open
	outer_commits_at_open: u32,
}

#[derive(Default)]
struct Lvl {
	writes: u32,
	child_commit_w: bool,
	child_dropped_w: bool,
}

struct SeqState<'c> {
	ops: &'c [Op],
	pos: usize,
	model: Model,
	held: Option<Held>,
	lv: Vec<Lvl>,
	skel: String,
	max_depth: usize,
	commits_at: [u32; MAX_DEPTH + 1],
	drops_at: [u32; MAX_DEPTH + 1],
	outer_commits: u32,
	reopens: u32,
	nt_child_committed_parent_dropped: bool,
	nt_child_committed_after_sibling_dropped: bool,
	nt_parent_committed_after_child_dropped: bool,
	outside_reads_in_batch: u32,
	held_across_commit: u32,
	bytes_written: u64,
	/// page budget of the open outermost batch (precondition of the real
	/// callers: a batch fits into the space left when it was opened)
	budget: i64,
	skipped_for_headroom: u32,
	map_sizes: Vec<u64>,
}

impl<'c> SeqState<'c> {
	fn new(ops: &'c [Op]) -> Self {
		SeqState {
			ops,
			pos: 0,
			model: Model::default(),
			held: None,
			lv: vec![],
			skel: String::new(),
			max_depth: 0,
			commits_at: [0; MAX_DEPTH + 1],
			drops_at: [0; MAX_DEPTH + 1],
			outer_commits: 0,
			reopens: 0,
			nt_child_committed_parent_dropped: false,
			nt_child_committed_after_sibling_dropped: false,
			nt_parent_committed_after_child_dropped: false,
			outside_reads_in_batch: 0,
			held_across_commit: 0,
			bytes_written: 0,
			budget: 0,
			skipped_for_headroom: 0,
			map_sizes: vec![],
		}
	}
	fn push_level(&mut self) {
		self.model.push();
		self.lv.push(Lvl::default());
		self.skel.push('(');
		self.max_depth = self.max_depth.max(self.lv.len());
	}
	fn wrote(&mut self, n: usize) {
		let l = self.lv.last_mut().unwrap();
		if l.writes == 0 {
			self.skel.push('w');
		}
		l.writes += 1;
		self.bytes_written += n as u64;
	}
	/// called right after Store::batch() returned (maybe_resize has run)
	fn outer_opened(&mut self, dir: &Path) {
		let map = map_size(dir).unwrap_or(1 << 20);
		if self.map_sizes.last() != Some(&map) {
			self.map_sizes.push(map);
		}
		let headroom = map as i64 - file_used(dir) as i64;
		// fixed reserve for copied branch/leaf pages of 4 dbs + main db + freelist
		self.budget = (headroom - 96 * 1024) * 3 / 4;
	}
	fn afford(&mut self, len: usize) -> bool {
		let c = put_cost(len);
		if c > self.budget {
			self.skipped_for_headroom += 1;
			return false;
		}
		self.budget -= c;
		true
	}
	fn end_level(&mut self, commit: bool) {
		let depth = self.lv.len();
		let l = self.lv.pop().unwrap();
		let has_w = l.writes > 0;
		if commit {
			self.model.commit_top();
			self.commits_at[depth] += 1;
			self.skel.push(if has_w { 'C' } else { 'c' });
			if l.child_dropped_w && has_w {
				self.nt_parent_committed_after_child_dropped = true;
			}
			if depth == 1 {
				self.outer_commits += 1;
			}
		} else {
			self.model.drop_top();
			self.drops_at[depth] += 1;
			self.skel.push(if has_w { 'D' } else { 'd' });
			if l.child_commit_w {
				self.nt_child_committed_parent_dropped = true;
			}
		}
		if let Some(p) = self.lv.last_mut() {
			if commit && has_w {
				if p.child_dropped_w {
					self.nt_child_committed_after_sibling_dropped = true;
				}
				p.child_commit_w = true;
				p.writes += l.writes;
			}
			if !commit && has_w {
				p.child_dropped_w = true;
			}
		}
	}
}

fn inside_get(b: &Batch<'_>, st: &SeqState, db: usize, key: &[u8]) -> PResult {
	let want = st.model.get(db, key);
	let got: Option<Vec<u8>> = b.get_ser(dbk(db), key, None).map_err(|e| dberr("seq", "Batch::get_ser", e))?;
	if got.as_deref() != want.as_ref().map(|v| &v[..]) {
		let base = st.model.get_base(db, key);
		let sig = if got.as_deref() == base.as_ref().map(|v| &v[..]) { "seq:batch-read-misses-own-writes" } else { "seq:batch-get-mismatch" };
		fail!(sig, "Batch::get_ser(db {}, key {}) at depth {} (op #{}) returned {:?}, model says {:?}", db, hx(key), st.lv.len(), st.pos, got.as_deref().map(hx), want.as_ref().map(|v| hx(v)));
	}
	// typed read of a framed value
	if let Some(v) = &want {
		if let Some(body) = rec_body(v) {
			let r: Option<Rec> = b.get_ser(dbk(db), key, None).map_err(|e| dberr("seq", "Batch::get_ser<Rec>", e))?;
			ensure!(r.as_ref().map(|r| &r.0[..]) == Some(body), "seq:batch-get-mismatch", "typed Batch::get_ser(db {}, key {}) differs from the value written with put_ser", db, hx(key));
		}
	}
	Ok(())
}

fn inside_exists(b: &Batch<'_>, st: &SeqState, db: usize, key: &[u8]) -> PResult {
	let want = st.model.get(db, key).is_some();
	let got = b.exists(dbk(db), key).map_err(|e| dberr("seq", "Batch::exists", e))?;
	ensure!(got == want, "seq:batch-exists-mismatch", "Batch::exists(db {}, key {}) at depth {} (op #{}) = {}, model says {}", db, hx(key), st.lv.len(), st.pos, got, want);
	Ok(())
}

fn inside_iter(b: &Batch<'_>, st: &SeqState, db: usize, when: &str) -> PResult {
	let got: Vec<KV> = {
		let it = b.iter(dbk(db), kv_copy as IterFn).map_err(|e| dberr("seq", "Batch::iter", e))?;
		it.collect::<Result<Vec<_>, _>>().map_err(|e| dberr("seq", "Batch::iter.next", e))?
	};
	if let Some(d) = list_diff(&got, &st.model.view(db)) {
		fail!("seq:batch-iter-mismatch", "Batch::iter(db {}) at depth {} ({}, op #{}): {}", db, st.lv.len(), when, st.pos, d);
	}
	Ok(())
}

fn audit_inside(b: &Batch<'_>, st: &SeqState, when: &str) -> PResult {
	for db in 0..NDB {
		inside_iter(b, st, db, when)?;
	}
	Ok(())
}

fn outside_sig(st: &SeqState, matches_inside: bool, what: &str) -> String {
	if !st.lv.is_empty() && matches_inside {
		"seq:outside-read-sees-uncommitted".to_string()
	} else {
		format!("seq:outside-{}-mismatch", what)
	}
}

fn outside_get(s: &Store, st: &SeqState, db: usize, key: &[u8]) -> PResult {
	let want = st.model.get_base(db, key);
	let got: Option<Vec<u8>> = s.get_ser(dbk(db), key, None).map_err(|e| dberr("seq", "Store::get_ser", e))?;
	if got.as_deref() != want.as_ref().map(|v| &v[..]) {
		let ins = st.model.get(db, key);
		let sig = outside_sig(st, got.as_deref() == ins.as_ref().map(|v| &v[..]), "get");
		fail!(sig, "Store::get_ser(db {}, key {}) with {} open level(s) (op #{}) returned {:?}, committed content is {:?}", db, hx(key), st.lv.len(), st.pos, got.as_deref().map(hx), want.as_ref().map(|v| hx(v)));
	}
	Ok(())
}

fn outside_exists(s: &Store, st: &SeqState, db: usize, key: &[u8]) -> PResult {
	let want = st.model.get_base(db, key).is_some();
	let got = s.exists(dbk(db), key).map_err(|e| dberr("seq", "Store::exists", e))?;
	if got != want {
		let sig = outside_sig(st, got == st.model.get(db, key).is_some(), "exists");
		fail!(sig, "Store::exists(db {}, key {}) with {} open level(s) (op #{}) = {}, committed content says {}", db, hx(key), st.lv.len(), st.pos, got, want);
	}
	Ok(())
}

fn outside_iter(s: &Store, st: &SeqState, db: usize, when: &str) -> PResult {
	let got: Vec<KV> = {
		let it = s.iter(dbk(db), kv_copy as IterFn).map_err(|e| dberr("seq", "Store::iter", e))?;
		it.collect::<Result<Vec<_>, _>>().map_err(|e| dberr("seq", "Store::iter.next", e))?
	};
	if let Some(d) = list_diff(&got, &st.model.base_view(db)) {
		let ins = list_diff(&got, &st.model.view(db)).is_none();
		let sig = if when == "after-reopen" { "seq:content-differs-after-reopen".to_string() } else { outside_sig(st, ins, "iter") };
		fail!(sig, "Store::iter(db {}) with {} open level(s) ({}, op #{}): {}", db, st.lv.len(), when, st.pos, d);
	}
	Ok(())
}

fn audit_outside(s: &Store, st: &SeqState, when: &str) -> PResult {
	for db in 0..NDB {
		outside_iter(s, st, db, when)?;
	}
	Ok(())
}

fn hold_iter(s: &Store, st: &mut SeqState, db: usize, take: usize) -> PResult {
	finish_held(st)?;
	let expect = st.model.base_view(db);
	let it: DatabaseIterator<'static, IterFn, KV> = s.iter(dbk(db), kv_copy as IterFn).map_err(|e| dberr("seq", "Store::iter", e))?;
	let mut h = Held { it, expect, got: vec![], db, outer_commits_at_open: st.outer_commits };
	for _ in 0..take {
		match h.it.next() {
			Some(r) => h.got.push(r.map_err(|e| dberr("seq", "Store::iter.next", e))?),
			None => break,
		}
	}
	st.held = Some(h);
	Ok(())
}

/// read the rest of the held iterator: it must deliver exactly the committed
/// content at the time it was opened (its read transaction is a snapshot)
fn finish_held(st: &mut SeqState) -> PResult {
	let Some(mut h) = st.held.take() else { return Ok(()) };
	while let Some(r) = h.it.next() {
		h.got.push(r.map_err(|e| dberr("seq", "Store::iter.next", e))?);
	}
	if st.outer_commits > h.outer_commits_at_open {
		st.held_across_commit += 1;
	}
	if let Some(d) = list_diff(&h.got, &h.expect) {
		fail!("seq:held-iterator-not-a-snapshot", "a Store::iter(db {}) opened before and read across {} outer commit(s) (finished at op #{}) did not deliver the content committed when it was opened: {}", h.db, st.outer_commits - h.outer_commits_at_open, st.pos, d);
	}
	Ok(())
}

fn outside_op(s: &Store, st: &mut SeqState, op: &Op) -> PResult {
	if !st.lv.is_empty() {
		st.outside_reads_in_batch += 1;
	}
	match op {
		Op::Get { db, key } | Op::OutGet { db, key } => outside_get(s, st, *db as usize, &key_bytes(*key)),
		Op::Exists { db, key } | Op::OutExists { db, key } => outside_exists(s, st, *db as usize, &key_bytes(*key)),
		Op::Iter { db } | Op::OutIter { db } => outside_iter(s, st, *db as usize, "op"),
		Op::HoldIter { db, take } => hold_iter(s, st, *db as usize, *take as usize),
		Op::FinishIter => finish_held(st),
		_ => Ok(()),
	}
}

/// runs one open level until it is committed, dropped or the sequence ends
fn level(s: &Store, mut b: Batch<'_>, st: &mut SeqState) -> PResult {
	loop {
		if st.pos >= st.ops.len() {
			drop(b);
			st.end_level(false);
			return Ok(());
		}
		let op = st.ops[st.pos].clone();
		st.pos += 1;
		match &op {
			Op::Open => {
				if st.lv.len() < MAX_DEPTH {
					let c = b.child().map_err(|e| dberr("seq", "Batch::child", e))?;
					st.push_level();
					level(s, c, st)?;
					// the parent is usable again: its view must be the model's
					audit_inside(&b, st, "after-child-ended")?;
					audit_outside(s, st, "after-child-ended")?;
				}
			}
			Op::Commit => {
				b.commit().map_err(|e| dberr("seq", "Batch::commit", e))?;
				st.end_level(true);
				return Ok(());
			}
			Op::Drop => {
				drop(b);
				st.end_level(false);
				return Ok(());
			}
			Op::Put { db, key, val } => {
				let (k, v) = (key_bytes(*key), val.bytes());
				if !st.afford(v.len()) {
					continue;
				}
				b.put(dbk(*db as usize), &k, &v).map_err(|e| dberr("seq", "Batch::put", e))?;
				st.wrote(v.len());
				st.model.put(*db as usize, k, v);
			}
			Op::PutSer { db, key, val } => {
				let (k, body) = (key_bytes(*key), val.bytes());
				let enc = rec_encoding(&body);
				if !st.afford(enc.len()) {
					continue;
				}
				b.put_ser(dbk(*db as usize), &k, &Rec(body)).map_err(|e| dberr("seq", "Batch::put_ser", e))?;
				st.wrote(enc.len());
				st.model.put(*db as usize, k, enc);
			}
			Op::Delete { db, key } => {
				let k = key_bytes(*key);
				if !st.afford(0) {
					continue;
				}
				b.delete(dbk(*db as usize), &k).map_err(|e| dberr("seq", "Batch::delete", e))?;
				st.wrote(0);
				st.model.del(*db as usize, k);
			}
			Op::Get { db, key } => inside_get(&b, st, *db as usize, &key_bytes(*key))?,
			Op::Exists { db, key } => inside_exists(&b, st, *db as usize, &key_bytes(*key))?,
			Op::Iter { db } => inside_iter(&b, st, *db as usize, "op")?,
			Op::OutGet { .. } | Op::OutExists { .. } | Op::OutIter { .. } | Op::HoldIter { .. } | Op::FinishIter => outside_op(s, st, &op)?,
			Op::Reopen => {}
		}
	}
}

fn top_level(store: &mut Option<Store>, st: &mut SeqState, dir: &Path) -> PResult {
	while st.pos < st.ops.len() {
		let op = st.ops[st.pos].clone();
		st.pos += 1;
		match &op {
			Op::Open => {
				let s = store.as_ref().unwrap();
				let b = s.batch().map_err(|e| dberr("seq", "Store::batch", e))?;
				st.push_level();
				st.outer_opened(dir);
				level(s, b, st)?;
				audit_outside(s, st, "after-outer-batch-ended")?;
			}
			Op::Reopen => {
				finish_held(st)?;
				*store = None;
				*store = Some(open_store(dir).map_err(|e| dberr("seq", "Store::new(reopen)", e))?);
				st.reopens += 1;
				st.skel.push('R');
				audit_outside(store.as_ref().unwrap(), st, "after-reopen")?;
			}
			Op::Commit | Op::Drop | Op::Put { .. } | Op::PutSer { .. } | Op::Delete { .. } => {}
			_ => outside_op(store.as_ref().unwrap(), st, &op)?,
		}
	}
	finish_held(st)?;
	audit_outside(store.as_ref().unwrap(), st, "end")?;
	*store = None;
	*store = Some(open_store(dir).map_err(|e| dberr("seq", "Store::new(reopen)", e))?);
	audit_outside(store.as_ref().unwrap(), st, "after-reopen")
}

fn check_seq(ctx: &Ctx, seq: &Seq, counting: bool) -> PResult {
	let dir = ctx.scratch_dir("seq");
	// declared before the state so that a held iterator is dropped before the Store
	let mut store: Option<Store> = Some(open_store(&dir).map_err(|e| Fail::new("harness:open-store", e.to_string()))?);
	let mut st = SeqState::new(&seq.ops);
	let r = top_level(&mut store, &mut st, &dir);
	st.held = None;
	drop(store);
	let _ = std::fs::remove_dir_all(&dir);
	if counting {
		let ev = &ctx.ev;
		ev.eval();
		ev.class(&format!("seq_depth_reached:{}", st.max_depth));
		for d in 1..=MAX_DEPTH {
			if st.drops_at[d] > 0 {
				ev.class(&format!("seq_with_drop_at_level:{}", d));
			}
			if st.commits_at[d] > 0 {
				ev.class(&format!("seq_with_commit_at_level:{}", d));
			}
		}
		if st.reopens > 0 {
			ev.class("seq_with_reopen");
		}
		if st.outside_reads_in_batch > 0 {
			ev.class("seq_with_outside_read_while_batch_open");
		}
		if st.held_across_commit > 0 {
			ev.class("seq_with_iterator_held_across_commit");
		}
		if st.map_sizes.len() > 1 {
			ev.class("seq_with_map_resize");
		}
		if st.skipped_for_headroom > 0 {
			ev.class("seq_with_puts_skipped_for_headroom");
		}
		if st.nt_child_committed_parent_dropped {
			ev.class("seq_child_committed_parent_dropped");
		}
		if st.nt_child_committed_after_sibling_dropped {
			ev.class("seq_child_committed_after_sibling_dropped");
		}
		if st.nt_parent_committed_after_child_dropped {
			ev.class("seq_parent_committed_after_child_dropped");
		}
		if st.nt_child_committed_parent_dropped || st.nt_child_committed_after_sibling_dropped || st.nt_parent_committed_after_child_dropped {
			ev.nontrivial(&("seq", st.skel.clone()));
			ev.sample("seq", || json!({"skeleton": st.skel, "ops": seq.ops.len(), "first_ops": seq.ops.iter().take(25).collect::<Vec<_>>()}));
		}
	}
	r
}


// ------------------------------------------------------------------ part B: concurrent + resize

#[derive(Clone, Debug, Serialize, Deserialize)]
pub struct Plan {
	pub writers: u8,
	pub readers: u8,
	pub groups: u8,
	pub keys_per_group: u8,
	pub min_kib: u16,
	pub max_kib: u16,
	pub hold_ms: u16,
	pub target_resizes: u8,
	pub rng: u64,
	/// single-threaded warm-up (the map grows from 1 MiB through several resizes): 0 = batches only;
	/// 1 = every batch is opened while the same thread holds an open Store::iter (scan-and-rewrite
	/// loop); 2 = every second one
	#[serde(default)]
	pub warm_hold: u8,
}

fn plan_strategy() -> impl Strategy<Value = Plan> {
	(1u8..=4, 1u8..=4, 0u8..=3, 2u8..=6, 10u16..=40, 0u16..=60, 20u16..=250, 2u8..=3, any::<u64>(), prop_oneof![2 => Just(0u8), 1 => Just(1u8), 1 => Just(2u8)]).prop_map(
		|(writers, readers, extra_groups, keys_per_group, min_kib, span, hold_ms, target_resizes, rng, warm_hold)| Plan {
			writers,
			readers,
			groups: writers + extra_groups.min(6 - writers.min(6)),
			keys_per_group,
			min_kib,
			max_kib: (min_kib + span).min(100),
			hold_ms,
			target_resizes,
			rng,
			warm_hold,
		},
	)
}

const POISON: u64 = u64::MAX;

struct Rng(u64);

impl Rng {
	fn new(a: u64, b: u64) -> Rng {
		Rng(a ^ b.wrapping_mul(0x9E3779B97F4A7C15) ^ 0xD1B54A32D192ED03)
	}
	fn next(&mut self) -> u64 {
		self.0 = self.0.wrapping_add(0x9E3779B97F4A7C15);
		let mut z = self.0;
		z = (z ^ (z >> 30)).wrapping_mul(0xBF58476D1CE4E5B9);
		z = (z ^ (z >> 27)).wrapping_mul(0x94D049BB133111EB);
		z ^ (z >> 31)
	}
	fn below(&mut self, n: u64) -> u64 {
		if n == 0 {
			0
		} else {
			self.next() % n
		}
	}
}

fn gkey(g: usize, j: usize) -> Vec<u8> {
	format!("g{:02}k{:02}", g, j).into_bytes()
}
fn gkey_db(g: usize, j: usize) -> usize {
	(g + j) % NDB
}
fn fkey(g: usize, gen: u64) -> Vec<u8> {
	format!("f{:02}:{:020}", g, gen).into_bytes()
}
fn fkey_db(g: usize) -> usize {
	g % NDB
}

/// value = generation (8 B BE) ‖ group (8 B BE) ‖ padding derived from the generation
fn gval(g: usize, gen: u64, len: usize) -> Vec<u8> {
	let len = len.max(16);
	let mut v = Vec::with_capacity(len);
	v.extend_from_slice(&gen.to_be_bytes());
	v.extend_from_slice(&(g as u64).to_be_bytes());
	v.resize(len, (gen as u8) ^ 0x5a);
	v
}

/// (generation, group, well-formed)
fn gparse(v: &[u8]) -> (u64, u64, bool) {
	if v.len() < 16 {
		return (0, 0, false);
	}
	let mut a = [0u8; 8];
	a.copy_from_slice(&v[..8]);
	let gen = u64::from_be_bytes(a);
	a.copy_from_slice(&v[8..16]);
	let g = u64::from_be_bytes(a);
	let pad = (gen as u8) ^ 0x5a;
	(gen, g, v[16..].iter().all(|&b| b == pad))
}

const OPS: [&str; 12] = [
	"(harness code)",
	"Store::batch",
	"Batch::put/put_ser",
	"Batch::child",
	"Batch::commit",
	"Store::iter",
	"Store::iter.next",
	"Store::get_ser",
	"Store::exists",
	"Batch::get_ser",
	"Batch::exists",
	"drop(Batch/iterator)",
];

struct Slot {
	name: String,
	op: AtomicUsize,
	since_ms: AtomicU64,
	calls: AtomicU64,
	finished: AtomicBool,
}

struct Shared {
	plan: Plan,
	dir: PathBuf,
	map_now: AtomicU64,
	commits_over_threshold: AtomicU64,
	/// the same, counted since the last observed change of the map size
	over_since_resize: AtomicU64,
	over_at_fail: AtomicU64,
	t0: Instant,
	committed: Vec<AtomicU64>,
	attempt: Vec<AtomicU64>,
	stop: AtomicBool,
	fail: Mutex<Option<Fail>>,
	slots: Vec<Slot>,
	batches: AtomicU64,
	dropped_batches: AtomicU64,
	child_commits: AtomicU64,
	child_drops: AtomicU64,
	snapshots: AtomicU64,
	gets: AtomicU64,
	slow_opens: AtomicU64,
	payload: AtomicU64,
}

impl Shared {
	fn enter(&self, slot: usize, op: usize) {
		let s = &self.slots[slot];
		s.since_ms.store(self.t0.elapsed().as_millis() as u64, Ordering::SeqCst);
		s.op.store(op, Ordering::SeqCst);
		s.calls.fetch_add(1, Ordering::Relaxed);
	}
	fn leave(&self, slot: usize) {
		let s = &self.slots[slot];
		s.op.store(0, Ordering::SeqCst);
		s.since_ms.store(self.t0.elapsed().as_millis() as u64, Ordering::SeqCst);
	}
	fn set_fail(&self, f: Fail) {
		let mut g = self.fail.lock().unwrap();
		if g.is_none() {
			self.over_at_fail.store(self.over_since_resize.load(Ordering::SeqCst), Ordering::SeqCst);
			*g = Some(f);
		}
		self.stop.store(true, Ordering::SeqCst);
	}
	fn stopped(&self) -> bool {
		self.stop.load(Ordering::SeqCst)
	}
}

/// run a store call with the thread's "last operation" slot set
macro_rules! call {
	($sh:expr, $slot:expr, $op:expr, $what:expr, $e:expr) => {{
		$sh.enter($slot, $op);
		let r = $e;
		$sh.leave($slot);
		r.map_err(|e| dberr("conc", $what, e))
	}};
}

fn put_group(sh: &Shared, slot: usize, b: &mut Batch<'_>, g: usize, gen: u64) -> PResult {
	for j in 0..sh.plan.keys_per_group as usize {
		let v = gval(g, gen, 16 + (j * 37 + g * 11) % 200);
		if j % 2 == 0 {
			call!(sh, slot, 2, "Batch::put", b.put(dbk(gkey_db(g, j)), &gkey(g, j), &v))?;
		} else {
			call!(sh, slot, 2, "Batch::put_ser", b.put_ser(dbk(gkey_db(g, j)), &gkey(g, j), &Blob(v)))?;
		}
	}
	Ok(())
}

fn put_filler(sh: &Shared, slot: usize, b: &mut Batch<'_>, g: usize, gen: u64, payload: usize) -> PResult {
	let v = gval(g, gen, payload);
	call!(sh, slot, 2, "Batch::put", b.put(dbk(fkey_db(g)), &fkey(g, gen), &v))
}

/// One batch for group `g` (only its owner calls this): generation
/// committed+1 goes into ALL keys of the group plus a new filler record.
/// variant 0: the whole batch is dropped after writing POISON everywhere;
/// 1: filler in a committed child; 2: a dropped child writes POISON first;
/// 3: everything inside a committed child; else plain.
fn do_batch(sh: &Shared, store: &Store, slot: usize, g: usize, payload: usize, variant: u64) -> PResult {
	let gen = sh.committed[g].load(Ordering::SeqCst) + 1;
	let poison = variant == 0;
	if !poison {
		sh.attempt[g].store(gen, Ordering::SeqCst);
	}
	let t = Instant::now();
	let mut b = call!(sh, slot, 1, "Store::batch", store.batch())?;
	let map_at_open = sh.map_now.load(Ordering::Relaxed);
	if t.elapsed() >= Duration::from_millis(80) {
		sh.slow_opens.fetch_add(1, Ordering::Relaxed);
	}
	match variant {
		0 => {
			put_group(sh, slot, &mut b, g, POISON)?;
			put_filler(sh, slot, &mut b, g, POISON, payload)?;
			sh.enter(slot, 11);
			drop(b);
			sh.leave(slot);
			sh.dropped_batches.fetch_add(1, Ordering::Relaxed);
			return Ok(());
		}
		1 => {
			put_group(sh, slot, &mut b, g, gen)?;
			let mut c = call!(sh, slot, 3, "Batch::child", b.child())?;
			put_filler(sh, slot, &mut c, g, gen, payload)?;
			call!(sh, slot, 4, "Batch::commit(child)", c.commit())?;
			sh.child_commits.fetch_add(1, Ordering::Relaxed);
		}
		2 => {
			{
				let mut c = call!(sh, slot, 3, "Batch::child", b.child())?;
				put_group(sh, slot, &mut c, g, POISON)?;
				put_filler(sh, slot, &mut c, g, POISON, payload / 4)?;
				drop(c);
				sh.child_drops.fetch_add(1, Ordering::Relaxed);
			}
			put_group(sh, slot, &mut b, g, gen)?;
			put_filler(sh, slot, &mut b, g, gen, payload)?;
		}
		3 => {
			let mut c = call!(sh, slot, 3, "Batch::child", b.child())?;
			put_group(sh, slot, &mut c, g, gen)?;
			put_filler(sh, slot, &mut c, g, gen, payload)?;
			call!(sh, slot, 4, "Batch::commit(child)", c.commit())?;
			sh.child_commits.fetch_add(1, Ordering::Relaxed);
		}
		_ => {
			put_group(sh, slot, &mut b, g, gen)?;
			put_filler(sh, slot, &mut b, g, gen, payload)?;
		}
	}
	call!(sh, slot, 4, "Batch::commit", b.commit())?;
	// evidence for the diagnosis of a full map: commits that ended above the
	// documented 90 % threshold of the map size known when the batch was opened
	if map_at_open > 0 && file_used(&sh.dir) as f64 > 0.9 * map_at_open as f64 {
		sh.commits_over_threshold.fetch_add(1, Ordering::Relaxed);
		sh.over_since_resize.fetch_add(1, Ordering::SeqCst);
	}
	sh.committed[g].store(gen, Ordering::SeqCst);
	sh.batches.fetch_add(1, Ordering::Relaxed);
	sh.payload.fetch_add(payload as u64, Ordering::Relaxed);
	Ok(())
}

/// one entry of an iteration pass: key, generation, group, value length, well-formed
type Item = (Vec<u8>, u64, u64, usize, bool);
type ItemFn = fn(&[u8], &[u8]) -> Result<Item, DbError>;

fn item_of(k: &[u8], v: &[u8]) -> Result<Item, DbError> {
	let (gen, g, ok) = gparse(v);
	Ok((k.to_vec(), gen, g, v.len(), ok))
}

fn loads(v: &[AtomicU64]) -> Vec<u64> {
	v.iter().map(|a| a.load(Ordering::SeqCst)).collect()
}

/// One iteration pass over database `db` is one snapshot. `pre` = committed
/// generations loaded before the read transaction was opened, `post` =
/// attempted generations loaded after it was opened.
fn check_snapshot(plan: &Plan, db: usize, items: &[Item], pre: &[u64], post: &[u64], last_seen: &mut [u64], who: &str, exact: bool) -> PResult {
	for w in items.windows(2) {
		ensure!(w[0].0 < w[1].0, "conc:iter-order", "{}: iteration of db {} is not in strictly ascending key order: {} then {}", who, db, hx(&w[0].0), hx(&w[1].0));
	}
	let kpg = plan.keys_per_group as usize;
	for g in 0..plan.groups as usize {
		let want_keys: Vec<Vec<u8>> = (0..kpg).filter(|&j| gkey_db(g, j) == db).map(|j| gkey(g, j)).collect();
		let has_filler = fkey_db(g) == db;
		if want_keys.is_empty() && !has_filler {
			continue;
		}
		let mut gens: BTreeSet<u64> = BTreeSet::new();
		let mut present = 0;
		for k in &want_keys {
			if let Some(it) = items.iter().find(|it| &it.0 == k) {
				present += 1;
				gens.insert(it.1);
				ensure!(it.4 && it.2 == g as u64, "conc:value-corrupt", "{}: value of {} in db {} is malformed (gen {} group {} len {})", who, String::from_utf8_lossy(k), db, it.1, it.2, it.3);
			}
		}
		ensure!(!gens.contains(&POISON), "conc:dropped-batch-visible", "{}: a value written only by a dropped batch / dropped child batch is visible in db {} group {}", who, db, g);
		ensure!(gens.len() <= 1 && (present == 0 || present == want_keys.len()), "conc:partial-batch", "{}: one iteration pass over db {} saw group {} in generations {:?} with {} of {} keys present — every batch writes all keys of the group", who, db, g, gens, present, want_keys.len());
		let fill: Vec<&Item> = items.iter().filter(|it| it.0.starts_with(format!("f{:02}:", g).as_bytes())).collect();
		let gen = match gens.iter().next() {
			Some(&x) => x,
			None if want_keys.is_empty() => fill.len() as u64,
			None => 0,
		};
		if has_filler {
			// fillers of this group must be exactly generations 1..=gen
			let got: Vec<u64> = fill.iter().map(|it| it.1).collect();
			let want: Vec<u64> = (1..=gen).collect();
			if got != want {
				let sig = if got.contains(&POISON) { "conc:dropped-batch-visible" } else if got.len() < want.len() && exact { "conc:committed-write-lost" } else { "conc:partial-batch" };
				fail!(sig, "{}: iteration pass over db {}: group {} is at generation {} but its filler records are generations {:?} (expected exactly 1..={})", who, db, g, gen, if got.len() > 12 { got[got.len() - 12..].to_vec() } else { got.clone() }, gen);
			}
			for it in &fill {
				ensure!(it.4 && it.2 == g as u64 && it.0 == fkey(g, it.1), "conc:value-corrupt", "{}: filler record {} in db {} is malformed", who, String::from_utf8_lossy(&it.0), db);
			}
		}
		ensure!(gen >= pre[g], if exact { "conc:committed-write-lost" } else { "conc:committed-write-not-visible" }, "{}: db {} group {} read at generation {} although generation {} had been committed before the read started", who, db, g, gen, pre[g]);
		ensure!(gen <= post[g], "conc:uncommitted-visible", "{}: db {} group {} read at generation {} but only {} was ever attempted", who, db, g, gen, post[g]);
		if exact {
			ensure!(gen == pre[g], "conc:committed-write-lost", "{}: db {} group {} is at generation {} after all writers finished, committed was {}", who, db, g, gen, pre[g]);
		}
		ensure!(gen >= last_seen[g], "conc:generation-went-back", "{}: db {} group {} read at generation {} after the same thread had seen {}", who, db, g, gen, last_seen[g]);
		last_seen[g] = gen;
	}
	Ok(())
}

fn check_one(g: usize, what: &str, v: Option<&[u8]>, pre: u64, post: u64, last_seen: &mut u64, who: &str) -> Result<u64, Fail> {
	let gen = match v {
		None => 0,
		Some(v) => {
			let (gen, gg, ok) = gparse(v);
			ensure!(gen != POISON, "conc:dropped-batch-visible", "{}: {} returned a value written only by a dropped batch", who, what);
			ensure!(ok && gg == g as u64, "conc:value-corrupt", "{}: {} returned a malformed value (gen {} group {} len {})", who, what, gen, gg, v.len());
			gen
		}
	};
	ensure!(gen >= pre, "conc:committed-write-not-visible", "{}: {} read generation {} although {} had been committed before", who, what, gen, pre);
	ensure!(gen <= post, "conc:uncommitted-visible", "{}: {} read generation {} but only {} was attempted", who, what, gen, post);
	ensure!(gen >= *last_seen, "conc:generation-went-back", "{}: {} read generation {} after the same thread had seen {}", who, what, gen, *last_seen);
	*last_seen = gen;
	Ok(gen)
}

fn iter_pass(sh: &Shared, store: &Store, slot: usize, db: usize, hold: Option<(&mut Rng, u64)>, last_seen: &mut [u64], who: &str) -> PResult {
	let pre = loads(&sh.committed);
	let mut it: DatabaseIterator<'static, ItemFn, Item> = call!(sh, slot, 5, "Store::iter", store.iter(dbk(db), item_of as ItemFn))?;
	let post = loads(&sh.attempt);
	let mut items: Vec<Item> = vec![];
	let mut nested: Option<(usize, u64)> = None;
	if let Some((rng, hold_ms)) = hold {
		// hold the open iterator (its read transaction) for a while, read a
		// part, do a nested read on the same thread, hold again
		std::thread::sleep(Duration::from_millis(rng.below(hold_ms + 1)));
		let part = rng.below(8) as usize;
		for _ in 0..part {
			sh.enter(slot, 6);
			let n = it.next();
			sh.leave(slot);
			match n {
				Some(r) => items.push(r.map_err(|e| dberr("conc", "Store::iter.next", e))?),
				None => break,
			}
		}
		let g = rng.below(sh.plan.groups as u64) as usize;
		let pre1 = sh.committed[g].load(Ordering::SeqCst);
		let v: Option<Vec<u8>> = call!(sh, slot, 7, "Store::get_ser", store.get_ser(dbk(gkey_db(g, 0)), &gkey(g, 0), None))?;
		let post1 = sh.attempt[g].load(Ordering::SeqCst);
		let mut ls = 0;
		let gen = check_one(g, "Store::get_ser (while holding an iterator)", v.as_deref(), pre1, post1, &mut ls, who)?;
		nested = Some((g, gen));
		std::thread::sleep(Duration::from_millis(rng.below(hold_ms / 2 + 1)));
	}
	loop {
		sh.enter(slot, 6);
		let n = it.next();
		sh.leave(slot);
		match n {
			Some(r) => items.push(r.map_err(|e| dberr("conc", "Store::iter.next", e))?),
			None => break,
		}
	}
	sh.enter(slot, 11);
	drop(it);
	sh.leave(slot);
	check_snapshot(&sh.plan, db, &items, &pre, &post, last_seen, who, false)?;
	if let Some((g, gen)) = nested {
		// the nested read used a newer transaction than the iterator
		last_seen[g] = last_seen[g].max(gen);
	}
	sh.snapshots.fetch_add(1, Ordering::Relaxed);
	Ok(())
}

fn reader_loop(sh: &Shared, store: &Store, slot: usize, kind: usize, idx: u64) -> PResult {
	let plan = &sh.plan;
	let mut rng = Rng::new(plan.rng, 1000 + idx);
	let who = sh.slots[slot].name.clone();
	let mut last_seen = vec![0u64; plan.groups as usize];
	let kpg = plan.keys_per_group as usize;
	while !sh.stopped() {
		match kind {
			// full iteration passes
			0 => iter_pass(sh, store, slot, rng.below(NDB as u64) as usize, None, &mut last_seen, &who)?,
			// single gets / exists
			1 => {
				for _ in 0..32 {
					let g = rng.below(plan.groups as u64) as usize;
					let j = rng.below(kpg as u64) as usize;
					let pre = sh.committed[g].load(Ordering::SeqCst);
					if rng.below(4) == 0 {
						let e = call!(sh, slot, 8, "Store::exists", store.exists(dbk(gkey_db(g, j)), &gkey(g, j)))?;
						ensure!(e || pre == 0, "conc:committed-write-not-visible", "{}: Store::exists(group {} key {}) is false although generation {} was committed", who, g, j, pre);
						if pre > 0 {
							let f = 1 + rng.below(pre);
							let e = call!(sh, slot, 8, "Store::exists", store.exists(dbk(fkey_db(g)), &fkey(g, f)))?;
							ensure!(e, "conc:committed-write-lost", "{}: filler record of group {} generation {} does not exist although generation {} was committed", who, g, f, pre);
						}
						let e = call!(sh, slot, 8, "Store::exists", store.exists(dbk(fkey_db(g)), &fkey(g, POISON)))?;
						ensure!(!e, "conc:dropped-batch-visible", "{}: the filler record written only by dropped batches of group {} exists", who, g);
					} else {
						let v: Option<Vec<u8>> = call!(sh, slot, 7, "Store::get_ser", store.get_ser(dbk(gkey_db(g, j)), &gkey(g, j), None))?;
						let post = sh.attempt[g].load(Ordering::SeqCst);
						check_one(g, &format!("Store::get_ser(group {} key {})", g, j), v.as_deref(), pre, post, &mut last_seen[g], &who)?;
					}
					sh.gets.fetch_add(1, Ordering::Relaxed);
				}
			}
			// a batch used as a reader: all keys of a group (across databases) in one transaction
			_ => {
				let g = rng.below(plan.groups as u64) as usize;
				let pre = sh.committed[g].load(Ordering::SeqCst);
				let b = call!(sh, slot, 1, "Store::batch", store.batch())?;
				let mut gens = BTreeSet::new();
				for j in 0..kpg {
					let v: Option<Vec<u8>> = call!(sh, slot, 9, "Batch::get_ser", b.get_ser(dbk(gkey_db(g, j)), &gkey(g, j), None))?;
					let post = sh.attempt[g].load(Ordering::SeqCst);
					let mut ls = last_seen[g];
					gens.insert(check_one(g, &format!("Batch::get_ser(group {} key {})", g, j), v.as_deref(), pre, post, &mut ls, &who)?);
				}
				ensure!(gens.len() == 1, "conc:partial-batch", "{}: one batch read group {} in generations {:?}", who, g, gens);
				let gen = *gens.iter().next().unwrap();
				if gen > 0 {
					let e = call!(sh, slot, 10, "Batch::exists", b.exists(dbk(fkey_db(g)), &fkey(g, gen)))?;
					ensure!(e, "conc:partial-batch", "{}: a batch read group {} at generation {} but its filler record is missing", who, g, gen);
				}
				let e = call!(sh, slot, 10, "Batch::exists", b.exists(dbk(fkey_db(g)), &fkey(g, gen + 1)))?;
				ensure!(!e, "conc:partial-batch", "{}: a batch read group {} at generation {} but the filler record of {} exists", who, g, gen, gen + 1);
				sh.enter(slot, 11);
				drop(b);
				sh.leave(slot);
				last_seen[g] = gen;
				sh.snapshots.fetch_add(1, Ordering::Relaxed);
				std::thread::sleep(Duration::from_millis(1 + rng.below(3)));
			}
		}
	}
	Ok(())
}

fn writer_loop(sh: &Shared, store: &Store, slot: usize, w: usize) -> PResult {
	let plan = &sh.plan;
	let mut rng = Rng::new(plan.rng, 100 + w as u64);
	let own: Vec<usize> = (0..plan.groups as usize).filter(|g| g % plan.writers as usize == w).collect();
	while !sh.stopped() {
		let g = own[rng.below(own.len() as u64) as usize];
		let payload = 1024 * (plan.min_kib as u64 + rng.below((plan.max_kib - plan.min_kib) as u64 + 1)) as usize;
		let variant = rng.below(10);
		do_batch(sh, store, slot, g, payload, variant)?;
	}
	Ok(())
}

fn holder_loop(sh: &Shared, store: &Store, slot: usize) -> PResult {
	let mut rng = Rng::new(sh.plan.rng, 7777);
	let who = sh.slots[slot].name.clone();
	let mut last_seen = vec![0u64; sh.plan.groups as usize];
	while !sh.stopped() {
		let db = rng.below(NDB as u64) as usize;
		let hold_ms = sh.plan.hold_ms as u64;
		iter_pass(sh, store, slot, db, Some((&mut rng, hold_ms)), &mut last_seen, &who)?;
	}
	Ok(())
}

fn final_check(plan: &Plan, store: &Store, committed: &[u64], when: &str) -> PResult {
	for db in 0..NDB {
		let it = store.iter(dbk(db), item_of as ItemFn).map_err(|e| dberr("conc", "Store::iter", e))?;
		let items: Vec<Item> = it.collect::<Result<Vec<_>, _>>().map_err(|e| dberr("conc", "Store::iter.next", e))?;
		let mut ls = vec![0u64; plan.groups as usize];
		check_snapshot(plan, db, &items, committed, committed, &mut ls, when, true)?;
	}
	Ok(())
}

/// body of the child process `gv child x C18 conc <plan.json> <dir> <out.json>`
static WARM_ACTIVE: AtomicBool = AtomicBool::new(false);
static REPORT_PATH: std::sync::OnceLock<PathBuf> = std::sync::OnceLock::new();

fn conc_child(plan: &Plan, dir: &Path) -> Value {
	let harness = |m: String| json!({"status": "harness", "msg": m});
	let failv = |f: &Fail, stats: Value| json!({"status": "fail", "sig": f.sig, "msg": f.msg, "stats": stats});
	let mut store = match open_store(dir) {
		Ok(s) => Arc::new(s),
		Err(e) => return harness(format!("open: {}", e)),
	};
	let Some(map0) = map_size(dir) else { return harness("cannot read the map size from /proc/self/maps".into()) };
	let nw = plan.writers as usize;
	let nr = plan.readers as usize;
	let mut names = vec!["main(warm-up/monitor)".to_string()];
	for w in 0..nw {
		names.push(format!("writer-{}", w));
	}
	for r in 0..nr {
		names.push(format!("reader-{}({})", r, ["iter", "get", "batch-read"][r % 3]));
	}
	names.push("iterator-holder".into());
	let sh = Arc::new(Shared {
		plan: plan.clone(),
		dir: dir.to_path_buf(),
		map_now: AtomicU64::new(map0),
		commits_over_threshold: AtomicU64::new(0),
		over_since_resize: AtomicU64::new(0),
		over_at_fail: AtomicU64::new(0),
		t0: Instant::now(),
		committed: (0..plan.groups).map(|_| AtomicU64::new(0)).collect(),
		attempt: (0..plan.groups).map(|_| AtomicU64::new(0)).collect(),
		stop: AtomicBool::new(false),
		fail: Mutex::new(None),
		slots: names.iter().map(|n| Slot { name: n.clone(), op: AtomicUsize::new(0), since_ms: AtomicU64::new(0), calls: AtomicU64::new(0), finished: AtomicBool::new(false) }).collect(),
		batches: AtomicU64::new(0),
		dropped_batches: AtomicU64::new(0),
		child_commits: AtomicU64::new(0),
		child_drops: AtomicU64::new(0),
		snapshots: AtomicU64::new(0),
		gets: AtomicU64::new(0),
		slow_opens: AtomicU64::new(0),
		payload: AtomicU64::new(0),
	});
	let mut map_sizes = vec![map0];
	// the warm-up runs on this thread: a store call of it that never returns cannot be reported by
	// this thread — a monitor writes the report (same rule as the concurrent phase: inside ONE store
	// call for more than 30 s) and ends the process
	WARM_ACTIVE.store(true, Ordering::SeqCst);
	{
		let sh = sh.clone();
		std::thread::spawn(move || {
			while WARM_ACTIVE.load(Ordering::SeqCst) {
				std::thread::sleep(Duration::from_millis(250));
				let s = &sh.slots[0];
				let op = s.op.load(Ordering::SeqCst);
				let age = (sh.t0.elapsed().as_millis() as u64).saturating_sub(s.since_ms.load(Ordering::SeqCst));
				if WARM_ACTIVE.load(Ordering::SeqCst) && op != 0 && age > 30_000 {
					let rep = json!({"status": "fail", "sig": "conc-stall", "msg": format!("single-threaded warm-up (scan-and-rewrite mode {}): {} has not returned for {} ms (call #{}; map size {})", sh.plan.warm_hold, OPS[op], age, s.calls.load(Ordering::Relaxed), sh.map_now.load(Ordering::Relaxed)), "stats": {"phase": "warm-up"}});
					if let Some(out) = REPORT_PATH.get() {
						let tmp = PathBuf::from(format!("{}.tmp", out.display()));
						if std::fs::write(&tmp, serde_json::to_string(&rep).unwrap()).is_ok() {
							let _ = std::fs::rename(&tmp, out);
						}
					}
					std::process::exit(0);
				}
			}
		});
	}
	// ---- warm-up (single thread): the map starts at LMDB's default 1 MiB and
	// maybe_resize only guarantees 10 % of it as headroom when a batch is
	// opened, so batches stay below map/40 until the map is large enough for
	// every thread that opens batches (writers and batch-readers: while one
	// of them runs the size check the others skip it by design) to have four
	// batches of max_kib in flight inside those 10 %: 40 * openers * max_kib
	let openers = nw + (0..nr).filter(|r| r % 3 == 2).count();
	let need = 40 * openers as u64 * plan.max_kib as u64 * 1024;
	let mut rng = Rng::new(plan.rng, 1);
	let mut warm = 0u64;
	let mut warm_held = 0u64;
	let mut warm_reopened = false;
	loop {
		let map = map_size(dir).unwrap_or(0);
		if map_sizes.last() != Some(&map) {
			map_sizes.push(map);
			sh.map_now.store(map, Ordering::Relaxed);
			sh.over_since_resize.store(0, Ordering::SeqCst);
		}
		// three quarters of the plans close the store and open it again in the middle of the warm-up, once the map has
		// been enlarged twice: what the enlargements achieved has to be there for the next life of the database
		// (the batches that follow, opened under a held iterator or not, must find room as before)
		if plan.rng % 4 != 0 && !warm_reopened && map_sizes.len() >= 3 {
			warm_reopened = true;
			drop(store);
			store = match open_store(dir) {
				Ok(s) => Arc::new(s),
				Err(e) => return failv(&dberr("conc", "Store::new (reopen during the warm-up)", e), json!({"phase": "warm-up", "map_sizes": map_sizes})),
			};
			continue;
		}
		if map >= need {
			break;
		}
		if warm > 20_000 {
			return harness(format!("warm-up did not reach a map of {} bytes (map sizes {:?})", need, map_sizes));
		}
		let g = (warm % plan.groups as u64) as usize;
		let payload = ((map / 40) as usize).min(plan.max_kib as usize * 1024).max(1024);
		// scan-and-rewrite: the batch is opened (and committed) while this thread holds an open
		// iterator = an open read transaction of its own
		let hold = plan.warm_hold == 1 || (plan.warm_hold == 2 && warm % 2 == 0);
		let mut held: Option<DatabaseIterator<'static, ItemFn, Item>> = None;
		if hold {
			sh.enter(0, 5);
			let opened = store.iter(dbk(gkey_db(g, 0)), item_of as ItemFn);
			sh.leave(0);
			match opened {
				Ok(mut it) => {
					let _ = it.next();
					held = Some(it);
				}
				Err(e) => return failv(&dberr("conc", "Store::iter (warm-up)", e), json!({"phase": "warm-up"})),
			}
			warm_held += 1;
		}
		let r = do_batch(&sh, &store, 0, g, payload, rng.below(10));
		if held.is_some() && r.is_ok() {
			// still under the open iterator, after the nested batch has ended: two further nested
			// operations of the same thread (a read and an existence test of what was just committed)
			let committed = sh.committed[g].load(Ordering::SeqCst);
			if committed > 0 {
				let k = gkey(g, 0);
				sh.enter(0, 7);
				let got = store.get_ser::<Vec<u8>>(dbk(gkey_db(g, 0)), &k, None);
				sh.leave(0);
				match got {
					Ok(v) => {
						let mut ls = 0;
						if let Err(f) = check_one(g, "Store::get_ser (warm-up, under the held iterator after a nested batch)", v.as_deref(), committed, committed, &mut ls, "main") {
							return failv(&f, json!({"phase": "warm-up"}));
						}
					}
					Err(e) => return failv(&dberr("conc", "Store::get_ser (warm-up)", e), json!({"phase": "warm-up"})),
				}
				sh.enter(0, 8);
				let ex = store.exists(dbk(gkey_db(g, 0)), &k);
				sh.leave(0);
				match ex {
					Ok(true) => {}
					Ok(false) => return failv(&Fail::new("conc:committed-write-not-visible", "warm-up: Store::exists says a just-committed key does not exist (under a held iterator)".to_string()), json!({"phase": "warm-up"})),
					Err(e) => return failv(&dberr("conc", "Store::exists (warm-up)", e), json!({"phase": "warm-up"})),
				}
			}
		}
		drop(held);
		if let Err(f) = r {
			// single-threaded: a full map here cannot be the concurrent skip of the size check
			let f = if f.sig == "conc:map-full" { Fail::new("conc:warmup-map-full", format!("single-threaded warm-up (warm_hold {}: {} of {} batches opened while the thread held an iterator), batch {} of {} bytes payload with map sizes {:?}: {}", plan.warm_hold, warm_held, warm + 1, warm, payload, map_sizes, f.msg)) } else { f };
			return failv(&f, json!({"phase": "warm-up", "map_sizes": map_sizes, "batches": warm}));
		}
		if hold && file_used(dir) as f64 > 0.9 * map as f64 {
			// a resize that falls due while transactions are open is carried out by a background thread
			// that polls (every 100 ms) for a moment without open transactions: a loop that holds an
			// iterator almost all the time has to leave it that moment: pause for three polling periods
			// (a resize only falls due when a batch is OPENED above the threshold, so there may be
			// nothing to wait for yet — the next round requests it and the pause after that one lets it run)
			let t = Instant::now();
			while t.elapsed() < Duration::from_millis(350) && map_size(dir).unwrap_or(0) == map {
				std::thread::sleep(Duration::from_millis(10));
			}
		}
		warm += 1;
	}
	WARM_ACTIVE.store(false, Ordering::SeqCst);
	let warm_resizes = map_sizes.len() - 1;
	// ---- concurrent phase
	let mut handles = vec![];
	let spawn = |slot: usize, f: Box<dyn FnOnce(&Shared, &Store) -> PResult + Send>| {
		let sh = sh.clone();
		let store = store.clone();
		std::thread::spawn(move || {
			init_thread();
			let r = match catch(|| f(&sh, &store)) {
				Ok(r) => r,
				Err(p) => Err(p),
			};
			if let Err(f) = r {
				sh.set_fail(f);
			}
			sh.slots[slot].finished.store(true, Ordering::SeqCst);
		})
	};
	for w in 0..nw {
		let slot = 1 + w;
		handles.push(spawn(slot, Box::new(move |sh, st| writer_loop(sh, st, slot, w))));
	}
	for r in 0..nr {
		let slot = 1 + nw + r;
		handles.push(spawn(slot, Box::new(move |sh, st| reader_loop(sh, st, slot, r % 3, r as u64))));
	}
	{
		let slot = 1 + nw + nr;
		handles.push(spawn(slot, Box::new(move |sh, st| holder_loop(sh, st, slot))));
	}
	let n_threads = handles.len();
	let mut snapshots_at_resize: Vec<u64> = vec![];
	let mut stalled: Option<String> = None;
	let mut cap_hit = false;
	loop {
		std::thread::sleep(Duration::from_millis(2));
		let map = map_size(dir).unwrap_or(0);
		if map != 0 && map_sizes.last() != Some(&map) {
			map_sizes.push(map);
			sh.map_now.store(map, Ordering::Relaxed);
			sh.over_since_resize.store(0, Ordering::SeqCst);
			snapshots_at_resize.push(sh.snapshots.load(Ordering::Relaxed));
		}
		if map_sizes.len() - 1 - warm_resizes >= plan.target_resizes as usize {
			sh.stop.store(true, Ordering::SeqCst);
		}
		if sh.payload.load(Ordering::Relaxed) > (256 << 20) {
			cap_hit = true;
			sh.stop.store(true, Ordering::SeqCst);
		}
		let fin = (1..=n_threads).filter(|&i| sh.slots[i].finished.load(Ordering::SeqCst)).count();
		if fin == n_threads {
			break;
		}
		let now = sh.t0.elapsed();
		if now > Duration::from_secs(60) {
			// watchdog: a stall is only claimed if every unfinished thread sits inside a store call
			let now_ms = now.as_millis() as u64;
			let mut table = vec![];
			let mut all_blocked = true;
			for i in 1..=n_threads {
				let s = &sh.slots[i];
				if s.finished.load(Ordering::SeqCst) {
					table.push(format!("{}: finished", s.name));
					continue;
				}
				let op = s.op.load(Ordering::SeqCst);
				let since = s.since_ms.load(Ordering::SeqCst);
				let age = now_ms.saturating_sub(since);
				if op == 0 || age < 10_000 {
					all_blocked = false;
				}
				table.push(format!("{}: in {} for {} ms (call #{})", s.name, OPS[op], age, s.calls.load(Ordering::Relaxed)));
			}
			let t = table.join("; ");
			if all_blocked {
				stalled = Some(t);
				break;
			}
			// keep sampling for 20 s (a thread may just be sleeping in harness code)
			if now > Duration::from_secs(80) {
				return harness(format!("run did not finish in 80 s but not every thread is blocked inside a store call: {}", t));
			}
		}
	}
	let stats = |sh: &Shared, map_sizes: &Vec<u64>| {
		json!({
			"map_sizes": map_sizes,
			"warm_up_batches": warm,
			"warm_up_batches_opened_holding_an_iterator": warm_held,
			"warm_up_resizes": warm_resizes,
			"warm_up_reopens": warm_reopened as u64,
			"resizes": map_sizes.len() - 1 - warm_resizes,
			"batches": sh.batches.load(Ordering::Relaxed),
			"dropped_batches": sh.dropped_batches.load(Ordering::Relaxed),
			"child_commits": sh.child_commits.load(Ordering::Relaxed),
			"child_drops": sh.child_drops.load(Ordering::Relaxed),
			"snapshots": sh.snapshots.load(Ordering::Relaxed),
			"gets": sh.gets.load(Ordering::Relaxed),
			"slow_batch_opens": sh.slow_opens.load(Ordering::Relaxed),
			"payload_bytes": sh.payload.load(Ordering::Relaxed),
			"snapshots_at_resize": snapshots_at_resize,
			"commits_ending_above_90_percent_of_map": sh.commits_over_threshold.load(Ordering::Relaxed),
			"such_commits_since_last_resize_at_failure": sh.over_at_fail.load(Ordering::SeqCst),
			"threads_opening_batches": openers,
			"data_file_bytes_at_end": file_used(dir),
			"wall_ms": sh.t0.elapsed().as_millis() as u64,
		})
	};
	if let Some(t) = stalled {
		return failv(&Fail::new("conc-stall", format!("no progress for 60 s; every thread is blocked inside a store call: {}", t)), stats(&sh, &map_sizes));
	}
	for h in handles {
		let _ = h.join();
	}
	if let Some(mut f) = sh.fail.lock().unwrap().clone() {
		if f.sig == "conc:map-full" {
			// The known mechanism (size check skipped while another thread holds the
			// resize_checking guard) needs >= 2 threads opening batches and shows as
			// more commits ending above the 90 % threshold since the last resize than
			// batches that can have been opened before the threshold was crossed
			// (one per opener). Anything else is a different defect.
			let over = sh.over_at_fail.load(Ordering::SeqCst);
			if !(openers >= 2 && over >= openers.max(2) as u64) {
				f = Fail::new("conc:map-full:unexplained", format!("{} ({} threads open batches, {} commit(s) ended above 90 % of the map since the last resize: not the skipped-size-check pattern)", f.msg, openers, over));
			} else {
				f.msg = format!("{} ({} threads open batches; {} commits ended above 90 % of the map since the last resize without a resize: the size check was skipped)", f.msg, openers, over);
			}
		}
		return failv(&f, stats(&sh, &map_sizes));
	}
	if cap_hit {
		return harness(format!("256 MiB written without reaching {} resizes (map sizes {:?})", plan.target_resizes, map_sizes));
	}
	// ---- all writers finished: nothing lost, also after reopening
	let committed = loads(&sh.committed);
	if let Err(f) = final_check(plan, &store, &committed, "final check") {
		return failv(&f, stats(&sh, &map_sizes));
	}
	let st = stats(&sh, &map_sizes);
	drop(sh);
	match Arc::try_unwrap(store) {
		Ok(s) => drop(s),
		Err(_) => return harness("store still shared after all threads were joined".into()),
	}
	// a deferred resize thread may still hold the environment for a moment
	let mut reopened = None;
	for _ in 0..200 {
		match open_store(dir) {
			Ok(s) => {
				reopened = Some(s);
				break;
			}
			Err(_) => std::thread::sleep(Duration::from_millis(10)),
		}
	}
	let Some(s2) = reopened else { return harness("cannot reopen the store after the run".into()) };
	if let Err(f) = final_check(plan, &s2, &committed, "final check after reopen") {
		return failv(&f, st);
	}
	json!({"status": "ok", "stats": st})
}

fn read_json(p: &Path) -> Option<Value> {
	std::fs::read_to_string(p).ok().and_then(|s| serde_json::from_str(&s).ok())
}

/// spawn `gv child x C18 <args>`; returns (exit status, timed out)
fn run_child(args: &[&str], envs: &[(&str, String)], timeout: Duration) -> std::io::Result<(std::process::ExitStatus, bool)> {
	let exe = std::env::current_exe()?;
	let mut c = Command::new(exe);
	c.args(["child", "x", "C18"]).args(args);
	for (k, v) in envs {
		c.env(k, v);
	}
	c.env_remove("RUST_LOG");
	c.stdin(std::process::Stdio::null()).stdout(std::process::Stdio::null()).stderr(std::process::Stdio::null());
	let mut ch = c.spawn()?;
	let t0 = Instant::now();
	loop {
		if let Some(st) = ch.try_wait()? {
			return Ok((st, false));
		}
		if t0.elapsed() > timeout {
			let _ = ch.kill();
			return Ok((ch.wait()?, true));
		}
		std::thread::sleep(Duration::from_millis(if t0.elapsed() < Duration::from_millis(200) { 1 } else { 10 }));
	}
}

/// one run of a plan in a child process
fn conc_once(ctx: &Ctx, plan: &Plan, counting: bool) -> PResult {
	use std::os::unix::process::ExitStatusExt;
	let dir = ctx.scratch_dir("conc");
	let pf = dir.join("plan.json");
	let out = dir.join("out.json");
	let data = dir.join("db");
	let r = (|| -> PResult {
		std::fs::create_dir_all(&data).map_err(|e| Fail::new("harness:io", e.to_string()))?;
		std::fs::write(&pf, serde_json::to_string(plan).unwrap()).map_err(|e| Fail::new("harness:io", e.to_string()))?;
		let (st, timed_out) = run_child(&["conc", pf.to_str().unwrap(), data.to_str().unwrap(), out.to_str().unwrap()], &[], Duration::from_secs(120)).map_err(|e| Fail::new("harness:spawn", e.to_string()))?;
		let rep = read_json(&out);
		let Some(rep) = rep else {
			if timed_out {
				return Err(Fail::new("harness:conc-timeout", "the child did not report within 120 s (its own watchdog should have fired at 60 s)"));
			}
			return match st.signal() {
				// the harness side of the child is safe Rust (panics are caught and
				// reported); dying from one of these signals happens inside LMDB
				Some(sig @ (4 | 6 | 7 | 8 | 11)) => Err(Fail::new(format!("conc:process-died:signal-{}", sig), format!("the process running the concurrent plan was killed by signal {} (memory fault / abort inside the database library) before it could report", sig))),
				_ => Err(Fail::new("harness:conc-child-died", format!("child ended with {:?} without a report", st))),
			};
		};
		let stats = &rep["stats"];
		match rep["status"].as_str() {
			Some("ok") => {
				if counting {
					let ev = &ctx.ev;
					let resizes = stats["resizes"].as_u64().unwrap_or(0);
					ev.class(&format!("conc_runs_with_resizes:{}", resizes));
					ev.class_n("conc_resizes_observed", resizes);
					ev.class_n("conc_warm_up_resizes_observed", stats["warm_up_resizes"].as_u64().unwrap_or(0));
					ev.class_n("conc_warm_ups_with_a_reopen_after_two_enlargements", stats["warm_up_reopens"].as_u64().unwrap_or(0));
					ev.class_n("conc_batches_committed", stats["batches"].as_u64().unwrap_or(0) + stats["warm_up_batches"].as_u64().unwrap_or(0));
					ev.class_n("conc_batches_dropped", stats["dropped_batches"].as_u64().unwrap_or(0));
					ev.class_n("conc_child_batches_committed", stats["child_commits"].as_u64().unwrap_or(0));
					ev.class_n("conc_child_batches_dropped", stats["child_drops"].as_u64().unwrap_or(0));
					ev.class_n("conc_reader_snapshots_checked", stats["snapshots"].as_u64().unwrap_or(0));
					ev.class_n("conc_reader_gets_checked", stats["gets"].as_u64().unwrap_or(0));
					let slow = stats["slow_batch_opens"].as_u64().unwrap_or(0);
					if slow > 0 {
						ev.class("conc_runs_with_batch_open_delayed_by_resize");
					}
					ev.class(&format!("conc_warm_up_scan_and_rewrite_mode:{}", plan.warm_hold));
					if plan.warm_hold != 0 {
						ev.class_n("conc_warm_up_resizes_with_batches_opened_holding_an_iterator", stats["warm_up_resizes"].as_u64().unwrap_or(0));
					}
					// non-trivial: a resize during the concurrent phase with reader
					// snapshots completed both before and after it
					let snaps = stats["snapshots"].as_u64().unwrap_or(0);
					let at: Vec<u64> = stats["snapshots_at_resize"].as_array().map(|a| a.iter().filter_map(|x| x.as_u64()).collect()).unwrap_or_default();
					if resizes >= 1 && at.first().map(|&a| a > 0).unwrap_or(false) && at.last().map(|&a| snaps > a).unwrap_or(false) {
						ev.class("conc_runs_resize_between_reader_snapshots");
						ev.nontrivial(&("conc", plan.writers, plan.readers, plan.groups, plan.keys_per_group, plan.max_kib / 10, resizes, slow > 0));
					}
					ev.sample("conc", || json!({"plan": plan, "stats": stats}));
				}
				Ok(())
			}
			Some("fail") => Err(Fail::new(rep["sig"].as_str().unwrap_or("conc:?"), format!("{} [stats {}]", rep["msg"].as_str().unwrap_or("?"), stats))),
			_ => Err(Fail::new("harness:conc", rep["msg"].as_str().unwrap_or("?").to_string())),
		}
	})();
	let _ = std::fs::remove_dir_all(&dir);
	if counting {
		ctx.ev.eval();
	}
	r
}

/// a plan is run `repeats` times (the thread schedule is sampled, not controlled)
fn check_conc(ctx: &Ctx, plan: &Plan, repeats: usize, counting: bool) -> PResult {
	let results: Vec<PResult> = std::thread::scope(|sc| {
		let hs: Vec<_> = (0..repeats).map(|_| sc.spawn(|| conc_once(ctx, plan, counting))).collect();
		hs.into_iter().map(|h| h.join().unwrap_or_else(|_| Err(Fail::new("harness:panic", "conc_once panicked")))).collect()
	});
	// a property failure wins over a harness problem
	let mut harness = None;
	for r in results {
		match r {
			Ok(()) => {}
			Err(f) if f.sig.starts_with("harness:") => harness = Some(f),
			Err(f) => return Err(f),
		}
	}
	match harness {
		Some(f) => Err(f),
		None => Ok(()),
	}
}

// ------------------------------------------------------------------ part C: crash around commit

#[derive(Clone, Debug, Serialize, Deserialize)]
pub enum BOp {
	Put { db: u8, key: u8, val: ValSpec },
	PutSer { db: u8, key: u8, val: ValSpec },
	Del { db: u8, key: u8 },
	Child { body: Vec<BOp>, commit: bool },
}

#[derive(Clone, Debug, Serialize, Deserialize)]
pub struct Scenario {
	/// committed before the batch under test (two commits)
	pub base: Vec<BOp>,
	/// the batch under test; it is committed at the end
	pub body: Vec<BOp>,
}

fn small_val() -> impl Strategy<Value = ValSpec> {
	(prop_oneof![5 => 1u32..300, 2 => 300u32..9000, 1 => 9000u32..40000], any::<u8>()).prop_map(|(len, tag)| ValSpec { len, tag })
}

fn write_op() -> impl Strategy<Value = BOp> {
	let db = 0u8..NDB as u8;
	let key = 0u8..8;
	prop_oneof![
		5 => (db.clone(), key.clone(), small_val()).prop_map(|(db, key, val)| BOp::Put { db, key, val }),
		2 => (db.clone(), key.clone(), small_val()).prop_map(|(db, key, val)| BOp::PutSer { db, key, val }),
		3 => (db.clone(), key.clone()).prop_map(|(db, key)| BOp::Del { db, key }),
	]
}

fn scenario_strategy() -> impl Strategy<Value = Scenario> {
	let grandchild = (prop::collection::vec(write_op(), 0..4), any::<bool>()).prop_map(|(body, commit)| BOp::Child { body, commit });
	let child = (prop::collection::vec(prop_oneof![4 => write_op(), 1 => grandchild], 0..6), prop::bool::weighted(0.65)).prop_map(|(body, commit)| BOp::Child { body, commit });
	(prop::collection::vec(write_op(), 2..14), prop::collection::vec(prop_oneof![3 => write_op(), 2 => child], 1..9)).prop_map(|(base, body)| Scenario { base, body })
}

/// apply ops to an open batch (real store)
fn apply_real(b: &mut Batch<'_>, ops: &[BOp]) -> Result<(), DbError> {
	for op in ops {
		match op {
			BOp::Put { db, key, val } => b.put(dbk(*db as usize), &key_bytes(*key), &val.bytes())?,
			BOp::PutSer { db, key, val } => b.put_ser(dbk(*db as usize), &key_bytes(*key), &Rec(val.bytes()))?,
			BOp::Del { db, key } => b.delete(dbk(*db as usize), &key_bytes(*key))?,
			BOp::Child { body, commit } => {
				let mut c = b.child()?;
				apply_real(&mut c, body)?;
				if *commit {
					c.commit()?;
				} else {
					drop(c);
				}
			}
		}
	}
	Ok(())
}

/// apply ops to the innermost open level of the model; returns the number of
/// child levels (committed, dropped) seen
fn apply_model(m: &mut Model, ops: &[BOp], counts: &mut (u32, u32, u32)) {
	for op in ops {
		match op {
			BOp::Put { db, key, val } => m.put(*db as usize, key_bytes(*key), val.bytes()),
			BOp::PutSer { db, key, val } => m.put(*db as usize, key_bytes(*key), rec_encoding(&val.bytes())),
			BOp::Del { db, key } => m.del(*db as usize, key_bytes(*key)),
			BOp::Child { body, commit } => {
				m.push();
				counts.2 = counts.2.max(m.ovs.len() as u32);
				apply_model(m, body, counts);
				if *commit {
					counts.0 += 1;
					m.commit_top();
				} else {
					counts.1 += 1;
					m.drop_top();
				}
			}
		}
	}
}

fn digest_model(m: &Model) -> Vec<Value> {
	let mut out = vec![];
	for db in 0..NDB {
		for (k, v) in m.base_view(db) {
			out.push(json!([db, k.to_hex(), v.len(), crate::refmmr::blake(&[&v[..]]).to_vec().to_hex()]));
		}
	}
	out
}

fn digest_store(s: &Store) -> Result<Vec<Value>, DbError> {
	let mut out = vec![];
	for db in 0..NDB {
		let it = s.iter(dbk(db), kv_copy as IterFn)?;
		for r in it {
			let (k, v) = r?;
			out.push(json!([db, k.to_hex(), v.len(), crate::refmmr::blake(&[&v[..]]).to_vec().to_hex()]));
		}
	}
	Ok(out)
}

/// `gv child x C18 run <scenario.json> <dir>`   prepare base (unarmed), arm, run the batch (may die)
/// `gv child x C18 check <scenario.json> <dir> <out.json>`  reopen and dump the content
/// `gv child x C18 conc <plan.json> <dir> <out.json>`   one concurrent run
pub fn child(args: &[String]) -> i32 {
	init_global();
	if args.len() < 3 {
		return 2;
	}
	let dir = PathBuf::from(&args[2]);
	match args[0].as_str() {
		"conc" => {
			let Some(plan) = std::fs::read_to_string(&args[1]).ok().and_then(|s| serde_json::from_str::<Plan>(&s).ok()) else { return 3 };
			let Some(out) = args.get(3) else { return 2 };
			let _ = REPORT_PATH.set(PathBuf::from(out));
			let rep = match catch(|| conc_child(&plan, &dir)) {
				Ok(v) => v,
				Err(f) => json!({"status": "fail", "sig": f.sig, "msg": f.msg, "stats": {}}),
			};
			let tmp = PathBuf::from(format!("{}.tmp", out));
			if std::fs::write(&tmp, serde_json::to_string(&rep).unwrap()).is_ok() {
				let _ = std::fs::rename(&tmp, out);
			}
			0
		}
		"run" => {
			let Some(sc) = std::fs::read_to_string(&args[1]).ok().and_then(|s| serde_json::from_str::<Scenario>(&s).ok()) else { return 3 };
			grin_util::verif::arm(false);
			let store = match open_store(&dir) {
				Ok(s) => s,
				Err(e) => {
					eprintln!("run child: open failed: {}", e);
					return 4;
				}
			};
			let half = sc.base.len() / 2;
			for part in [&sc.base[..half], &sc.base[half..]] {
				let r = (|| -> Result<(), DbError> {
					let mut b = store.batch()?;
					apply_real(&mut b, part)?;
					b.commit()
				})();
				if let Err(e) = r {
					eprintln!("run child: base failed: {}", e);
					return 4;
				}
			}
			grin_util::verif::reset();
			grin_util::verif::arm(true);
			let r = (|| -> Result<(), DbError> {
				let mut b = store.batch()?;
				apply_real(&mut b, &sc.body)?;
				b.commit()
			})();
			grin_util::verif::arm(false);
			match r {
				Ok(()) => 0,
				Err(e) => {
					eprintln!("run child: batch failed: {}", e);
					5
				}
			}
		}
		"check" => {
			grin_util::verif::arm(false);
			let Some(out) = args.get(3) else { return 2 };
			let rep = match catch(|| -> Result<Vec<Value>, DbError> {
				let s = open_store(&dir)?;
				digest_store(&s)
			}) {
				Ok(Ok(v)) => json!({"content": v}),
				Ok(Err(e)) => json!({"error": e.to_string()}),
				Err(f) => json!({"panic": f.msg}),
			};
			let _ = std::fs::write(out, serde_json::to_string(&rep).unwrap());
			0
		}
		_ => 2,
	}
}

/// enumerate every crash point of one scenario
fn check_crash(ctx: &Ctx, sc: &Scenario, counting: bool) -> PResult {
	let ev = &ctx.ev;
	// expected contents from the model
	let mut m = Model::default();
	let half = sc.base.len() / 2;
	let mut counts = (0, 0, 1);
	for part in [&sc.base[..half], &sc.base[half..]] {
		m.push();
		apply_model(&mut m, part, &mut (0, 0, 0));
		m.commit_top();
	}
	let pre = json!(digest_model(&m));
	m.push();
	apply_model(&mut m, &sc.body, &mut counts);
	m.commit_top();
	let post = json!(digest_model(&m));

	let work = ctx.scratch_dir("crash");
	let res = (|| -> PResult {
		let io = |e: std::io::Error| Fail::new("harness:io", e.to_string());
		let scf = work.join("scenario.json");
		std::fs::write(&scf, serde_json::to_string(sc).unwrap()).map_err(io)?;
		let t = Duration::from_secs(60);
		// uninterrupted run with a trace
		let refdir = work.join("ref");
		std::fs::create_dir_all(&refdir).map_err(io)?;
		let trace = work.join("trace.txt");
		let (st, _) = run_child(&["run", scf.to_str().unwrap(), refdir.to_str().unwrap()], &[("GRIN_VERIF_CRASH_TRACE", trace.to_string_lossy().to_string()), ("GRIN_VERIF_CRASH_AT", "0".into())], t).map_err(io)?;
		match st.code() {
			Some(0) => {}
			Some(5) => return Err(Fail::new("crash:uninterrupted-batch-failed", "the batch of the scenario returned an error without any crash")),
			_ => return Err(Fail::new("harness:crash-run", format!("reference run ended with {:?}", st))),
		}
		let labels: Vec<String> = std::fs::read_to_string(&trace).unwrap_or_default().lines().map(|l| l.splitn(2, ' ').nth(1).unwrap_or("").to_string()).collect();
		let n_points = labels.len();
		ensure!(n_points >= 2 && labels[n_points - 1] == "lmdb.commit:after" && labels[n_points - 2] == "lmdb.commit:before", "harness:crash-trace", "unexpected crash point trace {:?}", labels);
		let refout = work.join("ref.json");
		run_child(&["check", scf.to_str().unwrap(), refdir.to_str().unwrap(), refout.to_str().unwrap()], &[], t).map_err(io)?;
		let Some(reference) = read_json(&refout) else { return Err(Fail::new("harness:crash-check", "no reference report")) };
		ensure!(reference["content"] == post, "crash:uninterrupted-content-differs", "content after the uninterrupted batch and reopen differs from the model: got {} expected {}", truncate(&reference.to_string(), 600), truncate(&post.to_string(), 600));
		if counting {
			ev.class("crash_scenarios");
			ev.class(&format!("crash_scenario_nesting_depth:{}", counts.2));
			if counts.0 > 0 {
				ev.class("crash_scenarios_with_committed_child");
			}
			if counts.1 > 0 {
				ev.class("crash_scenarios_with_dropped_child");
			}
			if pre == post {
				ev.class("crash_scenarios_pre_equals_post");
			}
			ev.sample("crash", || json!({"points": labels, "children_committed": counts.0, "children_dropped": counts.1, "scenario": sc}));
		}
		let fails: Mutex<Vec<(usize, Fail)>> = Mutex::new(vec![]);
		let next = AtomicUsize::new(1);
		std::thread::scope(|s| {
			for _ in 0..8usize.min(n_points) {
				s.spawn(|| loop {
					let n = next.fetch_add(1, Ordering::SeqCst);
					if n > n_points {
						break;
					}
					let label = labels[n - 1].as_str();
					let d = work.join(format!("p{}", n));
					let out = work.join(format!("p{}.json", n));
					let r = (|| -> PResult {
						std::fs::create_dir_all(&d).map_err(io)?;
						let (st, _) = run_child(&["run", scf.to_str().unwrap(), d.to_str().unwrap()], &[("GRIN_VERIF_CRASH_AT", n.to_string())], t).map_err(io)?;
						if st.success() || st.code().is_some() {
							return Err(Fail::new("harness:no-crash", format!("point {} was not reached: {:?}", n, st)));
						}
						run_child(&["check", scf.to_str().unwrap(), d.to_str().unwrap(), out.to_str().unwrap()], &[], t).map_err(io)?;
						let Some(rep) = read_json(&out) else { return Err(Fail::new("crash:reopen-process-died", "the process reopening the store died without a report")) };
						if rep.get("content").is_none() {
							return Err(Fail::new("crash:reopen-fails", format!("reopening after the crash failed: {}", truncate(&rep.to_string(), 400))));
						}
						let c = &rep["content"];
						let (is_pre, is_post) = (*c == pre, *c == post);
						ensure!(is_pre || is_post, "crash:mixture", "content after reopen is neither the pre-batch nor the post-batch content: got {} pre {} post {}", truncate(&c.to_string(), 500), truncate(&pre.to_string(), 500), truncate(&post.to_string(), 500));
						if label == "lmdb.commit:after" {
							ensure!(is_post, "crash:committed-batch-lost", "the outer commit had returned from LMDB but the content after reopen is the pre-batch content");
						} else if label.starts_with("lmdb.commit:") {
							ensure!(is_pre, "crash:uncommitted-batch-visible", "the outer commit had not started but the content after reopen is the post-batch content");
						}
						Ok(())
					})();
					let _ = std::fs::remove_dir_all(&d);
					if counting {
						ev.eval();
						ev.class(&format!("crash_point:{}", label));
						if pre != post {
							ev.nontrivial(&("crash", label.to_string(), n, n_points, counts.0, counts.1));
						}
					}
					if let Err(f) = r {
						fails.lock().unwrap().push((n, Fail::new(f.sig, format!("crash at point {} of {} ('{}'): {}", n, n_points, label, f.msg))));
					}
				});
			}
		});
		if counting {
			let mut g = ev.0.lock().unwrap();
			let cur = g.extra.get("crash_points_enumerated").and_then(|v| v.as_u64()).unwrap_or(0);
			g.extra.insert("crash_points_enumerated".into(), json!(cur + n_points as u64));
		}
		let mut fails = fails.into_inner().unwrap();
		fails.sort_by_key(|x| x.0);
		// a property failure wins over a harness problem
		if let Some(i) = fails.iter().position(|(_, f)| !f.sig.starts_with("harness:")) {
			return Err(fails.remove(i).1);
		}
		match fails.into_iter().next() {
			Some((_, f)) => Err(f),
			None => Ok(()),
		}
	})();
	let _ = std::fs::remove_dir_all(&work);
	res
}

// ------------------------------------------------------------------ entry points

pub fn part(ctx: &Ctx, part: &str, seed: u64, cases: u32) -> Option<(Value, Fail)> {
	init_global();
	match part {
		"seq" => run_part(ctx, seed, cases, &seq_strategy(ctx.quick()), |s, c| check_seq(ctx, s, c)),
		_ => None,
	}
}

const CONC_REPEATS: usize = 3;

/// Large key spaces (an iteration spans several of the store's internal pages of 10 000 keys) whose keys EXTEND
/// each other: around the `align`-th key in byte order every key is followed by up to three keys that have it as a
/// proper prefix (k, k·00, k·00·00, k·ff), the rest are 4-byte counters. The keys are written by one batch with two
/// child batches (one committed, one dropped); the batch's own iteration before the commit, the store's iteration
/// after it and a held iterator across a later commit must each list exactly the model's keys in byte order.
#[derive(Clone, Debug, Serialize, Deserialize)]
pub struct BigKeys {
	pub n: u32,
	pub align: u32,
	pub db: u8,
}

pub fn check_bigkeys(ctx: &Ctx, c: &BigKeys, counting: bool) -> PResult {
	let dir = ctx.scratch_dir("c18k");
	let store = open_store(&dir).map_err(|e| dberr("bigkeys", "open", e))?;
	let db = dbk(c.db as usize % NDB);
	let mut keys: Vec<Vec<u8>> = (0..c.n).map(|i| i.to_be_bytes().to_vec()).collect();
	// chains of extensions in a window around the aligned position (and around twice that position)
	for base in [c.align, c.align.saturating_mul(2)] {
		for i in base.saturating_sub(12)..base.saturating_add(12).min(c.n) {
			let k = i.to_be_bytes().to_vec();
			for ext in [&[0u8][..], &[0u8, 0][..], &[0xffu8][..]] {
				let mut e = k.clone();
				e.extend_from_slice(ext);
				keys.push(e);
			}
		}
	}
	keys.sort();
	keys.dedup();
	let val = |k: &[u8]| -> Vec<u8> { vec![k.len() as u8, *k.last().unwrap_or(&0)] };
	let listing = |got: &[KV], want: &[Vec<u8>], what: &str| -> PResult {
		let gk: Vec<&Vec<u8>> = got.iter().map(|(k, _)| k).collect();
		if gk.len() != want.len() || gk.iter().zip(want.iter()).any(|(a, b)| *a != b) {
			let first = gk.iter().zip(want.iter()).position(|(a, b)| *a != b).unwrap_or(gk.len().min(want.len()));
			return Err(Fail::new(
				"bigkeys:iteration-differs",
				format!("{}: {} keys listed, {} expected; first difference at index {} (expected {}, got {})", what, gk.len(), want.len(), first, want.get(first).map(|k| hx(k)).unwrap_or_default(), gk.get(first).map(|k| hx(k)).unwrap_or_default()),
			));
		}
		for (k, v) in got {
			ensure!(*v == val(k), "bigkeys:value", "{}: value of {} is {}", what, hx(k), hx(v));
		}
		Ok(())
	};
	// one batch, two children: the first third directly, the second third through a committed child, the
	// last third through the outer batch again; a dropped child writes keys that must never show
	let third = keys.len() / 3;
	{
		let mut b = store.batch().map_err(|e| dberr("bigkeys", "Store::batch", e))?;
		for k in &keys[..third] {
			b.put(db, k, &val(k)).map_err(|e| dberr("bigkeys", "put", e))?;
		}
		{
			let mut ch = b.child().map_err(|e| dberr("bigkeys", "child", e))?;
			for k in &keys[third..2 * third] {
				ch.put(db, k, &val(k)).map_err(|e| dberr("bigkeys", "put", e))?;
			}
			ch.commit().map_err(|e| dberr("bigkeys", "child commit", e))?;
		}
		{
			let mut ch = b.child().map_err(|e| dberr("bigkeys", "child", e))?;
			for i in 0..50u32 {
				let mut k = (c.align + i).to_be_bytes().to_vec();
				k.push(0x7f);
				ch.put(db, &k, &[9]).map_err(|e| dberr("bigkeys", "put", e))?;
			}
			drop(ch);
		}
		for k in &keys[2 * third..] {
			b.put(db, k, &val(k)).map_err(|e| dberr("bigkeys", "put", e))?;
		}
		let inside: Vec<KV> = b.iter(db, kv_copy as IterFn).map_err(|e| dberr("bigkeys", "Batch::iter", e))?.collect::<Result<Vec<KV>, DbError>>().map_err(|e| dberr("bigkeys", "Batch::iter item", e))?;
		listing(&inside, &keys, "Batch::iter before the commit")?;
		b.commit().map_err(|e| dberr("bigkeys", "commit", e))?;
	}
	let outside: Vec<KV> = store.iter(db, kv_copy as IterFn).map_err(|e| dberr("bigkeys", "Store::iter", e))?.collect::<Result<Vec<KV>, DbError>>().map_err(|e| dberr("bigkeys", "Store::iter item", e))?;
	listing(&outside, &keys, "Store::iter after the commit")?;
	// a held iterator across a commit that deletes every second key: still the old listing
	let mut held = store.iter(db, kv_copy as IterFn).map_err(|e| dberr("bigkeys", "Store::iter", e))?;
	let mut got: Vec<KV> = vec![];
	for _ in 0..(c.align as usize / 2) {
		match held.next() {
			Some(x) => got.push(x.map_err(|e| dberr("bigkeys", "Store::iter item", e))?),
			None => break,
		}
	}
	{
		let mut b = store.batch().map_err(|e| dberr("bigkeys", "Store::batch", e))?;
		for k in keys.iter().step_by(2) {
			b.delete(db, k).map_err(|e| dberr("bigkeys", "delete", e))?;
		}
		b.commit().map_err(|e| dberr("bigkeys", "commit", e))?;
	}
	for x in held {
		got.push(x.map_err(|e| dberr("bigkeys", "Store::iter item", e))?);
	}
	listing(&got, &keys, "an iterator opened before, and read across, a commit deleting every second key")?;
	let rest: Vec<Vec<u8>> = keys.iter().skip(1).step_by(2).cloned().collect();
	let after: Vec<KV> = store.iter(db, kv_copy as IterFn).map_err(|e| dberr("bigkeys", "Store::iter", e))?.collect::<Result<Vec<KV>, DbError>>().map_err(|e| dberr("bigkeys", "Store::iter item", e))?;
	listing(&after, &rest, "Store::iter after the deleting commit")?;
	if counting {
		ctx.ev.eval();
		ctx.ev.class("bigkeys:cases");
		ctx.ev.nontrivial(&("bigkeys", c.n / 5000, c.align, c.db));
	}
	drop(store);
	let _ = std::fs::remove_dir_all(&dir);
	Ok(())
}

pub fn run(ctx: &Ctx) -> HResult<()> {
	init_global();
	let ev = &ctx.ev;
	ev.rule("bigkeys: key spaces of 12 000 - 31 000 keys (several internal iteration pages) in which the keys around the page boundaries extend each other (k, k.00, k.00.00, k.ff); written by one batch with a committed and a dropped child; Batch::iter before the commit, Store::iter after it, an iterator held across a deleting commit and the iteration after that must list exactly the model's keys in byte order");
	for (n, align, db) in [(12_000u32, 9_991u32, 0u8), (12_000, 9_999, 1), (12_000, 10_000, 2), (23_000, 9_990, 3), (31_000, 10_003, 1), (12_500, 10_011, 0)] {
		let c = BigKeys { n, align, db };
		if let Ok(Err(f)) | Err(f) = catch(|| check_bigkeys(ctx, &c, true)) {
			if f.sig.starts_with("harness:") {
				return Err(HarnessError(format!("bigkeys: {}: {}", f.sig, f.msg)));
			}
			ctx.report("bigkeys", &f.sig, serde_json::to_value(&c).unwrap(), &f.msg);
			break;
		}
	}
	ev.rule("seq: proptest sequences (6..60/90 ops) over one Store with the default db + 3 prefix dbs, 8 keys per db, values 1 B..64 KiB: open batch / child (up to 3 nested child levels), put, put_ser, delete, get_ser, exists, iter at the innermost level, commit / drop of the innermost level, reads through the Store on the same thread while a batch is open, an iterator held open across later ops, reopen; every read and a full iteration of all dbs after every structural step is compared with a nested-transaction map model. Non-trivial = a child batch with writes was committed and its parent dropped, or a child was committed after a sibling with writes was dropped, or a parent committed after a child with writes was dropped; distinct by the structural skeleton of the sequence");
	ev.rule("conc: seed-derived plans (1-4 writers, 1-4 readers of kinds iter / get / batch-as-reader, one iterator holder, key groups spread over the 4 dbs, batches of 10-100 KiB), each run 3 times in its own process until the LMDB map was enlarged 2-3 times during the concurrent phase; thread schedules are SAMPLED, not controlled. Non-trivial = a resize in the concurrent phase with reader snapshots completed before and after it; distinct by plan shape");
	ev.rule("crash: generated scenarios (base content + one batch with committed / dropped children and grandchildren); EVERY crash point of the batch (lmdb.commit:before|after[:child]) is enumerated: a process aborts at point n, a second process reopens and dumps all dbs. Non-trivial = scenario whose batch changes the content; distinct by (label, ordinal, children)");
	ev.assume("key order of iteration is LMDB's default byte-lexicographic order; the model uses BTreeMap<Vec<u8>>");
	ev.assume("precondition of the callers: a batch fits into the space left when it was opened (maybe_resize runs only in Store::batch). seq skips puts beyond 3/4 of (map size - data file size - 96 KiB) measured when the outer batch was opened; conc keeps batches below map/40 during a single-threaded warm-up until map >= 40 * (threads opening batches) * max batch size");
	ev.assume("map size is observed from /proc/self/maps, used space from the length of data.mdb (no public accessor on Store)");
	ev.assume("crash = abort() of the process at an instrumented point; data handed to the kernel survives (tmpfs), torn writes are out of scope");
	ev.assume("a reader that opened its transaction before a commit legitimately keeps seeing the older content; reads through a Batch see the transaction's own uncommitted writes");

	// A
	if let Some((case, f)) = pbt_proc(ctx, "seq", ctx.n(24_000, 400_000), 16) {
		if f.sig.starts_with("harness:") {
			return Err(HarnessError(format!("seq: {}: {}", f.sig, f.msg)));
		}
		ctx.report("seq", &f.sig, case, &f.msg);
	}

	// B: plans are independent; 3 plans x 3 repeats at a time
	let plans: Vec<Plan> = (0..ctx.n(24, 200)).map(|k| sample_one(ctx.derive_seed("plan", k), &plan_strategy())).collect();
	let mut harness_err: Option<String> = None;
	for chunk in plans.chunks(3) {
		let rs: Vec<(Plan, PResult)> = std::thread::scope(|sc| {
			let hs: Vec<_> = chunk.iter().map(|p| sc.spawn(move || (p.clone(), check_conc(ctx, p, CONC_REPEATS, true)))).collect();
			hs.into_iter().map(|h| h.join().expect("conc thread")).collect()
		});
		let mut stop = false;
		for (p, r) in rs {
			match r {
				Ok(()) => {}
				Err(f) if f.sig.starts_with("harness:") => {
					ev.class("conc_runs_inconclusive");
					harness_err = Some(format!("conc: {}: {}", f.sig, f.msg));
				}
				Err(f) => {
					ev.class(&format!("conc_plans_failed:{}", f.sig));
					let known = ctx.is_known(&f.sig);
					ctx.report("conc", &f.sig, serde_json::to_value(&p).unwrap(), &f.msg);
					if !known {
						stop = true;
					}
				}
			}
		}
		if stop {
			break;
		}
	}

	// C
	let n_sc = ctx.n(60, 600);
	let mut enumerated_ok = true;
	for k in 0..n_sc {
		let sc = sample_one(ctx.derive_seed("scenario", k), &scenario_strategy());
		match catch(|| check_crash(ctx, &sc, true)) {
			Ok(Ok(())) => {}
			Ok(Err(f)) | Err(f) => {
				if f.sig.starts_with("harness:") {
					ev.class("crash_scenarios_inconclusive");
					enumerated_ok = false;
					harness_err = Some(format!("crash: {}: {}", f.sig, f.msg));
					continue;
				}
				ctx.report("crash", &f.sig, serde_json::to_value(&sc).unwrap(), &f.msg);
				break;
			}
		}
	}
	ev.extra("crash_points_of_each_scenario_exhaustive", json!(enumerated_ok));
	match harness_err {
		Some(e) => Err(HarnessError(e)),
		None => Ok(()),
	}
}

pub fn replay(ctx: &Ctx, part: &str, case: &Value) -> PResult {
	init_global();
	let bad = |e: serde_json::Error| Fail::new("harness:replay-parse", e.to_string());
	match part {
		"seq" => check_seq(ctx, &serde_json::from_value(case.clone()).map_err(bad)?, false),
		"conc" => check_conc(ctx, &serde_json::from_value(case.clone()).map_err(bad)?, 5, false),
		"crash" => check_crash(ctx, &serde_json::from_value(case.clone()).map_err(bad)?, false),
		"bigkeys" => check_bigkeys(ctx, &serde_json::from_value(case.clone()).map_err(bad)?, false),
		_ => Ok(()),
	}
}
