pub mod c07;
