pub mod c02;
pub mod c07;
