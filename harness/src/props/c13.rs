//! C13 — coinbase maturity, lock heights and relative locks hold on every fork.

use crate::engine::*;
use crate::props::c02::scan;
use crate::world::gen::*;
use crate::world::poolkit::*;
use crate::world::*;
use crate::{ensure, fail};
use grin_pool::types::TxSource;
use proptest::prelude::*;
use serde_derive::{Deserialize, Serialize};
use serde_json::{json, Value};
use std::collections::BTreeSet;

#[derive(Clone, Debug, Serialize, Deserialize)]
pub enum Op {
	Block(RawBlock),
	Reopen,
}

#[derive(Clone, Debug, Serialize, Deserialize)]
pub struct Case {
	pub ops: Vec<Op>,
	/// false: SKIP_POW with free per-block difficulty (a fork can win without being longer)
	#[serde(default = "yes")]
	pub real: bool,
}

fn yes() -> bool {
	true
}

/// transactions rich in time-locked elements
fn locked_tx() -> impl Strategy<Value = RawTx> {
	(raw_tx(), prop_oneof![2 => Just(0u8), 3 => Just(2u8), 2 => Just(4u8), 8 => 5u8..=10], prop_oneof![4 => Just(0u16), 2 => Just(9000u16), 2 => any::<u16>()]).prop_map(|(mut t, k, first_in)| {
		t.kern = k;
		// pick 0 = the most recently matured output (coinbase exactly at its threshold)
		t.ins = vec![first_in];
		t.chain_prev = false;
		t
	})
}

fn locked_block() -> impl Strategy<Value = RawBlock> {
	(raw_block(0), prop::collection::vec(locked_tx(), 0..=2), prop_oneof![6 => Just(Neg::None), 3 => Just(Neg::Immature)], any::<u16>(), prop_oneof![6 => Just(0u8), 2 => Just(1u8), 1 => Just(2u8), 3 => Just(3u8)]).prop_map(|(mut b, txs, neg, np, inp)| {
		b.txs = txs;
		b.neg = neg;
		b.neg_pick = np;
		// the protocol-2 input form, also with misdeclared features (a coinbase spent as "Plain")
		b.inp = inp;
		b
	})
}

pub fn case_strategy(max_segs: usize) -> impl Strategy<Value = Case> {
	let seg = prop_oneof![
		10 => locked_block().prop_map(|mut b| {
			b.parent = 0;
			vec![Op::Block(b)]
		}),
		5 => (1u8..=4, 0u8..=2, prop::collection::vec(locked_block(), 7)).prop_map(|(d, extra, mut bs)| {
			let m = (d as usize + extra as usize).max(1);
			bs.truncate(m);
			for (i, b) in bs.iter_mut().enumerate() {
				b.parent = if i == 0 { 100 + d } else { 1 };
			}
			bs.into_iter().map(Op::Block).collect::<Vec<_>>()
		}),
		// one NRD excess four or five times in a row on the best chain (at the closest legal spacing), then a fork
		// from 1..6 blocks back whose first block carries it again: how far back the previous occurrence ON THAT
		// FORK lies decides, after several occurrences have been rewound
		2 => (1u8..=2, 4usize..=5, 1u8..=6, any::<u16>(), 0u8..=1).prop_map(|(rel, n_occ, d, pick, more)| {
			let nrd_block = |parent: u8, pick: u16| {
				let mut b = plain_block();
				b.parent = parent;
				b.txs = vec![RawTx { ins: vec![pick], outs: vec![RawOut { kind: 0, amt: 0, key: 2 }], fee: 1, kern: 4 + rel, zero_offset: false, chain_prev: false }];
				b
			};
			let mut v = vec![];
			for k in 0..n_occ {
				v.push(Op::Block(nrd_block(0, pick.wrapping_add(k as u16 * 7919))));
				if rel == 2 && k + 1 < n_occ {
					v.push(Op::Block(plain_block()));
				}
			}
			v.push(Op::Block(nrd_block(100 + d, pick ^ 0x5555)));
			if more == 1 {
				v.push(Op::Block(nrd_block(1, pick ^ 0x3333)));
			}
			v
		}),
		1 => Just(vec![Op::Reopen]),
	];
	(prop::collection::vec(seg, 3..=max_segs), prop::bool::weighted(0.7)).prop_map(|(segs, real)| Case {
		ops: segs.into_iter().flatten().take(26).collect(),
		real,
	})
}

fn plain_block() -> RawBlock {
	RawBlock {
		parent: 0,
		cb_key: 0,
		txs: vec![],
		dt: 60,
		diff: 1,
		neg: Neg::None,
		neg_pick: 0,
			hdr: 0,
			inp: 0,
	}
}

pub fn run_case(ctx: &Ctx, case: &Case, counting: bool) -> PResult {
	init_thread();
	let ev = &ctx.ev;
	let mut cb = ChainBox::open(&ctx.scratch_dir("c13")).map_err(|e| Fail::new("init-fresh", e))?;
	let mut w = World::new(&cb.genesis, case.real);
	let pm = if case.real { PowMode::Real } else { PowMode::Skip(1) };
	let mut head = 0usize;
	let mut tags_seen: BTreeSet<String> = BTreeSet::new();
	let mut nrd_index_from_header_fork = false;
	// prefix up to height 8 so that the generated part starts where NRD kernels become legal
	let mut ops: Vec<Op> = (0..8).map(|_| Op::Block(plain_block())).collect();
	ops.extend(case.ops.iter().cloned());
	for (i, op) in ops.iter().enumerate() {
		match op {
			Op::Reopen => {
				let nrd = !w.nodes[head].model.nrd.is_empty();
				// recorded finding (NRD index rebuilt along the header chain's fork): when the restart does
				// not fail outright, the index it rebuilt carries the other fork's heights from here on
				if nrd {
					if let (Ok(h), Ok(hh)) = (cb.c().head(), cb.c().header_head()) {
						if h.last_block_h != hh.last_block_h {
							nrd_index_from_header_fork = true;
						}
					}
				}
				if let Err(f) = cb.reopen_classified(nrd) {
					if ctx.known_hit(&f.sig) {
						return Ok(()); // listed finding: the node cannot restart, the case ends here
					}
					return Err(f);
				}
			}
			Op::Block(raw) => {
				let built = match w.build(cb.c(), raw, head) {
					Ok(b) => b,
					Err(e) => {
						// the builder roots a model-valid block through Chain::set_txhashset_roots, i.e. the node
						// itself applies it in a read-only extension: after the recorded restart defect the NRD
						// index carries the other fork's heights and refuses it there already
						if nrd_index_from_header_fork && e.contains("could not root a model-valid block") && e.contains("NRD") {
							let sig = "nrd-rule-misapplied-after-restart:nrd-index-rebuilt-along-header-chain-fork";
							if ctx.known_hit(sig) {
								return Ok(());
							}
							return Err(Fail::new(sig, format!("op {}: {}", i, e)));
						}
						return Err(Fail::new("builder", format!("op {}: {}", i, e)));
					}
				};
				let on_fork = built.parent != head;
				header_first(cb.c(), &built.block, raw.hdr, built.verdict.is_ok(), pm)?;
				let res = cb.c().process_block(built.block.clone(), opts(pm));
				let ctx_tag = if on_fork { "fork" } else { "main" };
				if std::env::var("GV_DEBUG").is_ok() {
					let hh = cb.c().header_head().unwrap();
					let bh = cb.c().head().unwrap();
					eprintln!(
						"op {} block h={} parent_node={} (h={}) td={} verdict={:?} res={:?} -> head h={} td={} header_head h={} td={}",
						i,
						built.block.header.height,
						built.parent,
						w.nodes[built.parent].height(),
						built.block.header.total_difficulty().to_num(),
						built.verdict.as_ref().map(|_| ()).map_err(|e| format!("{:?}", e)),
						res.as_ref().map(|t| t.is_some()).map_err(|e| err_name(e)),
						bh.height,
						bh.total_difficulty.to_num(),
						hh.height,
						hh.total_difficulty.to_num()
					);
				}
				match (&built.verdict, &res) {
					(Ok(m), Ok(tip)) => {
						let n = w.push(&built, m.clone());
						let reorg = tip.is_some() && on_fork;
						if tip.is_some() {
							head = n;
						}
						for t in &built.tags {
							let full = format!("{}@{}{}:accepted", t, ctx_tag, if reorg { "+reorg" } else { "" });
							if counting {
								ev.class(&full);
							}
							tags_seen.insert(full);
						}
					}
					(Ok(_), Err(e)) if nrd_index_from_header_fork && err_name(e).contains("NRD") => {
						let sig = "nrd-rule-misapplied-after-restart:nrd-index-rebuilt-along-header-chain-fork";
						if ctx.known_hit(sig) {
							return Ok(());
						}
						fail!(sig, "op {}: block valid under the NRD rule of its branch rejected ({}) after a restart that rebuilt the NRD kernel index while header head and body head were on different forks", i, err_name(e));
					}
					(Ok(_), Err(e)) => {
						fail!(
							format!("valid-block-rejected:{}", built.tags.first().cloned().unwrap_or_default()),
							"op {}: block valid under the lock rules of its own branch (h={}, tags {:?}, on {}) rejected: {}",
							i,
							built.block.header.height,
							built.tags,
							ctx_tag,
							err_name(e)
						);
					}
					(Err(ModelReject::Nrd(why)), Ok(_)) if nrd_index_from_header_fork => {
						let sig = "nrd-rule-not-enforced-after-restart:nrd-index-rebuilt-along-header-chain-fork";
						if ctx.known_hit(sig) {
							return Ok(());
						}
						fail!(sig, "op {}: block violating the NRD relative lock ({}) accepted (h={}) after a restart that rebuilt the NRD kernel index while header head and body head were on different forks", i, why, built.block.header.height);
					}
					(Err(why), Ok(_)) => {
						fail!(
							format!("lock-rule-not-enforced:{}", format!("{:?}", why).split('(').next().unwrap_or("")),
							"op {}: block violating {:?} accepted (h={}, tags {:?}, on {})",
							i,
							why,
							built.block.header.height,
							built.tags,
							ctx_tag
						);
					}
					(Err(why), Err(_)) => {
						let kind = match why {
							ModelReject::ImmatureCoinbase(_) => "immature",
							ModelReject::LockHeight(_) => "lockheight",
							ModelReject::Nrd(_) => "nrd",
							ModelReject::InputFeatureMismatch(_) => "input-features-misdeclared",
							_ => "other",
						};
						for t in &built.tags {
							let full = format!("{}@{}:rejected:{}", t, ctx_tag, kind);
							if counting {
								ev.class(&full);
							}
							tags_seen.insert(full);
						}
					}
				}
			}
		}
		if i % 6 == 5 {
			scan(&cb, &w, &format!("after op {}", i))?;
		}
	}
	cb.c().validate(false).map_err(|e| Fail::new("validate-failed", format!("{:?}", e)))?;
	if counting {
		ev.eval();
		for t in &tags_seen {
			// boundary cases (T-1 or T) on a fork or across a reorg
			if (t.contains(":T-1@") || t.contains(":T@") || t.contains("first-on-this-fork") || t.contains("absent-on-this-fork")) && (t.contains("@fork") || t.contains("+reorg")) {
				ev.nontrivial(t);
			}
		}
	}
	Ok(())
}

// ------------------------------------------------------------------ pool side

#[derive(Clone, Debug, Serialize, Deserialize)]
pub struct PoolCase {
	/// chain length beyond height 9
	pub extra: u8,
	/// height (offset from 9) of a block carrying the first NRD instance, relative height of it
	pub nrd_at: u8,
	pub nrd_rel: u8,
	/// probes: (kind, a, b)
	pub probes: Vec<(u8, u8, u8)>,
	pub stem: bool,
	/// 1 / 2: the header of a further block on top of the head is delivered without its body
	/// (process_block_header / sync_block_headers) before the pool is probed — the pool must keep
	/// judging "the next block" against the body head
	#[serde(default)]
	pub hdr_ahead: u8,
}

fn pool_case() -> impl Strategy<Value = PoolCase> {
	(0u8..6, 0u8..4, 1u8..=3, prop::collection::vec((0u8..3, 0u8..6, 0u8..4), 3..10), any::<bool>(), prop_oneof![3 => Just(0u8), 1 => Just(1u8), 1 => Just(2u8)]).prop_map(|(extra, nrd_at, nrd_rel, probes, stem, hdr_ahead)| PoolCase {
		extra,
		nrd_at,
		nrd_rel,
		probes,
		stem,
		hdr_ahead,
	})
}

pub fn pool_case_run(ctx: &Ctx, c: &PoolCase, counting: bool) -> PResult {
	init_thread();
	let ev = &ctx.ev;
	let cb = ChainBox::open(&ctx.scratch_dir("c13p")).map_err(|e| Fail::new("init-fresh", e))?;
	let mut w = World::new(&cb.genesis, true);
	let mut head = 0usize;
	let total = 9 + c.extra as usize;
	let nrd_h = 9 + (c.nrd_at as usize).min(c.extra as usize);
	let mut nrd_height: Option<u64> = None;
	for h in 1..=total {
		let mut raw = plain_block();
		if h == nrd_h {
			raw.txs = vec![RawTx {
				ins: vec![40000],
				outs: vec![RawOut { kind: 0, amt: 0, key: 1 }],
				fee: 3,
				kern: 5 + (c.nrd_rel - 1), // tag 1, relative height nrd_rel
				zero_offset: false,
				chain_prev: false,
			}];
		}
		let built = w.build(cb.c(), &raw, head).map_err(|e| Fail::new("builder", e))?;
		let m = built.verdict.clone().map_err(|e| Fail::new("harness:model", format!("{:?}", e)))?;
		cb.c().process_block(built.block.clone(), opts(PowMode::Real)).map_err(|e| Fail::new("valid-block-rejected", err_name(&e)))?;
		if h == nrd_h && built.block.kernels().iter().any(|k| k.is_nrd()) {
			nrd_height = Some(h as u64);
		}
		head = w.push(&built, m);
	}
	if c.hdr_ahead != 0 {
		let prev = w.nodes[head].block.header.clone();
		let cbkey = (prev.height as u32 + 1) * 4 + 3;
		let (cbref, _, _) = LIB.coinbase(0, cbkey);
		w.note(&cbref);
		let b = make_block(cb.c(), &prev, &[], cbkey, 47, PowMode::Real).map_err(|e| Fail::new("builder", e))?;
		header_first(cb.c(), &b, c.hdr_ahead, true, PowMode::Real)?;
		if counting {
			ev.class("pool:probed_with_header_chain_ahead");
		}
	}
	let model = w.nodes[head].model.clone();
	let hh = model.height; // head height; candidate block height is hh+1
	let header = cb.c().head_header().map_err(|e| Fail::new("head-err", format!("{:?}", e)))?;
	let maturity = grin_core::global::coinbase_maturity();
	for (pi, (kind, a, b)) in c.probes.iter().enumerate() {
		let mut pool = new_pool(cb.arc(), 1, 50, 50, 10_000);
		// a mature plain or coinbase input to pay with
		let cbs: Vec<(OutRef, u64)> = model.utxo.iter().filter(|(_, e)| e.features.is_coinbase()).filter_map(|(k, e)| w.refs.get(k).map(|r| (*r, e.height))).collect();
		let fee = 2_000_000u64;
		let (spec, expect, label): (TxSpec, bool, String) = match kind {
			0 => {
				// spend the coinbase created at height hh - a
				let target = hh.saturating_sub(*a as u64).max(1);
				let Some((r, ch)) = cbs.iter().find(|(_, h)| *h == target).cloned() else { continue };
				let ok = ch + maturity <= hh + 1;
				(
					TxSpec {
						inputs: vec![r],
						outputs: vec![OutRef {
							amount: r.amount - fee,
							key: 20 + *b as u32,
							cb: false,
						}],
						kernels: vec![KernelSpec::plain(fee)],
						zero_offset: false,
					},
					ok,
					format!("coinbase:T{:+}", (hh + 1) as i64 - (ch + maturity) as i64),
				)
			}
			1 => {
				// height-locked kernel at hh + a - 1 .. with a mature coinbase
				let Some((r, _)) = cbs.iter().find(|(_, h)| *h + maturity <= hh + 1).cloned() else { continue };
				let lock = (hh + *a as u64).saturating_sub(1);
				let ok = lock <= hh + 1;
				// every second probe carries a second height-locked kernel that is long past its lock height
				// (the transaction's lock height is the MAXIMUM over its kernels, whatever their order)
				let two = *b % 2 == 1;
				let mut kernels = vec![KernelSpec {
					kind: KKind::HeightLocked,
					fee,
					shift: 0,
					lock,
					excess_tag: 0,
				}];
				if two {
					kernels.push(KernelSpec {
						kind: KKind::HeightLocked,
						fee,
						shift: 0,
						lock: hh.saturating_sub(2 + *b as u64),
						excess_tag: 0,
					});
				}
				let total_fee = fee * kernels.len() as u64;
				(
					TxSpec {
						inputs: vec![r],
						outputs: vec![OutRef {
							amount: r.amount - total_fee,
							key: 24 + *b as u32,
							cb: false,
						}],
						kernels,
						zero_offset: false,
					},
					ok,
					format!("lock{}:T{:+}", if two { "+second-kernel-long-unlocked" } else { "" }, (hh + 1) as i64 - lock as i64),
				)
			}
			_ => {
				// NRD duplicate of the kernel mined at nrd_height (tag 1) with relative height 1 + b%3
				let Some(ph) = nrd_height else { continue };
				let Some((r, _)) = cbs.iter().find(|(_, h)| *h + maturity <= hh + 1).cloned() else { continue };
				let rel = 1 + (*b as u64 % 3);
				let ok = ph + rel <= hh + 1;
				(
					TxSpec {
						inputs: vec![r],
						outputs: vec![OutRef {
							amount: r.amount - fee,
							key: 28 + *a as u32,
							cb: false,
						}],
						kernels: vec![KernelSpec {
							kind: KKind::Nrd,
							fee,
							shift: 0,
							lock: rel,
							excess_tag: 1,
						}],
						zero_offset: false,
					},
					ok,
					format!("nrd:T{:+}", (hh + 1) as i64 - (ph + rel) as i64),
				)
			}
		};
		let (tx, _) = assemble(&spec);
		let res = pool.add_to_pool(TxSource::Broadcast, tx, c.stem, &header);
		if counting {
			ev.eval();
			ev.class(&format!("pool:{}:{}", label, if expect { "admitted" } else { "refused" }));
			if label.ends_with("T+0") || label.ends_with("T-1") || label.ends_with("T+1") {
				ev.nontrivial(&("pool", label.clone(), c.stem, hh));
			}
		}
		if expect {
			ensure!(res.is_ok(), format!("pool-refused-valid:{}", label.split(':').next().unwrap()), "probe {}: pool refused a transaction whose locks are satisfied for block {} ({}): {:?}", pi, hh + 1, label, res.err());
		} else {
			ensure!(res.is_err(), format!("pool-admitted-locked:{}", label.split(':').next().unwrap()), "probe {}: pool admitted a transaction that cannot be mined in block {} ({})", pi, hh + 1, label);
		}
	}
	Ok(())
}

pub fn run(ctx: &Ctx) -> HResult<()> {
	init_global();
	let ev = &ctx.ev;
	ev.rule("chains past the NRD hard fork with blocks rich in coinbase spends at their maturity threshold (T-1 via immature spends, T, T+1), height-locked kernels (lock = height+1, height, height-1..) and NRD kernels sharing an excess (relative heights 1..3), placed on the main chain, on fork runs that win or lose (so the first instance / the coinbase may sit on the other side of the fork point or be rewound away) and across reopen; each block's verdict comes from the branch-local replay model; pool probes (fresh pool per probe, stem and fluff) at head heights around each threshold; non-trivial = boundary placement (T-1 or T, or first/absent on this fork) on a fork or in a block that caused a reorg, and pool probes within one block of a threshold; distinct by tag");
	ev.assume("NRD rule modelled as: refused iff the latest NRD kernel with the same excess on the same branch sits at height > H - relative_height (two in one block always refused); NRD kernels are legal from header version 4 (height 9 on AutomatedTesting)");
	if let Some((case, f)) = pbt_proc(ctx, "chain", ctx.n(800, 8000), 16) {
		ctx.report("chain", &f.sig, case, &f.msg);
	}
	if let Some((case, f)) = pbt_proc(ctx, "pool", ctx.n(480, 5000), 16) {
		ctx.report("pool", &f.sig, case, &f.msg);
	}
	let s = sample_one(ctx.derive_seed("sample", 0), &case_strategy(4));
	ev.sample("chain", || serde_json::to_value(&s).unwrap());
	let s = sample_one(ctx.derive_seed("sample", 1), &pool_case());
	ev.sample("pool", || serde_json::to_value(&s).unwrap());
	let _ = json!(0);
	Ok(())
}

pub fn part(ctx: &Ctx, part: &str, seed: u64, cases: u32) -> Option<(Value, Fail)> {
	init_global();
	match part {
		"chain" => run_part(ctx, seed, cases, &case_strategy(if ctx.quick() { 9 } else { 12 }), |c, counting| run_case(ctx, c, counting)),
		"pool" => run_part(ctx, seed, cases, &pool_case(), |c, counting| pool_case_run(ctx, c, counting)),
		_ => None,
	}
}

pub fn replay(ctx: &Ctx, part: &str, case: &Value) -> PResult {
	init_global();
	let bad = |e: serde_json::Error| Fail::new("harness:replay-parse", e.to_string());
	match part {
		"chain" => run_case(ctx, &serde_json::from_value(case.clone()).map_err(bad)?, false),
		"pool" => pool_case_run(ctx, &serde_json::from_value(case.clone()).map_err(bad)?, false),
		_ => Ok(()),
	}
}
